#!/bin/bash
# usage: reseed.sh <seed-name> <prop> [<prop>...] — re-run the quick check(s) on an already stored seeded change (serialised by the lock on /repo)
N=$1; shift
cd /verif
(
  flock 9
  git -C /repo status --short | grep -q . && { echo "$N: /repo dirty, skipping"; exit 3; }
  git -C /repo apply /verif/seeded/$N/patch.diff || { echo "$N: patch does not apply"; exit 2; }
  for id in "$@"; do
    s=$(date +%s)
    ./check $id --tier quick > /tmp/seed/$N.recheck_$id.log 2>&1; rc=$?
    echo "$N recheck=$id rc=$rc t=$(( $(date +%s)-s ))s $(grep -h '^VIOLATION' /tmp/seed/$N.recheck_$id.log | head -2 | tr '\n' ' ')"
  done
  git -C /repo checkout -- .
  git -C /verif checkout -- evidence replays 2>/dev/null
) 9>/tmp/repo.lock
