//! World histories: the whole protocol deployed in cw-multi-test, driven by state-dependent random
//! transactions (modes `world`, `fault`, `twin`) or by the `TX` lines of an earlier trace (mode `replay`).
//!
//! Lines: `CFG` (deployment), `OBS` (complete observable state, after deployment and after every
//! transaction), `TX` (one transaction and its outcome), `QRY` (engine queries about 1–2 positions).
//! `fault` adds `fault=<j> fired=<0|1>` to TX lines of executions with an injected sub-call failure
//! (their OBS has `k=<step>f<j>`); `twin` adds `w=A|B` after `h=` on every line.
pub mod cfg;
pub mod deploy;
pub mod gen;
pub mod search;
pub mod tx;

use crate::rng::Rng;
use crate::stats::Stats;
use cfg::Cfg;
use deploy::World;
use std::collections::HashMap;
use std::io::Write;
use tx::{parse_tx, tx_line, Msg, Tx, TxResult};

/// inserts ` w=<tag>` after the `h=` token
fn tagged(line: String, tag: &Option<String>) -> String {
    match tag {
        None => line,
        Some(t) => {
            let mut parts: Vec<String> = line.split(' ').map(|x| x.to_string()).collect();
            if let Some(i) = parts.iter().position(|p| p.starts_with("h=")) {
                parts.insert(i + 1, format!("w={}", t));
            }
            parts.join(" ")
        }
    }
}

/// One history being executed: the world, the successful transactions so far (for restoration after a
/// contract panic or a swallowed fault) and the last printed state.
pub struct Runner {
    pub world: World,
    pub done: Vec<Tx>,
    pub last_body: String,
    pub last_height: u64,
    pub tag: Option<String>,
    /// replaying a trace: `fault=` lines stay fault lines even when the fault is no longer reached
    pub replaying: bool,
}

impl Runner {
    /// Deploys, prints `CFG` and `OBS k=init`. `None` when deployment failed.
    pub fn start(cfg: &Cfg, tag: Option<String>, out: &mut dyn Write, stats: &mut Stats) -> Option<Runner> {
        match World::deploy(cfg) {
            Ok(world) => {
                writeln!(out, "{}", tagged(cfg.line(true), &tag)).unwrap();
                let body = world.observe_body();
                writeln!(out, "{}", tagged(world.obs_line("init", &body), &tag)).unwrap();
                stats.count("setup", "ok");
                stats.count("cfg", &format!("{}:{}", if cfg.native { "native" } else { "cw20" }, if cfg.real_feed { "real" } else { "mock" }));
                let last_height = world.app.block_info().height;
                Some(Runner { world, done: vec![], last_body: body, last_height, tag, replaying: false })
            }
            Err(e) => {
                writeln!(out, "{}", tagged(cfg.line(false), &tag)).unwrap();
                stats.count("setup", &format!("failed:{}", e));
                None
            }
        }
    }

    /// Rebuilds the world from scratch: deployment plus every successful transaction so far.
    pub fn restore(&mut self, stats: &mut Stats) {
        let cfg = self.world.cfg.clone();
        if let Ok(mut w) = World::deploy(&cfg) {
            for t in &self.done {
                let r = w.exec_tx(t);
                if !r.ok {
                    stats.count("panic", "restore_tx_failed");
                }
            }
            self.world = w;
        } else {
            stats.count("panic", "restore_deploy_failed");
        }
    }

    /// Executes one transaction and prints its lines. With `tx.fault = Some(j)` the j-th sub-call is
    /// made to fail; if it was reached the lines are the fault lines (`TX … fault= fired=`, `OBS k=<k>f<j>`),
    /// otherwise this was the plain execution and the plain `TX`/`OBS`/`QRY` lines are printed.
    pub fn step(&mut self, tx: &Tx, out: &mut dyn Write, stats: &mut Stats) -> TxResult {
        let h = self.world.cfg.h;
        let res = self.world.exec_tx(tx);
        let kind = tx.msg.kind();
        let fault_line = tx.fault.is_some() && (res.fired || self.replaying);
        if res.panicked {
            self.restore(stats);
            self.world.set_block(tx.height, tx.time);
            let same = self.world.observe_body() == self.last_body;
            stats.count("panic", if same { "restored_same" } else { "restored_diff" });
        } else if fault_line {
            if res.ok {
                // the transaction went through although a sub-call failed (or, in replay, the fault
                // index is no longer reached): undo it so that the history continues from the pre-state
                stats.count("fault", if res.fired { "swallowed" } else { "not_reached_in_replay" });
                if res.fired {
                    stats.count("fault_swallowed", kind);
                }
                self.restore(stats);
                self.world.set_block(tx.height, tx.time);
            }
        } else if res.ok {
            let mut t = tx.clone();
            t.fault = None;
            self.done.push(t);
        }
        if fault_line {
            let j = tx.fault.unwrap();
            let line = tagged(tx_line(h, tx, &res), &self.tag);
            writeln!(out, "{}", line).unwrap();
            let body = self.world.observe_body();
            writeln!(out, "{}", tagged(self.world.obs_line(&format!("{}f{}", tx.k, j), &body), &self.tag)).unwrap();
            stats.count("fault_kind", &format!("{}:{}", kind, j));
            if res.fired {
                stats.count("fault_fired", kind);
                stats.count("fault", "fired");
            }
            if body != self.last_body {
                stats.count("fault", "state_changed_by_failed_tx");
            }
            stats.distinct(&line);
            return res;
        }
        let mut plain = tx.clone();
        plain.fault = None;
        let line = tagged(tx_line(h, &plain, &res), &self.tag);
        writeln!(out, "{}", line).unwrap();
        let body = self.world.observe_body();
        writeln!(out, "{}", tagged(self.world.obs_line(&tx.k.to_string(), &body), &self.tag)).unwrap();
        // queries about up to two stored positions, chosen as a function of the transaction only
        let ps = self.world.positions();
        if !ps.is_empty() {
            let mut chosen: Vec<usize> = vec![];
            if let Some((v, t)) = tx.msg.subject(tx.snd) {
                if let Some(i) = ps.iter().position(|p| p.v == v && p.t == t) {
                    chosen.push(i);
                }
            }
            let j = (tx.k as usize) % ps.len();
            if !chosen.contains(&j) {
                chosen.push(j);
            }
            for i in chosen {
                writeln!(out, "{}", tagged(self.world.qry_line(tx.k, &ps[i]), &self.tag)).unwrap();
            }
        }
        // statistics
        let coll = if self.world.cfg.native { "native" } else { "cw20" };
        let same_block = tx.height == self.last_height;
        stats.count("tx", kind);
        stats.count("tx_ok", &format!("{}:{}", kind, res.ok as u8));
        stats.count("tx_ok_coll", &format!("{}:{}:{}", kind, res.ok as u8, coll));
        stats.count("class", &format!("{}:{}:{}:{}:{}", kind, res.ok as u8, coll, same_block as u8, res.err));
        if let Msg::Liq { .. } = tx.msg {
            if res.ok {
                let partial = res.actions.iter().any(|a| a == "partial_liquidation_reply");
                stats.count("liq_ok", &format!("{}:{}", if partial { "partial" } else { "full" }, coll));
                if res.xf.iter().any(|x| x.0 == cfg::IFUND && x.1 == cfg::ENGINE) {
                    stats.count("liq_ok", &format!("with_insurance_draw:{}", coll));
                }
            } else {
                stats.count("liq_err", &res.err);
            }
        }
        if !res.ok {
            stats.count("err", &format!("{}:{}", kind, res.err));
        }
        stats.distinct(&line);
        stats.sample(&line);
        self.last_body = body;
        self.last_height = tx.height;
        res
    }
}

pub fn run(seed: u64, count: u64, out: &mut dyn Write, stats: &mut Stats) {
    let mut r = Rng::new(seed ^ 0x5EED_0003);
    for h in 0..count {
        let cfg = cfg::gen_cfg(&mut r, h, seed, None);
        let ntx = r.range(10, 60);
        let mut g = gen::GenCtx::new(&mut r, ntx, gen::Mode::World);
        let mut runner = match Runner::start(&cfg, None, out, stats) {
            Some(x) => x,
            None => continue,
        };
        for k in 0..ntx {
            let tx = gen::gen_step_safe(&runner.world, &mut r, &mut g, k, stats);
            let res = runner.step(&tx, out, stats);
            g.feedback(&tx, &res);
        }
        // instantiate probes (own PRNG, so that the histories' streams are as they were): the engine's `instantiate`
        // with boundary-biased parameters on this chain, after the history's last transaction
        let mut pr = Rng::new(seed.wrapping_mul(0x9E37_79B9).wrapping_add(h) ^ 0x1257_AB1E);
        for j in 0..3 {
            let line = runner.world.probe_engine_instantiate(&mut pr, h, j);
            stats.count("einst", if line.contains(" ok=1 ") { "accepted" } else { "rejected" });
            writeln!(out, "{}", line).unwrap();
        }
    }
}

pub const FAULT_CAP: u64 = 24;

/// fault injection: every transaction with a message tree is first executed once per sub-call with that
/// sub-call failing, then plainly
pub fn run_fault(seed: u64, count: u64, out: &mut dyn Write, stats: &mut Stats) {
    let mut r = Rng::new(seed ^ 0x5EED_0004);
    let mut max_sub: HashMap<&'static str, u64> = HashMap::new();
    for h in 0..count {
        let cfg = cfg::gen_cfg(&mut r, h, seed, None);
        let ntx = r.range(10, 60);
        let mut g = gen::GenCtx::new(&mut r, ntx, gen::Mode::Fault);
        let mut runner = match Runner::start(&cfg, None, out, stats) {
            Some(x) => x,
            None => continue,
        };
        for k in 0..ntx {
            let tx = gen::gen_step_safe(&runner.world, &mut r, &mut g, k, stats);
            let mut final_res: Option<TxResult> = None;
            if let Some(start) = tx.msg.fault_start() {
                for j in start..=FAULT_CAP {
                    let mut t = tx.clone();
                    t.fault = Some(j);
                    let res = runner.step(&t, out, stats);
                    if !res.fired {
                        final_res = Some(res);
                        break;
                    }
                }
            }
            let res = match final_res {
                Some(x) => x,
                None => runner.step(&tx, out, stats),
            };
            let e = max_sub.entry(tx.msg.kind()).or_insert(0);
            if res.subcalls > *e {
                *e = res.subcalls;
            }
            stats.count("subcalls", &format!("{}:{}", tx.msg.kind(), res.subcalls));
            g.feedback(&tx, &res);
        }
    }
    for (k, v) in max_sub {
        for _ in 0..v {
            // encoded as a counter so that it lands in the JSON: value = maximum number of sub-calls
            stats.count("max_subcalls", k);
        }
    }
}

/// state tokens that must coincide in twin worlds (everything but the collateral identity and allowances)
fn comparable(body: &str) -> String {
    body.split(' ')
        .filter(|t| !(t.starts_with("e.coll=") || t.starts_with("fp.tokens=") || t.starts_with("allow=")))
        .collect::<Vec<_>>()
        .join(" ")
}

/// the same history on a cw20 deployment (A) and a native one (B) in lock-step
pub fn run_twin(seed: u64, count: u64, out: &mut dyn Write, stats: &mut Stats) {
    let mut r = Rng::new(seed ^ 0x5EED_0005);
    for h in 0..count {
        let cfg_a = cfg::gen_cfg(&mut r, h, seed, Some((false, 6)));
        let mut cfg_b = cfg_a.clone();
        cfg_b.native = true;
        cfg_b.allow = vec![];
        let ntx = r.range(10, 60);
        let mut g = gen::GenCtx::new(&mut r, ntx, gen::Mode::Twin);
        let a = Runner::start(&cfg_a, Some("A".to_string()), out, stats);
        let b = Runner::start(&cfg_b, Some("B".to_string()), out, stats);
        let (mut a, mut b) = match (a, b) {
            (Some(a), Some(b)) => (a, b),
            _ => continue,
        };
        for k in 0..ntx {
            let in_sync = comparable(&a.last_body) == comparable(&b.last_body);
            let tx = gen::gen_step_safe(&a.world, &mut r, &mut g, k, stats);
            let ra = a.step(&tx, out, stats);
            let pulled: u128 = if ra.ok { ra.xf.iter().filter(|x| x.0 == tx.snd && x.1 != tx.snd).map(|x| x.2).sum() } else { 0 };
            let mut tb = tx.clone();
            tb.funds = pulled;
            tb.msg = match tb.msg {
                Msg::FpAdd { tok: 5 } => Msg::FpAdd { tok: 0 },
                Msg::FpRm { tok: 5 } => Msg::FpRm { tok: 0 },
                Msg::FpSend { tok: 5, amt, to } => Msg::FpSend { tok: 0, amt, to },
                m => m,
            };
            let rb = b.step(&tb, out, stats);
            let kind = tx.msg.kind();
            let sync = if in_sync { "insync" } else { "diverged" };
            stats.count("twin_ok", &format!("{}:A{}B{}", kind, ra.ok as u8, rb.ok as u8));
            stats.count("twin_ok_sync", &format!("{}:A{}B{}:{}", kind, ra.ok as u8, rb.ok as u8, sync));
            if ra.ok != rb.ok {
                stats.count("twin_disagree", &format!("{}:A{}B{}:{}:{}|{}", kind, ra.ok as u8, rb.ok as u8, sync, ra.err, rb.err));
            } else if ra.ok {
                // net effect of the executed transfers per account
                let net = |xf: &Vec<(u64, u64, u128)>| -> Vec<(u64, i128)> {
                    let mut m: std::collections::BTreeMap<u64, i128> = std::collections::BTreeMap::new();
                    for (f, t, a) in xf {
                        *m.entry(*f).or_insert(0) -= *a as i128;
                        *m.entry(*t).or_insert(0) += *a as i128;
                    }
                    m.into_iter().filter(|x| x.1 != 0).collect()
                };
                let same = net(&ra.xf) == net(&rb.xf);
                stats.count("twin_net", &format!("{}:{}:{}", kind, if same { "same_net" } else { "different_net" }, sync));
            }
            g.feedback(&tx, &ra);
        }
    }
}

pub fn replay(input: &str, out: &mut dyn Write, stats: &mut Stats) {
    let mut cur: HashMap<String, Runner> = HashMap::new();
    for line in input.lines() {
        let is_cfg = line.starts_with("CFG ");
        let is_tx = line.starts_with("TX ");
        if !is_cfg && !is_tx {
            continue;
        }
        let tag: Option<String> = cfg::tokens(line).get("w").map(|s| s.to_string());
        let key = tag.clone().unwrap_or_default();
        if is_cfg {
            cur.remove(&key);
            match Cfg::parse(line) {
                Some(cfg) => {
                    if let Some(mut rn) = Runner::start(&cfg, tag, out, stats) {
                        rn.replaying = true;
                        cur.insert(key, rn);
                    }
                }
                None => stats.count("replay", "bad_cfg"),
            }
        } else if let Some(runner) = cur.get_mut(&key) {
            match parse_tx(line) {
                Some(tx) => {
                    runner.step(&tx, out, stats);
                }
                None => stats.count("replay", "bad_tx"),
            }
        }
    }
}
