//! World histories: the whole protocol deployed in cw-multi-test, driven by state-dependent random
//! transactions (mode `world`) or by the `TX` lines of an earlier trace (mode `replay`).
//!
//! Lines: `CFG` (deployment), `OBS` (complete observable state, after deployment and after every
//! transaction), `TX` (one transaction and its outcome), `QRY` (engine queries about 1–2 positions).
pub mod cfg;
pub mod deploy;
pub mod gen;
pub mod tx;

use crate::rng::Rng;
use crate::stats::Stats;
use cfg::Cfg;
use deploy::World;
use std::io::Write;
use tx::{parse_tx, tx_line, Msg, Tx, TxResult};

/// One history being executed: the world, the successful transactions so far (for restoration after a
/// contract panic) and the last printed state.
pub struct Runner {
    pub world: World,
    pub done: Vec<Tx>,
    pub last_body: String,
    pub last_height: u64,
}

impl Runner {
    /// Deploys, prints `CFG` and `OBS k=init`. `None` when deployment failed.
    pub fn start(cfg: &Cfg, out: &mut dyn Write, stats: &mut Stats) -> Option<Runner> {
        match World::deploy(cfg) {
            Ok(world) => {
                writeln!(out, "{}", cfg.line(true)).unwrap();
                let body = world.observe_body();
                writeln!(out, "{}", world.obs_line("init", &body)).unwrap();
                stats.count("setup", "ok");
                stats.count("cfg", &format!("{}:{}", if cfg.native { "native" } else { "cw20" }, if cfg.real_feed { "real" } else { "mock" }));
                let last_height = world.app.block_info().height;
                Some(Runner { world, done: vec![], last_body: body, last_height })
            }
            Err(e) => {
                writeln!(out, "{}", cfg.line(false)).unwrap();
                stats.count("setup", &format!("failed:{}", e));
                None
            }
        }
    }

    /// Rebuilds the world from scratch: deployment plus every successful transaction so far.
    fn restore(&mut self, stats: &mut Stats) {
        let cfg = self.world.cfg.clone();
        if let Ok(mut w) = World::deploy(&cfg) {
            for t in &self.done {
                let r = w.exec_tx(t);
                if !r.ok {
                    stats.count("panic", "restore_tx_failed");
                }
            }
            self.world = w;
        } else {
            stats.count("panic", "restore_deploy_failed");
        }
    }

    /// Executes one transaction and prints its `TX`, `OBS` and `QRY` lines.
    pub fn step(&mut self, tx: &Tx, out: &mut dyn Write, stats: &mut Stats) -> TxResult {
        let h = self.world.cfg.h;
        let res = self.world.exec_tx(tx);
        if res.panicked {
            self.restore(stats);
            self.world.set_block(tx.height, tx.time);
            let same = self.world.observe_body() == self.last_body;
            stats.count("panic", if same { "restored_same" } else { "restored_diff" });
        } else if res.ok {
            self.done.push(tx.clone());
        }
        let line = tx_line(h, tx, &res);
        writeln!(out, "{}", line).unwrap();
        let body = self.world.observe_body();
        writeln!(out, "{}", self.world.obs_line(&tx.k.to_string(), &body)).unwrap();
        // queries about up to two stored positions, chosen as a function of the transaction only
        let ps = self.world.positions();
        if !ps.is_empty() {
            let mut chosen: Vec<usize> = vec![];
            if let Some((v, t)) = tx.msg.subject(tx.snd) {
                if let Some(i) = ps.iter().position(|p| p.v == v && p.t == t) {
                    chosen.push(i);
                }
            }
            let j = (tx.k as usize) % ps.len();
            if !chosen.contains(&j) {
                chosen.push(j);
            }
            for i in chosen {
                writeln!(out, "{}", self.world.qry_line(tx.k, &ps[i])).unwrap();
            }
        }
        // statistics
        let kind = tx.msg.kind();
        let coll = if self.world.cfg.native { "native" } else { "cw20" };
        let same_block = tx.height == self.last_height;
        stats.count("tx", kind);
        stats.count("tx_ok", &format!("{}:{}", kind, res.ok as u8));
        stats.count("tx_ok_coll", &format!("{}:{}:{}", kind, res.ok as u8, coll));
        stats.count("class", &format!("{}:{}:{}:{}:{}", kind, res.ok as u8, coll, same_block as u8, res.err));
        if let Msg::Liq { .. } = tx.msg {
            if res.ok {
                let partial = res.actions.iter().any(|a| a == "partial_liquidation_reply");
                stats.count("liq_ok", &format!("{}:{}", if partial { "partial" } else { "full" }, coll));
            } else {
                stats.count("liq_err", &res.err);
            }
        }
        if !res.ok {
            stats.count("err", &format!("{}:{}", kind, res.err));
        }
        stats.distinct(&line);
        stats.sample(&line);
        self.last_body = body;
        self.last_height = tx.height;
        res
    }
}

pub fn run(seed: u64, count: u64, out: &mut dyn Write, stats: &mut Stats) {
    let mut r = Rng::new(seed ^ 0x5EED_0003);
    for h in 0..count {
        let cfg = cfg::gen_cfg(&mut r, h, seed);
        let ntx = r.range(10, 60);
        let mut g = gen::GenCtx::new(&mut r, ntx);
        let mut runner = match Runner::start(&cfg, out, stats) {
            Some(x) => x,
            None => continue,
        };
        for k in 0..ntx {
            let tx = gen::gen_step(&runner.world, &mut r, &mut g, k, stats);
            let res = runner.step(&tx, out, stats);
            g.feedback(&tx, &res);
        }
    }
}

pub fn replay(input: &str, out: &mut dyn Write, stats: &mut Stats) {
    let mut cur: Option<Runner> = None;
    for line in input.lines() {
        if line.starts_with("CFG ") {
            cur = match Cfg::parse(line) {
                Some(cfg) => Runner::start(&cfg, out, stats),
                None => {
                    stats.count("replay", "bad_cfg");
                    None
                }
            };
        } else if line.starts_with("TX ") {
            if let Some(runner) = cur.as_mut() {
                match parse_tx(line) {
                    Some(tx) => {
                        runner.step(&tx, out, stats);
                    }
                    None => stats.count("replay", "bad_tx"),
                }
            }
        }
    }
}
