//! Deterministic PRNG (xorshift64*) — every random choice of the harness derives from one state,
//! so a run is replayable from `VERIF_SEED`.
pub struct Rng(pub u64);

impl Rng {
    pub fn new(seed: u64) -> Self {
        let mut r = Rng(seed ^ 0x9E37_79B9_7F4A_7C15);
        if r.0 == 0 {
            r.0 = 0x1234_5678_9ABC_DEF1;
        }
        for _ in 0..8 {
            r.next();
        }
        r
    }
    pub fn next(&mut self) -> u64 {
        let mut x = self.0;
        x ^= x >> 12;
        x ^= x << 25;
        x ^= x >> 27;
        self.0 = x;
        x.wrapping_mul(0x2545_F491_4F6C_DD1D)
    }
    pub fn below(&mut self, n: u64) -> u64 {
        if n == 0 {
            0
        } else {
            self.next() % n
        }
    }
    pub fn range(&mut self, lo: u64, hi: u64) -> u64 {
        lo + self.below(hi - lo + 1)
    }
    pub fn chance(&mut self, num: u64, den: u64) -> bool {
        self.below(den) < num
    }
    pub fn u128(&mut self) -> u128 {
        ((self.next() as u128) << 64) | self.next() as u128
    }
    pub fn below128(&mut self, n: u128) -> u128 {
        if n == 0 {
            0
        } else {
            self.u128() % n
        }
    }
    pub fn pick<'a, T>(&mut self, xs: &'a [T]) -> &'a T {
        &xs[self.below(xs.len() as u64) as usize]
    }
    /// log-uniform magnitude: uniform bit length in [0, max_bits]
    pub fn log_uniform(&mut self, max_bits: u32) -> u128 {
        let bits = self.below(max_bits as u64 + 1) as u32;
        if bits == 0 {
            0
        } else if bits == 128 {
            self.u128() | (1u128 << 127)
        } else {
            (self.u128() & ((1u128 << bits) - 1)) | (1u128 << (bits - 1))
        }
    }
    /// boundary-biased u128: small values, powers of two ±1, the 2^128 edge, and log-uniform.
    pub fn boundary128(&mut self) -> u128 {
        match self.below(10) {
            0 => *self.pick(&[0u128, 0, 1, 2, 3, 5, 7, 10]),
            1 => {
                let k = self.range(1, 127) as u32;
                let base = 1u128 << k;
                match self.below(3) {
                    0 => base - 1,
                    1 => base,
                    _ => base + 1,
                }
            }
            2 => u128::MAX - self.below(3) as u128,
            3 => (u128::MAX / 2).wrapping_add(self.below(3) as u128).wrapping_sub(1),
            4 => 10u128.pow(self.range(0, 38) as u32) + self.below(3) as u128 - 1,
            _ => self.log_uniform(128),
        }
    }
}
