//! Correspondence harness: runs the real contracts / types of /repo and writes one line per case.
mod integer;
mod rng;
mod pricefeed_unit;
mod stats;
mod vamm_unit;
mod world;

use std::io::Write;

fn arg(args: &[String], name: &str) -> Option<String> {
    args.iter()
        .position(|a| a == name)
        .and_then(|i| args.get(i + 1).cloned())
}

fn main() {
    // contract panics are caught per case; keep stderr quiet
    if std::env::var("HARNESS_PANIC_TRACE").is_err() {
        std::panic::set_hook(Box::new(|_| {}));
    }
    let args: Vec<String> = std::env::args().collect();
    let mode = args.get(1).cloned().unwrap_or_default();
    let seed: u64 = arg(&args, "--seed").and_then(|s| s.parse().ok()).unwrap_or(1);
    let count: u64 = arg(&args, "--count").and_then(|s| s.parse().ok()).unwrap_or(1000);
    let out_path = arg(&args, "--out");
    let stats_path = arg(&args, "--stats");
    let mut out: Box<dyn Write> = match out_path {
        Some(p) => Box::new(std::io::BufWriter::new(std::fs::File::create(p).unwrap())),
        None => Box::new(std::io::BufWriter::new(std::io::stdout())),
    };
    let mut st = stats::Stats::default();
    if let Some(m) = arg(&args, "--menu") {
        let _ = world::search::MENU.set(m);
    }
    if let Some(b) = arg(&args, "--bias") {
        let _ = world::gen::BIAS.set(b);
    }
    match mode.as_str() {
        "integer" => integer::run(seed, count, &mut out, &mut st),
        "vamm" => vamm_unit::run(seed, count, &mut out, &mut st),
        "pricefeed" => pricefeed_unit::run(seed, count, &mut out, &mut st),
        "world" => world::run(seed, count, &mut out, &mut st),
        "fault" => world::run_fault(seed, count, &mut out, &mut st),
        "twin" => world::run_twin(seed, count, &mut out, &mut st),
        "search" => {
            let input = std::fs::read_to_string(arg(&args, "--in").expect("--in FILE")).unwrap();
            let o = world::search::Opts {
                hist: arg(&args, "--hist").and_then(|s| s.parse().ok()).expect("--hist H"),
                step: arg(&args, "--step").and_then(|s| s.parse().ok()).expect("--step K"),
                w: arg(&args, "--w"),
                depth: arg(&args, "--depth").and_then(|s| s.parse().ok()).unwrap_or(1),
                max_exec: arg(&args, "--max").and_then(|s| s.parse().ok()).unwrap_or(20_000),
            };
            world::search::run(&input, &o, &mut out, &mut st);
        }
        "replay" => {
            let input = std::fs::read_to_string(arg(&args, "--in").expect("--in FILE")).unwrap();
            if input.lines().any(|l| l.starts_with("CFG ")) {
                world::replay(&input, &mut out, &mut st);
            }
            for line in input.lines() {
                if line.starts_with("I ") {
                    if let Some(l) = integer::replay_line(line) {
                        st.distinct(&l);
                        st.sample(&l);
                        writeln!(out, "{}", l).unwrap();
                    }
                }
            }
        }
        _ => {
            eprintln!("usage: harness <integer|vamm|pricefeed|world|fault|twin|search|replay> --seed N --count N [--out F] [--stats F]");
            std::process::exit(2);
        }
    }
    out.flush().unwrap();
    if let Some(p) = stats_path {
        std::fs::write(p, serde_json::to_string_pretty(&st.to_json()).unwrap()).unwrap();
    }
}

/// sub-second part (nanoseconds) of the block time of a block, decided by its height: uneven, sometimes close to 0 or to one second
pub fn subsec(height: u64) -> u64 {
    let x = height.wrapping_mul(0x9E37_79B9_7F4A_7C15).rotate_left(23) ^ 0xD1B5_4A32_D192_ED03;
    match x % 7 {
        0 => 0,
        1 => 999_999_999,
        2 => 1,
        _ => (x >> 8) % 1_000_000_000,
    }
}
