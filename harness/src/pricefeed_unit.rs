//! Unit histories for the repository's `margined_pricefeed` (property C18 second half, C09 feed part).
//! `PCFG h= time=`  /  `POP h= k= op=<..> <args> now= ok= <results> own= r1=<id:price:ts;..> r2=<..>` (newest first)
use crate::rng::Rng;
use crate::stats::Stats;
use cosmwasm_std::testing::{mock_dependencies, mock_env, mock_info};
use cosmwasm_std::{from_binary, Timestamp, Uint128};
use margined_perp::margined_pricefeed::{ExecuteMsg, InstantiateMsg, OwnerResponse, QueryMsg};
use serde::{Deserialize, Serialize};
use std::io::Write;
use std::panic::{catch_unwind, AssertUnwindSafe};

#[derive(Serialize, Deserialize, Clone, Debug)]
pub struct RawPriceData {
    pub round_id: Uint128,
    pub price: Uint128,
    pub timestamp: Timestamp,
}

// two keys that differ only in letter case and surrounding whitespace: distinct keys, distinct round histories
const KEYS: &[&str] = &["none", "stETH", " STETH"];
const WHO: &[&str] = &["nobody", "feedowner", "stranger", "newowner"];
fn who_id(a: &str) -> usize {
    WHO.iter().position(|x| *x == a).unwrap_or(0)
}

pub fn run(seed: u64, count: u64, out: &mut dyn Write, stats: &mut Stats) {
    let mut r = Rng::new(seed ^ 0x5EED_0002);
    for h in 0..count {
        let mut deps = mock_dependencies();
        let mut env = mock_env();
        env.block.time = Timestamp::from_nanos((1_000_000 + r.below(1000)) * 1_000_000_000 + crate::subsec(h));
        margined_pricefeed::contract::instantiate(
            deps.as_mut(),
            env.clone(),
            mock_info("feedowner", &[]),
            InstantiateMsg { oracle_hub_contract: "hub".to_string() },
        )
        .unwrap();
        writeln!(out, "PCFG h={} time={}", h, env.block.time.seconds()).unwrap();
        let nops = 6 + r.below(40);
        // some histories deliberately submit out-of-order / future timestamps (malformed stream)
        let well_formed = !r.chance(1, 8);
        let mut last_ts = [0u64; 3];
        for k in 0..nops {
            match r.below(6) {
                0 | 1 => {}
                2 | 3 => env.block.time = Timestamp::from_nanos((env.block.time.seconds() + r.range(1, 60)) * 1_000_000_000 + crate::subsec(h * 131 + k)),
                4 => env.block.time = Timestamp::from_nanos((env.block.time.seconds() + r.range(60, 2000)) * 1_000_000_000 + crate::subsec(h * 131 + k)),
                _ => env.block.time = Timestamp::from_nanos((env.block.time.seconds() + r.range(2000, 100000)) * 1_000_000_000 + crate::subsec(h * 131 + k)),
            }
            let now = env.block.time.seconds();
            let key = 1 + r.below(2) as usize;
            let c = r.below(100);
            let body = if c < 38 {
                let snd = if r.chance(1, 10) { "stranger" } else { "feedowner" };
                let price = match r.below(6) {
                    0 => *r.pick(&[0u128, 1, 10_000_000, 20_000_000]),
                    1 => r.boundary128(),
                    _ => 1_000_000 + r.below128(30_000_000),
                };
                let ts = if well_formed {
                    let lo = last_ts[key];
                    if lo >= now { now } else { r.range(lo.max(now.saturating_sub(5000)), now) }
                } else {
                    match r.below(3) {
                        0 => now + r.range(1, 100),
                        1 => last_ts[key].saturating_sub(r.range(1, 50)),
                        _ => r.range(now.saturating_sub(3000), now),
                    }
                };
                let e2 = env.clone();
                let res = catch_unwind(AssertUnwindSafe(|| {
                    margined_pricefeed::contract::execute(
                        deps.as_mut(),
                        e2,
                        mock_info(snd, &[]),
                        ExecuteMsg::AppendPrice { key: KEYS[key].to_string(), price: Uint128::new(price), timestamp: ts },
                    )
                }));
                let ok = matches!(res, Ok(Ok(_)));
                if ok {
                    last_ts[key] = ts;
                }
                stats.count("op", "append");
                stats.count("class", &format!("append:{}:{}", snd, ok));
                format!("op=append key={} price={} ts={} snd={} ok={}", key, price, ts, who_id(snd), ok as u8)
            } else if c < 44 {
                let snd = if r.chance(1, 6) { "stranger" } else { "feedowner" };
                let n = r.below(4) as usize;
                let mut prices = vec![];
                let mut tss = vec![];
                let mut t = last_ts[key].max(now.saturating_sub(4000));
                for _ in 0..n {
                    prices.push(Uint128::new(1_000_000 + r.below128(30_000_000)));
                    t = (t + r.below(200)).min(now);
                    tss.push(t);
                }
                if r.chance(1, 6) {
                    tss.push(now);
                }
                let e2 = env.clone();
                let (p2, t2) = (prices.clone(), tss.clone());
                let res = catch_unwind(AssertUnwindSafe(|| {
                    margined_pricefeed::contract::execute(
                        deps.as_mut(),
                        e2,
                        mock_info(snd, &[]),
                        ExecuteMsg::AppendMultiplePrice { key: KEYS[key].to_string(), prices: p2, timestamps: t2 },
                    )
                }));
                let ok = matches!(res, Ok(Ok(_)));
                if ok && !tss.is_empty() {
                    last_ts[key] = *tss.last().unwrap();
                }
                stats.count("op", "append_multi");
                stats.count("class", &format!("appendm:{}:{}:{}", snd, prices.len() == tss.len(), ok));
                format!(
                    "op=appendm key={} prices={} tss={} snd={} ok={}",
                    key,
                    if prices.is_empty() { "none".to_string() } else { prices.iter().map(|p| p.to_string()).collect::<Vec<_>>().join(",") },
                    if tss.is_empty() { "none".to_string() } else { tss.iter().map(|p| p.to_string()).collect::<Vec<_>>().join(",") },
                    who_id(snd),
                    ok as u8
                )
            } else if c < 47 {
                let snd = *r.pick(&["feedowner", "feedowner", "stranger", "newowner"]);
                let new = *r.pick(&["newowner", "feedowner", "stranger"]);
                let e2 = env.clone();
                let res = catch_unwind(AssertUnwindSafe(|| {
                    margined_pricefeed::contract::execute(deps.as_mut(), e2, mock_info(snd, &[]), ExecuteMsg::UpdateOwner { owner: new.to_string() })
                }));
                let ok = matches!(res, Ok(Ok(_)));
                stats.count("op", "updowner");
                format!("op=updowner snd={} new={} ok={}", who_id(snd), who_id(new), ok as u8)
            } else if c < 60 {
                let e2 = env.clone();
                let res = catch_unwind(AssertUnwindSafe(|| {
                    margined_pricefeed::contract::query(deps.as_ref(), e2, QueryMsg::GetPrice { key: KEYS[key].to_string() })
                }));
                let pd: Option<RawPriceData> = match res {
                    Ok(Ok(b)) => from_binary(&b).ok(),
                    _ => None,
                };
                // what a consumer that expects a bare number (the vAMM) would see
                let e3 = env.clone();
                let scalar = match catch_unwind(AssertUnwindSafe(|| {
                    margined_pricefeed::contract::query(deps.as_ref(), e3, QueryMsg::GetPrice { key: KEYS[key].to_string() })
                })) {
                    Ok(Ok(b)) => from_binary::<Uint128>(&b).is_ok(),
                    _ => false,
                };
                stats.count("op", "q_price");
                match pd {
                    Some(p) => format!("op=q_price key={} ok=1 rid={} rp={} rts={} scalar={}", key, p.round_id, p.price, p.timestamp.seconds(), scalar as u8),
                    None => format!("op=q_price key={} ok=0 rid=0 rp=0 rts=0 scalar={}", key, scalar as u8),
                }
            } else if c < 78 {
                let n = r.below(8) as u128;
                let e2 = env.clone();
                let res = catch_unwind(AssertUnwindSafe(|| {
                    margined_pricefeed::contract::query(
                        deps.as_ref(),
                        e2,
                        QueryMsg::GetPreviousPrice { key: KEYS[key].to_string(), num_round_back: Uint128::new(n) },
                    )
                }));
                let pd: Option<RawPriceData> = match res {
                    Ok(Ok(b)) => from_binary(&b).ok(),
                    _ => None,
                };
                stats.count("op", "q_prev");
                stats.count("class", &format!("prev:{}:{}", n, pd.is_some()));
                match pd {
                    Some(p) => format!("op=q_prev key={} n={} ok=1 rid={} rp={} rts={}", key, n, p.round_id, p.price, p.timestamp.seconds()),
                    None => format!("op=q_prev key={} n={} ok=0 rid=0 rp=0 rts=0", key, n),
                }
            } else {
                let interval = *r.pick(&[0u64, 1, 30, 60, 300, 900, 3600, 86400, 10_000_000]);
                let e2 = env.clone();
                let res = catch_unwind(AssertUnwindSafe(|| {
                    margined_pricefeed::contract::query(deps.as_ref(), e2, QueryMsg::GetTwapPrice { key: KEYS[key].to_string(), interval })
                }));
                let tw: Option<Uint128> = match res {
                    Ok(Ok(b)) => from_binary(&b).ok(),
                    _ => None,
                };
                stats.count("op", "q_twap");
                stats.count("class", &format!("ftwap:{}:{}", interval, tw.is_some()));
                format!("op=q_twap key={} iv={} ok={} r={}", key, interval, tw.is_some() as u8, tw.map(|x| x.u128()).unwrap_or(0))
            };
            // dump
            let own: OwnerResponse = from_binary(
                &margined_pricefeed::contract::query(deps.as_ref(), env.clone(), QueryMsg::GetOwner {}).unwrap(),
            )
            .unwrap();
            let dump = |k: &str| -> String {
                let m: cw_storage_plus::Map<String, Vec<RawPriceData>> = cw_storage_plus::Map::new("prices");
                match m.may_load(&deps.storage, k.to_string()).unwrap() {
                    None => "none".to_string(),
                    Some(v) => v
                        .iter()
                        .rev()
                        .map(|p| format!("{}:{}:{}", p.round_id, p.price, p.timestamp.seconds()))
                        .collect::<Vec<_>>()
                        .join(";"),
                }
            };
            let line = format!("POP h={} k={} {} now={} wf={} own={} r1={} r2={}", h, k, body, now, well_formed as u8, who_id(own.owner.as_str()), dump(KEYS[1]), dump(KEYS[2]));
            stats.distinct(&line);
            stats.sample(&line);
            writeln!(out, "{}", line).unwrap();
        }
    }
}
