//! Unit stream for `margined_common::integer::Integer` (property C19).
//! One line per case:  `I op=<op> an= av= bn= bv= ok=<0|1> rn= rv= [rb=] [ro=] [s=]`
use crate::rng::Rng;
use crate::stats::Stats;
use cosmwasm_std::Uint128;
use margined_common::integer::Integer;
use std::cmp::Ordering;
use std::panic::{catch_unwind, AssertUnwindSafe};
use std::str::FromStr;

fn mk(neg: bool, v: u128) -> Integer {
    Integer {
        value: Uint128::new(v),
        negative: neg,
    }
}

/// operand pairs aimed at sign × magnitude interactions
fn gen_pair(r: &mut Rng) -> (Integer, Integer) {
    let an = r.chance(1, 2);
    let bn = r.chance(1, 2);
    let av = r.boundary128();
    let bv = match r.below(8) {
        0 => av,                                   // equal magnitudes
        1 => av.wrapping_add(1),                   // off by one
        2 => av.wrapping_sub(1),
        3 => u128::MAX - av,                       // sum exactly at the edge
        4 => (u128::MAX - av).wrapping_add(1),     // sum one over the edge
        5 => {
            if av == 0 { r.boundary128() } else { u128::MAX / av }  // product just below the edge
        }
        6 => {
            if av == 0 { 0 } else { (u128::MAX / av).wrapping_add(1) } // product just above
        }
        _ => r.boundary128(),
    };
    (mk(an, av), mk(bn, bv))
}

fn fmt_int(prefix: &str, i: &Integer) -> String {
    format!("{p}n={} {p}v={}", i.negative as u8, i.value.u128(), p = prefix)
}

pub const OPS: &[&str] = &[
    "cadd", "csub", "cmul", "cdiv", "add", "sub", "mul", "div", "neg", "abs", "eq", "cmp",
    "iszero", "isneg", "ispos", "tostr", "rt",
];

/// one case; an operation that panics although it is total by its type (`cmp`, `eq`, `neg`, `to_string`, the
/// checked forms, …) is reported as `panicked=1` — a finding, not a crash of the harness
pub fn run_case(op: &str, a: Integer, b: Integer) -> String {
    match catch_unwind(AssertUnwindSafe(|| run_case_inner(op, a, b))) {
        Ok(s) => s,
        Err(_) => format!(
            "I op={} {} {} ok=0 panicked=1 rn=0 rv=0 rb=0 ro=9 rp=9 lt=0 ge=0 s=PANIC js=0",
            op,
            fmt_int("a", &a),
            fmt_int("b", &b)
        ),
    }
}

fn run_case_inner(op: &str, a: Integer, b: Integer) -> String {
    let head = format!("I op={} {} {}", op, fmt_int("a", &a), fmt_int("b", &b));
    let int_res = |res: Option<Integer>| match res {
        Some(x) => format!("{} ok=1 {}", head, fmt_int("r", &x)),
        None => format!("{} ok=0 rn=0 rv=0", head),
    };
    match op {
        "cadd" => int_res(a.checked_add(b).ok()),
        "csub" => int_res(a.checked_sub(b).ok()),
        "cmul" => int_res(a.checked_mul(b).ok()),
        "cdiv" => int_res(a.checked_div(b).ok()),
        "add" => int_res(catch_unwind(AssertUnwindSafe(|| a + b)).ok()),
        "sub" => int_res(catch_unwind(AssertUnwindSafe(|| a - b)).ok()),
        "mul" => int_res(catch_unwind(AssertUnwindSafe(|| a * b)).ok()),
        "div" => int_res(catch_unwind(AssertUnwindSafe(|| a / b)).ok()),
        "neg" => int_res(Some(a.invert_sign())),
        "abs" => int_res(Some(a.abs())),
        "eq" => format!("{} ok=1 rb={}", head, (a == b) as u8),
        "cmp" => {
            let o = match a.cmp(&b) {
                Ordering::Less => 0,
                Ordering::Equal => 1,
                Ordering::Greater => 2,
            };
            // partial_cmp and the comparison operators must tell the same story
            let p = match a.partial_cmp(&b) {
                Some(Ordering::Less) => 0,
                Some(Ordering::Equal) => 1,
                Some(Ordering::Greater) => 2,
                None => 9,
            };
            let lt = (a < b) as u8;
            let ge = (a >= b) as u8;
            format!("{} ok=1 ro={} rp={} lt={} ge={}", head, o, p, lt, ge)
        }
        "iszero" => format!("{} ok=1 rb={}", head, a.is_zero() as u8),
        "isneg" => format!("{} ok=1 rb={}", head, a.is_negative() as u8),
        "ispos" => format!("{} ok=1 rb={}", head, a.is_positive() as u8),
        "tostr" => format!("{} ok=1 s={}", head, a.to_string()),
        "rt" => {
            let s = a.to_string();
            // both the FromStr path and the serde path (what storage and messages use)
            let via_str = Integer::from_str(&s).ok();
            let js = serde_json::to_string(&a).unwrap();
            let via_json: Option<Integer> = serde_json::from_str(&js).ok();
            let same = match (&via_str, &via_json) {
                (Some(x), Some(y)) => x.value == y.value && x.negative == y.negative,
                (None, None) => true,
                _ => false,
            };
            match via_str {
                Some(x) => format!("{} ok=1 {} js={}", head, fmt_int("r", &x), same as u8),
                None => format!("{} ok=0 rn=0 rv=0 js={}", head, same as u8),
            }
        }
        _ => unreachable!(),
    }
}

pub fn run(seed: u64, count: u64, out: &mut dyn std::io::Write, stats: &mut Stats) {
    let mut r = Rng::new(seed);
    // corpus of past/minimal interesting cases first
    let fixed: Vec<(Integer, Integer)> = vec![
        (mk(true, 5), mk(false, 5)),
        (mk(true, 5), mk(false, 0)),
        (mk(true, 3), mk(false, 5)),
        (mk(true, 0), mk(false, 0)),
        (mk(true, 0), mk(true, 0)),
        (mk(false, 0), mk(true, 0)),
        (mk(true, u128::MAX), mk(true, 1)),
        (mk(false, u128::MAX), mk(false, 1)),
        (mk(false, u128::MAX), mk(true, u128::MAX)),
        (mk(true, u128::MAX), mk(false, u128::MAX)),
        (mk(false, 1u128 << 64), mk(true, 1u128 << 64)),
        (mk(false, 7), mk(false, 0)),
    ];
    for (a, b) in fixed.iter() {
        for op in OPS {
            emit(op, *a, *b, out, stats);
        }
    }
    for _ in 0..count {
        let (a, b) = gen_pair(&mut r);
        let op = *r.pick(OPS);
        emit(op, a, b, out, stats);
    }
}

fn emit(op: &str, a: Integer, b: Integer, out: &mut dyn std::io::Write, stats: &mut Stats) {
    let line = run_case(op, a, b);
    // distinct non-trivial key: (operator, sign pair, magnitude order, a zero operand?, failed?)
    let ord = match a.value.cmp(&b.value) {
        Ordering::Less => "lt",
        Ordering::Equal => "eq",
        Ordering::Greater => "gt",
    };
    let failed = line.contains(" ok=0");
    let zero_res = line.contains(" rv=0") && !failed;
    let key = format!(
        "{}:{}{}:{}:{}:{}:{}",
        op,
        a.negative as u8,
        b.negative as u8,
        ord,
        (a.value.is_zero() || b.value.is_zero()) as u8,
        failed as u8,
        zero_res as u8
    );
    stats.count("op", op);
    stats.count("class", &key);
    stats.distinct(&line);
    if failed {
        stats.count("result", "err");
    } else {
        stats.count("result", "ok");
    }
    stats.sample(&line);
    writeln!(out, "{}", line).unwrap();
}

/// re-execute an `I` line of a replay file on the current code
pub fn replay_line(line: &str) -> Option<String> {
    let mut op = String::new();
    let (mut an, mut bn, mut av, mut bv) = (false, false, 0u128, 0u128);
    for tok in line.split_whitespace().skip(1) {
        if let Some((k, v)) = tok.split_once('=') {
            match k {
                "op" => op = v.to_string(),
                "an" => an = v == "1",
                "bn" => bn = v == "1",
                "av" => av = v.parse().ok()?,
                "bv" => bv = v.parse().ok()?,
                _ => {}
            }
        }
    }
    if !OPS.contains(&op.as_str()) {
        return None;
    }
    Some(run_case(&op, mk(an, av), mk(bn, bv)))
}
