//! Measured input-distribution counters, written as `#STAT` lines and as JSON for the evidence file.
use std::collections::{BTreeMap, HashSet};
use std::collections::hash_map::DefaultHasher;
use std::hash::{Hash, Hasher};

#[derive(Default)]
pub struct Stats {
    pub counters: BTreeMap<String, BTreeMap<String, u64>>,
    pub distinct: HashSet<u64>,
    pub samples: Vec<String>,
    pub evaluations: u64,
}

impl Stats {
    pub fn count(&mut self, group: &str, key: &str) {
        *self
            .counters
            .entry(group.to_string())
            .or_default()
            .entry(key.to_string())
            .or_default() += 1;
    }
    pub fn distinct(&mut self, canonical: &str) {
        let mut h = DefaultHasher::new();
        canonical.hash(&mut h);
        self.distinct.insert(h.finish());
        self.evaluations += 1;
    }
    pub fn sample(&mut self, s: &str) {
        if self.samples.len() < 5 || (self.evaluations % 997 == 0 && self.samples.len() < 12) {
            self.samples.push(s.to_string());
        }
    }
    pub fn to_json(&self) -> serde_json::Value {
        let mut groups = serde_json::Map::new();
        for (g, m) in &self.counters {
            // large groups (class keys) are summarised by size, small ones written out
            if m.len() > 40 {
                let mut o = serde_json::Map::new();
                o.insert("distinct_keys".into(), (m.len() as u64).into());
                o.insert("min_count".into(), (*m.values().min().unwrap()).into());
                o.insert("max_count".into(), (*m.values().max().unwrap()).into());
                groups.insert(g.clone(), o.into());
            } else {
                let mut o = serde_json::Map::new();
                for (k, v) in m {
                    o.insert(k.clone(), (*v).into());
                }
                groups.insert(g.clone(), o.into());
            }
        }
        serde_json::json!({
            "evaluations": self.evaluations,
            "distinct_cases": self.distinct.len(),
            "distinct_classes": self.counters.get("class").map(|m| m.len()).unwrap_or(0),
            "distribution": groups,
            "samples": self.samples,
        })
    }
}
