//! Unit histories for `margined_vamm` on `mock_dependencies` (properties C01, C15, C17, C18, C20, C09 unit parts).
//!
//! `VCFG h= dp= D= toll= spread= fluct= period= qr= br= time= height= ok=`           start of a history
//! `VOP  h= k= op=<..> <args> time= height= ok= <results> | post-state tokens`        one per operation
//!
//! post-state tokens: `open q b netn netv frn frv next own eng ifd feed cap oic toll spread fluct twi snaps=q:b:t:h;...(newest first)`
use crate::rng::Rng;
use crate::stats::Stats;
use cosmwasm_std::testing::{mock_env, mock_info, MockApi, MockQuerier, MockStorage};
use cosmwasm_std::{
    from_binary, to_binary, ContractResult, Env, OwnedDeps, Storage, SystemResult, Timestamp,
    Uint128, WasmQuery,
};
use margined_perp::margined_vamm::{
    CalcFeeResponse, ConfigResponse, Direction, ExecuteMsg, InstantiateMsg, OwnerResponse, QueryMsg,
    StateResponse,
};
use serde::{Deserialize, Serialize};
use std::io::Write;
use std::panic::{catch_unwind, AssertUnwindSafe};
use std::sync::{Arc, Mutex};

#[derive(Serialize, Deserialize, Clone, Debug)]
pub struct RawSnapshot {
    pub quote_asset_reserve: Uint128,
    pub base_asset_reserve: Uint128,
    pub timestamp: Timestamp,
    pub block_height: u64,
}

#[derive(Clone, Default)]
pub struct Oracle {
    pub price: u128,
    pub twap: u128,
    pub fail: bool,
}

pub struct VH {
    pub deps: OwnedDeps<MockStorage, MockApi, MockQuerier>,
    pub env: Env,
    pub oracle: Arc<Mutex<Oracle>>,
    pub dec: u128,
}

pub fn dir_of(d: u64) -> Direction {
    if d == 0 {
        Direction::AddToAmm
    } else {
        Direction::RemoveFromAmm
    }
}

pub fn clone_storage(src: &dyn Storage) -> MockStorage {
    let mut dst = MockStorage::new();
    for (k, v) in src.range(None, None, cosmwasm_std::Order::Ascending) {
        dst.set(&k, &v);
    }
    dst
}

fn new_deps(oracle: Arc<Mutex<Oracle>>) -> OwnedDeps<MockStorage, MockApi, MockQuerier> {
    let mut q = MockQuerier::new(&[]);
    let o = oracle;
    q.update_wasm(move |w| match w {
        WasmQuery::Smart { msg, .. } => {
            let or = o.lock().unwrap().clone();
            if or.fail {
                return SystemResult::Ok(ContractResult::Err("oracle failure".to_string()));
            }
            let m: margined_perp::margined_pricefeed::QueryMsg = match from_binary(msg) {
                Ok(m) => m,
                Err(_) => return SystemResult::Ok(ContractResult::Err("bad query".to_string())),
            };
            let v = match m {
                margined_perp::margined_pricefeed::QueryMsg::GetPrice { .. } => or.price,
                margined_perp::margined_pricefeed::QueryMsg::GetTwapPrice { .. } => or.twap,
                _ => 0,
            };
            SystemResult::Ok(ContractResult::Ok(to_binary(&Uint128::new(v)).unwrap()))
        }
        _ => SystemResult::Ok(ContractResult::Err("unsupported".to_string())),
    });
    OwnedDeps {
        storage: MockStorage::default(),
        api: MockApi::default(),
        querier: q,
        custom_query_type: std::marker::PhantomData,
    }
}

// "engin" / "engine2": a proper prefix / an extension of the engine's address (an address is compared as a whole, not by prefix)
pub const ADDRS: &[&str] = &["nobody", "engine", "insurance", "owner", "pricefeed", "stranger", "newowner", "engine2", "engin"];

pub fn addr_id(a: &str) -> u64 {
    ADDRS.iter().position(|x| *x == a).unwrap_or(0) as u64
}

impl VH {
    pub fn state_tokens(&self) -> String {
        let st: StateResponse =
            from_binary(&margined_vamm::contract::query(self.deps.as_ref(), self.env.clone(), QueryMsg::State {}).unwrap())
                .unwrap();
        let cfg: ConfigResponse =
            from_binary(&margined_vamm::contract::query(self.deps.as_ref(), self.env.clone(), QueryMsg::Config {}).unwrap())
                .unwrap();
        let own: OwnerResponse =
            from_binary(&margined_vamm::contract::query(self.deps.as_ref(), self.env.clone(), QueryMsg::GetOwner {}).unwrap())
                .unwrap();
        let counter: u64 = cosmwasm_storage::singleton_read(&self.deps.storage, b"reserve_snapshot_counter")
            .may_load()
            .unwrap()
            .unwrap_or(0);
        let mut snaps = vec![];
        let mut i = counter;
        while i >= 1 {
            let s: RawSnapshot = cosmwasm_storage::bucket_read(&self.deps.storage, b"reserve_snapshot")
                .load(&i.to_be_bytes())
                .unwrap();
            snaps.push(format!(
                "{}:{}:{}:{}",
                s.quote_asset_reserve, s.base_asset_reserve, s.timestamp.seconds(), s.block_height
            ));
            i -= 1;
        }
        format!(
            "open={} q={} b={} netn={} netv={} frn={} frv={} next={} own={} eng={} ifd={} feed={} cap={} oic={} toll={} spread={} fluct={} twi={} fper={} snaps={}",
            st.open as u8,
            st.quote_asset_reserve,
            st.base_asset_reserve,
            st.total_position_size.negative as u8,
            st.total_position_size.value,
            st.funding_rate.negative as u8,
            st.funding_rate.value,
            st.next_funding_time,
            addr_id(own.owner.as_str()),
            addr_id(cfg.margin_engine.as_str()),
            addr_id(cfg.insurance_fund.as_str()),
            addr_id(cfg.pricefeed.as_str()),
            cfg.base_asset_holding_cap,
            cfg.open_interest_notional_cap,
            cfg.toll_ratio,
            cfg.spread_ratio,
            cfg.fluctuation_limit_ratio,
            cfg.spot_price_twap_interval,
            cfg.funding_period,
            snaps.join(";")
        )
    }

    fn exec(&mut self, sender: &str, msg: ExecuteMsg) -> Option<cosmwasm_std::Response> {
        // a failing call must leave storage untouched (the chain reverts); emulate with a copy
        let backup = clone_storage(&self.deps.storage);
        let env = self.env.clone();
        let r = catch_unwind(AssertUnwindSafe(|| {
            margined_vamm::contract::execute(self.deps.as_mut(), env, mock_info(sender, &[]), msg)
        }));
        match r {
            Ok(Ok(resp)) => Some(resp),
            _ => {
                self.deps.storage = backup;
                None
            }
        }
    }

    fn query_u128(&self, msg: QueryMsg) -> Option<u128> {
        let env = self.env.clone();
        let r = catch_unwind(AssertUnwindSafe(|| margined_vamm::contract::query(self.deps.as_ref(), env, msg)));
        match r {
            Ok(Ok(b)) => from_binary::<Uint128>(&b).ok().map(|u| u.u128()),
            _ => None,
        }
    }
    fn query_bool(&self, msg: QueryMsg) -> Option<bool> {
        let env = self.env.clone();
        let r = catch_unwind(AssertUnwindSafe(|| margined_vamm::contract::query(self.deps.as_ref(), env, msg)));
        match r {
            Ok(Ok(b)) => from_binary::<bool>(&b).ok(),
            _ => None,
        }
    }
}

fn opt(v: Option<u128>) -> String {
    match v {
        Some(x) => format!("{}", x),
        None => "err".to_string(),
    }
}

fn attr(resp: &cosmwasm_std::Response, key: &str) -> String {
    resp.attributes
        .iter()
        .find(|a| a.key == key)
        .map(|a| a.value.clone())
        .unwrap_or_else(|| "none".to_string())
}

pub struct InitParams {
    pub dp: u8,
    pub toll: u128,
    pub spread: u128,
    pub fluct: u128,
    pub period: u64,
    pub qr: u128,
    pub br: u128,
    pub time: u64,
    pub height: u64,
}

pub fn instantiate(p: &InitParams) -> (Option<VH>, String) {
    let oracle = Arc::new(Mutex::new(Oracle::default()));
    let mut deps = new_deps(oracle.clone());
    let mut env = mock_env();
    env.block.time = Timestamp::from_nanos(p.time * 1_000_000_000 + crate::subsec(p.height));
    env.block.height = p.height;
    let msg = InstantiateMsg {
        decimals: p.dp,
        pricefeed: "pricefeed".to_string(),
        // one deployment in five leaves the engine and the fund unset (to be wired later): nobody holds those roles until then
        margin_engine: if p.height % 5 == 0 { None } else { Some("engine".to_string()) },
        insurance_fund: if p.height % 5 == 0 { None } else { Some("insurance".to_string()) },
        quote_asset: "ETH".to_string(),
        base_asset: "USD".to_string(),
        quote_asset_reserve: Uint128::new(p.qr),
        base_asset_reserve: Uint128::new(p.br),
        funding_period: p.period,
        toll_ratio: Uint128::new(p.toll),
        spread_ratio: Uint128::new(p.spread),
        fluctuation_limit_ratio: Uint128::new(p.fluct),
    };
    let e2 = env.clone();
    let r = catch_unwind(AssertUnwindSafe(|| {
        margined_vamm::contract::instantiate(deps.as_mut(), e2, mock_info("owner", &[]), msg)
    }));
    let ok = matches!(r, Ok(Ok(_)));
    let dec = if p.dp <= 38 { 10u128.pow(p.dp as u32) } else { 0 };
    let head = format!(
        "dp={} ptoll={} pspread={} pfluct={} pwired={} period={} qr={} br={} time={} height={} ok={}",
        p.dp, p.toll, p.spread, p.fluct, (p.height % 5 != 0) as u8, p.period, p.qr, p.br, p.time, p.height, ok as u8
    );
    if ok {
        let vh = VH { deps, env, oracle, dec };
        let st = vh.state_tokens();
        (Some(vh), format!("{} {}", head, st))
    } else {
        (None, head)
    }
}

fn gen_init(r: &mut Rng) -> InitParams {
    let dp = *r.pick(&[6u8, 6, 6, 9, 9, 9, 9, 12, 18, 5, 8]);
    let d = 10u128.pow(dp as u32);
    let ratio = |r: &mut Rng| -> u128 {
        match r.below(8) {
            0 | 1 => 0,
            2 => d / 1000,
            3 => d / 10,
            4 => d,
            5 => d + 1,
            _ => r.below128(d + 1),
        }
    };
    let fluct = match r.below(8) {
        0 | 1 | 2 => 0,
        3 => d / 100,
        4 => d / 20,
        5 => d,
        6 => d / 1000,
        _ => r.below128(d / 5 + 1),
    };
    // reserves: price >1, =1, <1; sizes from one unit to large; a few below one unit (rejected)
    let units_q = *r.pick(&[1u128, 10, 100, 1000, 1000, 1000, 100000, 5, 37]);
    let units_b = *r.pick(&[1u128, 10, 100, 100, 100, 1000, 10000, 5, 41]);
    let mut qr = units_q * d;
    let mut br = units_b * d;
    match r.below(10) {
        0 => qr += r.below128(d),
        1 => br += r.below128(d),
        2 => {
            qr += r.below128(d);
            br += r.below128(d)
        }
        3 => qr = d - 1,
        _ => {}
    }
    InitParams {
        dp,
        toll: ratio(r),
        spread: ratio(r),
        fluct,
        period: *r.pick(&[3600u64, 86400, 43200, 7200, 1800, 18000, 25200, 3000]),
        qr,
        br,
        time: 1_571_797_419 + r.below(1000),
        height: 12_345 + r.below(10),
    }
}

/// amount relative to a reserve: tiny, round fractions (exact divisions), random, near/over the reserve
fn gen_amount(r: &mut Rng, reserve: u128, d: u128) -> u128 {
    match r.below(12) {
        0 => 0,
        1 => 1 + r.below(3) as u128,
        2 | 3 => {
            // round fraction of the reserve (zero-remainder candidates)
            let den = *r.pick(&[2u128, 4, 5, 10, 20, 100, 3]);
            let num = 1 + r.below128(den.min(3));
            reserve / den * num
        }
        4 => reserve.saturating_sub(r.below(3) as u128),
        5 => reserve + r.below(3) as u128,
        6 => r.below128(d.max(2)),
        7 => d * (1 + r.below(50) as u128),
        _ => r.below128(reserve / 2 + 1),
    }
}

pub fn run(seed: u64, count: u64, out: &mut dyn Write, stats: &mut Stats) {
    let mut r = Rng::new(seed ^ 0x5EED_0001);
    for h in 0..count {
        let p = gen_init(&mut r);
        let (vh, line) = instantiate(&p);
        writeln!(out, "VCFG h={} {}", h, line).unwrap();
        stats.count("init", if vh.is_some() { "ok" } else { "rejected" });
        let mut vh = match vh {
            Some(v) => v,
            None => continue,
        };
        // one history in four hundred is a BUSY MARKET: several hundred consecutive blocks one to three seconds apart (more reserve
        // snapshots inside a 15-minute window than any bound a TWAP walk might silently impose); one in fifty is OLD: gaps of days
        let busy = h % 400 == 7 && h < 2000;
        let old_market = h % 50 == 11;
        let nops = if busy { 1000 } else { 8 + r.below(40) };
        for k in 0..nops {
            if k == 0 && r.chance(9, 10) {
                let ok = vh.exec("owner", ExecuteMsg::SetOpen { open: true }).is_some();
                writeln!(out, "VOP h={} k=0 op=setopen snd={} uopen=1 ok={} time={} height={} {}", h, addr_id("owner"), ok as u8,
                    vh.env.block.time.seconds(), vh.env.block.height, vh.state_tokens()).unwrap();
                continue;
            }
            // time / block schedule: same block bursts, single steps, gaps
            if busy && k > 0 {
                vh.env.block.height += 1;
                vh.env.block.time = Timestamp::from_nanos((vh.env.block.time.seconds() + 1) * 1_000_000_000 + crate::subsec(vh.env.block.height));
            } else if old_market && k % 4 == 1 {
                vh.env.block.height += 1;
                vh.env.block.time = Timestamp::from_nanos((vh.env.block.time.seconds() + 86_400 * (1 + (k % 5))) * 1_000_000_000 + crate::subsec(vh.env.block.height));
            } else {
            match r.below(10) {
                0..=3 => {}
                4..=6 => {
                    vh.env.block.height += 1;
                    vh.env.block.time = Timestamp::from_nanos((vh.env.block.time.seconds() + r.range(1, 30)) * 1_000_000_000 + crate::subsec(vh.env.block.height));
                }
                7 => {
                    vh.env.block.height += r.range(1, 20);
                    vh.env.block.time = Timestamp::from_nanos((vh.env.block.time.seconds() + r.range(30, 1200)) * 1_000_000_000 + crate::subsec(vh.env.block.height));
                }
                8 => {
                    vh.env.block.height += r.range(1, 3);
                    vh.env.block.time = Timestamp::from_nanos((vh.env.block.time.seconds() + r.range(900, 90000)) * 1_000_000_000 + crate::subsec(vh.env.block.height));
                }
                _ => {
                    // time stands still across a block boundary
                    vh.env.block.height += 1;
                }
            }
            }
            // the generator computes with observed values; if a broken contract hands it something it cannot
            // digest (overflow in a derived amount) the history is abandoned, not the run
            let line = match catch_unwind(AssertUnwindSafe(|| step(&mut vh, &mut r, stats))) {
                Ok(l) => l,
                Err(_) => {
                    stats.count("generator", "panic_history_abandoned");
                    break;
                }
            };
            stats.distinct(&line);
            writeln!(
                out,
                "VOP h={} k={} {} time={} height={} {}",
                h,
                k,
                line,
                vh.env.block.time.seconds(),
                vh.env.block.height,
                vh.state_tokens()
            )
            .unwrap();
        }
    }
}

fn cur_state(vh: &VH) -> StateResponse {
    from_binary(&margined_vamm::contract::query(vh.deps.as_ref(), vh.env.clone(), QueryMsg::State {}).unwrap()).unwrap()
}

/// one random operation; returns the op-specific tokens (without time/height/post-state)
pub fn step(vh: &mut VH, r: &mut Rng, stats: &mut Stats) -> String {
    let st = cur_state(vh);
    let d = vh.dec.max(1);
    let sender = if r.chance(1, 25) { *r.pick(&["owner", "stranger", "insurance", "engine2", "engin"]) } else { "engine" };
    let choice = r.below(100);
    if choice < 34 {
        // ---- swap_input
        let dir = r.below(2);
        let amt = gen_amount(r, st.quote_asset_reserve.u128(), d);
        let qa = vh.query_u128(QueryMsg::InputAmount { direction: dir_of(dir), amount: Uint128::new(amt) });
        let lim = gen_limit(r, qa);
        let cgo = r.chance(1, 3);
        // the same swap without a limit on a copy of the state: would it be accepted?
        let twin_ok = {
            let mut twin = VH {
                deps: OwnedDeps {
                    storage: clone_storage(&vh.deps.storage),
                    api: MockApi::default(),
                    querier: MockQuerier::new(&[]),
                    custom_query_type: std::marker::PhantomData,
                },
                env: vh.env.clone(),
                oracle: vh.oracle.clone(),
                dec: vh.dec,
            };
            twin.exec(
                sender,
                ExecuteMsg::SwapInput {
                    direction: dir_of(dir),
                    quote_asset_amount: Uint128::new(amt),
                    base_asset_limit: Uint128::zero(),
                    can_go_over_fluctuation: cgo,
                },
            )
            .is_some()
        };
        let resp = vh.exec(
            sender,
            ExecuteMsg::SwapInput {
                direction: dir_of(dir),
                quote_asset_amount: Uint128::new(amt),
                base_asset_limit: Uint128::new(lim),
                can_go_over_fluctuation: cgo,
            },
        );
        let (ok, eq, eb) = match &resp {
            Some(rsp) => (1, attr(rsp, "quote_asset_amount"), attr(rsp, "base_asset_amount")),
            None => (0, "0".into(), "0".into()),
        };
        stats.count("op", "swapin");
        stats.count("swap_result", if ok == 1 { "ok" } else { "err" });
        class_swap(stats, "in", dir, amt, lim, qa, ok == 1, cgo, &st, d);
        format!(
            "op=swapin snd={} dir={} amt={} lim={} cgo={} qa={} tw={} ok={} eq={} eb={}",
            addr_id(sender), dir, amt, lim, cgo as u8, opt(qa), twin_ok as u8, ok, eq, eb
        )
    } else if choice < 62 {
        // ---- swap_output
        let dir = r.below(2);
        let amt = gen_amount(r, st.base_asset_reserve.u128(), d);
        let qa = vh.query_u128(QueryMsg::OutputAmount { direction: dir_of(dir), amount: Uint128::new(amt) });
        let lim = gen_limit(r, qa);
        let twin_ok = {
            let mut twin = VH {
                deps: OwnedDeps {
                    storage: clone_storage(&vh.deps.storage),
                    api: MockApi::default(),
                    querier: MockQuerier::new(&[]),
                    custom_query_type: std::marker::PhantomData,
                },
                env: vh.env.clone(),
                oracle: vh.oracle.clone(),
                dec: vh.dec,
            };
            twin.exec(
                sender,
                ExecuteMsg::SwapOutput {
                    direction: dir_of(dir),
                    base_asset_amount: Uint128::new(amt),
                    quote_asset_limit: Uint128::zero(),
                },
            )
            .is_some()
        };
        let resp = vh.exec(
            sender,
            ExecuteMsg::SwapOutput {
                direction: dir_of(dir),
                base_asset_amount: Uint128::new(amt),
                quote_asset_limit: Uint128::new(lim),
            },
        );
        let (ok, eq, eb) = match &resp {
            Some(rsp) => (1, attr(rsp, "quote_asset_amount"), attr(rsp, "base_asset_amount")),
            None => (0, "0".into(), "0".into()),
        };
        stats.count("op", "swapout");
        stats.count("swap_result", if ok == 1 { "ok" } else { "err" });
        class_swap(stats, "out", dir, amt, lim, qa, ok == 1, true, &st, d);
        format!(
            "op=swapout snd={} dir={} amt={} lim={} qa={} tw={} ok={} eq={} eb={}",
            addr_id(sender), dir, amt, lim, opt(qa), twin_ok as u8, ok, eq, eb
        )
    } else if choice < 70 {
        // ---- TWAP queries
        let interval = *r.pick(&[0u64, 1, 60, 300, 900, 3600, 86400, 7, 100000, 604800, 691200, 1209600]);
        let tw = vh.query_u128(QueryMsg::TwapPrice { interval });
        let spot = vh.query_u128(QueryMsg::SpotPrice {});
        stats.count("op", "q_twap");
        stats.count("class", &format!("twap:{}:{}", interval, tw.is_some()));
        format!("op=q_twap iv={} ok={} r={} spot={}", interval, tw.is_some() as u8, tw.unwrap_or(0), opt(spot))
    } else if choice < 76 {
        let dir = r.below(2);
        let quote_in = r.chance(1, 2);
        let reserve = if quote_in { st.quote_asset_reserve.u128() } else { st.base_asset_reserve.u128() };
        let amt = gen_amount(r, reserve, d);
        let res = if quote_in {
            vh.query_u128(QueryMsg::InputTwap { direction: dir_of(dir), amount: Uint128::new(amt) })
        } else {
            vh.query_u128(QueryMsg::OutputTwap { direction: dir_of(dir), amount: Uint128::new(amt) })
        };
        stats.count("op", "q_iotwap");
        stats.count("class", &format!("iotwap:{}:{}:{}", quote_in, dir, res.is_some()));
        format!("op=q_iotwap qin={} dir={} amt={} ok={} r={}", quote_in as u8, dir, amt, res.is_some() as u8, res.unwrap_or(0))
    } else if choice < 81 {
        let dir = r.below(2);
        let amt = gen_amount(r, st.base_asset_reserve.u128(), d);
        let res = vh.query_bool(QueryMsg::IsOverFluctuationLimit { direction: dir_of(dir), base_asset_amount: Uint128::new(amt) });
        stats.count("op", "q_overfluct");
        stats.count("class", &format!("overfluct:{}:{:?}", dir, res));
        format!("op=q_overfluct dir={} amt={} ok={} r={}", dir, amt, res.is_some() as u8, res.unwrap_or(false) as u8)
    } else if choice < 85 {
        // spread limit against an oracle price near the 10% edge
        let spot = vh.query_u128(QueryMsg::SpotPrice {}).unwrap_or(d);
        let price = match r.below(8) {
            0 => 0,
            1 => spot,
            2 => spot / 11 * 10 + spot % 11 * 10 / 11,
            3 => spot / 11 * 10 + spot % 11 * 10 / 11 + 1,
            4 => (spot / 9).saturating_mul(10).saturating_add(spot % 9 * 10 / 9),
            5 => (spot / 9).saturating_mul(10).saturating_add(spot % 9 * 10 / 9).saturating_add(1),
            _ => r.below128(spot.saturating_mul(2).saturating_add(2)),
        };
        let fail = r.chance(1, 20);
        {
            let mut o = vh.oracle.lock().unwrap();
            o.price = price;
            o.fail = fail;
        }
        let res = vh.query_bool(QueryMsg::IsOverSpreadLimit {});
        vh.oracle.lock().unwrap().fail = false;
        stats.count("op", "q_overspread");
        stats.count("class", &format!("overspread:{:?}", res));
        format!("op=q_overspread oracle={} ofail={} ok={} r={}", price, fail as u8, res.is_some() as u8, res.unwrap_or(false) as u8)
    } else if choice < 88 {
        let amt = match r.below(4) {
            0 => 0,
            1 => r.below128(1000),
            2 => r.boundary128(),
            _ => r.below128(st.quote_asset_reserve.u128() + 1),
        };
        let env = vh.env.clone();
        let res = catch_unwind(AssertUnwindSafe(|| {
            margined_vamm::contract::query(vh.deps.as_ref(), env, QueryMsg::CalcFee { quote_asset_amount: Uint128::new(amt) })
        }));
        let fr: Option<CalcFeeResponse> = match res {
            Ok(Ok(b)) => from_binary(&b).ok(),
            _ => None,
        };
        stats.count("op", "q_calcfee");
        match fr {
            Some(f) => format!("op=q_calcfee amt={} ok=1 tf={} sf={}", amt, f.toll_fee, f.spread_fee),
            None => format!("op=q_calcfee amt={} ok=0 tf=0 sf=0", amt),
        }
    } else if choice < 92 {
        // ---- settle funding with a chosen oracle TWAP
        let spot = vh.query_u128(QueryMsg::SpotPrice {}).unwrap_or(d);
        let tw = match r.below(6) {
            0 => 0,
            1 => spot,
            2 => spot.saturating_add(spot / 50),
            3 => spot.saturating_sub(spot / 50),
            _ => r.below128(spot.saturating_mul(2).saturating_add(2)),
        };
        let fail = r.chance(1, 20);
        {
            let mut o = vh.oracle.lock().unwrap();
            o.twap = tw;
            o.fail = fail;
        }
        let resp = vh.exec(sender, ExecuteMsg::SettleFunding {});
        vh.oracle.lock().unwrap().fail = false;
        stats.count("op", "settle");
        stats.count("class", &format!("settle:{}", resp.is_some()));
        match &resp {
            Some(rsp) => format!("op=settle snd={} otwap={} ofail={} ok=1 pf={}", addr_id(sender), tw, fail as u8, attr(rsp, "premium_fraction")),
            None => format!("op=settle snd={} otwap={} ofail={} ok=0 pf=0", addr_id(sender), tw, fail as u8),
        }
    } else if choice < 95 {
        let open = r.chance(1, 2);
        let snd = *r.pick(&["owner", "owner", "insurance", "engine", "stranger"]);
        let resp = vh.exec(snd, ExecuteMsg::SetOpen { open });
        stats.count("op", "setopen");
        stats.count("class", &format!("setopen:{}:{}:{}", snd, open, resp.is_some()));
        format!("op=setopen snd={} uopen={} ok={}", addr_id(snd), open as u8, resp.is_some() as u8)
    } else if choice < 99 {
        // ---- update_config with boundary values, single and combined fields
        let snd = if r.chance(1, 6) { *r.pick(&["engine", "stranger", "insurance"]) } else { "owner" };
        let ratio = |r: &mut Rng| -> Option<u128> {
            match r.below(7) {
                0..=2 => None,
                3 => Some(d),
                4 => Some(d + 1),
                5 => Some(0),
                _ => Some(r.below128(d + d / 4 + 1)),
            }
        };
        let toll = ratio(r);
        let spread = ratio(r);
        let fluct = ratio(r);
        let twi = match r.below(8) {
            0..=3 => None,
            4 => Some(*r.pick(&[59u64, 60, 61, 604799, 604800, 604801])),
            _ => Some(r.range(0, 700000)),
        };
        let cap = if r.chance(1, 4) { Some(r.below128(1000 * d)) } else { None };
        let oic = if r.chance(1, 4) { Some(r.below128(100000 * d)) } else { None };
        let eng = if r.chance(1, 12) { Some(*r.pick(&["engine", "engine2"])) } else { None };
        let resp = vh.exec(
            snd,
            ExecuteMsg::UpdateConfig {
                base_asset_holding_cap: cap.map(Uint128::new),
                open_interest_notional_cap: oic.map(Uint128::new),
                toll_ratio: toll.map(Uint128::new),
                spread_ratio: spread.map(Uint128::new),
                fluctuation_limit_ratio: fluct.map(Uint128::new),
                margin_engine: eng.map(|s| s.to_string()),
                insurance_fund: None,
                pricefeed: None,
                spot_price_twap_interval: twi,
            },
        );
        let o = |x: Option<u128>| x.map(|v| v.to_string()).unwrap_or_else(|| "none".into());
        stats.count("op", "updcfg");
        stats.count("class", &format!("updcfg:{}:{}:{}:{}:{}", snd == "owner", toll.map(|x| x > d).unwrap_or(false), spread.map(|x| x > d).unwrap_or(false), twi.map(|x| x < 60 || x > 604800).unwrap_or(false), resp.is_some()));
        format!(
            "op=updcfg snd={} ucap={} uoic={} utoll={} uspread={} ufluct={} ueng={} utwi={} ok={}",
            addr_id(snd), o(cap), o(oic), o(toll), o(spread), o(fluct),
            eng.map(|s| addr_id(s).to_string()).unwrap_or_else(|| "none".into()),
            twi.map(|v| v.to_string()).unwrap_or_else(|| "none".into()),
            resp.is_some() as u8
        )
    } else {
        let snd = *r.pick(&["owner", "owner", "stranger", "newowner", "engine"]);
        let new = *r.pick(&["newowner", "owner", "stranger"]);
        let resp = vh.exec(snd, ExecuteMsg::UpdateOwner { owner: new.to_string() });
        stats.count("op", "updowner");
        stats.count("class", &format!("updowner:{}:{}", snd, resp.is_some()));
        format!("op=updowner snd={} new={} ok={}", addr_id(snd), addr_id(new), resp.is_some() as u8)
    }
}

fn gen_limit(r: &mut Rng, qa: Option<u128>) -> u128 {
    match (r.below(8), qa) {
        (0..=2, _) => 0,
        (3, Some(q)) => q,
        (4, Some(q)) => q.saturating_sub(1),
        (5, Some(q)) => q.saturating_add(1),
        (_, Some(q)) => r.below128(q.saturating_mul(2).saturating_add(2)),
        (_, None) => r.below128(1000),
    }
}

#[allow(clippy::too_many_arguments)]
fn class_swap(stats: &mut Stats, kind: &str, dir: u64, amt: u128, lim: u128, qa: Option<u128>, ok: bool, cgo: bool, st: &StateResponse, d: u128) {
    let limrel = match (lim, qa) {
        (0, _) => "nolim",
        (_, None) => "noquote",
        (l, Some(q)) if l == q => "at",
        (l, Some(q)) if l < q => "below",
        _ => "above",
    };
    // remainder of the pricing division: recomputed here only to classify the case
    let rem = if amt == 0 {
        "zero-amt"
    } else {
        let (x, y) = (st.quote_asset_reserve.u128(), st.base_asset_reserve.u128());
        match x.checked_mul(y) {
            None => "overflow",
            Some(xy) => {
                let k = xy / d;
                let after = if kind == "in" {
                    if dir == 0 { x.checked_add(amt) } else { x.checked_sub(amt) }
                } else if dir == 0 {
                    y.checked_add(amt)
                } else {
                    y.checked_sub(amt)
                };
                match (after, k.checked_mul(d)) {
                    (Some(a), Some(kd)) if a != 0 => {
                        if kd % a == 0 { "rem0" } else { "rem+" }
                    }
                    _ => "edge",
                }
            }
        }
    };
    let small = if st.base_asset_reserve.u128() < d { "base<D" } else { "base>=D" };
    stats.count("remainder", rem);
    stats.count("class", &format!("swap:{}:{}:{}:{}:{}:{}:{}", kind, dir, limrel, rem, ok, cgo, small));
    stats.sample(&format!("swap{} dir={} amt={} lim={} quote={:?} reserves=({},{}) ok={}", kind, dir, amt, lim, qa, st.quote_asset_reserve, st.base_asset_reserve, ok));
}
