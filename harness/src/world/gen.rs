//! State-dependent generation of transactions. All randomness comes from `Rng`; everything that must
//! be reproduced by `replay` ends up on the `TX` line.
use super::cfg::*;
use super::deploy::{PosInfo, World};
use super::tx::{Msg, Tx, TxResult};
use crate::rng::Rng;
use crate::stats::Stats;
use cosmwasm_std::{Addr, Uint128};
use margined_perp::margined_vamm as vamm;
use std::collections::VecDeque;

#[derive(Clone, Debug)]
pub enum Plan {
    VictimOpen { vi: usize, victim: u64, long: bool },
    Push { vi: usize, victim: u64, target_bp: i64, steps_left: u32 },
    AlignOracle { vi: usize },
    /// oracle far away from the market, on the side that makes `trader`'s position pay funding
    OracleSkew { vi: usize, trader: u64 },
    /// oracle 10 % away from the market, on the side that makes `trader`'s position RECEIVE funding
    OracleSkewRecv { vi: usize, trader: u64 },
    /// PayFunding one funding period later
    FundingRound { vi: usize },
    /// a fixed message by a fixed sender (role hand-over scripts)
    Call { by: u64, msg: Msg },
    Liq { vi: usize, victim: u64, first: bool },
    /// open `frac_ppm` of the quote reserve as notional; `high` = close to the maximum leverage
    OpenFrac { vi: usize, trader: u64, long: bool, frac_ppm: u128, high: bool },
    /// the trader closes his position (profit is paid out of the vault)
    CloseBy { vi: usize, trader: u64 },
    /// the vAMM owner closes the vAMM
    CloseVamm { vi: usize },
    /// the insurance fund owner shuts all vAMMs down
    Shutdown,
    /// a trader operation derived from his current position on the vAMM
    TraderOp { vi: usize, who: Who, op: TOp, block: Blk },
    /// liquidation of the weakest position on the vAMM
    LiqAny { vi: usize, block: Blk },
    /// the same, sent by a given account (e.g. one whose own position was just updated in this block)
    LiqBy { vi: usize, by: u64, block: Blk },
    PayFunding { vi: usize, by: u64, block: Blk },
    IfRm { vi: usize },
    IfAdd { vi: usize },
    VSet { vi: usize, open: bool },
    Pause { p: bool },
    /// one configuration update of the config campaign, built from the stored values when it is due
    Config { vi: usize, kind: CKind, legit: bool, trader: u64 },
    /// key-alias probe: `snd` (ice / rol) addresses the victim's position through the alias vAMM string
    Alias { vi: usize, victim: u64, op: AOp },
}

#[derive(Clone, Copy, Debug, PartialEq)]
pub enum CKind {
    /// uimr and ummr in one message, relation 0..=5 to the stored values
    Pair(u64),
    SingleRatio,
    PlrLf,
    /// owner / fee pool / insurance fund re-wiring (0 owner, 1 fee pool, 2 insurance fund,
    /// 3 the vAMM's own insurance-fund address, 4 fee pool to the stranger)
    Rewire(u64),
    /// small non-zero toll and spread on the vAMM
    VFees,
    /// engine partial-liquidation ratio = 1 and a tight fluctuation limit on the vAMM
    PlrOne,
    /// engine partial-liquidation ratio = 1/4
    PlrQuarter,
    /// partial liquidation ratio of 125 % (out of range: the update must be refused)
    PlrOver,
    VFluctTight,
    /// fluctuation limit switched off
    VFluctOff,
    /// fluctuation limit of 10 %
    VFluctTen,
    /// engine liquidation fee ratio set to 0 (0) or to a small odd value (1)
    LfSet(u64),
    /// undo of a re-wiring
    Unwire(u64),
    VRatios,
    VTwi,
    VCaps,
    WlToggle,
    /// whitelist membership of the campaign's trader set explicitly
    WlSet(bool),
    /// holding cap and open-interest cap LOWERED below what the trader / the engine currently holds
    VCapBelow,
    /// back to the deployed values (step 0..=5)
    Restore(u64),
}
#[derive(Clone, Copy, Debug, PartialEq)]
pub enum AOp {
    Deposit(bool),
    Withdraw(bool),
    Open(u64),
    Liq,
    Close,
}

#[derive(Clone, Copy, Debug, PartialEq)]
pub enum Blk {
    /// the usual random block advance
    Free,
    /// the same block as the previous transaction
    Same,
    /// the next block (+1 height, +6 s)
    Next,
}
#[derive(Clone, Copy, Debug, PartialEq)]
pub enum TOp {
    OpenSame,
    Reduce,
    Reverse,
    /// opposite order of three times the position's value: the re-opening leg is twice what the closing leg released
    ReverseBig,
    Deposit,
    Withdraw,
    Close,
    /// whole close with the limit at the quoted amount (0), one above (1), one below (2)
    CloseLim(u64),
    /// opposite order of (just above) the position's current value: the reversal closes it and re-opens
    /// nothing, which leaves a stored record of size zero
    FlatReverse,
    /// position-increasing order that takes the engine's open interest to exactly the vAMM's cap (0) or one unit above (1)
    OpenToOiCap(u64),
    /// position-increasing order that takes the trader's size to exactly the vAMM's holding cap (0) or one base unit above (1)
    OpenToHoldCap(u64),
    /// deposit that brings the position's equity (margin - funding + spot PnL) to exactly -1 (0), 0 (1) or +1 (2)
    DepositToZero(u64),
    /// order on the side opposite to a stored size-zero record's direction, with a base limit on the wrong
    /// side of the quoted amount (0) or exactly at it (1)
    AfterFlat(u64),
    /// order of exactly the size that takes the spot price onto the edge of the per-block band, on the side that hurts the
    /// position of the given trader (a long: the lower edge)
    OpenToBandEdge(u64),
    /// a long of the given (tiny) notional in raw units
    OpenDust(u64),
    /// a BUY of the given (tiny) notional in raw units at 1x, with or without an existing position
    OpenDustAny(u64),
    /// same-side order of one and a half times the position's value with the base limit one unit on the wrong side of the quote (0)
    /// or exactly at it (1)
    IncreaseLim(u64),
}
#[derive(Clone, Copy, Debug, PartialEq)]
pub enum Who {
    Id(u64),
    /// acts only while it still holds a position on the vAMM
    Holder(u64),
    /// the position holder on the vAMM with the lowest id that is none of the two
    Bystander(u64, u64),
}

#[derive(Clone, Copy, Debug, PartialEq)]
pub enum Mode {
    World,
    /// favour transactions with rich message trees
    Fault,
    /// only kinds that exist for both collaterals; generated from the cw20 world
    Twin,
}

pub struct GenCtx {
    pub plan: VecDeque<Plan>,
    pub scenario_at: Option<u64>,
    /// 0 = liquidation campaign, 1 = pump / take profit / liquidate the losers
    pub scenario_kind: u64,
    pub shutdown_at: Option<u64>,
    /// market-state campaign (1 deregistered, 2 closed, 3 paused) to start at the midpoint
    pub market: Option<(u64, u64)>,
    /// how many successful liquidations are still followed by the post-liquidation block script
    pub postliq_left: u32,
    /// configuration campaign at this step
    pub config_at: Option<u64>,
    /// key-alias probes once alice or carol hold a position (not before this step)
    pub alias_from: Option<u64>,
    pub pending_stats: Vec<String>,
    pub last_plan: Option<Plan>,
    pub mode: Mode,
}

/// `--bias <name>`: a run that spends its histories on one campaign (`pump`: profit taking that empties
/// the vault, then liquidation of the losers)
pub static BIAS: std::sync::OnceLock<String> = std::sync::OnceLock::new();

impl GenCtx {
    pub fn new(r: &mut Rng, ntx: u64, mode: Mode) -> Self {
        let p = if mode == Mode::Fault { 60 } else { 40 };
        let pump = BIAS.get().map(|b| b == "pump").unwrap_or(false);
        let scenario_at = if pump { Some(ntx / 4) } else if r.chance(p, 100) { Some(ntx / 2) } else { None };
        let scenario_kind = if pump || r.chance(45, 100) { 1 } else { 0 };
        let shutdown_at = if r.chance(15, 100) { Some(ntx / 3) } else { None };
        let market = match r.below(100) {
            0..=11 => Some((1, ntx / 2)),
            12..=23 => Some((2, ntx / 2)),
            24..=35 => Some((3, ntx / 2)),
            _ => None,
        };
        let postliq_left = if r.chance(40, 100) { 1 } else { 0 };
        let config_at = if r.chance(16, 100) { Some(ntx / 2) } else { None };
        let alias_from = if r.chance(10, 100) { Some(ntx / 3) } else { None };
        GenCtx {
            plan: VecDeque::new(),
            scenario_at,
            scenario_kind,
            shutdown_at,
            market,
            postliq_left,
            config_at,
            alias_from,
            pending_stats: vec![],
            last_plan: None,
            mode,
        }
    }
    /// a failed preparatory step ends the campaign
    pub fn feedback(&mut self, tx: &Tx, res: &TxResult) {
        if let Some(p) = self.last_plan.take() {
            if !res.ok {
                match p {
                    Plan::VictimOpen { .. }
                    | Plan::Push { .. }
                    | Plan::OpenFrac { .. }
                    | Plan::CloseBy { .. }
                    | Plan::CloseVamm { .. }
                    | Plan::IfRm { .. }
                    | Plan::VSet { open: false, .. }
                    | Plan::Pause { p: true } => self.plan.clear(),
                    _ => {}
                }
            }
        }
        // post-liquidation block: same block first, then the next block
        if let (Msg::Liq { v, trader, .. }, true, true) = (&tx.msg, res.ok, self.postliq_left > 0) {
            if *v >= VAMM0 {
                self.postliq_left -= 1;
                let vi = (*v - VAMM0) as usize;
                let (liq, victim) = (tx.snd, *trader);
                let mut script: Vec<Plan> = vec![];
                for round in 0..2 {
                    let first = if round == 0 { Blk::Same } else { Blk::Next };
                    script.push(Plan::PayFunding { vi, by: STRANGER, block: first });
                    for who in [Who::Id(liq), Who::Holder(victim), Who::Bystander(liq, victim)] {
                        if round == 0 && who == Who::Bystander(liq, victim) && tx.height % 2 == 0 {
                            // a bystander trades his position to exactly flat in the liquidation block (a stored
                            // record of size zero remains): he has acted in this block and may not act again
                            script.push(Plan::TraderOp { vi, who, op: TOp::FlatReverse, block: Blk::Same });
                        }
                        if round == 0 && who == Who::Bystander(liq, victim) && tx.height % 2 == 1 {
                            // a bystander whose position dates from an earlier block closes first (the engine may turn that into a
                            // partial close): from then on he has acted in this block
                            script.push(Plan::TraderOp { vi, who, op: TOp::Close, block: Blk::Same });
                        }
                        script.push(Plan::TraderOp { vi, who, op: TOp::OpenSame, block: Blk::Same });
                        if round == 0 && who == Who::Id(liq) {
                            // the liquidator, whose own position was just updated in this block, liquidates again
                            script.push(Plan::LiqBy { vi, by: liq, block: Blk::Same });
                        }
                        script.push(Plan::TraderOp { vi, who, op: TOp::Close, block: Blk::Same });
                        if round == 0 && who == Who::Bystander(liq, victim) {
                            // if that close was turned into a PARTIAL close (band + partial ratio), the position is still there and
                            // was updated in this block: a second close in the block must be refused
                            script.push(Plan::TraderOp { vi, who, op: TOp::Close, block: Blk::Same });
                        }
                    }
                }
                for p in script.into_iter().rev() {
                    self.plan.push_front(p);
                }
                self.pending_stats.push("post_liquidation_block".to_string());
            }
        }
    }
}

#[derive(Clone, Debug)]
pub struct VInfo {
    pub idx: usize,
    pub id: u64,
    pub addr: Addr,
    pub open: bool,
    pub q: u128,
    pub b: u128,
    pub next: u64,
    pub toll: u128,
    pub spread: u128,
    pub fluct: u128,
    pub registered: bool,
    pub eng_ok: bool,
}
impl VInfo {
    fn usable(&self) -> bool {
        self.open && self.registered && self.eng_ok
    }
    pub fn spot(&self, d: u128) -> u128 {
        if self.b == 0 {
            0
        } else {
            self.q.saturating_mul(d) / self.b
        }
    }
}

pub fn vinfos(w: &World) -> Vec<VInfo> {
    let reg = w.if_vamms();
    let mut out = vec![];
    for (i, a) in w.vamms.iter().enumerate() {
        let st = w.vamm_state(a);
        let cf = w.vamm_config(a);
        if let (Some(st), Some(cf)) = (st, cf) {
            out.push(VInfo {
                idx: i,
                id: VAMM0 + i as u64,
                addr: a.clone(),
                open: st.open,
                q: st.quote_asset_reserve.u128(),
                b: st.base_asset_reserve.u128(),
                next: st.next_funding_time,
                toll: cf.toll_ratio.u128(),
                spread: cf.spread_ratio.u128(),
                fluct: cf.fluctuation_limit_ratio.u128(),
                registered: reg.iter().any(|x| x == a.as_str()),
                eng_ok: cf.margin_engine == w.engine,
            });
        }
    }
    out
}

struct Draft {
    snd: u64,
    funds: u128,
    extra: bool,
    msg: Msg,
    min_blocks: u64,
    min_dt: u64,
    block: Blk,
}
fn draft(snd: u64, msg: Msg) -> Draft {
    Draft { snd, funds: 0, extra: false, msg, min_blocks: 0, min_dt: 0, block: Blk::Free }
}

fn advance(r: &mut Rng) -> (u64, u64) {
    match r.below(100) {
        0..=34 => (0, 0),
        35..=69 => (1, r.range(5, 30)),
        70..=84 => (r.range(1, 20), r.range(30, 1200)),
        _ => (r.range(1, 3), r.range(3600, 90000)),
    }
}

pub fn dirq(d: u64) -> vamm::Direction {
    if d == 0 {
        vamm::Direction::AddToAmm
    } else {
        vamm::Direction::RemoveFromAmm
    }
}

pub fn mul_div(a: u128, b: u128, c: u128) -> u128 {
    if c == 0 {
        0
    } else {
        a.saturating_mul(b) / c
    }
}

/// guess of the native funds an OpenPosition needs (exact for fresh / increase / reduce)
pub fn open_funds(w: &World, vi: Option<&VInfo>, pos: Option<&PosInfo>, side: u64, margin: u128, lev: u128) -> u128 {
    let d = w.cfg.d;
    let on = mul_div(margin, lev, d);
    let (toll, spread) = vi.map(|v| (v.toll, v.spread)).unwrap_or((0, 0));
    let fees = mul_div(on, spread, d) + mul_div(on, toll, d);
    let sm = mul_div(on, d, lev);
    match pos {
        None => sm + fees,
        Some(p) if p.dir == side => sm + fees,
        Some(p) => {
            if on < p.notional {
                fees
            } else {
                let mtv0 = p.margin;
                let mut req = if fees > mtv0 { fees - mtv0 } else { fees };
                let new_sm = mul_div(on - p.notional, d, lev);
                if new_sm > mtv0 {
                    req += new_sm;
                }
                req
            }
        }
    }
}

fn vary_funds(r: &mut Rng, exact: u128, dr: &mut Draft) {
    match r.below(100) {
        0..=77 => dr.funds = exact,
        78..=82 => dr.funds = 0,
        83..=87 => dr.funds = exact + 1,
        88..=92 => dr.funds = exact.saturating_sub(1),
        93..=96 => dr.funds = r.below128(exact.saturating_mul(2).saturating_add(2)),
        _ => {
            dr.funds = exact;
            dr.extra = true;
        }
    }
}

fn pick_vamm<'a>(r: &mut Rng, vis: &'a [VInfo]) -> Option<&'a VInfo> {
    if vis.is_empty() || r.chance(3, 100) {
        return None;
    }
    let usable: Vec<&VInfo> = vis.iter().filter(|v| v.usable()).collect();
    if !usable.is_empty() && r.chance(88, 100) {
        Some(usable[r.below(usable.len() as u64) as usize])
    } else {
        Some(&vis[r.below(vis.len() as u64) as usize])
    }
}

fn pick_trader(r: &mut Rng) -> u64 {
    if r.chance(94, 100) {
        *r.pick(&TRADERS)
    } else {
        *r.pick(&[LIQUIDATOR, STRANGER, PAUSER, OWNER])
    }
}

fn gen_open(w: &World, r: &mut Rng, vis: &[VInfo], ps: &[PosInfo]) -> Draft {
    let d = w.cfg.d;
    let ec = w.engine_config();
    let imr = ec.as_ref().map(|c| c.initial_margin_ratio.u128()).unwrap_or(w.cfg.imr).max(1);
    let maxlev = d * d / imr;
    let t = pick_trader(r);
    // now and then the market whose decimals differ from the engine's
    let mismatched = vis.iter().find(|v| w.cfg.vamms.get(v.idx).map(|i| i.dp != w.cfg.dp).unwrap_or(false));
    let vi = match mismatched {
        Some(v) if r.chance(5, 100) => Some(v),
        _ => pick_vamm(r, vis),
    };
    let vid = vi.map(|v| v.id).unwrap_or(0);
    let pos = ps.iter().find(|p| p.v == vid && p.t == t);
    let q = vi.map(|v| v.q).unwrap_or(1000 * d);
    // leverage
    let mut lev = match r.below(100) {
        0..=69 => *r.pick(&[1u128, 2, 5, 10, 20]) * d,
        70..=73 => d - 1,
        74..=79 => d * 5 / 2,
        80..=89 => maxlev,
        90..=91 => maxlev + 1,
        // a fractional leverage between the bound and the next whole number
        92..=93 => maxlev + d / 2,
        _ => d + r.below128(19 * d),
    };
    if lev > maxlev && r.chance(92, 100) {
        lev = if r.chance(1, 2) { maxlev } else { (d + r.below128(maxlev.saturating_sub(d) + 1)).min(maxlev) };
    }
    let pick_margin = |r: &mut Rng| -> u128 {
        let base = *r.pick(&[1u128, 2, 5, 10, 25, 60, 100, 300]) * d;
        match r.below(10) {
            0 => base + r.below128(d),
            1 => base.saturating_sub(r.below128(1000)),
            _ => base,
        }
    };
    let mut margin = pick_margin(r);
    // keep most trades within what the pool (and its per-block fluctuation limit) can take
    let fluct = vi.map(|v| v.fluct).unwrap_or(0);
    let max_on = if fluct != 0 { mul_div(q, fluct, d) / 3 } else { q / 8 };
    if mul_div(margin, lev, d) > max_on && r.chance(90, 100) {
        let target = max_on * r.range(10, 100) as u128 / 100;
        margin = mul_div(target, d, lev.max(1)).max(1);
    }
    let mut side = r.below(2);
    if let Some(p) = pos {
        let value = p.notional.max(1);
        match r.below(100) {
            0..=29 => side = p.dir, // increase
            30..=64 => {
                // reduce: smaller notional than the position
                side = 1 - p.dir;
                let target = (value * r.range(10, 90) as u128 / 100).min(max_on.max(1));
                margin = mul_div(target, d, lev.max(1)).max(1);
            }
            65..=84 => {
                // reverse: larger notional
                side = 1 - p.dir;
                let target = (value * r.range(110, 300) as u128 / 100).min(max_on.max(value) * 2).max(value + 1);
                margin = mul_div(target, d, lev) + 1;
            }
            _ => {}
        }
    }
    if r.chance(2, 100) {
        margin = 0;
    }
    if r.chance(1, 100) {
        lev = 0;
    }
    let on = mul_div(margin, lev, d);
    let mut lim = 0u128;
    if r.chance(20, 100) {
        if let Some(v) = vi {
            let qa: Option<Uint128> = w.q(&v.addr, &vamm::QueryMsg::InputAmount { direction: dirq(side), amount: Uint128::new(on) });
            if let Some(qa) = qa {
                lim = match r.below(3) {
                    0 => qa.u128(),
                    1 => qa.u128() + 1,
                    _ => qa.u128().saturating_sub(1),
                };
            }
        }
    }
    let mut dr = draft(t, Msg::Open { v: vid, side, margin, lev, lim });
    if w.cfg.native {
        let exact = open_funds(w, vi, pos, side, margin, lev);
        vary_funds(r, exact, &mut dr);
    }
    dr
}

fn gen_close(w: &World, r: &mut Rng, ps: &[PosInfo]) -> Draft {
    let p = &ps[r.below(ps.len() as u64) as usize];
    let snd = if r.chance(92, 100) { p.t } else { pick_trader(r) };
    let mut lim = 0;
    if r.chance(30, 100) {
        let qa: Option<Uint128> =
            w.q(&Addr::unchecked(p.vaddr.clone()), &vamm::QueryMsg::OutputAmount { direction: dirq(p.dir), amount: Uint128::new(p.size) });
        if let Some(qa) = qa {
            lim = match r.below(3) {
                0 => qa.u128(),
                1 => qa.u128() + 1,
                _ => qa.u128().saturating_sub(1),
            };
        }
    }
    let v = if r.chance(2, 100) { 0 } else { p.v };
    draft(snd, Msg::Close { v, lim })
}

fn gen_depwd(w: &World, r: &mut Rng, ps: &[PosInfo]) -> Draft {
    let d = w.cfg.d;
    let p = &ps[r.below(ps.len() as u64) as usize];
    let snd = if r.chance(93, 100) { p.t } else { pick_trader(r) };
    if r.chance(1, 2) {
        let amt = match r.below(8) {
            0 => 1,
            1 => d,
            2 => p.margin / 10,
            3 => p.margin,
            4 => 10 * d,
            5 => 0,
            _ => r.below128(50 * d) + 1,
        };
        let mut dr = draft(snd, Msg::Deposit { v: p.v, amt });
        if w.cfg.native {
            match r.below(100) {
                0..=79 => dr.funds = amt,
                80..=84 => dr.funds = amt + 1,
                85..=89 => dr.funds = amt.saturating_sub(1),
                90..=94 => dr.funds = 0,
                _ => {
                    dr.funds = amt;
                    dr.extra = true;
                }
            }
        }
        dr
    } else {
        let fc = w.free_collateral(&p.vaddr, &p.taddr);
        let fcv = fc.filter(|x| !x.negative).map(|x| x.value.u128()).unwrap_or(0);
        let amt = if fcv > 0 {
            match r.below(20) {
                0..=5 => fcv,
                6..=7 => fcv - 1,
                8..=9 => fcv / 2,
                10..=11 => fcv / 10 + 1,
                12 => 1,
                13..=14 => fcv + 1,
                15..=16 => p.margin,
                17 => 0,
                _ => r.below128(fcv + 2),
            }
        } else {
            *r.pick(&[1, d / 2, p.margin / 10, p.margin, 0])
        };
        draft(snd, Msg::Withdraw { v: p.v, amt })
    }
}

/// (position, margin ratio as signed bp of D) sorted by ratio ascending
fn ratios(w: &World, ps: &[PosInfo]) -> Vec<(PosInfo, i128)> {
    let mut v: Vec<(PosInfo, i128)> = ps
        .iter()
        .filter_map(|p| {
            w.margin_ratio(&p.vaddr, &p.taddr).map(|m| {
                let x = m.value.u128().min(i128::MAX as u128) as i128;
                (p.clone(), if m.negative { -x } else { x })
            })
        })
        .collect();
    v.sort_by_key(|x| x.1);
    v
}

fn liq_sender(r: &mut Rng) -> u64 {
    if r.chance(85, 100) {
        LIQUIDATOR
    } else {
        *r.pick(&[101, 102, STRANGER, OWNER])
    }
}

fn start_campaign(w: &World, r: &mut Rng, g: &mut GenCtx, vis: &[VInfo], ps: &[PosInfo], existing: Option<&PosInfo>) -> bool {
    let mmr = w.engine_config().map(|c| c.maintenance_margin_ratio.u128()).unwrap_or(w.cfg.mmr) as i64;
    let lf = w.engine_config().map(|c| c.liquidation_fee.u128()).unwrap_or(w.cfg.lf) as i64;
    let d = w.cfg.d as i64;
    // target margin ratio: partial band (lf, mmr], shallow full band [0, min(lf, mmr)], or under water
    let target = match r.below(100) {
        0..=44 if lf < mmr => (lf + mmr) / 2,
        0..=74 => lf.min(mmr) / 2,
        _ => -(d / 100) * r.range(3, 20) as i64,
    };
    let (vi, victim) = match existing {
        Some(p) => match vis.iter().find(|v| v.id == p.v && v.usable()) {
            Some(v) => (v.idx, p.t),
            None => return false,
        },
        None => {
            let usable: Vec<&VInfo> = vis.iter().filter(|v| v.usable()).collect();
            if usable.is_empty() || w.engine_paused() {
                return false;
            }
            let v = usable[r.below(usable.len() as u64) as usize];
            let free: Vec<u64> = TRADERS.iter().cloned().filter(|t| !ps.iter().any(|p| p.v == v.id && p.t == *t)).collect();
            if free.is_empty() {
                return false;
            }
            let victim = free[r.below(free.len() as u64) as usize];
            g.plan.push_back(Plan::VictimOpen { vi: v.idx, victim, long: r.chance(1, 2) });
            (v.idx, victim)
        }
    };
    // the victim also holds a (small, healthy) position on ANOTHER market of the same engine and fund: a liquidation names one
    // (vAMM, trader) record and must leave the trader's other records alone, whatever the fund can or cannot pay
    if r.chance(1, 3) {
        if let Some(v2) = vis.iter().find(|x| x.idx != vi && x.usable()) {
            if !ps.iter().any(|p| p.v == v2.id && p.t == victim) {
                g.plan.push_front(Plan::OpenFrac { vi: v2.idx, trader: victim, long: r.chance(1, 2), frac_ppm: 10_000, high: false });
            }
        }
    }
    // variant (one in four): the oracle is aligned BEFORE the push and then left alone, so that at liquidation time the
    // market is far away from the oracle and the oracle-priced ratio (funding since the checkpoint included) decides
    let oracle_stays = r.chance(1, 4);
    if oracle_stays {
        g.plan.push_back(Plan::AlignOracle { vi });
    }
    g.plan.push_back(Plan::Push { vi, victim, target_bp: target, steps_left: 6 });
    if !oracle_stays {
        g.plan.push_back(Plan::AlignOracle { vi });
    }
    if target < 0 && r.chance(1, 2) {
        // instead of being liquidated the victim tops the margin up to an equity of exactly -1 / 0 / +1 and closes
        let k = *r.pick(&[0u64, 1, 1, 2]);
        g.plan.push_back(Plan::TraderOp { vi, who: Who::Id(victim), op: TOp::DepositToZero(k), block: Blk::Next });
        g.plan.push_back(Plan::TraderOp { vi, who: Who::Id(victim), op: TOp::Close, block: Blk::Same });
    }
    if target < 0 && r.chance(1, 3) {
        // an under-water position reversed by its owner (the reversal settles the shortfall with the trader; with fees
        // larger than the shortfall the native bookkeeping of the required coins nets the two)
        g.plan.push_back(Plan::TraderOp { vi, who: Who::Id(victim), op: TOp::Reverse, block: Blk::Next });
    }
    if existing.is_none() && r.chance(1, 6) {
        // a bystander holding 6 % of the pool since an earlier block; band of 10 % and partial ratio 1/4 set just before the
        // liquidation; in the liquidation block the bystander closes (the engine turns that into a PARTIAL close), closes again
        // and opens — the second and third action must be refused
        let vid = vis.iter().find(|x| x.idx == vi).map(|x| x.id).unwrap_or(0);
        if let Some(b) = TRADERS.iter().cloned().find(|t| *t != victim && !ps.iter().any(|p| p.v == vid && p.t == *t)) {
            g.plan.push_front(Plan::OpenFrac { vi, trader: b, long: r.chance(1, 2), frac_ppm: 60_000, high: false });
            g.plan.push_back(Plan::Config { vi, kind: CKind::PlrQuarter, legit: true, trader: b });
            g.plan.push_back(Plan::Config { vi, kind: CKind::VFluctTen, legit: true, trader: b });
            g.plan.push_back(Plan::Liq { vi, victim, first: false });
            g.plan.push_back(Plan::TraderOp { vi, who: Who::Id(b), op: TOp::Close, block: Blk::Same });
            g.plan.push_back(Plan::TraderOp { vi, who: Who::Id(b), op: TOp::Close, block: Blk::Same });
            g.plan.push_back(Plan::TraderOp { vi, who: Who::Id(b), op: TOp::OpenSame, block: Blk::Same });
            g.plan.push_back(Plan::Config { vi, kind: CKind::VFluctOff, legit: true, trader: b });
            return true;
        }
    }
    if existing.is_none() && r.chance(1, 6) {
        // band of 10 %; in the liquidation block a bystander first trades the spot price EXACTLY onto the edge of the band (on the
        // side that hurts the victim): the price is then at the edge, not outside it — the liquidation that follows in the same
        // block must go through, a further order in the bystander's direction must be refused, one in the other direction accepted
        let vid = vis.iter().find(|x| x.idx == vi).map(|x| x.id).unwrap_or(0);
        if let Some(b) = TRADERS.iter().cloned().find(|t| *t != victim && !ps.iter().any(|p| p.v == vid && p.t == *t)) {
            g.plan.push_back(Plan::Config { vi, kind: CKind::VFluctTen, legit: true, trader: b });
            g.plan.push_back(Plan::TraderOp { vi, who: Who::Id(b), op: TOp::OpenToBandEdge(victim), block: Blk::Next });
            g.plan.push_back(Plan::LiqBy { vi, by: LIQUIDATOR, block: Blk::Same });
            if let Some(c) = TRADERS.iter().cloned().find(|t| *t != victim && *t != b && !ps.iter().any(|p| p.v == vid && p.t == *t)) {
                g.plan.push_back(Plan::TraderOp { vi, who: Who::Id(c), op: TOp::OpenSame, block: Blk::Same });
            }
            g.plan.push_back(Plan::Config { vi, kind: CKind::VFluctOff, legit: true, trader: b });
            return true;
        }
    }
    if target < 0 && r.chance(1, 4) {
        // the engine is paused while the (under-water) victim is liquidated: Liquidate stays available, bad debt included
        g.plan.push_back(Plan::Pause { p: true });
        g.plan.push_back(Plan::Liq { vi, victim, first: false });
        g.plan.push_back(Plan::PayFunding { vi, by: STRANGER, block: Blk::Free });
        g.plan.push_back(Plan::Pause { p: false });
        return true;
    }
    if target > 0 && r.chance(1, 5) {
        // the owner submits ratios outside 0..100 % right before the liquidation (each update must be refused and change nothing):
        // "whatever the partial-liquidation setting" quantifies over the settings the engine ACCEPTS
        g.plan.push_back(Plan::Config { vi, kind: CKind::PlrOver, legit: true, trader: victim });
        g.plan.push_back(Plan::Liq { vi, victim, first: true });
        return true;
    }
    let plr_now = w.engine_config().map(|c| c.partial_liquidation_ratio.u128()).unwrap_or(0);
    if plr_now != 0 && target > 0 && r.chance(1, 3) {
        // a partial liquidation whose fee is zero (fee ratio 0), then — fee ratio restored — a second liquidation of the
        // remainder by whoever comes next: nothing of the first may linger
        g.plan.push_back(Plan::Config { vi, kind: CKind::LfSet(0), legit: true, trader: victim });
        g.plan.push_back(Plan::Liq { vi, victim, first: false });
        g.plan.push_back(Plan::Config { vi, kind: CKind::LfSet(1), legit: true, trader: victim });
        g.plan.push_back(Plan::LiqBy { vi, by: STRANGER, block: Blk::Free });
        g.plan.push_back(Plan::LiqBy { vi, by: LIQUIDATOR, block: Blk::Free });
        return true;
    }
    // a bystander market is delisted right before the liquidation and listed again after it: the victim's market stays registered
    // whatever its place in the fund's list (C07 / C14: the registry is what its owner's accepted adds and removes leave).
    // Decided by a hash of (seed, history): no draw from the history's PRNG
    let hd = w.cfg.seed.wrapping_mul(0xA24B_AED4).wrapping_add(w.cfg.h.wrapping_mul(0x9FB2_1C65)) >> 6;
    let others: Vec<&VInfo> = vis.iter().filter(|x| x.registered && x.idx != vi).collect();
    if !others.is_empty() && hd % 3 == 1 {
        let o = others[((hd >> 4) % others.len() as u64) as usize];
        g.plan.push_back(Plan::IfRm { vi: o.idx });
        g.plan.push_back(Plan::Liq { vi, victim, first: false });
        g.plan.push_back(Plan::IfAdd { vi: o.idx });
        return true;
    }
    g.plan.push_back(Plan::Liq { vi, victim, first: true });
    true
}

/// turns the next plan entry into a transaction; `None` when the entry is not applicable (skipped)
fn realize(w: &World, r: &mut Rng, g: &mut GenCtx, plan: &Plan, vis: &[VInfo], ps: &[PosInfo]) -> Option<Draft> {
    let d = w.cfg.d;
    let ec = w.engine_config()?;
    let imr = ec.initial_margin_ratio.u128().max(1);
    let maxlev = d * d / imr;
    match plan {
        Plan::VictimOpen { vi, victim, long } => {
            let v = vis.iter().find(|x| x.idx == *vi)?;
            let frac_ppm: u128 = if v.fluct != 0 { (v.fluct * 1_000_000 / d / 3).min(20_000).max(1000) } else { r.range(10_000, 50_000) as u128 };
            let notional = v.q * frac_ppm / 1_000_000;
            // at imr == mmr the maximum leverage is rejected after the swap (rounding makes pnl -1)
            let lev = if ec.maintenance_margin_ratio < ec.initial_margin_ratio { maxlev } else { (maxlev * 97 / 100).max(d) };
            let margin = mul_div(notional, d, lev).max(1000);
            let side = if *long { 0 } else { 1 };
            let mut dr = draft(*victim, Msg::Open { v: v.id, side, margin, lev, lim: 0 });
            if w.cfg.native {
                dr.funds = open_funds(w, Some(v), None, side, margin, lev);
            }
            dr.min_blocks = 1;
            dr.min_dt = 5;
            Some(dr)
        }
        Plan::Push { vi, victim, target_bp, steps_left } => {
            let v = vis.iter().find(|x| x.idx == *vi)?;
            let p = ps.iter().find(|p| p.v == v.id && p.t == *victim)?;
            let (q, b) = (v.q as f64, v.b as f64);
            let k = q * b;
            let s = p.size as f64;
            let m = p.margin as f64;
            let n = p.notional as f64;
            let long = p.dir == 0;
            let target = *target_bp as f64 / d as f64;
            let ratio_at = |x: f64| -> f64 {
                if long {
                    let q1 = q - x;
                    let b1 = k / q1;
                    let n1 = q1 - k / (b1 + s);
                    (m + n1 - n) / n1
                } else {
                    let q1 = q + x;
                    let b1 = k / q1;
                    if b1 <= s * 1.0001 {
                        return -1e9;
                    }
                    let n1 = k / (b1 - s) - q1;
                    (m + n - n1) / n1
                }
            };
            if ratio_at(0.0) <= target {
                return None;
            }
            let (mut lo, mut hi) = (0.0f64, if long { 0.9 * q } else { 20.0 * q });
            for _ in 0..60 {
                let mid = (lo + hi) / 2.0;
                if ratio_at(mid) > target {
                    lo = mid;
                } else {
                    hi = mid;
                }
            }
            let needed = hi;
            let mut x = needed;
            let mut last = true;
            if v.fluct != 0 {
                let f = 0.85 * v.fluct as f64 / d as f64;
                let stepmax = if long { q * (1.0 - (1.0 - f).sqrt()) } else { q * ((1.0 + f).sqrt() - 1.0) };
                if needed > stepmax {
                    x = stepmax;
                    last = false;
                }
            }
            // attacker: richest trader other than the victim, preferably without an opposite position
            let side = if long { 1 } else { 0 };
            let mut cands: Vec<(u128, u64)> = TRADERS
                .iter()
                .filter(|t| **t != *victim)
                .filter(|t| !ps.iter().any(|pp| pp.v == v.id && pp.t == **t && pp.dir != side))
                .map(|t| (w.balance_id(*t), *t))
                .collect();
            if cands.is_empty() {
                cands = TRADERS.iter().filter(|t| **t != *victim).map(|t| (w.balance_id(*t), *t)).collect();
            }
            cands.sort();
            let (bal, attacker) = *cands.last()?;
            let lev = (maxlev * 9 / 10).max(d).min(10 * d);
            let mut margin = mul_div(x as u128, d, lev) + 1;
            let fee_mult = d + mul_div(lev, v.toll + v.spread, d);
            let cap = mul_div(bal, d * 9 / 10, fee_mult.max(1));
            if margin > cap {
                margin = cap;
                last = true; // cannot do better
            }
            if margin == 0 {
                return None;
            }
            if !last && *steps_left > 1 {
                g.plan.push_front(Plan::Push { vi: *vi, victim: *victim, target_bp: *target_bp, steps_left: steps_left - 1 });
            }
            let apos = ps.iter().find(|pp| pp.v == v.id && pp.t == attacker);
            let mut dr = draft(attacker, Msg::Open { v: v.id, side, margin, lev, lim: 0 });
            if w.cfg.native {
                dr.funds = open_funds(w, Some(v), apos, side, margin, lev);
            }
            dr.min_blocks = 1;
            dr.min_dt = 6;
            Some(dr)
        }
        Plan::AlignOracle { vi } => {
            let v = vis.iter().find(|x| x.idx == *vi)?;
            let snd = if w.cfg.real_feed { w.feed_owner() } else { *r.pick(&[OWNER, LIQUIDATOR, STRANGER]) };
            let now = w.app.block_info().time.seconds();
            Some(draft(snd, Msg::Oracle { price: v.spot(d), ts: now }))
        }
        Plan::OracleSkew { vi, trader } => {
            let v = vis.iter().find(|x| x.idx == *vi)?;
            let p = ps.iter().find(|p| p.v == v.id && p.t == *trader && p.size != 0)?;
            let long = p.sneg == 0;
            let snd = if w.cfg.real_feed { w.feed_owner() } else { OWNER };
            let now = w.app.block_info().time.seconds();
            // a long pays when the market trades above the oracle, a short when below
            let price = if long { (v.spot(d) / 3).max(1) } else { v.spot(d).saturating_mul(3) };
            Some(draft(snd, Msg::Oracle { price, ts: now }))
        }
        Plan::OracleSkewRecv { vi, trader } => {
            let v = vis.iter().find(|x| x.idx == *vi)?;
            let p = ps.iter().find(|p| p.v == v.id && p.t == *trader && p.size != 0)?;
            let long = p.sneg == 0;
            let snd = if w.cfg.real_feed { w.feed_owner() } else { OWNER };
            let now = w.app.block_info().time.seconds();
            // a long receives when the oracle is above the market, a short when it is below
            let price = if long { v.spot(d).saturating_mul(11) / 10 } else { (v.spot(d) * 10 / 11).max(1) };
            Some(draft(snd, Msg::Oracle { price, ts: now }))
        }
        Plan::Call { by, msg } => Some(draft(*by, msg.clone())),
        Plan::FundingRound { vi } => {
            let v = vis.iter().find(|x| x.idx == *vi)?;
            let period = w.cfg.vamms.get(v.idx).map(|i| i.period).unwrap_or(3600);
            let mut dr = draft(STRANGER, Msg::PayFunding { v: v.id });
            dr.min_blocks = 1;
            dr.min_dt = period + 1;
            Some(dr)
        }
        Plan::Liq { vi, victim, first } => {
            let v = vis.iter().find(|x| x.idx == *vi)?;
            ps.iter().find(|p| p.v == v.id && p.t == *victim)?;
            if *first && r.chance(60, 100) {
                g.plan.push_back(Plan::Liq { vi: *vi, victim: *victim, first: false });
            }
            let mut dr = draft(liq_sender(r), Msg::Liq { v: v.id, trader: *victim, lim: 0 });
            dr.min_blocks = 1;
            dr.min_dt = if *first { r.range(900, 1500) } else { r.range(5, 30) };
            Some(dr)
        }
        Plan::OpenFrac { vi, trader, long, frac_ppm, high } => {
            let v = vis.iter().find(|x| x.idx == *vi)?;
            let mut frac = *frac_ppm;
            if v.fluct != 0 {
                frac = frac.min(v.fluct * 1_000_000 / d / 3).max(1000);
            }
            let notional = v.q * frac / 1_000_000;
            let strict = ec.maintenance_margin_ratio < ec.initial_margin_ratio;
            let lev = if *high {
                if strict { maxlev } else { (maxlev * 97 / 100).max(d) }
            } else {
                (2 * d).min(maxlev)
            };
            let bal = w.balance_id(*trader);
            let fee_mult = d + mul_div(lev, v.toll + v.spread, d);
            let cap = mul_div(bal, d * 8 / 10, fee_mult.max(1));
            let margin = mul_div(notional, d, lev).max(1000).min(cap.max(1));
            let side = if *long { 0 } else { 1 };
            let pos = ps.iter().find(|pp| pp.v == v.id && pp.t == *trader);
            let mut dr = draft(*trader, Msg::Open { v: v.id, side, margin, lev, lim: 0 });
            if w.cfg.native {
                dr.funds = open_funds(w, Some(v), pos, side, margin, lev);
            }
            dr.min_blocks = 1;
            dr.min_dt = 6;
            Some(dr)
        }
        Plan::CloseBy { vi, trader } => {
            let v = vis.iter().find(|x| x.idx == *vi)?;
            ps.iter().find(|p| p.v == v.id && p.t == *trader)?;
            let mut dr = draft(*trader, Msg::Close { v: v.id, lim: 0 });
            dr.min_blocks = 1;
            dr.min_dt = 6;
            Some(dr)
        }
        Plan::CloseVamm { vi } => {
            let v = vis.iter().find(|x| x.idx == *vi)?;
            if !v.open {
                return None;
            }
            Some(draft(w.vamm_owner(&v.addr), Msg::VSetOpen { v: v.id, uopen: 0 }))
        }
        Plan::Shutdown => Some(draft(w.if_owner(), Msg::IfShutdown)),
        Plan::TraderOp { vi, who, op, block } => {
            let v = vis.iter().find(|x| x.idx == *vi)?;
            let trader = match who {
                Who::Id(t) => *t,
                Who::Holder(t) => ps.iter().find(|p| p.v == v.id && p.t == *t)?.t,
                Who::Bystander(a, b) => ps.iter().find(|p| p.v == v.id && p.t != *a && p.t != *b)?.t,
            };
            let pos = ps.iter().find(|p| p.v == v.id && p.t == trader);
            // the liquidated trader only acts while a position remains; everybody else may act without one
            let lev = (2 * d).min(maxlev);
            let value = |p: &PosInfo| -> u128 {
                w.q::<Uint128, _>(&v.addr, &vamm::QueryMsg::OutputAmount { direction: dirq(p.dir), amount: Uint128::new(p.size) })
                    .map(|x| x.u128())
                    .unwrap_or(p.notional)
                    .max(1)
            };
            let open = |side: u64, notional: u128| -> Draft {
                let margin = mul_div(notional, d, lev).max(1);
                let mut dr = draft(trader, Msg::Open { v: v.id, side, margin, lev, lim: 0 });
                if w.cfg.native {
                    dr.funds = open_funds(w, Some(v), pos, side, margin, lev);
                }
                dr
            };
            let mut dr = match (op, pos) {
                (TOp::OpenDustAny(n), _) => {
                    let mut dr = draft(trader, Msg::Open { v: v.id, side: 0, margin: *n as u128, lev: d, lim: 0 });
                    if w.cfg.native {
                        dr.funds = open_funds(w, Some(v), pos, 0, *n as u128, d);
                    }
                    dr
                }
                (TOp::OpenDust(n), None) => {
                    // 1x: margin = notional = n raw units (at 2x the rounding of the first valuation already eats the margin)
                    let mut dr = draft(trader, Msg::Open { v: v.id, side: 0, margin: *n as u128, lev: d, lim: 0 });
                    if w.cfg.native {
                        dr.funds = open_funds(w, Some(v), pos, 0, *n as u128, d);
                    }
                    dr
                }
                (TOp::OpenSame, Some(p)) => open(p.dir, (value(p) / 8).max(d)),
                (TOp::OpenSame, None) => open(0, (v.q / 200).max(d)),
                (TOp::Reduce, Some(p)) => open(1 - p.dir, (value(p) / 2).max(1)),
                (TOp::Reverse, Some(p)) => open(1 - p.dir, value(p) * 3 / 2 + d),
                (TOp::ReverseBig, Some(p)) => open(1 - p.dir, value(p) * 3 + d),
                (TOp::Deposit, Some(p)) => {
                    let amt = (p.margin / 10).max(1);
                    let mut dr = draft(trader, Msg::Deposit { v: v.id, amt });
                    if w.cfg.native {
                        dr.funds = amt;
                    }
                    dr
                }
                (TOp::Withdraw, Some(p)) => {
                    let fc = w.free_collateral(&p.vaddr, &p.taddr).filter(|x| !x.negative).map(|x| x.value.u128()).unwrap_or(0);
                    draft(trader, Msg::Withdraw { v: v.id, amt: (fc / 2).max(1) })
                }
                (TOp::Close, _) => draft(trader, Msg::Close { v: v.id, lim: 0 }),
                (TOp::OpenToOiCap(k), _) => {
                    let cf: vamm::ConfigResponse = w.q(&v.addr, &vamm::QueryMsg::Config {})?;
                    let cap = cf.open_interest_notional_cap.u128();
                    let oi = w.engine_oi();
                    if cap == 0 || oi > cap {
                        return None;
                    }
                    let n = cap - oi + *k as u128;
                    if n == 0 {
                        return None;
                    }
                    let side = pos.map(|p| p.dir).unwrap_or(0);
                    let mut dr = draft(trader, Msg::Open { v: v.id, side, margin: n, lev: d, lim: 0 });
                    if w.cfg.native {
                        dr.funds = open_funds(w, Some(v), pos, side, n, d);
                    }
                    dr
                }
                (TOp::OpenToHoldCap(k), _) => {
                    let cf: vamm::ConfigResponse = w.q(&v.addr, &vamm::QueryMsg::Config {})?;
                    let cap = cf.base_asset_holding_cap.u128();
                    let cur = pos.map(|p| p.size).unwrap_or(0);
                    if cap == 0 || cur > cap {
                        return None;
                    }
                    let target = cap - cur + *k as u128;
                    if target == 0 {
                        return None;
                    }
                    let side = pos.map(|p| p.dir).unwrap_or(0);
                    // the order is denominated in quote: look for the notional whose quoted base amount is the target
                    let base_of = |q: u128| -> u128 {
                        w.q::<Uint128, _>(&v.addr, &vamm::QueryMsg::InputAmount { direction: dirq(side), amount: Uint128::new(q) })
                            .map(|x| x.u128())
                            .unwrap_or(u128::MAX)
                    };
                    let (mut lo, mut hi) = (1u128, v.q.saturating_mul(4).max(2));
                    while lo < hi {
                        let mid = lo + (hi - lo) / 2;
                        if base_of(mid) < target { lo = mid + 1 } else { hi = mid }
                    }
                    if base_of(lo) != target {
                        return None;
                    }
                    let mut dr = draft(trader, Msg::Open { v: v.id, side, margin: lo, lev: d, lim: 0 });
                    if w.cfg.native {
                        dr.funds = open_funds(w, Some(v), pos, side, lo, d);
                    }
                    dr
                }
                (TOp::DepositToZero(k), Some(p)) if p.size != 0 => {
                    let val = value(p) as i128;
                    let pnl = if p.dir == 0 { val - p.notional as i128 } else { p.notional as i128 - val };
                    let mf = w
                        .q::<margined_perp::margined_engine::Position, _>(
                            &w.engine,
                            &margined_perp::margined_engine::QueryMsg::PositionWithFundingPayment { vamm: p.vaddr.clone(), trader: p.taddr.clone() },
                        )
                        .map(|x| x.margin.u128())
                        .unwrap_or(p.margin) as i128;
                    let equity = mf + pnl;
                    let amt = -equity + (*k as i128 - 1);
                    if amt <= 0 {
                        return None;
                    }
                    let amt = amt as u128;
                    let mut dr = draft(trader, Msg::Deposit { v: v.id, amt });
                    if w.cfg.native {
                        dr.funds = amt;
                    }
                    dr
                }
                (TOp::FlatReverse, Some(p)) if p.size != 0 => open(1 - p.dir, value(p) + lev / d + 1),
                (TOp::AfterFlat(k), Some(p)) if p.size == 0 => {
                    let side = 1 - p.dir;
                    let notional = (v.q / 200).max(d);
                    let mut dr = open(side, notional);
                    let n = if let Msg::Open { margin, lev, .. } = &dr.msg { mul_div(*margin, *lev, d) } else { notional };
                    let b = w
                        .q::<Uint128, _>(&v.addr, &vamm::QueryMsg::InputAmount { direction: dirq(side), amount: Uint128::new(n) })
                        .map(|x| x.u128())
                        .unwrap_or(1);
                    let want = match (k, side) {
                        (0, 0) => b.saturating_add(1),
                        (0, _) => b.saturating_sub(1).max(1),
                        _ => b,
                    };
                    if let Msg::Open { lim, .. } = &mut dr.msg {
                        *lim = want;
                    }
                    dr
                }
                (TOp::OpenToBandEdge(victim), _) => {
                    if v.fluct == 0 || v.b == 0 {
                        return None;
                    }
                    let vp = ps.iter().find(|p| p.v == v.id && p.t == *victim)?;
                    let side: u64 = if vp.dir == 0 { 1 } else { 0 };
                    // the band of the NEXT block is taken around the price the reserves have now
                    let last = v.spot(d);
                    let edge = if side == 0 { mul_div(last, d + v.fluct, d) } else { mul_div(last, d.saturating_sub(v.fluct), d) };
                    let price_after = |n: u128| -> Option<u128> {
                        let b = w.q::<Uint128, _>(&v.addr, &vamm::QueryMsg::InputAmount { direction: dirq(side), amount: Uint128::new(n) })?.u128();
                        if side == 0 {
                            let nb = v.b.checked_sub(b)?;
                            if nb == 0 {
                                return None;
                            }
                            Some(mul_div(v.q.checked_add(n)?, d, nb))
                        } else {
                            Some(mul_div(v.q.checked_sub(n)?, d, v.b.checked_add(b)?))
                        }
                    };
                    let inside = |n: u128| -> bool {
                        match price_after(n) {
                            Some(p) => {
                                if side == 0 {
                                    p <= edge
                                } else {
                                    p >= edge
                                }
                            }
                            None => false,
                        }
                    };
                    let (mut lo, mut hi) = (0u128, v.q / 3);
                    if inside(hi) {
                        return None;
                    }
                    while hi - lo > 1 {
                        let mid = lo + (hi - lo) / 2;
                        if inside(mid) {
                            lo = mid;
                        } else {
                            hi = mid;
                        }
                    }
                    if lo == 0 {
                        return None;
                    }
                    let mut dr = draft(trader, Msg::Open { v: v.id, side, margin: lo, lev: d, lim: 0 });
                    if w.cfg.native {
                        dr.funds = open_funds(w, Some(v), pos, side, lo, d);
                    }
                    dr
                }
                (TOp::IncreaseLim(k), Some(p)) if p.size != 0 => {
                    // the side is taken from the SIGN of the stored size, not from the stored direction (which is what a defect may leave stale)
                    let side: u64 = if p.sneg == 0 { 0 } else { 1 };
                    let mut dr = open(side, value(p) * 3 / 2 + d);
                    let n = if let Msg::Open { margin, lev, .. } = &dr.msg { mul_div(*margin, *lev, d) } else { 0 };
                    let b = w
                        .q::<Uint128, _>(&v.addr, &vamm::QueryMsg::InputAmount { direction: dirq(side), amount: Uint128::new(n) })
                        .map(|x| x.u128())
                        .unwrap_or(1);
                    let want = match (k, side) {
                        (0, 0) => b.saturating_add(1),
                        (0, _) => b.saturating_sub(1).max(1),
                        _ => b,
                    };
                    if let Msg::Open { lim, .. } = &mut dr.msg {
                        *lim = want;
                    }
                    dr
                }
                (TOp::CloseLim(k), Some(p)) => {
                    let q = value(p);
                    let lim = match k {
                        0 => q,
                        1 => q.saturating_add(1),
                        _ => q.saturating_sub(1).max(1),
                    };
                    draft(trader, Msg::Close { v: v.id, lim })
                }
                _ => return None,
            };
            dr.block = *block;
            Some(dr)
        }
        Plan::LiqAny { vi, block } => {
            let v = vis.iter().find(|x| x.idx == *vi)?;
            let on_v: Vec<PosInfo> = ps.iter().filter(|p| p.v == v.id).cloned().collect();
            let rs = ratios(w, &on_v);
            let target = rs.first().map(|x| x.0.t).or_else(|| on_v.first().map(|p| p.t))?;
            let mut dr = draft(LIQUIDATOR, Msg::Liq { v: v.id, trader: target, lim: 0 });
            dr.block = *block;
            Some(dr)
        }
        Plan::LiqBy { vi, by, block } => {
            let v = vis.iter().find(|x| x.idx == *vi)?;
            let on_v: Vec<PosInfo> = ps.iter().filter(|p| p.v == v.id && p.t != *by).cloned().collect();
            let rs = ratios(w, &on_v);
            let target = rs.first().map(|x| x.0.t).or_else(|| on_v.first().map(|p| p.t))?;
            let mut dr = draft(*by, Msg::Liq { v: v.id, trader: target, lim: 0 });
            dr.block = *block;
            Some(dr)
        }
        Plan::PayFunding { vi, by, block } => {
            let v = vis.iter().find(|x| x.idx == *vi)?;
            let mut dr = draft(*by, Msg::PayFunding { v: v.id });
            dr.block = *block;
            Some(dr)
        }
        Plan::IfRm { vi } => {
            let v = vis.iter().find(|x| x.idx == *vi)?;
            Some(draft(w.if_owner(), Msg::IfRm { v: v.id }))
        }
        Plan::IfAdd { vi } => {
            let v = vis.iter().find(|x| x.idx == *vi)?;
            Some(draft(w.if_owner(), Msg::IfAdd { v: v.id }))
        }
        Plan::VSet { vi, open } => {
            let v = vis.iter().find(|x| x.idx == *vi)?;
            Some(draft(w.vamm_owner(&v.addr), Msg::VSetOpen { v: v.id, uopen: *open as u64 }))
        }
        Plan::Pause { p } => Some(draft(w.pauser(), Msg::Pause { p: *p as u64 })),
        Plan::Config { vi, kind, legit, trader } => {
            let v = vis.iter().find(|x| x.idx == *vi)?;
            Some(config_msg(w, r, v, *kind, *legit, *trader))
        }
        Plan::Alias { vi, victim, op } => {
            let v = vis.iter().find(|x| x.idx == *vi)?;
            let p = ps.iter().find(|p| p.v == v.id && p.t == *victim)?;
            let (snd, alias) = if *victim == 101 { (ICE, v.id + ALIAS_AL) } else { (ROL, v.id + ALIAS_CA) };
            let mut dr = match op {
                AOp::Deposit(big) => {
                    let amt = if *big { p.margin.max(1) } else { d };
                    let mut dr = draft(snd, Msg::Deposit { v: alias, amt });
                    dr.funds = amt;
                    dr
                }
                AOp::Withdraw(big) => draft(snd, Msg::Withdraw { v: alias, amt: if *big { p.margin.max(1) } else { 1 } }),
                AOp::Open(side) => {
                    let lev = (2 * d).min(maxlev);
                    let margin = (p.margin / 4).max(d);
                    let mut dr = draft(snd, Msg::Open { v: alias, side: *side, margin, lev, lim: 0 });
                    dr.funds = open_funds(w, Some(v), None, *side, margin, lev);
                    dr
                }
                AOp::Liq => draft(snd, Msg::Liq { v: alias, trader: snd, lim: 0 }),
                AOp::Close => draft(snd, Msg::Close { v: alias, lim: 0 }),
            };
            if !w.cfg.native {
                dr.funds = 0;
            }
            Some(dr)
        }
    }
}

/// One configuration update built around the validation logic of `update_config` (engine and vAMM).
fn config_msg(w: &World, r: &mut Rng, v: &VInfo, kind: CKind, legit: bool, trader: u64) -> Draft {
    let d = w.cfg.d;
    let ec = w.engine_config();
    let (imr, mmr) = ec
        .as_ref()
        .map(|c| (c.initial_margin_ratio.u128(), c.maintenance_margin_ratio.u128()))
        .unwrap_or((w.cfg.imr, w.cfg.mmr));
    let eowner = ec.as_ref().map(|c| w.id(c.owner.as_str())).unwrap_or(OWNER);
    let who = |r: &mut Rng, rightful: u64| if legit { rightful } else { any_sender(r) };
    let edge = |r: &mut Rng| -> u128 {
        match r.below(6) {
            0 => 0,
            1 => d,
            2 => d + 1,
            3 => d / 10,
            _ => r.below128(d / 2 + 1),
        }
    };
    let ecfg = |uimr: Option<u128>, ummr: Option<u128>, uplr: Option<u128>, ulf: Option<u128>| Msg::ECfg {
        uowner: None,
        uifd: None,
        ufp: None,
        uimr,
        ummr,
        uplr,
        ulf,
    };
    let vcfg0 = |v: u64| Msg::VCfg { v, ucap: None, uoic: None, utoll: None, uspread: None, ufluct: None, ueng: None, uifd: None, ufeed: None, utwi: None };
    let init = w.cfg.vamms.get(v.idx).cloned();
    match kind {
        CKind::Pair(rel) => {
            let (ni, nm) = match rel {
                // new mmr > new imr
                0 => {
                    let ni = r.below128(d / 2 + 1);
                    (ni, ni + 1 + r.below128(d / 10 + 1))
                }
                // new pair consistent, but the new imr is below the stored mmr
                1 => {
                    let ni = mmr.saturating_sub(1 + r.below128(mmr / 2 + 1));
                    (ni, r.below128(ni + 1))
                }
                // new pair consistent, but the new mmr is above the stored imr
                2 => {
                    let nm = (imr + 1 + r.below128(d / 10 + 1)).min(d);
                    (nm + r.below128(d - nm + 1), nm)
                }
                3 => {
                    let x = edge(r);
                    (x, x)
                }
                // both raised
                4 => {
                    let ni = (imr + r.below128(d / 10 + 1) + 1).min(d);
                    (ni, (mmr + r.below128(d / 20 + 1) + 1).min(ni))
                }
                // both lowered
                _ => {
                    let nm = mmr.saturating_sub(r.below128(mmr / 2 + 1) + 1);
                    (imr.saturating_sub(r.below128(imr / 2 + 1) + 1).max(nm), nm)
                }
            };
            draft(who(r, eowner), ecfg(Some(ni), Some(nm), None, None))
        }
        CKind::SingleRatio => {
            let x = edge(r);
            let m = match r.below(4) {
                0 | 1 => ecfg(Some(x), None, None, None),
                _ => ecfg(None, Some(x), None, None),
            };
            draft(who(r, eowner), m)
        }
        CKind::PlrLf => {
            let x = *r.pick(&[0, d / 4, d, d + 1]);
            let y = *r.pick(&[0, d / 4, d, d + 1, d / 40]);
            let m = match r.below(3) {
                0 => ecfg(None, None, Some(x), None),
                1 => ecfg(None, None, None, Some(y)),
                _ => ecfg(None, None, Some(x), Some(y)),
            };
            draft(who(r, eowner), m)
        }
        CKind::Rewire(what) => {
            let mut m = Msg::ECfg { uowner: None, uifd: None, ufp: None, uimr: None, ummr: None, uplr: None, ulf: None };
            if let Msg::ECfg { uowner, uifd, ufp, .. } = &mut m {
                match what {
                    0 => *uowner = Some(NEWOWNER),
                    1 => *ufp = Some(NEWOWNER),
                    4 => *ufp = Some(STRANGER),
                    3 => {}
                    _ => *uifd = Some(STRANGER),
                }
            }
            if what == 3 {
                let own = w.vamm_owner(&v.addr);
                let mut m = vcfg0(v.id);
                if let Msg::VCfg { uifd, .. } = &mut m {
                    *uifd = Some(STRANGER);
                }
                return draft(who(r, own), m);
            }
            draft(who(r, eowner), m)
        }
        CKind::VFees => {
            let own = w.vamm_owner(&v.addr);
            let mut m = vcfg0(v.id);
            if let Msg::VCfg { utoll, uspread, .. } = &mut m {
                *utoll = Some(*r.pick(&[d / 100, d / 200, d / 1000]));
                *uspread = Some(*r.pick(&[d / 100, d / 200, d / 1000]));
            }
            draft(own, m)
        }
        CKind::PlrOne => draft(eowner, ecfg(None, None, Some(d), None)),
        CKind::PlrQuarter => draft(eowner, ecfg(None, None, Some(d / 4), None)),
        CKind::PlrOver => draft(eowner, ecfg(None, None, Some(d + d / 4), None)),
        CKind::VFluctTight => {
            let own = w.vamm_owner(&v.addr);
            let mut m = vcfg0(v.id);
            if let Msg::VCfg { ufluct, .. } = &mut m {
                *ufluct = Some(*r.pick(&[d / 1000, d / 200, d / 50]));
            }
            draft(own, m)
        }
        CKind::LfSet(k) => draft(eowner, ecfg(None, None, None, Some(if k == 0 { 0 } else { d / 40 + 1 }))),
        CKind::VFluctTen => {
            let own = w.vamm_owner(&v.addr);
            let mut m = vcfg0(v.id);
            if let Msg::VCfg { ufluct, .. } = &mut m {
                *ufluct = Some(d / 10);
            }
            draft(own, m)
        }
        CKind::VFluctOff => {
            let own = w.vamm_owner(&v.addr);
            let mut m = vcfg0(v.id);
            if let Msg::VCfg { ufluct, .. } = &mut m {
                *ufluct = Some(0);
            }
            draft(own, m)
        }
        CKind::Unwire(what) => {
            let mut m = Msg::ECfg { uowner: None, uifd: None, ufp: None, uimr: None, ummr: None, uplr: None, ulf: None };
            if let Msg::ECfg { uowner, uifd, ufp, .. } = &mut m {
                match what {
                    0 => *uowner = Some(OWNER),
                    1 | 4 => *ufp = Some(FEEPOOL),
                    3 => {}
                    _ => *uifd = Some(IFUND),
                }
            }
            if what == 3 {
                let own = w.vamm_owner(&v.addr);
                let mut m = vcfg0(v.id);
                if let Msg::VCfg { uifd, .. } = &mut m {
                    *uifd = Some(IFUND);
                }
                return draft(own, m);
            }
            draft(eowner, m)
        }
        CKind::VRatios => {
            let own = w.vamm_owner(&v.addr);
            let mut m = vcfg0(v.id);
            if let Msg::VCfg { utoll, uspread, ufluct, .. } = &mut m {
                let val = |r: &mut Rng| Some(*r.pick(&[0, d, d + 1, d / 100]));
                match r.below(6) {
                    0 => *utoll = val(r),
                    1 => *uspread = val(r),
                    2 => *ufluct = val(r),
                    3 => {
                        *utoll = val(r);
                        *uspread = val(r);
                    }
                    4 => {
                        *uspread = val(r);
                        *ufluct = val(r);
                    }
                    _ => {
                        *utoll = val(r);
                        *uspread = val(r);
                        *ufluct = val(r);
                    }
                }
            }
            draft(who(r, own), m)
        }
        CKind::VTwi => {
            let own = w.vamm_owner(&v.addr);
            let mut m = vcfg0(v.id);
            if let Msg::VCfg { utwi, utoll, .. } = &mut m {
                *utwi = Some(*r.pick(&[59u64, 60, 604800, 604801]));
                if r.chance(1, 3) {
                    *utoll = Some(*r.pick(&[0, d, d + 1]));
                }
            }
            draft(who(r, own), m)
        }
        CKind::VCaps => {
            let own = w.vamm_owner(&v.addr);
            let mut m = vcfg0(v.id);
            if let Msg::VCfg { ucap, uoic, .. } = &mut m {
                let cap = if r.chance(1, 3) { 0 } else { r.range(1, 50) as u128 * d };
                let oic = if r.chance(1, 3) { 0 } else { r.range(100, 2000) as u128 * d };
                match r.below(3) {
                    0 => *ucap = Some(cap),
                    1 => *uoic = Some(oic),
                    _ => {
                        *ucap = Some(cap);
                        *uoic = Some(oic);
                    }
                }
            }
            draft(who(r, own), m)
        }
        CKind::WlSet(on) => draft(w.pauser(), if on { Msg::WlAdd { a: trader } } else { Msg::WlRm { a: trader } }),
        CKind::VCapBelow => {
            let own = w.vamm_owner(&v.addr);
            let size = w.positions().iter().find(|p| p.v == v.id && p.t == trader).map(|p| p.size).unwrap_or(0);
            let oi = w.q::<margined_perp::margined_engine::StateResponse, _>(&w.engine, &margined_perp::margined_engine::QueryMsg::State {})
                .map(|s| s.open_interest_notional.u128())
                .unwrap_or(0);
            let mut m = vcfg0(v.id);
            if let Msg::VCfg { ucap, uoic, .. } = &mut m {
                match r.below(3) {
                    0 => *ucap = Some((size / 2).max(1)),
                    1 => *uoic = Some((oi / 2).max(1)),
                    _ => {
                        *ucap = Some((size / 2).max(1));
                        *uoic = Some((oi / 2).max(1));
                    }
                }
            }
            draft(own, m)
        }
        CKind::WlToggle => {
            let wl: Vec<u64> = w
                .q::<cw_controllers::HooksResponse, _>(&w.engine, &margined_perp::margined_engine::QueryMsg::GetWhitelist {})
                .map(|h| h.hooks.iter().map(|x| w.id(x)).collect())
                .unwrap_or_default();
            let msg = if wl.contains(&trader) { Msg::WlRm { a: trader } } else { Msg::WlAdd { a: trader } };
            draft(who(r, w.pauser()), msg)
        }
        CKind::Restore(step) => match step {
            0 | 2 => draft(eowner, ecfg(None, Some(w.cfg.mmr), None, None)),
            1 => draft(eowner, ecfg(Some(w.cfg.imr), None, None, None)),
            3 => draft(eowner, ecfg(None, None, Some(w.cfg.plr), Some(w.cfg.lf))),
            _ => {
                let own = w.vamm_owner(&v.addr);
                let mut m = vcfg0(v.id);
                if let (Msg::VCfg { ucap, uoic, utoll, uspread, ufluct, utwi, .. }, Some(i)) = (&mut m, init) {
                    *ucap = Some(i.cap);
                    *uoic = Some(i.oic);
                    *utoll = Some(i.toll);
                    *uspread = Some(i.spread);
                    *ufluct = Some(i.fluct);
                    *utwi = Some(3600);
                }
                draft(own, m)
            }
        },
    }
}

/// configuration burst: 8–15 updates interleaved with opens of one trader, then back to the deployed values
fn start_config(w: &World, r: &mut Rng, g: &mut GenCtx, vis: &[VInfo], ps: &[PosInfo]) -> bool {
    let usable: Vec<&VInfo> = vis.iter().filter(|v| v.usable()).collect();
    let v = if usable.is_empty() {
        match vis.first() {
            Some(v) => v,
            None => return false,
        }
    } else {
        usable[r.below(usable.len() as u64) as usize]
    };
    let vi = v.idx;
    // the trading trader: a holder on this vAMM if there is one
    let holders: Vec<u64> = ps.iter().filter(|p| p.v == v.id && TRADERS.contains(&p.t)).map(|p| p.t).collect();
    let trader = if holders.is_empty() { *r.pick(&TRADERS) } else { holders[r.below(holders.len() as u64) as usize] };
    let n = r.range(8, 15);
    if !holders.is_empty() && r.chance(2, 5) {
        // whole close against a caller limit while the close breaches the fluctuation limit and the
        // engine's partial ratio is 1 (the whole-close branch must still honour the limit)
        g.plan.push_back(Plan::Config { vi, kind: CKind::PlrOne, legit: true, trader });
        g.plan.push_back(Plan::Config { vi, kind: CKind::VFluctTight, legit: true, trader });
        g.plan.push_back(Plan::TraderOp { vi, who: Who::Id(trader), op: TOp::CloseLim(r.range(1, 2)), block: Blk::Next });
        g.plan.push_back(Plan::TraderOp { vi, who: Who::Id(trader), op: TOp::CloseLim(0), block: Blk::Free });
        g.plan.push_back(Plan::TraderOp { vi, who: Who::Id(trader), op: TOp::OpenSame, block: Blk::Free });
    }
    if !holders.is_empty() && r.chance(1, 4) {
        // funding debt larger than the margin, then a PARTIAL close (tight fluctuation limit, ratio 1/4): it must
        // be refused like a whole close with bad debt
        g.plan.push_back(Plan::OracleSkew { vi, trader });
        for _ in 0..r.range(3, 6) {
            g.plan.push_back(Plan::FundingRound { vi });
        }
        g.plan.push_back(Plan::Config { vi, kind: CKind::PlrQuarter, legit: true, trader });
        g.plan.push_back(Plan::Config { vi, kind: CKind::VFluctTight, legit: true, trader });
        g.plan.push_back(Plan::TraderOp { vi, who: Who::Id(trader), op: TOp::Close, block: Blk::Next });
        g.plan.push_back(Plan::AlignOracle { vi });
    }
    if !holders.is_empty() && r.chance(1, 4) {
        // a moderate funding settlement while the position is open, a SUCCESSFUL partial close (tight fluctuation limit,
        // ratio 1/4), then — limit lifted — the remainder closed whole: the funding must be charged exactly once
        g.plan.push_back(Plan::OracleSkew { vi, trader });
        g.plan.push_back(Plan::FundingRound { vi });
        g.plan.push_back(Plan::AlignOracle { vi });
        g.plan.push_back(Plan::Config { vi, kind: CKind::PlrQuarter, legit: true, trader });
        g.plan.push_back(Plan::Config { vi, kind: CKind::VFluctTight, legit: true, trader });
        g.plan.push_back(Plan::TraderOp { vi, who: Who::Id(trader), op: TOp::Close, block: Blk::Next });
        g.plan.push_back(Plan::Config { vi, kind: CKind::VFluctOff, legit: true, trader });
        g.plan.push_back(Plan::TraderOp { vi, who: Who::Id(trader), op: TOp::Close, block: Blk::Next });
    }
    if !holders.is_empty() && r.chance(1, 3) {
        // a position closed by an equal-size reversal leaves a stored record of size zero; the next order on
        // the other side is an OPEN and must honour the caller's base limit
        g.plan.push_back(Plan::TraderOp { vi, who: Who::Id(trader), op: TOp::FlatReverse, block: Blk::Next });
        // the order on the other side in the SAME block as the flattening trade, or in the next one
        let blk = if (w.cfg.h + w.cfg.seed) % 2 == 0 { Blk::Same } else { Blk::Next };
        g.plan.push_back(Plan::TraderOp { vi, who: Who::Id(trader), op: TOp::AfterFlat(0), block: blk });
        g.plan.push_back(Plan::TraderOp { vi, who: Who::Id(trader), op: TOp::AfterFlat(1), block: if blk == Blk::Same { Blk::Same } else { Blk::Free } });
    }
    let mut unwire: Vec<(u64, CKind)> = vec![]; // (due after this many further updates, kind)
    let _ = w;
    for _ in 0..n {
        let legit = r.chance(85, 100);
        let kind = match r.below(100) {
            0..=29 => CKind::Pair(r.below(6)),
            30..=41 => CKind::SingleRatio,
            42..=51 => CKind::PlrLf,
            52..=59 => CKind::Rewire(r.below(5)),
            60..=68 => CKind::VRatios,
            69..=76 => CKind::VTwi,
            77..=89 => CKind::VCaps,
            _ => CKind::WlToggle,
        };
        if matches!(kind, CKind::Rewire(_)) {
            g.plan.push_back(Plan::Config { vi, kind: CKind::VFees, legit: true, trader });
        }
        g.plan.push_back(Plan::Config { vi, kind, legit, trader });
        if matches!(kind, CKind::Rewire(_)) {
            // fee-paying trades while the addresses are re-wired
            g.plan.push_back(Plan::TraderOp { vi, who: Who::Id(trader), op: TOp::OpenSame, block: Blk::Free });
            g.plan.push_back(Plan::TraderOp { vi, who: Who::Id(trader), op: TOp::Reduce, block: Blk::Free });
        }
        if matches!(kind, CKind::VCaps) {
            // the caps' boundaries: exactly at the cap is allowed, one unit above is not
            let hold = r.chance(1, 2);
            for k in [1u64, 0, 1] {
                let op = if hold { TOp::OpenToHoldCap(k) } else { TOp::OpenToOiCap(k) };
                g.plan.push_back(Plan::TraderOp { vi, who: Who::Id(trader), op, block: Blk::Free });
            }
            // with the open interest (or the holding) at its cap: a REVERSAL, whose re-opening leg would exceed the cap
            g.plan.push_back(Plan::TraderOp { vi, who: Who::Id(trader), op: TOp::ReverseBig, block: Blk::Free });
        }
        if matches!(kind, CKind::VCaps) {
            // above a cap by exemption or by a later change of the cap, then no longer exempt: an increase must be refused
            //  (a) whitelisted, one unit above the holding cap (allowed), removed from the whitelist, increase
            g.plan.push_back(Plan::Config { vi, kind: CKind::WlSet(true), legit: true, trader });
            g.plan.push_back(Plan::TraderOp { vi, who: Who::Id(trader), op: TOp::OpenToHoldCap(1), block: Blk::Free });
            // … while ANOTHER trader, who is not on the list, tries the same (refused): the exemption is the listed address's alone
            // (in the deployments with long addresses david's address is bob's plus one character)
            if trader == 102 {
                g.plan.push_back(Plan::TraderOp { vi, who: Who::Id(104), op: TOp::OpenToHoldCap(1), block: Blk::Free });
            } else if trader != 104 {
                g.plan.push_back(Plan::Config { vi, kind: CKind::WlSet(true), legit: true, trader: 102 });
                g.plan.push_back(Plan::TraderOp { vi, who: Who::Id(104), op: TOp::OpenToHoldCap(1), block: Blk::Free });
                g.plan.push_back(Plan::Config { vi, kind: CKind::WlSet(false), legit: true, trader: 102 });
            }
            g.plan.push_back(Plan::TraderOp { vi, who: Who::Id(trader), op: TOp::OpenSame, block: Blk::Free });
            g.plan.push_back(Plan::Config { vi, kind: CKind::WlSet(false), legit: true, trader });
            g.plan.push_back(Plan::TraderOp { vi, who: Who::Id(trader), op: TOp::OpenSame, block: Blk::Free });
            //  (b) caps lowered below current usage, increase
            g.plan.push_back(Plan::Config { vi, kind: CKind::VCapBelow, legit: true, trader });
            g.plan.push_back(Plan::TraderOp { vi, who: Who::Id(trader), op: TOp::OpenSame, block: Blk::Free });
            g.plan.push_back(Plan::TraderOp { vi, who: Who::Id(trader), op: TOp::Reduce, block: Blk::Free });
        }
        if matches!(kind, CKind::VCaps | CKind::WlToggle) || r.chance(1, 5) {
            g.plan.push_back(Plan::TraderOp { vi, who: Who::Id(trader), op: TOp::OpenSame, block: Blk::Free });
        }
        for u in unwire.iter_mut() {
            u.0 = u.0.saturating_sub(1);
        }
        while let Some(pos) = unwire.iter().position(|u| u.0 == 0) {
            let (_, k) = unwire.remove(pos);
            g.plan.push_back(Plan::Config { vi, kind: k, legit: true, trader });
        }
        if let CKind::Rewire(what) = kind {
            unwire.push((2, CKind::Unwire(what)));
        }
    }
    for (_, k) in unwire {
        g.plan.push_back(Plan::Config { vi, kind: k, legit: true, trader });
    }
    for step in 0..5 {
        g.plan.push_back(Plan::Config { vi, kind: CKind::Restore(step), legit: true, trader });
    }
    true
}

/// key-alias probes against a position of alice (through `ice`) or carol (through `rol`)
fn start_alias(r: &mut Rng, g: &mut GenCtx, vis: &[VInfo], ps: &[PosInfo]) -> bool {
    let victims: Vec<&PosInfo> = ps.iter().filter(|p| (p.t == 101 || p.t == 103) && p.v >= VAMM0 && p.v < VAMM0 + 3).collect();
    if victims.is_empty() {
        return false;
    }
    let p = victims[r.below(victims.len() as u64) as usize];
    let vi = match vis.iter().find(|v| v.id == p.v) {
        Some(v) => v.idx,
        None => return false,
    };
    for op in [AOp::Deposit(false), AOp::Deposit(true), AOp::Withdraw(false), AOp::Withdraw(true), AOp::Open(0), AOp::Open(1), AOp::Liq, AOp::Close] {
        g.plan.push_back(Plan::Alias { vi, victim: p.t, op });
    }
    true
}

/// Market-state campaigns on a vAMM with live positions: 1 = deregistered, 2 = closed, 3 = paused engine.
/// The guarded state is entered, the position holders run through every kind of operation, the
/// liquidator and a funding payer try their luck, and the state is restored.
fn start_market(w: &World, g: &mut GenCtx, kind: u64, vis: &[VInfo], ps: &[PosInfo]) -> bool {
    if w.engine_paused() {
        return false;
    }
    let need = if kind == 3 { 1 } else { 2 };
    let mut best: Option<(&VInfo, Vec<u64>)> = None;
    for v in vis.iter().filter(|v| v.usable()) {
        let mut holders: Vec<u64> = ps.iter().filter(|p| p.v == v.id).map(|p| p.t).collect();
        holders.sort();
        if holders.len() >= need && best.as_ref().map(|b| holders.len() > b.1.len()).unwrap_or(true) {
            best = Some((v, holders));
        }
    }
    let (v, holders) = match best {
        Some(x) => x,
        None => return false,
    };
    let vi = v.idx;
    g.plan.push_back(match kind {
        1 => Plan::IfRm { vi },
        2 => Plan::VSet { vi, open: false },
        _ => Plan::Pause { p: true },
    });
    let ops = [TOp::OpenSame, TOp::Reduce, TOp::Reverse, TOp::Deposit, TOp::Withdraw, TOp::Close];
    for (i, op) in ops.iter().enumerate() {
        g.plan.push_back(Plan::TraderOp { vi, who: Who::Id(holders[i % holders.len()]), op: *op, block: Blk::Free });
    }
    g.plan.push_back(Plan::LiqAny { vi, block: Blk::Free });
    g.plan.push_back(Plan::PayFunding { vi, by: STRANGER, block: Blk::Free });
    g.plan.push_back(match kind {
        1 => Plan::IfAdd { vi },
        2 => Plan::VSet { vi, open: true },
        _ => Plan::Pause { p: false },
    });
    true
}

/// Pump (or dump) scenario: P opens a big low-leverage position, X and Y pile in at high leverage in the
/// same direction, P takes his profit out of the vault, X and Y are then liquidated with a thin vault.
fn start_pump(w: &World, r: &mut Rng, g: &mut GenCtx, vis: &[VInfo], ps: &[PosInfo]) -> bool {
    if w.engine_paused() {
        return false;
    }
    let mut usable: Vec<&VInfo> = vis.iter().filter(|v| v.usable()).collect();
    if usable.is_empty() {
        return false;
    }
    // prefer a pool without per-block fluctuation limit
    usable.sort_by_key(|v| (v.fluct != 0) as u8);
    let v: &VInfo = if usable[0].fluct == 0 {
        let free: Vec<&VInfo> = usable.iter().cloned().filter(|v| v.fluct == 0).collect();
        free[r.below(free.len() as u64) as usize]
    } else {
        usable[r.below(usable.len() as u64) as usize]
    };
    let mut free: Vec<u64> = TRADERS.iter().cloned().filter(|t| !ps.iter().any(|p| p.v == v.id && p.t == *t)).collect();
    if free.len() < 3 {
        return false;
    }
    // shuffle deterministically
    for i in (1..free.len()).rev() {
        let j = r.below(i as u64 + 1) as usize;
        free.swap(i, j);
    }
    let long = r.chance(1, 2);
    let (p, x, y) = (free[0], free[1], free[2]);
    g.plan.push_back(Plan::OpenFrac { vi: v.idx, trader: p, long, frac_ppm: r.range(80_000, 150_000) as u128, high: false });
    g.plan.push_back(Plan::OpenFrac { vi: v.idx, trader: x, long, frac_ppm: r.range(80_000, 200_000) as u128, high: true });
    g.plan.push_back(Plan::OpenFrac { vi: v.idx, trader: y, long, frac_ppm: r.range(80_000, 200_000) as u128, high: true });
    if free.len() >= 4 {
        // a fourth, lightly leveraged holder: after the profit-taker emptied the vault he withdraws part of his free collateral
        // (paid out of a vault that is short; the insurance fund may be short too)
        g.plan.push_front(Plan::OpenFrac { vi: v.idx, trader: free[3], long, frac_ppm: 20_000, high: false });
    }
    g.plan.push_back(Plan::CloseBy { vi: v.idx, trader: p });
    if free.len() >= 4 {
        g.plan.push_back(Plan::TraderOp { vi: v.idx, who: Who::Id(free[3]), op: TOp::Withdraw, block: Blk::Free });
    }
    g.plan.push_back(Plan::AlignOracle { vi: v.idx });
    g.plan.push_back(Plan::Liq { vi: v.idx, victim: y, first: true });
    g.plan.push_back(Plan::Liq { vi: v.idx, victim: x, first: false });
    true
}

/// registry at capacity (deployments with four markets): fill the registry to three, try the fourth (refused),
/// swap one out, try the removed one again (refused), trade on the newly registered market, shut everything down
fn start_capacity(g: &mut GenCtx, vis: &[VInfo]) -> bool {
    if vis.len() < 4 {
        return false;
    }
    for v in vis.iter().take(3).filter(|v| !v.registered) {
        g.plan.push_back(Plan::IfAdd { vi: v.idx });
    }
    g.plan.push_back(Plan::IfAdd { vi: 3 });
    g.plan.push_back(Plan::IfRm { vi: 0 });
    g.plan.push_back(Plan::IfAdd { vi: 3 });
    g.plan.push_back(Plan::IfAdd { vi: 0 });
    g.plan.push_back(Plan::TraderOp { vi: 3, who: Who::Id(102), op: TOp::OpenSame, block: Blk::Free });
    g.plan.push_back(Plan::TraderOp { vi: 0, who: Who::Id(102), op: TOp::OpenSame, block: Blk::Free });
    g.plan.push_back(Plan::IfRm { vi: 3 });
    g.plan.push_back(Plan::IfAdd { vi: 0 });
    g.plan.push_back(Plan::IfAdd { vi: 3 });
    g.plan.push_back(Plan::Shutdown);
    true
}

/// `ifshutdown` by the owner while one registered vAMM is already closed and another is open
fn start_shutdown(r: &mut Rng, g: &mut GenCtx, vis: &[VInfo]) -> bool {
    let reg: Vec<&VInfo> = vis.iter().filter(|v| v.registered).collect();
    let open: Vec<&&VInfo> = reg.iter().filter(|v| v.open).collect();
    let closed = reg.len() - open.len();
    if reg.len() < 2 || open.is_empty() {
        return false;
    }
    if closed == 0 {
        if open.len() < 2 {
            return false;
        }
        let c = open[r.below(open.len() as u64) as usize];
        g.plan.push_back(Plan::CloseVamm { vi: c.idx });
    }
    g.plan.push_back(Plan::Shutdown);
    true
}

fn gen_liq(w: &World, r: &mut Rng, g: &mut GenCtx, vis: &[VInfo], ps: &[PosInfo]) -> Draft {
    let mmr = w.engine_config().map(|c| c.maintenance_margin_ratio.u128()).unwrap_or(0) as i128;
    let rs = ratios(w, ps);
    if let Some((p, ratio)) = rs.first() {
        if *ratio > mmr && g.plan.is_empty() && r.chance(45, 100) && start_campaign(w, r, g, vis, ps, Some(p)) {
            if let Some(pl) = g.plan.pop_front() {
                if let Some(dr) = realize(w, r, g, &pl, vis, ps) {
                    g.last_plan = Some(pl);
                    return dr;
                }
                g.plan.clear();
            }
        }
        let lim = if r.chance(85, 100) { 0 } else { r.below128(p.notional * 2 + 2) };
        let trader = if r.chance(3, 100) { 0 } else { p.t };
        let mut dr = draft(liq_sender(r), Msg::Liq { v: p.v, trader, lim });
        if *ratio <= mmr {
            dr.min_blocks = r.below(2);
        }
        return dr;
    }
    // no position with a computable ratio
    let p = &ps[r.below(ps.len() as u64) as usize];
    draft(liq_sender(r), Msg::Liq { v: p.v, trader: p.t, lim: 0 })
}

fn gen_payfunding(w: &World, r: &mut Rng, vis: &[VInfo], now: u64) -> Draft {
    let due: Vec<&VInfo> = vis.iter().filter(|v| v.usable() && now >= v.next).collect();
    let snd = *r.pick(&[LIQUIDATOR, 101, 102, STRANGER, OWNER]);
    if !due.is_empty() && r.chance(85, 100) {
        let v = due[r.below(due.len() as u64) as usize];
        return draft(snd, Msg::PayFunding { v: v.id });
    }
    match pick_vamm(r, vis) {
        Some(v) => {
            let mut dr = draft(snd, Msg::PayFunding { v: v.id });
            if v.next > now && r.chance(60, 100) {
                dr.min_blocks = 1;
                dr.min_dt = v.next - now + r.below(600);
            }
            let _ = w;
            dr
        }
        None => draft(snd, Msg::PayFunding { v: 0 }),
    }
}

fn gen_oracle(w: &World, r: &mut Rng, vis: &[VInfo], now: u64) -> Draft {
    let d = w.cfg.d;
    let spot = if vis.is_empty() { w.cfg.oracle0 } else { vis[r.below(vis.len() as u64) as usize].spot(d) };
    let price = match r.below(100) {
        0..=34 => spot,
        35..=54 => spot * r.range(95, 105) as u128 / 100,
        55..=64 => spot * 10 / 11 + r.below(3) as u128 - 1,
        65..=74 => spot * 10 / 9 + r.below(3) as u128 - 1,
        75..=84 => spot * r.range(890, 1110) as u128 / 1000,
        85..=89 => spot * 2,
        90..=94 => spot / 2,
        95..=96 => 0,
        _ => spot + r.below128(d),
    };
    let snd = if w.cfg.real_feed {
        if r.chance(85, 100) { w.feed_owner() } else { STRANGER }
    } else {
        *r.pick(&[OWNER, LIQUIDATOR, STRANGER, 101])
    };
    let ts = match r.below(10) {
        0 => now.saturating_sub(r.range(1, 600)),
        1 => now + r.range(1, 60),
        _ => now,
    };
    draft(snd, Msg::Oracle { price, ts })
}

fn any_sender(r: &mut Rng) -> u64 {
    *r.pick(&[OWNER, PAUSER, STRANGER, NEWOWNER, 101, 102, LIQUIDATOR, ENGINE, IFUND])
}
fn some_account(r: &mut Rng) -> u64 {
    *r.pick(&[NEWOWNER, OWNER, STRANGER, NEWOWNER, 0])
}

fn gen_admin(w: &World, r: &mut Rng, vis: &[VInfo], mode: Mode) -> Draft {
    let d = w.cfg.d;
    let legit = r.chance(62, 100);
    let ec = w.engine_config();
    let eowner = ec.as_ref().map(|c| w.id(c.owner.as_str())).unwrap_or(OWNER);
    let who = |r: &mut Rng, rightful: u64| if legit { rightful } else { any_sender(r) };
    let ratio = |r: &mut Rng| -> u128 {
        match r.below(8) {
            0 => d,
            1 => d + 1,
            2 => 0,
            3 => d / 20 + 1,
            4 => d / 10,
            5 => d / 40 + 1,
            6 => d / 100,
            _ => r.below128(d / 4 + 1),
        }
    };
    let vpick = |r: &mut Rng| -> (u64, u64) {
        match pick_vamm(r, vis) {
            Some(v) => (v.id, w.vamm_owner(&v.addr)),
            None => (0, OWNER),
        }
    };
    match r.below(100) {
        0..=13 => {
            // engine config
            let mut m = (None, None, None, None, None, None, None);
            match r.below(10) {
                0 => {
                    m.0 = Some(some_account(r));
                    // an ownership transfer riding along with another (valid) field of the same message
                    match (eowner as u128 + d + w.cfg.h as u128) % 3 {
                        0 => {}
                        1 => m.3 = ec.as_ref().map(|c| c.initial_margin_ratio.u128()),
                        _ => m.6 = ec.as_ref().map(|c| c.liquidation_fee.u128()),
                    }
                }
                1 => m.3 = Some(ratio(r)),
                2 => m.4 = Some(ratio(r)),
                3 => m.5 = Some(*r.pick(&[0, d / 4, d / 2, d, d + 1])),
                4 => m.6 = Some(*r.pick(&[0, d / 80, d / 40 + 1, d / 20 - 1, d, d + 1])),
                5 => {
                    m.3 = Some(ratio(r));
                    m.4 = Some(ratio(r));
                }
                6 => {
                    if r.chance(1, 3) {
                        m.1 = Some(*r.pick(&[IFUND, IFUND, STRANGER]));
                    } else {
                        m.5 = Some(*r.pick(&[0, d / 4, d / 2, d, d + 1, d / 3]));
                    }
                }
                7 => {
                    if r.chance(1, 3) {
                        m.2 = Some(*r.pick(&[FEEPOOL, FEEPOOL, NEWOWNER]));
                    } else {
                        m.6 = Some(*r.pick(&[0, d / 80, d / 40, d / 20]));
                    }
                }
                _ => {
                    m.4 = Some(*r.pick(&[d / 40, d / 20, d / 10]));
                }
            }
            draft(who(r, eowner), Msg::ECfg { uowner: m.0, uifd: m.1, ufp: m.2, uimr: m.3, ummr: m.4, uplr: m.5, ulf: m.6 })
        }
        14..=17 => draft(who(r, w.pauser()), Msg::EPauser { new: *r.pick(&[PAUSER, NEWOWNER, STRANGER, PAUSER]) }),
        18..=25 => {
            let mut a = *r.pick(&[101, 102, 103, 104, LIQUIDATOR]);
            let wl: Vec<u64> = w
                .q::<cw_controllers::HooksResponse, _>(&w.engine, &margined_perp::margined_engine::QueryMsg::GetWhitelist {})
                .map(|h| h.hooks.iter().map(|x| w.id(x)).collect())
                .unwrap_or_default();
            let add = wl.is_empty() || r.chance(2, 5);
            if !add && r.chance(4, 5) {
                a = wl[r.below(wl.len() as u64) as usize];
            }
            let msg = if add { Msg::WlAdd { a } } else { Msg::WlRm { a } };
            draft(who(r, w.pauser()), msg)
        }
        26..=31 => {
            let paused = w.engine_paused();
            let p = if r.chance(80, 100) { !paused } else { paused };
            // pausing is rarer than unpausing
            let p = if p && r.chance(1, 2) { false } else { p };
            draft(who(r, w.pauser()), Msg::Pause { p: p as u64 })
        }
        32..=51 => {
            let (v, own) = vpick(r);
            let mut m = Msg::VCfg { v, ucap: None, uoic: None, utoll: None, uspread: None, ufluct: None, ueng: None, uifd: None, ufeed: None, utwi: None };
            if let Msg::VCfg { ucap, uoic, utoll, uspread, ufluct, ueng, uifd, ufeed, utwi, .. } = &mut m {
                match r.below(12) {
                    0 => *ucap = Some(*r.pick(&[0, 20 * d, 200 * d, d, 1])),
                    1 => *uoic = Some(*r.pick(&[0, 500 * d, 5000 * d, d])),
                    2 => *utoll = Some(ratio(r)),
                    3 => *uspread = Some(ratio(r)),
                    4 => *ufluct = Some(*r.pick(&[0, d / 100, d / 20, d / 5, d, d + 1])),
                    5 | 6 => *utwi = Some(*r.pick(&[59u64, 60, 604800, 604801, 900, 3600])),
                    7 => {
                        *utoll = Some(ratio(r));
                        *uspread = Some(ratio(r));
                    }
                    8 => {
                        if r.chance(1, 3) {
                            *ueng = Some(*r.pick(&[ENGINE, ENGINE, STRANGER]));
                        } else {
                            *ucap = Some(r.range(20, 200) as u128 * d);
                        }
                    }
                    9 => {
                        if r.chance(1, 3) {
                            *uifd = Some(*r.pick(&[IFUND, IFUND, STRANGER]));
                        } else {
                            *uoic = Some(r.range(500, 5000) as u128 * d);
                        }
                    }
                    10 => {
                        if r.chance(1, 4) {
                            *ufeed = Some(*r.pick(&[FEED, FEED, STRANGER]));
                        } else {
                            *utwi = Some(r.range(60, 7200));
                        }
                    }
                    _ => {}
                }
            }
            draft(who(r, own), m)
        }
        52..=55 => {
            let (v, own) = vpick(r);
            draft(who(r, own), Msg::VOwner { v, new: some_account(r) })
        }
        56..=63 => {
            let (v, own) = vpick(r);
            let cur = vis.iter().find(|x| x.id == v).map(|x| x.open).unwrap_or(false);
            let uopen = if r.chance(75, 100) { !cur } else { cur };
            let uopen = if !uopen && r.chance(1, 2) { true } else { uopen };
            let rightful = if r.chance(1, 5) { IFUND } else { own };
            draft(who(r, rightful), Msg::VSetOpen { v, uopen: uopen as u64 })
        }
        64..=69 => {
            let (v, _) = vpick(r);
            draft(who(r, w.if_owner()), Msg::IfAdd { v })
        }
        70..=72 => {
            let (v, _) = vpick(r);
            draft(who(r, w.if_owner()), Msg::IfRm { v })
        }
        73..=74 => draft(who(r, w.if_owner()), Msg::IfShutdown),
        75..=79 => {
            let bal = w.balance(w.ifund.as_str());
            let amt = *r.pick(&[0, 1, d, bal, bal + 1, bal / 2]);
            let snd = if legit && r.chance(1, 2) { ENGINE } else { *r.pick(&[STRANGER, OWNER, ENGINE, 101]) };
            draft(snd, Msg::IfWithdraw { amt })
        }
        80..=82 => draft(who(r, w.if_owner()), Msg::IfOwner { new: some_account(r) }),
        83..=86 => {
            let tok = if mode == Mode::Twin { 5 } else if w.token.is_some() { *r.pick(&[0u64, 5]) } else { 0 };
            draft(who(r, w.fp_owner()), Msg::FpAdd { tok })
        }
        87..=88 => {
            let tok = if mode == Mode::Twin { 5 } else if w.token.is_some() { *r.pick(&[0u64, 5]) } else { 0 };
            draft(who(r, w.fp_owner()), Msg::FpRm { tok })
        }
        89..=93 => {
            let tok = if mode == Mode::Twin { 5 } else if w.token.is_some() { *r.pick(&[5u64, 5, 5, 0]) } else { 0 };
            let bal = w.balance(w.feepool.as_str());
            let amt = *r.pick(&[0, 1, bal, bal + 1, bal / 2, d]);
            let mut to = *r.pick(&[OWNER, NEWOWNER, 101, STRANGER, 0]);
            let mut amt = amt;
            let snd = who(r, w.fp_owner());
            if snd != w.fp_owner() && r.chance(1, 2) {
                // role probe: a non-holder's call whose payload names the role holder and is otherwise perfectly valid
                to = w.fp_owner();
                amt = if bal > 1 { *r.pick(&[1, bal / 2, bal]) } else { bal.max(1) };
            }
            draft(snd, Msg::FpSend { tok, amt, to })
        }
        94..=96 => draft(who(r, w.fp_owner()), Msg::FpOwner { new: some_account(r) }),
        _ => draft(who(r, w.feed_owner()), Msg::FdOwner { new: some_account(r) }),
    }
}

/// insurance fund / fee pool calls that dispatch sub-messages, sent by the rightful caller
fn gen_tree_admin(w: &World, r: &mut Rng) -> Draft {
    let d = w.cfg.d;
    let tok = if w.token.is_some() { 5 } else { 0 };
    match r.below(10) {
        0..=1 => draft(w.if_owner(), Msg::IfShutdown),
        2..=5 => {
            let bal = w.balance(w.ifund.as_str());
            let amt = *r.pick(&[1, d, bal / 2, bal / 10 + 1]);
            draft(ENGINE, Msg::IfWithdraw { amt })
        }
        _ => {
            let bal = w.balance(w.feepool.as_str());
            let amt = *r.pick(&[1, bal, bal / 2 + 1]);
            draft(w.fp_owner(), Msg::FpSend { tok, amt, to: *r.pick(&[OWNER, NEWOWNER, 101]) })
        }
    }
}

fn gen_house(w: &World, r: &mut Rng) -> Draft {
    let d = w.cfg.d;
    let snd = *r.pick(&[101u64, 102, 103, 104, LIQUIDATOR, BANK, STRANGER]);
    let amt = match r.below(6) {
        0 => 0,
        1 => 1,
        2 => 100 * d,
        3 => w.balance_id(snd),
        4 => w.balance_id(snd) + 1,
        _ => r.below128(1000 * d),
    };
    let to = *r.pick(&[101u64, 102, 103, 104, LIQUIDATOR, STRANGER, 0]);
    if w.token.is_some() {
        match r.below(10) {
            0..=3 => draft(snd, Msg::TApprove { amt: if r.chance(1, 2) { 1_000_000 * d } else { amt } }),
            4..=5 => draft(snd, Msg::TDecrease { amt }),
            6..=8 => draft(snd, Msg::TTransfer { to, amt }),
            _ => draft(snd, Msg::BSend { to, amt }),
        }
    } else if r.chance(9, 10) {
        draft(snd, Msg::BSend { to, amt })
    } else {
        draft(snd, Msg::TApprove { amt })
    }
}

fn gen_direct(w: &World, r: &mut Rng, vis: &[VInfo]) -> Draft {
    let d = w.cfg.d;
    let snd = *r.pick(&[STRANGER, OWNER, 101, LIQUIDATOR, IFUND]);
    let v = pick_vamm(r, vis).map(|v| v.id).unwrap_or(0);
    let amt = *r.pick(&[0, 1, d, 10 * d]);
    match r.below(3) {
        0 => draft(snd, Msg::VSwapIn { v, dir: r.below(2), amt, lim: 0, cgo: r.below(2) }),
        1 => draft(snd, Msg::VSwapOut { v, dir: r.below(2), amt, lim: 0 }),
        _ => draft(snd, Msg::VSettle { v }),
    }
}

/// repairs of states that block all trading (paused engine, closed / unregistered vAMM)
fn gen_repair(w: &World, r: &mut Rng, vis: &[VInfo]) -> Option<Draft> {
    if w.engine_paused() && r.chance(1, 2) {
        return Some(draft(w.pauser(), Msg::Pause { p: 0 }));
    }
    for v in vis {
        if !v.open && r.chance(1, 3) {
            return Some(draft(w.vamm_owner(&v.addr), Msg::VSetOpen { v: v.id, uopen: 1 }));
        }
        let mismatched = w.cfg.vamms.get(v.idx).map(|i| i.dp != w.cfg.dp).unwrap_or(false);
        if !v.registered && r.chance(1, if mismatched { 8 } else { 4 }) {
            let snd = if r.chance(1, 5) { STRANGER } else { w.if_owner() };
            return Some(draft(snd, Msg::IfAdd { v: v.id }));
        }
    }
    None
}

/// `gen_step` behind a panic guard: the generator computes with the observed state and may meet values
/// that a broken implementation produced (a ratio above 1, a negative balance …); instead of aborting
/// the run it then falls back to a plain funding call, so that the step is still executed and judged
pub fn gen_step_safe(w: &World, r: &mut Rng, g: &mut GenCtx, k: u64, stats: &mut Stats) -> Tx {
    let seed = r.0;
    let res = std::panic::catch_unwind(std::panic::AssertUnwindSafe(|| gen_step(w, r, g, k, stats)));
    match res {
        Ok(tx) => tx,
        Err(_) => {
            stats.count("generator", "panic_fallback");
            g.plan.clear();
            g.last_plan = None;
            r.0 = seed.wrapping_mul(6364136223846793005).wrapping_add(1442695040888963407);
            let b = w.app.block_info();
            Tx {
                k,
                snd: 101,
                funds: 0,
                extra: false,
                height: b.height + 1,
                time: b.time.seconds() + 6,
                msg: Msg::PayFunding { v: VAMM0 },
                fault: None,
            }
        }
    }
}

pub fn gen_step(w: &World, r: &mut Rng, g: &mut GenCtx, k: u64, stats: &mut Stats) -> Tx {
    let b = w.app.block_info();
    let now = b.time.seconds();
    let vis = vinfos(w);
    let ps = w.positions();
    let (dh, dt) = advance(r);
    g.last_plan = None;

    let mut dr: Option<Draft> = None;
    for name in g.pending_stats.drain(..) {
        stats.count("campaign", &name);
    }
    // a record left at size zero in THIS block (a reversal that re-opened nothing): every other time its owner places the
    // order on the other side at once, in the same block
    if g.plan.is_empty() {
        if let Some(p) = ps.iter().find(|p| p.size == 0 && p.block == b.height && TRADERS.contains(&p.t)) {
            if let Some(v) = vis.iter().find(|v| v.id == p.v) {
                if r.chance(1, 2) {
                    // first with the base limit one unit on the wrong side of the quote (must be refused, nothing changes), then exactly at it
                    g.plan.push_back(Plan::TraderOp { vi: v.idx, who: Who::Id(p.t), op: TOp::AfterFlat(0), block: Blk::Same });
                    g.plan.push_back(Plan::TraderOp { vi: v.idx, who: Who::Id(p.t), op: TOp::AfterFlat(1), block: Blk::Same });
                    // … and the position re-opened over the flat record is increased (limit on the wrong side, then exact) and closed
                    // (limit one below the quote, then at it): every leg of these orders must honour the caller's limit
                    if (w.cfg.h + w.cfg.seed) % 2 == 0 {
                        g.plan.push_back(Plan::TraderOp { vi: v.idx, who: Who::Id(p.t), op: TOp::IncreaseLim(0), block: Blk::Free });
                        g.plan.push_back(Plan::TraderOp { vi: v.idx, who: Who::Id(p.t), op: TOp::IncreaseLim(1), block: Blk::Free });
                    }
                    g.plan.push_back(Plan::TraderOp { vi: v.idx, who: Who::Id(p.t), op: TOp::CloseLim(2), block: Blk::Free });
                    g.plan.push_back(Plan::TraderOp { vi: v.idx, who: Who::Id(p.t), op: TOp::CloseLim(0), block: Blk::Free });
                }
            }
        }
    }
    // "charged exactly once": in an eighth of the histories (decided from (seed, h), no PRNG draw) a trader opens 3 % of the
    // pool, funding is settled once against a skewed oracle, the position is PARTIALLY closed (tight fluctuation limit, ratio
    // 1/4) and then — limit lifted — the remainder is closed whole
    if k == 6 && g.plan.is_empty() && (w.cfg.seed.wrapping_mul(0x9E37_79B9).wrapping_add(w.cfg.h.wrapping_mul(0x85EB_CA6B)) >> 7) % 8 == 0 {
        if let Some(v) = vis.iter().find(|v| v.usable()) {
            let vi = v.idx;
            let trader = TRADERS[(w.cfg.h % 4) as usize];
            if !ps.iter().any(|p| p.v == v.id && p.t == trader) && !w.engine_paused() {
                g.plan.push_back(Plan::OpenFrac { vi, trader, long: w.cfg.h % 2 == 0, frac_ppm: 30_000, high: false });
                g.plan.push_back(Plan::OracleSkew { vi, trader });
                g.plan.push_back(Plan::FundingRound { vi });
                g.plan.push_back(Plan::AlignOracle { vi });
                g.plan.push_back(Plan::Config { vi, kind: CKind::PlrQuarter, legit: true, trader });
                g.plan.push_back(Plan::Config { vi, kind: CKind::VFluctTight, legit: true, trader });
                g.plan.push_back(Plan::TraderOp { vi, who: Who::Id(trader), op: TOp::Close, block: Blk::Next });
                g.plan.push_back(Plan::Config { vi, kind: CKind::VFluctOff, legit: true, trader });
                g.plan.push_back(Plan::TraderOp { vi, who: Who::Id(trader), op: TOp::Close, block: Blk::Next });
                stats.count("campaign", "charged_once");
            }
        }
    }
    // "funded, then every kind of order": in another eighth of the histories a trader opens 3 % of the pool, funding is settled once
    // with the oracle on the side that makes the position PAY or RECEIVE (both signs of the charge), the oracle is realigned and the
    // trader places one order of a kind decided from (seed, h): reversal (with and without remainder, large), reduce, increase,
    // withdraw, deposit, whole close
    if k == 6 && g.plan.is_empty() && (w.cfg.seed.wrapping_mul(0x9E37_79B9).wrapping_add(w.cfg.h.wrapping_mul(0x85EB_CA6B)) >> 7) % 8 == 1 {
        if let Some(v) = vis.iter().find(|v| v.usable()) {
            let vi = v.idx;
            let hh = w.cfg.seed.wrapping_mul(0xC2B2_AE35).wrapping_add(w.cfg.h.wrapping_mul(0x27D4_EB2F)) >> 5;
            let trader = TRADERS[(w.cfg.h % 4) as usize];
            if !ps.iter().any(|p| p.v == v.id && p.t == trader) && !w.engine_paused() {
                g.plan.push_back(Plan::OpenFrac { vi, trader, long: hh % 2 == 0, frac_ppm: 30_000, high: false });
                if (hh >> 1) % 2 == 0 {
                    g.plan.push_back(Plan::OracleSkewRecv { vi, trader });
                } else {
                    g.plan.push_back(Plan::OracleSkew { vi, trader });
                }
                g.plan.push_back(Plan::FundingRound { vi });
                g.plan.push_back(Plan::AlignOracle { vi });
                let op = match (hh >> 2) % 8 {
                    0 | 1 => TOp::Reverse,
                    2 => TOp::ReverseBig,
                    3 => TOp::FlatReverse,
                    4 => TOp::Reduce,
                    5 => TOp::OpenSame,
                    6 => TOp::Withdraw,
                    _ => TOp::Close,
                };
                g.plan.push_back(Plan::TraderOp { vi, who: Who::Id(trader), op, block: Blk::Next });
                stats.count("campaign", "funded_then_order");
            }
        }
    }
    // "the cap binds the very first trade": while the engine's open interest is exactly zero the vAMM's open-interest cap is set to one
    // unit; a first order above it must be refused, one that lands exactly on it accepted, the next increase refused
    if k == 1 && g.plan.is_empty() && g.mode != Mode::Twin && w.engine_oi() == 0 && (w.cfg.seed.wrapping_mul(0x9E37_79B9).wrapping_add(w.cfg.h.wrapping_mul(0x85EB_CA6B)) >> 7) % 8 == 5 {
        if let Some(v) = vis.iter().find(|v| v.usable()) {
            let vi = v.idx;
            let id = v.id;
            let hh = w.cfg.seed.wrapping_mul(0xC2B2_AE35).wrapping_add(w.cfg.h.wrapping_mul(0x27D4_EB2F)) >> 5;
            let a = TRADERS[(hh % 4) as usize];
            let o = w.vamm_owner(&v.addr);
            let vcfg = |uoic: Option<u128>, ucap: Option<u128>| Msg::VCfg { v: id, ucap, uoic, utoll: None, uspread: None, ufluct: None, ueng: None, uifd: None, ufeed: None, utwi: None };
            if !ps.iter().any(|p| p.v == id && p.t == a) && !w.engine_paused() {
                g.plan.push_back(Plan::Call { by: o, msg: vcfg(Some(w.cfg.d), None) });
                g.plan.push_back(Plan::TraderOp { vi, who: Who::Id(a), op: TOp::OpenSame, block: Blk::Free });
                g.plan.push_back(Plan::TraderOp { vi, who: Who::Id(a), op: TOp::OpenToOiCap(1), block: Blk::Free });
                g.plan.push_back(Plan::TraderOp { vi, who: Who::Id(a), op: TOp::OpenToOiCap(0), block: Blk::Free });
                g.plan.push_back(Plan::TraderOp { vi, who: Who::Id(a), op: TOp::OpenSame, block: Blk::Free });
                g.plan.push_back(Plan::TraderOp { vi, who: Who::Id(a), op: TOp::Close, block: Blk::Next });
                // the same for the holding cap (one base unit) on the now empty book
                g.plan.push_back(Plan::Call { by: o, msg: vcfg(Some(0), Some(w.cfg.d)) });
                g.plan.push_back(Plan::TraderOp { vi, who: Who::Id(a), op: TOp::OpenSame, block: Blk::Next });
                g.plan.push_back(Plan::TraderOp { vi, who: Who::Id(a), op: TOp::OpenToHoldCap(1), block: Blk::Free });
                g.plan.push_back(Plan::TraderOp { vi, who: Who::Id(a), op: TOp::OpenToHoldCap(0), block: Blk::Free });
                g.plan.push_back(Plan::TraderOp { vi, who: Who::Id(a), op: TOp::Close, block: Blk::Next });
                g.plan.push_back(Plan::Call { by: o, msg: vcfg(None, Some(0)) });
                stats.count("campaign", "cap_on_empty_book");
            }
        }
    }
    // "an order too small to buy one raw unit of base": on a market priced at or above 1 a trader who holds a position (and one who does
    // not) buys for 1–3 raw units of quote — the vAMM's answer is 0 base; whatever the engine does with such an order it must finish it
    // (no in-flight record left) — then ANOTHER trader closes, and the first one closes
    if k == 5 && g.plan.is_empty() && g.mode != Mode::Twin && (w.cfg.seed.wrapping_mul(0x9E37_79B9).wrapping_add(w.cfg.h.wrapping_mul(0x85EB_CA6B)) >> 7) % 8 == 6 {
        let d = w.cfg.d;
        if let Some(v) = vis.iter().find(|v| v.usable() && v.spot(d) >= 4 * d) {
            let vi = v.idx;
            let hh = w.cfg.seed.wrapping_mul(0xC2B2_AE35).wrapping_add(w.cfg.h.wrapping_mul(0x27D4_EB2F)) >> 5;
            let a = TRADERS[(hh % 4) as usize];
            let b = TRADERS[((hh + 1) % 4) as usize];
            let c = TRADERS[((hh + 2) % 4) as usize];
            if !w.engine_paused() {
                if !ps.iter().any(|p| p.v == v.id && p.t == a) {
                    g.plan.push_back(Plan::OpenFrac { vi, trader: a, long: true, frac_ppm: 10_000, high: false });
                }
                if !ps.iter().any(|p| p.v == v.id && p.t == b) {
                    g.plan.push_back(Plan::OpenFrac { vi, trader: b, long: hh % 2 == 0, frac_ppm: 10_000, high: false });
                }
                g.plan.push_back(Plan::TraderOp { vi, who: Who::Id(a), op: TOp::OpenDustAny(1 + (hh >> 3) % 3), block: Blk::Next });
                g.plan.push_back(Plan::TraderOp { vi, who: Who::Id(b), op: TOp::Close, block: Blk::Next });
                g.plan.push_back(Plan::TraderOp { vi, who: Who::Id(c), op: TOp::OpenDustAny(1 + (hh >> 5) % 3), block: Blk::Free });
                g.plan.push_back(Plan::LiqBy { vi, by: LIQUIDATOR, block: Blk::Free });
                g.plan.push_back(Plan::TraderOp { vi, who: Who::Id(a), op: TOp::Close, block: Blk::Next });
                stats.count("campaign", "dust_order");
            }
        }
    }
    // "a long worth less than one raw unit of quote": on a market priced below 1 a trader buys a few raw units of base, a large short
    // pushes the price down, and the dust long is closed (its swap_output quotes 0), or liquidated, or topped up and reduced
    if k == 4 && g.plan.is_empty() && g.mode != Mode::Twin && (w.cfg.seed.wrapping_mul(0x9E37_79B9).wrapping_add(w.cfg.h.wrapping_mul(0x85EB_CA6B)) >> 7) % 8 == 3 {
        let d = w.cfg.d;
        if let Some(v) = vis.iter().filter(|v| v.usable() && v.fluct == 0 && v.spot(d) < d).min_by_key(|v| v.spot(d)) {
            let vi = v.idx;
            let hh = w.cfg.seed.wrapping_mul(0xC2B2_AE35).wrapping_add(w.cfg.h.wrapping_mul(0x27D4_EB2F)) >> 5;
            let a = TRADERS[(hh % 4) as usize];
            let b = TRADERS[((hh + 1) % 4) as usize];
            if !ps.iter().any(|p| p.v == v.id && (p.t == a || p.t == b)) && !w.engine_paused() {
                g.plan.push_back(Plan::TraderOp { vi, who: Who::Id(a), op: TOp::OpenDust(2 + (hh >> 3) % 2), block: Blk::Free });
                g.plan.push_back(Plan::OpenFrac { vi, trader: b, long: false, frac_ppm: 500_000, high: false });
                match (hh >> 5) % 3 {
                    0 => g.plan.push_back(Plan::TraderOp { vi, who: Who::Id(a), op: TOp::Close, block: Blk::Next }),
                    1 => g.plan.push_back(Plan::LiqBy { vi, by: LIQUIDATOR, block: Blk::Next }),
                    _ => {
                        g.plan.push_back(Plan::TraderOp { vi, who: Who::Id(a), op: TOp::Reverse, block: Blk::Next });
                        g.plan.push_back(Plan::TraderOp { vi, who: Who::Id(a), op: TOp::Close, block: Blk::Next });
                    }
                }
                g.plan.push_back(Plan::TraderOp { vi, who: Who::Id(b), op: TOp::Close, block: Blk::Next });
                stats.count("campaign", "dust_long");
            }
        }
    }
    // "a role is handed over, used, and handed back": in an eighth of the histories one role (decided from (seed, h)) goes to another
    // account; the OLD holder, the owner of the engine and a stranger then try the role's calls (in the states in which the calls
    // would do something: lifting a pause that is in force, closing an open vAMM …), the new holder makes them, hands the role back,
    // and tries once more
    if k == 9 && g.plan.is_empty() && g.mode != Mode::Twin && (w.cfg.seed.wrapping_mul(0x9E37_79B9).wrapping_add(w.cfg.h.wrapping_mul(0x85EB_CA6B)) >> 7) % 8 == 2 {
        let hh = w.cfg.seed.wrapping_mul(0xC2B2_AE35).wrapping_add(w.cfg.h.wrapping_mul(0x27D4_EB2F)) >> 5;
        let eowner = w.engine_config().map(|c| w.id(c.owner.as_str())).unwrap_or(OWNER);
        let call = |g: &mut GenCtx, by: u64, msg: Msg| g.plan.push_back(Plan::Call { by, msg });
        let other = |cur: u64| if cur == NEWOWNER { STRANGER } else { NEWOWNER };
        match hh % 9 {
            8 => {
                // a market OWNED BY THE FUND CONTRACT (the repository's shutdown fixture deploys its markets that way): the fund may close it
                // through the owner arm of `set_open` even while the market's own fund setting points elsewhere — an emergency shutdown
                // must leave it closed like every other registered market
                if let Some(v) = vis.iter().find(|v| v.usable()) {
                    let id = v.id;
                    let o = w.vamm_owner(&v.addr);
                    let vcfg = |uifd: Option<u64>| Msg::VCfg { v: id, ucap: None, uoic: None, utoll: None, uspread: None, ufluct: None, ueng: None, uifd, ufeed: None, utwi: None };
                    call(g, o, Msg::VOwner { v: id, new: IFUND });
                    call(g, IFUND, vcfg(Some(NEWOWNER)));
                    call(g, w.if_owner(), Msg::IfShutdown);
                    call(g, IFUND, vcfg(Some(IFUND)));
                    call(g, IFUND, Msg::VSetOpen { v: id, uopen: 1 });
                    call(g, IFUND, Msg::VOwner { v: id, new: o });
                    stats.count("campaign", "role_fund_owns_market");
                }
            }
            6 => {
                // the ENGINE names another insurance fund: that account gains nothing on the vAMMs (each vAMM trusts the fund in its
                // OWN configuration), the registered fund can still shut the markets down
                if let Some(v) = vis.iter().find(|v| v.usable()) {
                    let id = v.id;
                    let x = STRANGER;
                    let ecfg = |uifd: Option<u64>| Msg::ECfg { uowner: None, uifd, ufp: None, uimr: None, ummr: None, uplr: None, ulf: None };
                    call(g, eowner, ecfg(Some(x)));
                    call(g, x, Msg::VSetOpen { v: id, uopen: 0 });
                    call(g, x, Msg::IfShutdown);
                    call(g, IFUND, Msg::VSetOpen { v: id, uopen: 0 });
                    call(g, x, Msg::VSetOpen { v: id, uopen: 1 });
                    call(g, IFUND, Msg::VSetOpen { v: id, uopen: 1 });
                    call(g, eowner, ecfg(Some(IFUND)));
                    stats.count("campaign", "role_delegation_engine_fund");
                }
            }
            7 => {
                // a vAMM names another insurance fund: that account may open / close this vAMM, the old fund no longer, nobody else;
                // a trade with a spread fee still pays the ENGINE's fund
                if let Some(v) = vis.iter().find(|v| v.usable()) {
                    let id = v.id;
                    let o = w.vamm_owner(&v.addr);
                    let x = NEWOWNER;
                    let vcfg = |uifd: Option<u64>, uspread: Option<u128>| Msg::VCfg { v: id, ucap: None, uoic: None, utoll: None, uspread, ufluct: None, ueng: None, uifd, ufeed: None, utwi: None };
                    call(g, o, vcfg(Some(x), Some(w.cfg.d / 100 + 1)));
                    g.plan.push_back(Plan::TraderOp { vi: v.idx, who: Who::Id(TRADERS[(hh % 4) as usize]), op: TOp::OpenSame, block: Blk::Free });
                    call(g, STRANGER, Msg::VSetOpen { v: id, uopen: 0 });
                    call(g, eowner, Msg::VSetOpen { v: id, uopen: 0 });
                    call(g, x, Msg::VSetOpen { v: id, uopen: 0 });
                    call(g, IFUND, Msg::VSetOpen { v: id, uopen: 1 });
                    call(g, x, Msg::VSetOpen { v: id, uopen: 1 });
                    g.plan.push_back(Plan::TraderOp { vi: v.idx, who: Who::Id(TRADERS[(hh % 4) as usize]), op: TOp::Close, block: Blk::Free });
                    call(g, o, vcfg(Some(IFUND), None));
                    call(g, x, Msg::VSetOpen { v: id, uopen: 0 });
                    stats.count("campaign", "role_delegation_vamm_fund");
                }
            }
            0 | 1 => {
                let p0 = w.pauser();
                let n = other(p0);
                let paused = w.engine_paused();
                if !paused {
                    call(g, p0, Msg::EPauser { new: n });
                    for by in [p0, eowner, 101] {
                        if by != n {
                            call(g, by, Msg::Pause { p: 1 });
                        }
                    }
                    call(g, n, Msg::Pause { p: 1 });
                    for by in [p0, eowner, STRANGER] {
                        if by != n {
                            call(g, by, Msg::Pause { p: 0 });
                            call(g, by, Msg::WlAdd { a: 102 });
                        }
                    }
                    call(g, n, Msg::Pause { p: 0 });
                    call(g, n, Msg::EPauser { new: p0 });
                    call(g, n, Msg::Pause { p: 1 });
                    call(g, n, Msg::EPauser { new: n });
                    call(g, p0, Msg::Pause { p: 1 });
                    for by in [n, eowner] {
                        if by != p0 {
                            call(g, by, Msg::Pause { p: 0 });
                        }
                    }
                    call(g, p0, Msg::Pause { p: 0 });
                    stats.count("campaign", "role_handover_pauser");
                }
            }
            2 => {
                let n = other(eowner);
                let ecfg = |uowner: Option<u64>, ulf: Option<u128>| Msg::ECfg { uowner, uifd: None, ufp: None, uimr: None, ummr: None, uplr: None, ulf };
                let lf = w.engine_config().map(|c| c.liquidation_fee.u128()).unwrap_or(0);
                call(g, eowner, ecfg(Some(n), None));
                call(g, eowner, ecfg(None, Some(lf)));
                call(g, eowner, ecfg(Some(eowner), None));
                call(g, w.pauser(), ecfg(None, Some(lf)));
                call(g, n, ecfg(None, Some(lf)));
                call(g, n, ecfg(Some(eowner), None));
                call(g, n, ecfg(None, Some(lf)));
                call(g, n, ecfg(Some(n), None));
                call(g, eowner, ecfg(None, Some(lf)));
                stats.count("campaign", "role_handover_engine_owner");
            }
            3 => {
                if let Some(v) = vis.iter().find(|v| v.usable()) {
                    let o = w.vamm_owner(&v.addr);
                    let n = other(o);
                    let id = v.id;
                    call(g, o, Msg::VOwner { v: id, new: n });
                    for by in [o, eowner, STRANGER] {
                        if by != n {
                            call(g, by, Msg::VSetOpen { v: id, uopen: 0 });
                            call(g, by, Msg::VOwner { v: id, new: by });
                        }
                    }
                    call(g, n, Msg::VSetOpen { v: id, uopen: 0 });
                    for by in [o, eowner] {
                        if by != n {
                            call(g, by, Msg::VSetOpen { v: id, uopen: 1 });
                        }
                    }
                    call(g, n, Msg::VSetOpen { v: id, uopen: 1 });
                    call(g, n, Msg::VOwner { v: id, new: o });
                    call(g, n, Msg::VSetOpen { v: id, uopen: 0 });
                    call(g, n, Msg::VOwner { v: id, new: n });
                    call(g, o, Msg::VSetOpen { v: id, uopen: 1 });
                    stats.count("campaign", "role_handover_vamm_owner");
                }
            }
            4 => {
                let o = w.if_owner();
                let n = other(o);
                let v = vis.iter().find(|v| !v.registered).or_else(|| vis.first()).map(|v| v.id).unwrap_or(VAMM0);
                call(g, o, Msg::IfOwner { new: n });
                for by in [o, eowner, STRANGER] {
                    if by != n {
                        call(g, by, Msg::IfRm { v });
                        call(g, by, Msg::IfAdd { v });
                        call(g, by, Msg::IfOwner { new: by });
                    }
                }
                call(g, n, Msg::IfRm { v });
                call(g, n, Msg::IfAdd { v });
                call(g, n, Msg::IfOwner { new: o });
                call(g, n, Msg::IfRm { v });
                call(g, n, Msg::IfOwner { new: n });
                call(g, o, Msg::IfRm { v });
                call(g, o, Msg::IfAdd { v });
                stats.count("campaign", "role_handover_fund_owner");
            }
            _ => {
                let o = w.fp_owner();
                let n = other(o);
                let fo = w.feed_owner();
                let fnew = other(fo);
                let tok = if w.token.is_some() { 5 } else { 0 };
                call(g, o, Msg::FpOwner { new: n });
                for by in [o, eowner, STRANGER] {
                    if by != n {
                        call(g, by, Msg::FpSend { tok, amt: 1, to: by });
                        call(g, by, Msg::FpRm { tok });
                        call(g, by, Msg::FpOwner { new: by });
                    }
                }
                call(g, n, Msg::FpSend { tok, amt: 1, to: n });
                call(g, n, Msg::FpOwner { new: o });
                call(g, n, Msg::FpSend { tok, amt: 1, to: n });
                call(g, fo, Msg::FdOwner { new: fnew });
                call(g, fo, Msg::FdOwner { new: fo });
                if eowner != fnew {
                    call(g, eowner, Msg::FdOwner { new: eowner });
                }
                call(g, fnew, Msg::FdOwner { new: fo });
                call(g, fnew, Msg::FdOwner { new: fnew });
                stats.count("campaign", "role_handover_pool_feed_owner");
            }
        }
    }
    if k == 2 && g.plan.is_empty() && vis.len() >= 4 && g.mode != Mode::Twin {
        let started = start_capacity(g, &vis);
        stats.count("campaign", if started { "registry_capacity" } else { "registry_capacity_not_applicable" });
    }
    if let Some(at) = g.shutdown_at {
        if k >= at && g.plan.is_empty() {
            g.shutdown_at = None;
            let started = start_shutdown(r, g, &vis);
            stats.count("campaign", if started { "shutdown_started" } else { "shutdown_not_applicable" });
        }
    }
    if let Some((kind, at)) = g.market {
        if k >= at && g.plan.is_empty() {
            g.market = None;
            let name = match kind {
                1 => "deregistered_market",
                2 => "closed_market",
                _ => "paused_engine",
            };
            let started = start_market(w, g, kind, &vis, &ps);
            stats.count("campaign", &format!("{}{}", name, if started { "" } else { "_not_applicable" }));
        }
    }
    if let Some(at) = g.config_at {
        if k >= at && g.plan.is_empty() {
            g.config_at = None;
            let started = start_config(w, r, g, &vis, &ps);
            stats.count("campaign", if started { "config" } else { "config_not_applicable" });
        }
    }
    if let Some(at) = g.alias_from {
        if k >= at && g.plan.is_empty() && start_alias(r, g, &vis, &ps) {
            g.alias_from = None;
            stats.count("campaign", "key_alias");
        }
    }
    if let Some(at) = g.scenario_at {
        if k >= at && g.plan.is_empty() {
            g.scenario_at = None;
            if g.scenario_kind == 1 {
                let started = start_pump(w, r, g, &vis, &ps);
                stats.count("campaign", if started { "pump_started" } else { "pump_not_applicable" });
            } else {
                let started = start_campaign(w, r, g, &vis, &ps, None);
                stats.count("campaign", if started { "started" } else { "not_applicable" });
            }
        }
    }
    while let Some(pl) = g.plan.pop_front() {
        if let Some(d) = realize(w, r, g, &pl, &vis, &ps) {
            if let Plan::TraderOp { op, .. } = &pl {
                stats.count("trader_op", &format!("{:?}", op));
            }
            stats.count("plan", match pl {
                Plan::VictimOpen { .. } => "victim_open",
                Plan::Push { .. } => "push",
                Plan::AlignOracle { .. } => "align_oracle",
                Plan::OracleSkew { .. } => "oracle_skew",
                Plan::OracleSkewRecv { .. } => "oracle_skew_recv",
                Plan::Call { .. } => "call",
                Plan::FundingRound { .. } => "funding_round",
                Plan::Liq { .. } => "liq",
                Plan::OpenFrac { .. } => "open_frac",
                Plan::CloseBy { .. } => "close_by",
                Plan::CloseVamm { .. } => "close_vamm",
                Plan::Shutdown => "shutdown",
                Plan::TraderOp { .. } => "trader_op",
                Plan::LiqAny { .. } => "liq_any",
                Plan::LiqBy { .. } => "liq_by",
                Plan::PayFunding { .. } => "payfunding",
                Plan::IfRm { .. } => "ifrm",
                Plan::IfAdd { .. } => "ifadd",
                Plan::VSet { .. } => "vset",
                Plan::Pause { .. } => "pause",
                Plan::Config { .. } => "config",
                Plan::Alias { .. } => "alias",
            });
            g.last_plan = Some(pl);
            dr = Some(d);
            break;
        }
    }
    if dr.is_none() && r.chance(40, 100) {
        dr = gen_repair(w, r, &vis);
    }
    let dr = match dr {
        Some(d) => d,
        None => {
            let have = !ps.is_empty();
            let c = r.below(100);
            // fault mode: more of the transactions with sub-messages, fewer plain admin calls
            let c = if g.mode == Mode::Fault {
                match c {
                    0..=33 => 0,         // open
                    34..=47 => 35,       // close
                    48..=59 => 45,       // deposit / withdraw
                    60..=71 => 55,       // liquidate
                    72..=80 => 65,       // pay funding
                    81..=86 => 71,       // oracle
                    87..=93 => 100,      // insurance fund / fee pool calls with message trees
                    94..=96 => 77,       // admin
                    _ => 0,
                }
            } else if g.mode == Mode::Twin && (87..=89).contains(&c) {
                0
            } else {
                c
            };
            // without positions most position-dependent picks become opens
            let c = if !have && (35..65).contains(&c) && r.chance(85, 100) { 0 } else { c };
            match c {
                100 => gen_tree_admin(w, r),
                0..=34 => gen_open(w, r, &vis, &ps),
                35..=44 => {
                    if have {
                        gen_close(w, r, &ps)
                    } else {
                        draft(pick_trader(r), Msg::Close { v: pick_vamm(r, &vis).map(|v| v.id).unwrap_or(0), lim: 0 })
                    }
                }
                45..=54 => {
                    if have {
                        gen_depwd(w, r, &ps)
                    } else {
                        let v = pick_vamm(r, &vis).map(|v| v.id).unwrap_or(0);
                        let amt = w.cfg.d;
                        if r.chance(1, 2) {
                            let mut d = draft(pick_trader(r), Msg::Deposit { v, amt });
                            if w.cfg.native {
                                d.funds = amt;
                            }
                            d
                        } else {
                            draft(pick_trader(r), Msg::Withdraw { v, amt })
                        }
                    }
                }
                55..=64 => {
                    if have {
                        gen_liq(w, r, g, &vis, &ps)
                    } else {
                        draft(liq_sender(r), Msg::Liq { v: pick_vamm(r, &vis).map(|v| v.id).unwrap_or(0), trader: pick_trader(r), lim: 0 })
                    }
                }
                65..=70 => gen_payfunding(w, r, &vis, now + dt),
                71..=76 => gen_oracle(w, r, &vis, now + dt),
                77..=86 => {
                    if r.chance(1, 4) && !vis.is_empty() {
                        // a little more weight on engine / vAMM configuration updates
                        let v = &vis[r.below(vis.len() as u64) as usize];
                        let kind = match r.below(8) {
                            0 | 1 => CKind::Pair(r.below(6)),
                            2 => CKind::SingleRatio,
                            3 => CKind::PlrLf,
                            4 | 5 => CKind::VRatios,
                            6 => CKind::VTwi,
                            _ => CKind::VCaps,
                        };
                        let legit = r.chance(75, 100);
                        config_msg(w, r, v, kind, legit, 101)
                    } else {
                        gen_admin(w, r, &vis, g.mode)
                    }
                }
                87..=89 => gen_house(w, r),
                90..=91 => gen_direct(w, r, &vis),
                _ => gen_open(w, r, &vis, &ps),
            }
        }
    };
    let (dh, dt) = match dr.block {
        Blk::Free => (dh, dt),
        Blk::Same => (0, 0),
        Blk::Next => (1, 6),
    };
    let mut height = b.height + dh.max(dr.min_blocks);
    let mut time = now + dt.max(dr.min_dt);
    if height > b.height && time == now {
        time += 1;
    }
    if time > now && height == b.height {
        height += 1;
    }
    // timestamps chosen relative to "now" follow the final block time
    let msg = match dr.msg {
        Msg::Oracle { price, ts } if ts == now + dt || ts == now => Msg::Oracle { price, ts: time },
        m => m,
    };
    // coins nobody asked for: a small share of the calls that need none carries some (native collateral)
    let stray = w.cfg.native
        && dr.funds == 0
        && matches!(msg, Msg::PayFunding { .. } | Msg::Liq { .. } | Msg::Withdraw { .. } | Msg::Close { .. })
        && r.chance(4, 100)
        && w.balance_id(dr.snd) > 3 * w.cfg.d;
    let funds = if stray { r.range(1, 3) as u128 * w.cfg.d } else if w.cfg.native { dr.funds } else { 0 };
    // the second denom can only be attached by an account that was funded with it
    let snd = dr.snd;
    let extra = w.cfg.native && dr.extra && w.cfg.funds.iter().any(|(id, _)| *id == snd);
    Tx { k, snd: dr.snd, funds, extra, height, time, msg, fault: None }
}
