//! The `World`: a cw-multi-test App with the whole protocol deployed, the address-id map,
//! typed query helpers and the `OBS` / `QRY` printers.
use super::cfg::*;
use crate::rng::Rng;
use cosmwasm_std::{
    Addr, Api, BankMsg, BankQuery, Binary, BlockInfo, Coin, CosmosMsg, CustomQuery, Deps, DepsMut, Empty, Env,
    MessageInfo, Querier, Reply, Response, Storage, Timestamp, Uint128,
};
use cosmwasm_storage::to_length_prefixed;
use cw20::{AllowanceResponse, BalanceResponse, Cw20Coin, Cw20ExecuteMsg, Cw20QueryMsg};
use cw_multi_test::{
    App, AppBuilder, AppResponse, Bank, BankKeeper, BankSudo, Contract, ContractWrapper, CosmosRouter, Executor, Module,
};
use schemars::JsonSchema;
use std::sync::{Arc, Mutex};
use margined_common::asset::AssetInfo;
use margined_common::integer::Integer;
use margined_perp::margined_engine as eng;
use margined_perp::margined_fee_pool as fpool;
use margined_perp::margined_insurance_fund as ifund;
use margined_perp::margined_pricefeed as feed;
use margined_perp::margined_vamm as vamm;
use serde::de::DeserializeOwned;
use serde::{Deserialize, Serialize};
use std::collections::HashMap;
use std::panic::{catch_unwind, AssertUnwindSafe};

/// Fault injection control shared by all wrapped contracts and the bank module of one World.
/// Every `execute` that reaches a wrapped contract (or a bank send issued by a contract) takes the
/// next index; the call whose index equals `armed` fails with "injected fault".
#[derive(Default, Debug)]
pub struct FaultCtl {
    pub armed: Option<u64>,
    pub counter: u64,
    pub fired: bool,
}
impl FaultCtl {
    fn hit(&mut self) -> bool {
        let i = self.counter;
        self.counter += 1;
        if self.armed == Some(i) {
            self.fired = true;
            true
        } else {
            false
        }
    }
}
pub type Ctl = Arc<Mutex<FaultCtl>>;

/// forwards everything to the wrapped contract; `execute` first consults the FaultCtl
pub struct FaultWrap {
    inner: Box<dyn Contract<Empty>>,
    ctl: Ctl,
}
impl Contract<Empty> for FaultWrap {
    fn execute(&self, deps: DepsMut, env: Env, info: MessageInfo, msg: Vec<u8>) -> anyhow::Result<Response> {
        if self.ctl.lock().unwrap().hit() {
            anyhow::bail!("injected fault");
        }
        self.inner.execute(deps, env, info, msg)
    }
    fn instantiate(&self, deps: DepsMut, env: Env, info: MessageInfo, msg: Vec<u8>) -> anyhow::Result<Response> {
        self.inner.instantiate(deps, env, info, msg)
    }
    fn query(&self, deps: Deps, env: Env, msg: Vec<u8>) -> anyhow::Result<Binary> {
        self.inner.query(deps, env, msg)
    }
    fn sudo(&self, deps: DepsMut, env: Env, msg: Vec<u8>) -> anyhow::Result<Response> {
        self.inner.sudo(deps, env, msg)
    }
    fn reply(&self, deps: DepsMut, env: Env, msg: Reply) -> anyhow::Result<Response> {
        self.inner.reply(deps, env, msg)
    }
    fn migrate(&self, deps: DepsMut, env: Env, msg: Vec<u8>) -> anyhow::Result<Response> {
        self.inner.migrate(deps, env, msg)
    }
}
fn wrap(inner: Box<dyn Contract<Empty>>, ctl: &Ctl) -> Box<dyn Contract<Empty>> {
    Box::new(FaultWrap { inner, ctl: ctl.clone() })
}

/// BankKeeper whose sends issued by contracts ("contractN" senders) are subject to the FaultCtl
pub struct FaultBank {
    pub inner: BankKeeper,
    ctl: Ctl,
}
impl Module for FaultBank {
    type ExecT = BankMsg;
    type QueryT = BankQuery;
    type SudoT = BankSudo;
    fn execute<ExecC, QueryC>(
        &self,
        api: &dyn Api,
        storage: &mut dyn Storage,
        router: &dyn CosmosRouter<ExecC = ExecC, QueryC = QueryC>,
        block: &BlockInfo,
        sender: Addr,
        msg: BankMsg,
    ) -> anyhow::Result<AppResponse>
    where
        ExecC: std::fmt::Debug + Clone + PartialEq + JsonSchema + DeserializeOwned + 'static,
        QueryC: CustomQuery + DeserializeOwned + 'static,
    {
        if sender.as_str().starts_with("contract") && self.ctl.lock().unwrap().hit() {
            anyhow::bail!("injected fault");
        }
        self.inner.execute(api, storage, router, block, sender, msg)
    }
    fn sudo<ExecC, QueryC>(
        &self,
        api: &dyn Api,
        storage: &mut dyn Storage,
        router: &dyn CosmosRouter<ExecC = ExecC, QueryC = QueryC>,
        block: &BlockInfo,
        msg: BankSudo,
    ) -> anyhow::Result<AppResponse>
    where
        ExecC: std::fmt::Debug + Clone + PartialEq + JsonSchema + DeserializeOwned + 'static,
        QueryC: CustomQuery + DeserializeOwned + 'static,
    {
        self.inner.sudo(api, storage, router, block, msg)
    }
    fn query(&self, api: &dyn Api, storage: &dyn Storage, querier: &dyn Querier, block: &BlockInfo, request: BankQuery) -> anyhow::Result<Binary> {
        self.inner.query(api, storage, querier, block, request)
    }
}
impl Bank for FaultBank {}

/// the App type of every World (the fault machinery is inert unless armed)
pub type WApp = App<FaultBank>;

pub const START_HEIGHT: u64 = 12_345;
pub const START_TIME: u64 = 1_571_797_419;

fn c_engine() -> Box<dyn Contract<Empty>> {
    Box::new(
        ContractWrapper::new_with_empty(
            margined_engine::contract::execute,
            margined_engine::contract::instantiate,
            margined_engine::contract::query,
        )
        .with_reply(margined_engine::contract::reply),
    )
}
fn c_vamm() -> Box<dyn Contract<Empty>> {
    Box::new(ContractWrapper::new_with_empty(
        margined_vamm::contract::execute,
        margined_vamm::contract::instantiate,
        margined_vamm::contract::query,
    ))
}
fn c_ifund() -> Box<dyn Contract<Empty>> {
    Box::new(ContractWrapper::new_with_empty(
        margined_insurance_fund::contract::execute,
        margined_insurance_fund::contract::instantiate,
        margined_insurance_fund::contract::query,
    ))
}
fn c_feepool() -> Box<dyn Contract<Empty>> {
    Box::new(ContractWrapper::new_with_empty(
        margined_fee_pool::contract::execute,
        margined_fee_pool::contract::instantiate,
        margined_fee_pool::contract::query,
    ))
}
fn c_feed_real() -> Box<dyn Contract<Empty>> {
    Box::new(ContractWrapper::new_with_empty(
        margined_pricefeed::contract::execute,
        margined_pricefeed::contract::instantiate,
        margined_pricefeed::contract::query,
    ))
}
fn c_feed_mock() -> Box<dyn Contract<Empty>> {
    Box::new(ContractWrapper::new_with_empty(
        mock_pricefeed::contract::execute,
        mock_pricefeed::contract::instantiate,
        mock_pricefeed::contract::query,
    ))
}
fn c_cw20() -> Box<dyn Contract<Empty>> {
    Box::new(ContractWrapper::new_with_empty(
        cw20_base::contract::execute,
        cw20_base::contract::instantiate,
        cw20_base::contract::query,
    ))
}

#[derive(Deserialize)]
struct RawPosition {
    vamm: String,
    trader: String,
    direction: String,
    size: String,
    margin: Uint128,
    notional: Uint128,
    last_updated_premium_fraction: String,
    block_number: u64,
}
#[derive(Deserialize)]
struct RawVammMap {
    last_restriction_block: u64,
    cumulative_premium_fractions: Vec<String>,
}
#[derive(Deserialize)]
struct RawEngineState {
    #[allow(dead_code)]
    open_interest_notional: Uint128,
    #[allow(dead_code)]
    prepaid_bad_debt: Uint128,
    pause: bool,
}
#[derive(Serialize, Deserialize)]
struct RawSnapshot {
    quote_asset_reserve: Uint128,
    base_asset_reserve: Uint128,
    timestamp: Timestamp,
    block_height: u64,
}
#[derive(Deserialize)]
struct RawPriceData {
    round_id: Uint128,
    price: Uint128,
    timestamp: Timestamp,
}

/// A stored engine position, addresses mapped to ids, signs kept as stored
#[derive(Clone, Debug)]
pub struct PosInfo {
    pub v: u64,
    pub t: u64,
    pub vaddr: String,
    pub taddr: String,
    pub dir: u64,
    pub sneg: u8,
    pub size: u128,
    pub margin: u128,
    pub notional: u128,
    pub cneg: u8,
    pub chk: u128,
    pub block: u64,
}

fn sign_mag(s: &str) -> (u8, String) {
    match s.strip_prefix('-') {
        Some(rest) => (1, rest.to_string()),
        None => (0, s.to_string()),
    }
}

pub struct World {
    pub app: WApp,
    pub ctl: Ctl,
    pub cfg: Cfg,
    pub ids: HashMap<String, u64>,
    pub names: HashMap<u64, String>,
    pub engine: Addr,
    pub ifund: Addr,
    pub feepool: Addr,
    pub feed: Addr,
    pub token: Option<Addr>,
    pub vamms: Vec<Addr>,
    /// code ids kept for the instantiate probes
    pub engine_code: u64,
    pub cw20_code: Option<u64>,
}

fn ex<T: Serialize + std::fmt::Debug>(app: &mut WApp, sender: &str, contract: &Addr, msg: &T) -> Result<AppResponse, String> {
    app.execute_contract(Addr::unchecked(sender), contract.clone(), msg, &[])
        .map_err(|e| format!("{}", e.root_cause()))
}

impl World {
    pub fn deploy(cfg: &Cfg) -> Result<World, String> {
        let c = cfg.clone();
        match catch_unwind(AssertUnwindSafe(|| World::deploy_inner(&c))) {
            Ok(r) => r,
            Err(_) => Err("panic".to_string()),
        }
    }

    fn deploy_inner(cfg: &Cfg) -> Result<World, String> {
        let d = cfg.d;
        let bank = Addr::unchecked("bank");
        let owner = Addr::unchecked("owner");
        let bank_amount = 1_000_000_000u128 * d;
        let native = cfg.native;
        let ctl: Ctl = Arc::new(Mutex::new(FaultCtl::default()));
        let mut app: WApp = AppBuilder::new().with_bank(FaultBank { inner: BankKeeper::new(), ctl: ctl.clone() }).build(|router, _, storage| {
            if native {
                router
                    .bank
                    .inner
                    .init_balance(
                        storage,
                        &Addr::unchecked("bank"),
                        vec![Coin::new(bank_amount, "uwasm"), Coin::new(1_000_000_000_000u128, "ucosmos")],
                    )
                    .unwrap();
            }
        });
        let chain_id = app.block_info().chain_id;
        app.set_block(BlockInfo { height: START_HEIGHT, time: Timestamp::from_seconds(START_TIME), chain_id });

        let mut ids: HashMap<String, u64> = HashMap::new();
        let mut names: HashMap<u64, String> = HashMap::new();
        // realistic address lengths and shapes: in every other deployment bob, david and the liquidator carry bech32-shaped addresses of
        // 44–45 characters that agree in their first 34 characters (nothing keyed by an address may depend on a bounded prefix of it), and
        // david's address is bob's plus one character (an address is compared as a whole: david is not bob, whatever bob is allowed to do).
        // The fixture names are 3–10 bytes.
        let long = cfg.seed.wrapping_add(cfg.h) % 2 == 1;
        const FILL: &str = "wasm1qpzry9x8gf2tvdw0s3jn54khce6mua7l2tvdw0s3jn54kh";
        for (id, n) in ACCOUNTS {
            let name = if long && matches!(*id, 102 | 110) {
                format!("{}{}", &FILL[..44 - n.len()], n)
            } else if long && *id == 104 {
                format!("{}bob9", &FILL[..41])
            } else {
                n.to_string()
            };
            ids.insert(name.clone(), *id);
            names.insert(*id, name);
        }
        let mut reg = |id: u64, a: &Addr| {
            ids.insert(a.to_string(), id);
            names.insert(id, a.to_string());
        };

        let feepool_code = app.store_code(wrap(c_feepool(), &ctl));
        let engine_code = app.store_code(c_engine());
        let vamm_code = app.store_code(wrap(c_vamm(), &ctl));
        let ifund_code = app.store_code(wrap(c_ifund(), &ctl));
        let feed_code = if cfg.real_feed { app.store_code(c_feed_real()) } else { app.store_code(c_feed_mock()) };

        let feepool = app
            .instantiate_contract(feepool_code, owner.clone(), &fpool::InstantiateMsg {}, &[], "fee_pool", None)
            .map_err(|e| format!("{}", e.root_cause()))?;
        reg(FEEPOOL, &feepool);

        let mut cw20_code: Option<u64> = None;
        let token = if native {
            None
        } else {
            let code = app.store_code(wrap(c_cw20(), &ctl));
            cw20_code = Some(code);
            let t = app
                .instantiate_contract(
                    code,
                    owner.clone(),
                    &cw20_base::msg::InstantiateMsg {
                        name: "USDC".to_string(),
                        symbol: "USDC".to_string(),
                        decimals: cfg.dp as u8,
                        initial_balances: vec![Cw20Coin { address: bank.to_string(), amount: Uint128::new(bank_amount) }],
                        mint: None,
                        marketing: None,
                    },
                    &[],
                    "cw20",
                    None,
                )
                .map_err(|e| format!("{}", e.root_cause()))?;
            reg(TOKEN, &t);
            Some(t)
        };
        let collateral = match &token {
            Some(t) => t.to_string(),
            None => "uwasm".to_string(),
        };

        let engine = app
            .instantiate_contract(
                engine_code,
                owner.clone(),
                &eng::InstantiateMsg {
                    pauser: "pauser".to_string(),
                    insurance_fund: "insurance_fund".to_string(),
                    fee_pool: feepool.to_string(),
                    eligible_collateral: collateral.clone(),
                    initial_margin_ratio: Uint128::new(cfg.imr),
                    maintenance_margin_ratio: Uint128::new(cfg.mmr),
                    liquidation_fee: Uint128::new(cfg.lf),
                },
                &[],
                "engine",
                None,
            )
            .map_err(|e| format!("{}", e.root_cause()))?;
        reg(ENGINE, &engine);

        let ifund_addr = app
            .instantiate_contract(ifund_code, owner.clone(), &ifund::InstantiateMsg { engine: engine.to_string() }, &[], "insurance_fund", None)
            .map_err(|e| format!("{}", e.root_cause()))?;
        reg(IFUND, &ifund_addr);

        ex(
            &mut app,
            "owner",
            &engine,
            &eng::ExecuteMsg::UpdateConfig {
                owner: None,
                insurance_fund: Some(ifund_addr.to_string()),
                fee_pool: None,
                initial_margin_ratio: None,
                maintenance_margin_ratio: None,
                partial_liquidation_ratio: Some(Uint128::new(cfg.plr)),
                liquidation_fee: None,
            },
        )?;

        let feed_addr = app
            .instantiate_contract(
                feed_code,
                owner.clone(),
                &feed::InstantiateMsg { oracle_hub_contract: "oracle_hub0000".to_string() },
                &[],
                "pricefeed",
                None,
            )
            .map_err(|e| format!("{}", e.root_cause()))?;
        reg(FEED, &feed_addr);

        let mut vamms = vec![];
        for (i, v) in cfg.vamms.iter().enumerate() {
            let a = app
                .instantiate_contract(
                    vamm_code,
                    owner.clone(),
                    &vamm::InstantiateMsg {
                        decimals: v.dp as u8,
                        pricefeed: feed_addr.to_string(),
                        margin_engine: None,
                        insurance_fund: Some(ifund_addr.to_string()),
                        quote_asset: "ETH".to_string(),
                        base_asset: ORACLE_KEY.to_string(),
                        quote_asset_reserve: Uint128::new(v.q),
                        base_asset_reserve: Uint128::new(v.b),
                        funding_period: v.period,
                        toll_ratio: Uint128::new(v.toll),
                        spread_ratio: Uint128::new(v.spread),
                        fluctuation_limit_ratio: Uint128::new(v.fluct),
                    },
                    &[],
                    "vamm",
                    None,
                )
                .map_err(|e| format!("{}", e.root_cause()))?;
            reg(VAMM0 + i as u64, &a);
            // alias strings for the key-alias probes: alias ++ "ice" == addr ++ "alice", alias ++ "rol" == addr ++ "carol"
            reg(VAMM0 + i as u64 + ALIAS_AL, &Addr::unchecked(format!("{}al", a)));
            reg(VAMM0 + i as u64 + ALIAS_CA, &Addr::unchecked(format!("{}ca", a)));
            ex(
                &mut app,
                "owner",
                &a,
                &vamm::ExecuteMsg::UpdateConfig {
                    base_asset_holding_cap: if v.cap != 0 { Some(Uint128::new(v.cap)) } else { None },
                    open_interest_notional_cap: if v.oic != 0 { Some(Uint128::new(v.oic)) } else { None },
                    toll_ratio: None,
                    spread_ratio: None,
                    fluctuation_limit_ratio: None,
                    margin_engine: Some(engine.to_string()),
                    insurance_fund: None,
                    pricefeed: None,
                    spot_price_twap_interval: None,
                },
            )?;
            if v.registered {
                ex(&mut app, "owner", &ifund_addr, &ifund::ExecuteMsg::AddVamm { vamm: a.to_string() })?;
            }
            if v.opened {
                ex(&mut app, "owner", &a, &vamm::ExecuteMsg::SetOpen { open: true })?;
            }
            vamms.push(a);
        }

        ex(&mut app, "owner", &feepool, &fpool::ExecuteMsg::AddToken { token: collateral })?;

        // funds
        let pay = |app: &mut WApp, to: &str, amount: u128| -> Result<(), String> {
            if amount == 0 {
                return Ok(());
            }
            match &token {
                None => app
                    .execute(
                        bank.clone(),
                        CosmosMsg::Bank(BankMsg::Send { to_address: to.to_string(), amount: vec![Coin::new(amount, "uwasm")] }),
                    )
                    .map(|_| ())
                    .map_err(|e| format!("{}", e.root_cause())),
                Some(t) => ex(app, "bank", t, &Cw20ExecuteMsg::Transfer { recipient: to.to_string(), amount: Uint128::new(amount) }).map(|_| ()),
            }
        };
        for (id, amt) in &cfg.funds {
            let to = names.get(id).cloned().ok_or("unknown fund id")?;
            pay(&mut app, &to, *amt)?;
            if native {
                app.execute(
                    bank.clone(),
                    CosmosMsg::Bank(BankMsg::Send { to_address: to.clone(), amount: vec![Coin::new(1_000_000_000u128, "ucosmos")] }),
                )
                .map_err(|e| format!("{}", e.root_cause()))?;
            }
        }
        pay(&mut app, ifund_addr.as_str(), cfg.ifbal)?;
        if let Some(t) = &token {
            for (id, amt) in &cfg.allow {
                let who = names.get(id).cloned().ok_or("unknown allow id")?;
                ex(
                    &mut app,
                    &who,
                    t,
                    &Cw20ExecuteMsg::IncreaseAllowance { spender: engine.to_string(), amount: Uint128::new(*amt), expires: None },
                )?;
            }
        }

        // oracle
        let append = |app: &mut WApp| {
            let ts = app.block_info().time.seconds();
            ex(
                app,
                "owner",
                &feed_addr,
                &feed::ExecuteMsg::AppendPrice { key: ORACLE_KEY.to_string(), price: Uint128::new(cfg.oracle0), timestamp: ts },
            )
        };
        append(&mut app)?;
        if cfg.real_feed {
            app.update_block(|b| {
                b.height += 1;
                b.time = b.time.plus_seconds(15);
            });
            append(&mut app)?;
        }

        Ok(World { app, ctl, cfg: cfg.clone(), ids, names, engine, ifund: ifund_addr, feepool, feed: feed_addr, token, vamms, engine_code, cw20_code })
    }

    // ---------------------------------------------------------------- instantiate probes
    /// Instantiates one more margin engine on this chain with boundary-biased parameters and reports whether the
    /// contract accepted them and what it stored (`EINST` line).  The collateral is this deployment's own, or (cw20
    /// deployments) a fresh token with an unusual number of decimals.  Run after the history's last transaction.
    pub fn probe_engine_instantiate(&mut self, r: &mut Rng, h: u64, j: u64) -> String {
        let owner = Addr::unchecked("owner");
        let mut dec: u32 = self.cfg.dp;
        let mut coll = match &self.token {
            Some(t) => t.to_string(),
            None => "uwasm".to_string(),
        };
        if let (Some(code), true) = (self.cw20_code, r.chance(1, 2)) {
            dec = *r.pick(&[0u32, 5, 6, 7, 9, 18, 38, 39]);
            let fresh = catch_unwind(AssertUnwindSafe(|| {
                self.app.instantiate_contract(
                    code,
                    owner.clone(),
                    &cw20_base::msg::InstantiateMsg {
                        name: "PROBE".to_string(),
                        symbol: "PRB".to_string(),
                        decimals: dec as u8,
                        initial_balances: vec![],
                        mint: None,
                        marketing: None,
                    },
                    &[],
                    "cw20-probe",
                    None,
                )
            }));
            match fresh {
                Ok(Ok(a)) => coll = a.to_string(),
                _ => dec = self.cfg.dp,
            }
        }
        let d: u128 = if dec <= 38 { 10u128.pow(dec) } else { u128::MAX };
        let ratio = |r: &mut Rng| -> u128 {
            match r.below(9) {
                0 => d,
                1 => d.saturating_add(1),
                2 => 0,
                3 => d / 20,
                4 => d / 10,
                5 => d / 40,
                6 => d / 2,
                7 => d.saturating_sub(1),
                _ => r.below128(d / 4 + 1),
            }
        };
        let imr = ratio(r);
        let mmr = match r.below(4) {
            0 => imr,
            1 => imr.saturating_add(1),
            2 => imr.saturating_sub(1),
            _ => ratio(r),
        };
        let lf = ratio(r);
        let msg = eng::InstantiateMsg {
            pauser: "pauser".to_string(),
            insurance_fund: self.ifund.to_string(),
            fee_pool: self.feepool.to_string(),
            eligible_collateral: coll,
            initial_margin_ratio: Uint128::new(imr),
            maintenance_margin_ratio: Uint128::new(mmr),
            liquidation_fee: Uint128::new(lf),
        };
        let code = self.engine_code;
        let res = catch_unwind(AssertUnwindSafe(|| self.app.instantiate_contract(code, owner.clone(), &msg, &[], "engine-probe", None)));
        let head = format!("EINST h={} k={} native={} dec={} imr={} mmr={} lf={}", h, j, self.token.is_none() as u8, dec, imr, mmr, lf);
        match res {
            Ok(Ok(addr)) => {
                let c: Option<eng::ConfigResponse> = self.q(&addr, &eng::QueryMsg::Config {});
                let s: Option<eng::StateResponse> = self.q(&addr, &eng::QueryMsg::State {});
                match (c, s) {
                    (Some(c), Some(s)) => format!(
                        "{} ok=1 c.dec={} c.imr={} c.mmr={} c.plr={} c.lf={} c.owner={} s.oi={} s.prepaid={} err=-",
                        head,
                        c.decimals.u128(),
                        c.initial_margin_ratio.u128(),
                        c.maintenance_margin_ratio.u128(),
                        c.partial_liquidation_ratio.u128(),
                        c.liquidation_fee.u128(),
                        self.id(c.owner.as_str()),
                        s.open_interest_notional.u128(),
                        s.bad_debt.u128()
                    ),
                    _ => format!("{} ok=1 c.dec=0 c.imr=0 c.mmr=0 c.plr=0 c.lf=0 c.owner=0 s.oi=0 s.prepaid=0 err=config-unreadable", head),
                }
            }
            Ok(Err(e)) => format!("{} ok=0 err={}", head, super::tx::err_tag(&format!("{}", e.root_cause()))),
            Err(_) => format!("{} ok=0 err=panic", head),
        }
    }

    // ---------------------------------------------------------------- ids
    pub fn id(&self, a: &str) -> u64 {
        self.ids.get(a).cloned().unwrap_or(0)
    }
    pub fn addr(&self, id: u64) -> String {
        self.names.get(&id).cloned().unwrap_or_else(|| NOBODY.to_string())
    }
    pub fn collateral_asset(&self) -> AssetInfo {
        match &self.token {
            Some(t) => AssetInfo::Token { contract_addr: t.clone() },
            None => AssetInfo::NativeToken { denom: "uwasm".to_string() },
        }
    }

    // ---------------------------------------------------------------- queries
    pub fn q<T: DeserializeOwned, M: Serialize>(&self, c: &Addr, msg: &M) -> Option<T> {
        match catch_unwind(AssertUnwindSafe(|| self.app.wrap().query_wasm_smart::<T>(c.to_string(), msg))) {
            Ok(Ok(x)) => Some(x),
            _ => None,
        }
    }
    pub fn raw(&self, c: &Addr, key: &[u8]) -> Option<Vec<u8>> {
        match self.app.wrap().query_wasm_raw(c.to_string(), key.to_vec()) {
            Ok(Some(v)) if !v.is_empty() => Some(v),
            _ => None,
        }
    }
    pub fn balance(&self, a: &str) -> u128 {
        match &self.token {
            None => self.app.wrap().query_balance(a, "uwasm").map(|c| c.amount.u128()).unwrap_or(0),
            Some(t) => self
                .q::<BalanceResponse, _>(t, &Cw20QueryMsg::Balance { address: a.to_string() })
                .map(|b| b.balance.u128())
                .unwrap_or(0),
        }
    }
    pub fn balance_id(&self, id: u64) -> u128 {
        self.balance(&self.addr(id))
    }
    pub fn allowance(&self, owner: &str) -> u128 {
        match &self.token {
            None => 0,
            Some(t) => self
                .q::<AllowanceResponse, _>(t, &Cw20QueryMsg::Allowance { owner: owner.to_string(), spender: self.engine.to_string() })
                .map(|a| a.allowance.u128())
                .unwrap_or(0),
        }
    }
    pub fn engine_config(&self) -> Option<eng::ConfigResponse> {
        self.q(&self.engine, &eng::QueryMsg::Config {})
    }
    pub fn engine_oi(&self) -> u128 {
        self.raw(&self.engine, &to_length_prefixed(b"state"))
            .and_then(|v| serde_json::from_slice::<RawEngineState>(&v).ok())
            .map(|s| s.open_interest_notional.u128())
            .unwrap_or(0)
    }
    pub fn engine_paused(&self) -> bool {
        self.raw(&self.engine, &to_length_prefixed(b"state"))
            .and_then(|v| serde_json::from_slice::<RawEngineState>(&v).ok())
            .map(|s| s.pause)
            .unwrap_or(false)
    }
    pub fn pauser(&self) -> u64 {
        self.q::<eng::PauserResponse, _>(&self.engine, &eng::QueryMsg::GetPauser {})
            .map(|p| self.id(p.pauser.as_str()))
            .unwrap_or(0)
    }
    pub fn vamm_state(&self, a: &Addr) -> Option<vamm::StateResponse> {
        self.q(a, &vamm::QueryMsg::State {})
    }
    pub fn vamm_config(&self, a: &Addr) -> Option<vamm::ConfigResponse> {
        self.q(a, &vamm::QueryMsg::Config {})
    }
    pub fn vamm_owner(&self, a: &Addr) -> u64 {
        self.q::<vamm::OwnerResponse, _>(a, &vamm::QueryMsg::GetOwner {}).map(|o| self.id(o.owner.as_str())).unwrap_or(0)
    }
    pub fn if_vamms(&self) -> Vec<String> {
        self.raw(&self.ifund, b"vamm-list")
            .and_then(|v| serde_json::from_slice::<Vec<String>>(&v).ok())
            .unwrap_or_default()
    }
    pub fn if_owner(&self) -> u64 {
        self.q::<ifund::OwnerResponse, _>(&self.ifund, &ifund::QueryMsg::GetOwner {}).map(|o| self.id(o.owner.as_str())).unwrap_or(0)
    }
    pub fn fp_owner(&self) -> u64 {
        self.q::<fpool::OwnerResponse, _>(&self.feepool, &fpool::QueryMsg::GetOwner {}).map(|o| self.id(o.owner.as_str())).unwrap_or(0)
    }
    pub fn feed_owner(&self) -> u64 {
        if self.cfg.real_feed {
            self.q::<feed::OwnerResponse, _>(&self.feed, &feed::QueryMsg::GetOwner {}).map(|o| self.id(o.owner.as_str())).unwrap_or(0)
        } else {
            self.q::<mock_pricefeed::contract::ConfigResponse, _>(&self.feed, &mock_pricefeed::contract::QueryMsg::Config {})
                .map(|o| self.id(o.owner.as_str()))
                .unwrap_or(0)
        }
    }
    pub fn margin_ratio(&self, v: &str, t: &str) -> Option<Integer> {
        self.q(&self.engine, &eng::QueryMsg::MarginRatio { vamm: v.to_string(), trader: t.to_string() })
    }
    pub fn free_collateral(&self, v: &str, t: &str) -> Option<Integer> {
        self.q(&self.engine, &eng::QueryMsg::FreeCollateral { vamm: v.to_string(), trader: t.to_string() })
    }

    pub fn positions(&self) -> Vec<PosInfo> {
        let prefix = to_length_prefixed(b"position");
        let mut out = vec![];
        for (k, v) in self.app.dump_wasm_raw(&self.engine) {
            if k.starts_with(&prefix) {
                if let Ok(p) = serde_json::from_slice::<RawPosition>(&v) {
                    let (sneg, smag) = sign_mag(&p.size);
                    let (cneg, cmag) = sign_mag(&p.last_updated_premium_fraction);
                    out.push(PosInfo {
                        v: self.id(&p.vamm),
                        t: self.id(&p.trader),
                        vaddr: p.vamm.clone(),
                        taddr: p.trader.clone(),
                        dir: if p.direction == "add_to_amm" { 0 } else { 1 },
                        sneg,
                        size: smag.parse().unwrap_or(0),
                        margin: p.margin.u128(),
                        notional: p.notional.u128(),
                        cneg,
                        chk: cmag.parse().unwrap_or(0),
                        block: p.block_number,
                    });
                }
            }
        }
        out.sort_by_key(|p| (p.v, p.t));
        out
    }

    // ---------------------------------------------------------------- observation
    fn oid(&self, a: &Addr) -> u64 {
        self.id(a.as_str())
    }

    /// state tokens without `height= time=`
    pub fn observe_body(&self) -> String {
        let mut s = String::with_capacity(2048);
        let dump = self.app.dump_wasm_raw(&self.engine);
        // engine config / state
        let cfg = self.engine_config();
        let st: Option<eng::StateResponse> = self.q(&self.engine, &eng::QueryMsg::State {});
        let wl: Option<cw_controllers::HooksResponse> = self.q(&self.engine, &eng::QueryMsg::GetWhitelist {});
        let mut wl_ids: Vec<u64> = wl.map(|w| w.hooks.iter().map(|h| self.id(h)).collect()).unwrap_or_default();
        wl_ids.sort();
        let has = |ns: &[u8]| -> u8 {
            let k = to_length_prefixed(ns);
            dump.iter().any(|(kk, _)| *kk == k) as u8
        };
        match (&cfg, &st) {
            (Some(c), Some(t)) => s.push_str(&format!(
                "e.owner={} e.ifd={} e.fp={} e.coll={} e.dec={} e.imr={} e.mmr={} e.plr={} e.lf={} e.oi={} e.prepaid={}",
                self.oid(&c.owner),
                self.oid(&c.insurance_fund),
                self.oid(&c.fee_pool),
                match &c.eligible_collateral {
                    AssetInfo::NativeToken { .. } => 0,
                    AssetInfo::Token { contract_addr } => self.oid(contract_addr),
                },
                c.decimals,
                c.initial_margin_ratio,
                c.maintenance_margin_ratio,
                c.partial_liquidation_ratio,
                c.liquidation_fee,
                t.open_interest_notional,
                t.bad_debt
            )),
            _ => s.push_str("e.owner=0 e.ifd=0 e.fp=0 e.coll=0 e.dec=0 e.imr=0 e.mmr=0 e.plr=0 e.lf=0 e.oi=0 e.prepaid=0"),
        }
        s.push_str(&format!(
            " e.pause={} e.pauser={} e.wl={} e.tmp={} e.sent={} e.liq={}",
            self.engine_paused() as u8,
            self.pauser(),
            if wl_ids.is_empty() { "none".to_string() } else { wl_ids.iter().map(|x| x.to_string()).collect::<Vec<_>>().join(",") },
            has(b"tmp-swap"),
            has(b"sent-funds"),
            has(b"tmp-liquidator")
        ));
        // positions
        let ps = self.positions();
        if ps.is_empty() {
            s.push_str(" pos=none");
        } else {
            s.push_str(" pos=");
            s.push_str(
                &ps.iter()
                    .map(|p| {
                        format!("{}:{}:{}:{}:{}:{}:{}:{}:{}:{}", p.v, p.t, p.dir, p.sneg, p.size, p.margin, p.notional, p.cneg, p.chk, p.block)
                    })
                    .collect::<Vec<_>>()
                    .join(";"),
            );
        }
        // the engine's own answer to `Position{vamm, trader}` for every deployed market and every trading account
        // (what a user sees; `pos=` above is what the storage holds): `v:t:` + the ten fields of the answered record
        let mut qp: Vec<String> = vec![];
        for (i, va) in self.vamms.iter().enumerate() {
            let v = VAMM0 + i as u64;
            for t in ALLOW_IDS.iter() {
                let ta = self.addr(*t);
                if let Some(p) = self.q::<eng::Position, _>(&self.engine, &eng::QueryMsg::Position { vamm: va.to_string(), trader: ta }) {
                    let sz = p.size.to_string();
                    let ck = p.last_updated_premium_fraction.to_string();
                    let (sneg, smag) = sign_mag(&sz);
                    let (cneg, cmag) = sign_mag(&ck);
                    qp.push(format!(
                        "{}:{}:{}:{}:{}:{}:{}:{}:{}:{}:{}:{}",
                        v,
                        t,
                        self.id(p.vamm.as_str()),
                        self.id(p.trader.as_str()),
                        if p.direction == vamm::Direction::AddToAmm { 0 } else { 1 },
                        sneg,
                        smag,
                        p.margin.u128(),
                        p.notional.u128(),
                        cneg,
                        cmag,
                        p.block_number
                    ));
                }
            }
        }
        s.push_str(&format!(" qp={}", if qp.is_empty() { "none".to_string() } else { qp.join(";") }));
        // vamm-map
        let vm_prefix = to_length_prefixed(b"vamm-map");
        let mut vms: Vec<(u64, String)> = vec![];
        for (k, v) in &dump {
            if k.starts_with(&vm_prefix) {
                let a = String::from_utf8_lossy(&k[vm_prefix.len()..]).to_string();
                if let Ok(m) = serde_json::from_slice::<RawVammMap>(v) {
                    let fr = if m.cumulative_premium_fractions.is_empty() {
                        "-".to_string()
                    } else {
                        m.cumulative_premium_fractions
                            .iter()
                            .map(|f| {
                                let (n, mag) = sign_mag(f);
                                format!("{}/{}", n, mag)
                            })
                            .collect::<Vec<_>>()
                            .join(",")
                    };
                    vms.push((self.id(&a), format!("{}:{}:{}", self.id(&a), m.last_restriction_block, fr)));
                }
            }
        }
        vms.sort();
        if vms.is_empty() {
            s.push_str(" vm=none");
        } else {
            s.push_str(" vm=");
            s.push_str(&vms.iter().map(|x| x.1.clone()).collect::<Vec<_>>().join(";"));
        }
        // vamms
        for (i, a) in self.vamms.iter().enumerate() {
            let id = VAMM0 + i as u64;
            let st = self.vamm_state(a);
            let cf = self.vamm_config(a);
            let vd = self.app.dump_wasm_raw(a);
            let counter: u64 = vd
                .iter()
                .find(|(k, _)| *k == to_length_prefixed(b"reserve_snapshot_counter"))
                .and_then(|(_, v)| serde_json::from_slice(v).ok())
                .unwrap_or(0);
            let sp = to_length_prefixed(b"reserve_snapshot");
            let mut snaps = vec![];
            let mut j = counter;
            while j >= 1 {
                let mut key = sp.clone();
                key.extend_from_slice(&j.to_be_bytes());
                if let Some((_, v)) = vd.iter().find(|(k, _)| *k == key) {
                    if let Ok(sn) = serde_json::from_slice::<RawSnapshot>(v) {
                        snaps.push(format!("{}:{}:{}:{}", sn.quote_asset_reserve, sn.base_asset_reserve, sn.timestamp.seconds(), sn.block_height));
                    }
                }
                j -= 1;
            }
            if let (Some(st), Some(cf)) = (st, cf) {
                s.push_str(&format!(
                    " v{p}.open={} v{p}.q={} v{p}.b={} v{p}.netn={} v{p}.netv={} v{p}.frn={} v{p}.frv={} v{p}.next={} v{p}.own={} v{p}.eng={} v{p}.ifd={} v{p}.feed={} v{p}.cap={} v{p}.oic={} v{p}.toll={} v{p}.spread={} v{p}.fluct={} v{p}.twi={} v{p}.fper={} v{p}.snaps={} v{p}.dec={}",
                    st.open as u8,
                    st.quote_asset_reserve,
                    st.base_asset_reserve,
                    st.total_position_size.negative as u8,
                    st.total_position_size.value,
                    st.funding_rate.negative as u8,
                    st.funding_rate.value,
                    st.next_funding_time,
                    self.vamm_owner(a),
                    self.oid(&cf.margin_engine),
                    self.oid(&cf.insurance_fund),
                    self.oid(&cf.pricefeed),
                    cf.base_asset_holding_cap,
                    cf.open_interest_notional_cap,
                    cf.toll_ratio,
                    cf.spread_ratio,
                    cf.fluctuation_limit_ratio,
                    cf.spot_price_twap_interval,
                    cf.funding_period,
                    if snaps.is_empty() { "none".to_string() } else { snaps.join(";") },
                    cf.decimals,
                    p = id
                ));
            }
        }
        // insurance fund
        let ifc: Option<ifund::ConfigResponse> = self.q(&self.ifund, &ifund::QueryMsg::Config {});
        let ifv = self.if_vamms();
        s.push_str(&format!(
            " if.owner={} if.engine={} if.vamms={} if.stored={} if.qall={} if.qis={} if.qstat={}",
            self.if_owner(),
            ifc.map(|c| self.oid(&c.engine)).unwrap_or(0),
            if ifv.is_empty() { "none".to_string() } else { ifv.iter().map(|a| self.id(a).to_string()).collect::<Vec<_>>().join(",") },
            self.raw(&self.ifund, b"vamm-list").is_some() as u8,
            {
                // the fund's own membership queries (compared with the raw registry by the driver)
                let all: Option<ifund::AllVammResponse> = self.q(&self.ifund, &ifund::QueryMsg::GetAllVamm { limit: None });
                match all {
                    Some(a) if !a.vamm_list.is_empty() => a.vamm_list.iter().map(|x| self.id(x.as_str()).to_string()).collect::<Vec<_>>().join(","),
                    Some(_) => "none".to_string(),
                    None => "err".to_string(),
                }
            },
            {
                let mut yes: Vec<String> = vec![];
                for i in 0..self.cfg.vamms.len() {
                    let id = super::cfg::VAMM0 + i as u64;
                    let r: Option<ifund::VammResponse> = self.q(&self.ifund, &ifund::QueryMsg::IsVamm { vamm: self.addr(id) });
                    if r.map(|x| x.is_vamm).unwrap_or(false) {
                        yes.push(id.to_string());
                    }
                    // strings that are NOT a deployed vAMM's address but share most of one: a proper prefix, a proper suffix (reported as
                    // id 0) and the two extensions the key-alias probes use (ids +20 / +30) — membership is decided on the whole address
                    let a = self.addr(id);
                    let mut probes: Vec<(u64, String)> = vec![(0, a[..a.len() - 1].to_string()), (0, a[1..].to_string())];
                    probes.push((id + super::cfg::ALIAS_AL, self.addr(id + super::cfg::ALIAS_AL)));
                    probes.push((id + super::cfg::ALIAS_CA, self.addr(id + super::cfg::ALIAS_CA)));
                    for (pid, ps) in probes {
                        if (0..self.cfg.vamms.len()).any(|j| self.addr(super::cfg::VAMM0 + j as u64) == ps) {
                            continue; // the probe string happens to be another deployed vAMM's address
                        }
                        let r: Option<ifund::VammResponse> = self.q(&self.ifund, &ifund::QueryMsg::IsVamm { vamm: ps });
                        if r.map(|x| x.is_vamm).unwrap_or(false) && !yes.contains(&pid.to_string()) {
                            yes.push(pid.to_string());
                        }
                    }
                }
                if yes.is_empty() { "none".to_string() } else { yes.join(",") }
            },
            {
                let st: Option<ifund::AllVammStatusResponse> = self.q(&self.ifund, &ifund::QueryMsg::GetAllVammStatus { limit: None });
                match st {
                    Some(a) if !a.vamm_list_status.is_empty() => a
                        .vamm_list_status
                        .iter()
                        .map(|(x, o)| format!("{}:{}", self.id(x.as_str()), *o as u8))
                        .collect::<Vec<_>>()
                        .join(","),
                    Some(_) => "none".to_string(),
                    None => "err".to_string(),
                }
            }
        ));
        // fee pool
        let toks: Vec<AssetInfo> = self.raw(&self.feepool, b"token-list").and_then(|v| serde_json::from_slice(&v).ok()).unwrap_or_default();
        let tok_ids: Vec<String> = toks
            .iter()
            .map(|t| match t {
                AssetInfo::NativeToken { denom } if denom == "uwasm" => "0".to_string(),
                AssetInfo::Token { contract_addr } if Some(contract_addr) == self.token.as_ref() => "5".to_string(),
                _ => "9".to_string(),
            })
            .collect();
        s.push_str(&format!(
            " fp.owner={} fp.tokens={}",
            self.fp_owner(),
            if tok_ids.is_empty() { "none".to_string() } else { tok_ids.join(",") }
        ));
        // feed
        if self.cfg.real_feed {
            let mut key = to_length_prefixed(b"prices");
            key.extend_from_slice(ORACLE_KEY.as_bytes());
            let rounds: Vec<RawPriceData> = self.raw(&self.feed, &key).and_then(|v| serde_json::from_slice(&v).ok()).unwrap_or_default();
            let r = if rounds.is_empty() {
                "none".to_string()
            } else {
                rounds.iter().rev().map(|p| format!("{}:{}:{}", p.round_id, p.price, p.timestamp.seconds())).collect::<Vec<_>>().join(";")
            };
            s.push_str(&format!(" fd.kind=real fd.owner={} fd.r={}", self.feed_owner(), r));
        } else {
            let p: Option<Uint128> = self.q(&self.feed, &feed::QueryMsg::GetPrice { key: ORACLE_KEY.to_string() });
            s.push_str(&format!(
                " fd.kind=mock fd.owner={} fd.price={}",
                self.feed_owner(),
                p.map(|x| x.to_string()).unwrap_or_else(|| "none".to_string())
            ));
        }
        // ledger
        s.push_str(" bal=");
        // (ids that name no account of this deployment — e.g. a second vAMM that was not deployed — would all
        // resolve to the catch-all address of id 0 and are left out)
        let present: Vec<u64> = LEDGER_IDS.iter().cloned().filter(|id| *id == 0 || self.names.contains_key(id)).collect();
        s.push_str(&present.iter().map(|id| format!("{}:{}", id, self.balance_id(*id))).collect::<Vec<_>>().join(";"));
        if self.token.is_some() {
            s.push_str(" allow=");
            s.push_str(&present.iter().map(|id| format!("{}:{}", id, self.allowance(&self.addr(*id)))).collect::<Vec<_>>().join(";"));
        } else {
            s.push_str(" allow=none");
        }
        s
    }

    pub fn obs_line(&self, k: &str, body: &str) -> String {
        let b = self.app.block_info();
        format!("OBS h={} k={} height={} time={} {}", self.cfg.h, k, b.height, b.time.seconds(), body)
    }

    pub fn qry_line(&self, k: u64, p: &PosInfo) -> String {
        let v = p.vaddr.clone();
        let t = p.taddr.clone();
        let int = |x: &Option<Integer>| match x {
            Some(i) => format!("1 {} {}", i.negative as u8, i.value),
            None => "0 0 0".to_string(),
        };
        let mr = self.margin_ratio(&v, &t);
        let fc = self.free_collateral(&v, &t);
        let up = |o: eng::PnlCalcOption| -> (u8, u128, u8, u128) {
            match self.q::<eng::PositionUnrealizedPnlResponse, _>(
                &self.engine,
                &eng::QueryMsg::UnrealizedPnl { vamm: v.clone(), trader: t.clone(), calc_option: o },
            ) {
                Some(r) => (1, r.position_notional.u128(), r.unrealized_pnl.negative as u8, r.unrealized_pnl.value.u128()),
                None => (0, 0, 0, 0),
            }
        };
        let ups = up(eng::PnlCalcOption::SpotPrice);
        let upt = up(eng::PnlCalcOption::Twap);
        let upo = up(eng::PnlCalcOption::Oracle);
        let pwf: Option<eng::Position> = self.q(&self.engine, &eng::QueryMsg::PositionWithFundingPayment { vamm: v.clone(), trader: t.clone() });
        let cpf: Option<Integer> = self.q(&self.engine, &eng::QueryMsg::CumulativePremiumFraction { vamm: v.clone() });
        let f3 = |s: String, a: &str, b: &str, c: &str| {
            let p: Vec<&str> = s.split(' ').collect();
            format!("{}={} {}={} {}={}", a, p[0], b, p[1], c, p[2])
        };
        format!(
            "QRY h={} k={} v={} t={} {} {} upsok={} upsnot={} upsn={} upsv={} uptok={} uptnot={} uptn={} uptv={} upook={} upoot={} upon={} upov={} pwfok={} pwfm={} cpfn={} cpfv={}",
            self.cfg.h,
            k,
            p.v,
            p.t,
            f3(int(&mr), "mrok", "mrn", "mrv"),
            f3(int(&fc), "fcok", "fcn", "fcv"),
            ups.0, ups.1, ups.2, ups.3,
            upt.0, upt.1, upt.2, upt.3,
            upo.0, upo.1, upo.2, upo.3,
            pwf.is_some() as u8,
            pwf.map(|p| p.margin.u128()).unwrap_or(0),
            cpf.map(|c| c.negative as u8).unwrap_or(0),
            cpf.map(|c| c.value.u128()).unwrap_or(0)
        )
    }
}
