//! Transactions: the `Msg` vocabulary, `TX` line printing/parsing and execution against the World.
use super::cfg::*;
use super::deploy::World;
use cosmwasm_std::{to_binary, Addr, BankMsg, Binary, BlockInfo, Coin, CosmosMsg, Timestamp, Uint128, WasmMsg};
use cw20::Cw20ExecuteMsg;
use cw_multi_test::{AppResponse, Executor};
use margined_perp::margined_engine as eng;
use margined_perp::margined_fee_pool as fpool;
use margined_perp::margined_insurance_fund as ifund;
use margined_perp::margined_pricefeed as feed;
use margined_perp::margined_vamm as vamm;
use std::panic::{catch_unwind, AssertUnwindSafe};

#[derive(Clone, Debug, PartialEq)]
pub enum Msg {
    Open { v: u64, side: u64, margin: u128, lev: u128, lim: u128 },
    Close { v: u64, lim: u128 },
    Liq { v: u64, trader: u64, lim: u128 },
    PayFunding { v: u64 },
    Deposit { v: u64, amt: u128 },
    Withdraw { v: u64, amt: u128 },
    ECfg { uowner: Option<u64>, uifd: Option<u64>, ufp: Option<u64>, uimr: Option<u128>, ummr: Option<u128>, uplr: Option<u128>, ulf: Option<u128> },
    EPauser { new: u64 },
    WlAdd { a: u64 },
    WlRm { a: u64 },
    Pause { p: u64 },
    VCfg {
        v: u64,
        ucap: Option<u128>,
        uoic: Option<u128>,
        utoll: Option<u128>,
        uspread: Option<u128>,
        ufluct: Option<u128>,
        ueng: Option<u64>,
        uifd: Option<u64>,
        ufeed: Option<u64>,
        utwi: Option<u64>,
    },
    VOwner { v: u64, new: u64 },
    VSetOpen { v: u64, uopen: u64 },
    VSwapIn { v: u64, dir: u64, amt: u128, lim: u128, cgo: u64 },
    VSwapOut { v: u64, dir: u64, amt: u128, lim: u128 },
    VSettle { v: u64 },
    IfAdd { v: u64 },
    IfRm { v: u64 },
    IfShutdown,
    IfWithdraw { amt: u128 },
    IfOwner { new: u64 },
    FpAdd { tok: u64 },
    FpRm { tok: u64 },
    FpSend { tok: u64, amt: u128, to: u64 },
    FpOwner { new: u64 },
    Oracle { price: u128, ts: u64 },
    FdOwner { new: u64 },
    TApprove { amt: u128 },
    TDecrease { amt: u128 },
    TTransfer { to: u64, amt: u128 },
    BSend { to: u64, amt: u128 },
}

#[derive(Clone, Debug, PartialEq)]
pub struct Tx {
    pub k: u64,
    pub snd: u64,
    pub funds: u128,
    pub extra: bool,
    pub height: u64,
    pub time: u64,
    pub msg: Msg,
    /// index of the sub-call that is made to fail (fault mode); `None` = plain execution
    pub fault: Option<u64>,
}

pub struct TxResult {
    pub ok: bool,
    pub panicked: bool,
    pub xf: Vec<(u64, u64, u128)>,
    pub err: String,
    /// `action` attributes of the engine's wasm events (statistics only)
    pub actions: Vec<String>,
    /// the armed fault was reached
    pub fired: bool,
    /// number of interceptable sub-calls the execution made (wrapped-contract executes + contract bank sends)
    pub subcalls: u64,
}

fn o<T: ToString>(x: &Option<T>) -> String {
    match x {
        Some(v) => v.to_string(),
        None => "none".to_string(),
    }
}

impl Msg {
    pub fn kind(&self) -> &'static str {
        match self {
            Msg::Open { .. } => "open",
            Msg::Close { .. } => "close",
            Msg::Liq { .. } => "liq",
            Msg::PayFunding { .. } => "payfunding",
            Msg::Deposit { .. } => "deposit",
            Msg::Withdraw { .. } => "withdraw",
            Msg::ECfg { .. } => "ecfg",
            Msg::EPauser { .. } => "epauser",
            Msg::WlAdd { .. } => "wladd",
            Msg::WlRm { .. } => "wlrm",
            Msg::Pause { .. } => "pause",
            Msg::VCfg { .. } => "vcfg",
            Msg::VOwner { .. } => "vowner",
            Msg::VSetOpen { .. } => "vsetopen",
            Msg::VSwapIn { .. } => "vswapin",
            Msg::VSwapOut { .. } => "vswapout",
            Msg::VSettle { .. } => "vsettle",
            Msg::IfAdd { .. } => "ifadd",
            Msg::IfRm { .. } => "ifrm",
            Msg::IfShutdown => "ifshutdown",
            Msg::IfWithdraw { .. } => "ifwithdraw",
            Msg::IfOwner { .. } => "ifowner",
            Msg::FpAdd { .. } => "fpadd",
            Msg::FpRm { .. } => "fprm",
            Msg::FpSend { .. } => "fpsend",
            Msg::FpOwner { .. } => "fpowner",
            Msg::Oracle { .. } => "oracle",
            Msg::FdOwner { .. } => "fdowner",
            Msg::TApprove { .. } => "tapprove",
            Msg::TDecrease { .. } => "tdecrease",
            Msg::TTransfer { .. } => "ttransfer",
            Msg::BSend { .. } => "bsend",
        }
    }

    /// `msg=<kind> <args…>`
    pub fn tokens(&self) -> String {
        let k = self.kind();
        match self {
            Msg::Open { v, side, margin, lev, lim } => format!("msg={} v={} side={} margin={} lev={} lim={}", k, v, side, margin, lev, lim),
            Msg::Close { v, lim } => format!("msg={} v={} lim={}", k, v, lim),
            Msg::Liq { v, trader, lim } => format!("msg={} v={} trader={} lim={}", k, v, trader, lim),
            Msg::PayFunding { v } | Msg::VSettle { v } | Msg::IfAdd { v } | Msg::IfRm { v } => format!("msg={} v={}", k, v),
            Msg::Deposit { v, amt } | Msg::Withdraw { v, amt } => format!("msg={} v={} amt={}", k, v, amt),
            Msg::ECfg { uowner, uifd, ufp, uimr, ummr, uplr, ulf } => format!(
                "msg={} uowner={} uifd={} ufp={} uimr={} ummr={} uplr={} ulf={}",
                k, o(uowner), o(uifd), o(ufp), o(uimr), o(ummr), o(uplr), o(ulf)
            ),
            Msg::EPauser { new } | Msg::IfOwner { new } | Msg::FpOwner { new } | Msg::FdOwner { new } => format!("msg={} new={}", k, new),
            Msg::WlAdd { a } | Msg::WlRm { a } => format!("msg={} a={}", k, a),
            Msg::Pause { p } => format!("msg={} p={}", k, p),
            Msg::VCfg { v, ucap, uoic, utoll, uspread, ufluct, ueng, uifd, ufeed, utwi } => format!(
                "msg={} v={} ucap={} uoic={} utoll={} uspread={} ufluct={} ueng={} uifd={} ufeed={} utwi={}",
                k, v, o(ucap), o(uoic), o(utoll), o(uspread), o(ufluct), o(ueng), o(uifd), o(ufeed), o(utwi)
            ),
            Msg::VOwner { v, new } => format!("msg={} v={} new={}", k, v, new),
            Msg::VSetOpen { v, uopen } => format!("msg={} v={} uopen={}", k, v, uopen),
            Msg::VSwapIn { v, dir, amt, lim, cgo } => format!("msg={} v={} dir={} amt={} lim={} cgo={}", k, v, dir, amt, lim, cgo),
            Msg::VSwapOut { v, dir, amt, lim } => format!("msg={} v={} dir={} amt={} lim={}", k, v, dir, amt, lim),
            Msg::IfShutdown => format!("msg={}", k),
            Msg::IfWithdraw { amt } | Msg::TApprove { amt } | Msg::TDecrease { amt } => format!("msg={} amt={}", k, amt),
            Msg::FpAdd { tok } | Msg::FpRm { tok } => format!("msg={} tok={}", k, tok),
            Msg::FpSend { tok, amt, to } => format!("msg={} tok={} amt={} to={}", k, tok, amt, to),
            Msg::Oracle { price, ts } => format!("msg={} price={} ts={}", k, price, ts),
            Msg::TTransfer { to, amt } | Msg::BSend { to, amt } => format!("msg={} to={} amt={}", k, to, amt),
        }
    }

    /// first fault index worth arming: 0 when the top-level target is the (unwrapped) engine, 1 for the
    /// wrapped insurance fund / fee pool whose own top-level execute takes index 0; `None` = never armed
    pub fn fault_start(&self) -> Option<u64> {
        match self {
            Msg::Open { .. }
            | Msg::Close { .. }
            | Msg::Liq { .. }
            | Msg::PayFunding { .. }
            | Msg::Deposit { .. }
            | Msg::Withdraw { .. }
            | Msg::ECfg { .. }
            | Msg::EPauser { .. }
            | Msg::WlAdd { .. }
            | Msg::WlRm { .. }
            | Msg::Pause { .. } => Some(0),
            Msg::IfShutdown | Msg::IfWithdraw { .. } | Msg::FpSend { .. } => Some(1),
            _ => None,
        }
    }

    /// (vamm id, trader id) the message is about, if any — used to choose the QRY pair
    pub fn subject(&self, snd: u64) -> Option<(u64, u64)> {
        match self {
            Msg::Open { v, .. } | Msg::Close { v, .. } | Msg::Deposit { v, .. } | Msg::Withdraw { v, .. } => Some((*v, snd)),
            Msg::Liq { v, trader, .. } => Some((*v, *trader)),
            _ => None,
        }
    }
}

impl Tx {
    pub fn head(&self, h: u64) -> String {
        format!(
            "TX h={} k={} snd={} funds={} extra={} height={} time={} {}",
            h,
            self.k,
            self.snd,
            self.funds,
            self.extra as u8,
            self.height,
            self.time,
            self.msg.tokens()
        )
    }
}

pub fn tx_line(h: u64, tx: &Tx, r: &TxResult) -> String {
    let xf = if r.xf.is_empty() || !r.ok {
        "none".to_string()
    } else {
        r.xf.iter().map(|(a, b, c)| format!("{}:{}:{}", a, b, c)).collect::<Vec<_>>().join(";")
    };
    match tx.fault {
        Some(j) => format!("{} fault={} fired={} ok={} xf={} err={}", tx.head(h), j, r.fired as u8, r.ok as u8, xf, r.err),
        None => format!("{} ok={} xf={} err={}", tx.head(h), r.ok as u8, xf, r.err),
    }
}

pub fn parse_tx(line: &str) -> Option<Tx> {
    let m = tokens(line);
    let u = |k: &str| -> Option<u128> { m.get(k)?.parse::<u128>().ok() };
    let id = |k: &str| -> Option<u64> { m.get(k)?.parse::<u64>().ok() };
    let ou = |k: &str| -> Option<Option<u128>> {
        let t = m.get(k)?;
        if *t == "none" {
            Some(None)
        } else {
            Some(Some(t.parse().ok()?))
        }
    };
    let oi = |k: &str| -> Option<Option<u64>> {
        let t = m.get(k)?;
        if *t == "none" {
            Some(None)
        } else {
            Some(Some(t.parse().ok()?))
        }
    };
    let msg = match *m.get("msg")? {
        "open" => Msg::Open { v: id("v")?, side: id("side")?, margin: u("margin")?, lev: u("lev")?, lim: u("lim")? },
        "close" => Msg::Close { v: id("v")?, lim: u("lim")? },
        "liq" => Msg::Liq { v: id("v")?, trader: id("trader")?, lim: u("lim")? },
        "payfunding" => Msg::PayFunding { v: id("v")? },
        "deposit" => Msg::Deposit { v: id("v")?, amt: u("amt")? },
        "withdraw" => Msg::Withdraw { v: id("v")?, amt: u("amt")? },
        "ecfg" => Msg::ECfg {
            uowner: oi("uowner")?,
            uifd: oi("uifd")?,
            ufp: oi("ufp")?,
            uimr: ou("uimr")?,
            ummr: ou("ummr")?,
            uplr: ou("uplr")?,
            ulf: ou("ulf")?,
        },
        "epauser" => Msg::EPauser { new: id("new")? },
        "wladd" => Msg::WlAdd { a: id("a")? },
        "wlrm" => Msg::WlRm { a: id("a")? },
        "pause" => Msg::Pause { p: id("p")? },
        "vcfg" => Msg::VCfg {
            v: id("v")?,
            ucap: ou("ucap")?,
            uoic: ou("uoic")?,
            utoll: ou("utoll")?,
            uspread: ou("uspread")?,
            ufluct: ou("ufluct")?,
            ueng: oi("ueng")?,
            uifd: oi("uifd")?,
            ufeed: oi("ufeed")?,
            utwi: oi("utwi")?,
        },
        "vowner" => Msg::VOwner { v: id("v")?, new: id("new")? },
        "vsetopen" => Msg::VSetOpen { v: id("v")?, uopen: id("uopen")? },
        "vswapin" => Msg::VSwapIn { v: id("v")?, dir: id("dir")?, amt: u("amt")?, lim: u("lim")?, cgo: id("cgo")? },
        "vswapout" => Msg::VSwapOut { v: id("v")?, dir: id("dir")?, amt: u("amt")?, lim: u("lim")? },
        "vsettle" => Msg::VSettle { v: id("v")? },
        "ifadd" => Msg::IfAdd { v: id("v")? },
        "ifrm" => Msg::IfRm { v: id("v")? },
        "ifshutdown" => Msg::IfShutdown,
        "ifwithdraw" => Msg::IfWithdraw { amt: u("amt")? },
        "ifowner" => Msg::IfOwner { new: id("new")? },
        "fpadd" => Msg::FpAdd { tok: id("tok")? },
        "fprm" => Msg::FpRm { tok: id("tok")? },
        "fpsend" => Msg::FpSend { tok: id("tok")?, amt: u("amt")?, to: id("to")? },
        "fpowner" => Msg::FpOwner { new: id("new")? },
        "oracle" => Msg::Oracle { price: u("price")?, ts: id("ts")? },
        "fdowner" => Msg::FdOwner { new: id("new")? },
        "tapprove" => Msg::TApprove { amt: u("amt")? },
        "tdecrease" => Msg::TDecrease { amt: u("amt")? },
        "ttransfer" => Msg::TTransfer { to: id("to")?, amt: u("amt")? },
        "bsend" => Msg::BSend { to: id("to")?, amt: u("amt")? },
        _ => return None,
    };
    let fault = match m.get("fault") {
        Some(t) if *t != "none" => Some(t.parse::<u64>().ok()?),
        _ => None,
    };
    Some(Tx { k: id("k")?, snd: id("snd")?, funds: u("funds")?, extra: id("extra")? == 1, height: id("height")?, time: id("time")?, msg, fault })
}

fn dir(d: u64) -> vamm::Direction {
    if d == 0 {
        vamm::Direction::AddToAmm
    } else {
        vamm::Direction::RemoveFromAmm
    }
}

enum Action {
    Wasm { contract: String, msg: Binary },
    Bank { to: String, amount: u128 },
}

pub fn err_tag(s: &str) -> String {
    let t: String = s
        .chars()
        .filter(|c| c.is_ascii_alphanumeric() || *c == ' ')
        .take(40)
        .map(|c| if c == ' ' { '_' } else { c })
        .collect();
    if t.is_empty() {
        "-".to_string()
    } else {
        t
    }
}

impl World {
    fn tok_string(&self, tok: u64) -> String {
        match tok {
            0 => "uwasm".to_string(),
            5 => self.token.as_ref().map(|t| t.to_string()).unwrap_or_else(|| NOBODY.to_string()),
            _ => NOBODY.to_string(),
        }
    }

    fn action(&self, msg: &Msg) -> Action {
        let u = |x: &u128| Uint128::new(*x);
        let ou = |x: &Option<u128>| x.map(Uint128::new);
        let oa = |x: &Option<u64>| x.map(|i| self.addr(i));
        let vaddr = |v: &u64| self.addr(*v);
        let engine = self.engine.to_string();
        let w = |c: String, b: Binary| Action::Wasm { contract: c, msg: b };
        match msg {
            Msg::Open { v, side, margin, lev, lim } => w(
                engine,
                to_binary(&eng::ExecuteMsg::OpenPosition {
                    vamm: vaddr(v),
                    side: if *side == 0 { eng::Side::Buy } else { eng::Side::Sell },
                    margin_amount: u(margin),
                    leverage: u(lev),
                    base_asset_limit: u(lim),
                })
                .unwrap(),
            ),
            Msg::Close { v, lim } => w(engine, to_binary(&eng::ExecuteMsg::ClosePosition { vamm: vaddr(v), quote_asset_limit: u(lim) }).unwrap()),
            Msg::Liq { v, trader, lim } => w(
                engine,
                to_binary(&eng::ExecuteMsg::Liquidate { vamm: vaddr(v), trader: self.addr(*trader), quote_asset_limit: u(lim) }).unwrap(),
            ),
            Msg::PayFunding { v } => w(engine, to_binary(&eng::ExecuteMsg::PayFunding { vamm: vaddr(v) }).unwrap()),
            Msg::Deposit { v, amt } => w(engine, to_binary(&eng::ExecuteMsg::DepositMargin { vamm: vaddr(v), amount: u(amt) }).unwrap()),
            Msg::Withdraw { v, amt } => w(engine, to_binary(&eng::ExecuteMsg::WithdrawMargin { vamm: vaddr(v), amount: u(amt) }).unwrap()),
            Msg::ECfg { uowner, uifd, ufp, uimr, ummr, uplr, ulf } => w(
                engine,
                to_binary(&eng::ExecuteMsg::UpdateConfig {
                    owner: oa(uowner),
                    insurance_fund: oa(uifd),
                    fee_pool: oa(ufp),
                    initial_margin_ratio: ou(uimr),
                    maintenance_margin_ratio: ou(ummr),
                    partial_liquidation_ratio: ou(uplr),
                    liquidation_fee: ou(ulf),
                })
                .unwrap(),
            ),
            Msg::EPauser { new } => w(engine, to_binary(&eng::ExecuteMsg::UpdatePauser { pauser: self.addr(*new) }).unwrap()),
            Msg::WlAdd { a } => w(engine, to_binary(&eng::ExecuteMsg::AddWhitelist { address: self.addr(*a) }).unwrap()),
            Msg::WlRm { a } => w(engine, to_binary(&eng::ExecuteMsg::RemoveWhitelist { address: self.addr(*a) }).unwrap()),
            Msg::Pause { p } => w(engine, to_binary(&eng::ExecuteMsg::SetPause { pause: *p == 1 }).unwrap()),
            Msg::VCfg { v, ucap, uoic, utoll, uspread, ufluct, ueng, uifd, ufeed, utwi } => w(
                vaddr(v),
                to_binary(&vamm::ExecuteMsg::UpdateConfig {
                    base_asset_holding_cap: ou(ucap),
                    open_interest_notional_cap: ou(uoic),
                    toll_ratio: ou(utoll),
                    spread_ratio: ou(uspread),
                    fluctuation_limit_ratio: ou(ufluct),
                    margin_engine: oa(ueng),
                    insurance_fund: oa(uifd),
                    pricefeed: oa(ufeed),
                    spot_price_twap_interval: *utwi,
                })
                .unwrap(),
            ),
            Msg::VOwner { v, new } => w(vaddr(v), to_binary(&vamm::ExecuteMsg::UpdateOwner { owner: self.addr(*new) }).unwrap()),
            Msg::VSetOpen { v, uopen } => w(vaddr(v), to_binary(&vamm::ExecuteMsg::SetOpen { open: *uopen == 1 }).unwrap()),
            Msg::VSwapIn { v, dir: d, amt, lim, cgo } => w(
                vaddr(v),
                to_binary(&vamm::ExecuteMsg::SwapInput {
                    direction: dir(*d),
                    quote_asset_amount: u(amt),
                    base_asset_limit: u(lim),
                    can_go_over_fluctuation: *cgo == 1,
                })
                .unwrap(),
            ),
            Msg::VSwapOut { v, dir: d, amt, lim } => w(
                vaddr(v),
                to_binary(&vamm::ExecuteMsg::SwapOutput { direction: dir(*d), base_asset_amount: u(amt), quote_asset_limit: u(lim) }).unwrap(),
            ),
            Msg::VSettle { v } => w(vaddr(v), to_binary(&vamm::ExecuteMsg::SettleFunding {}).unwrap()),
            Msg::IfAdd { v } => w(self.ifund.to_string(), to_binary(&ifund::ExecuteMsg::AddVamm { vamm: vaddr(v) }).unwrap()),
            Msg::IfRm { v } => w(self.ifund.to_string(), to_binary(&ifund::ExecuteMsg::RemoveVamm { vamm: vaddr(v) }).unwrap()),
            Msg::IfShutdown => w(self.ifund.to_string(), to_binary(&ifund::ExecuteMsg::ShutdownVamms {}).unwrap()),
            Msg::IfWithdraw { amt } => w(
                self.ifund.to_string(),
                to_binary(&ifund::ExecuteMsg::Withdraw { token: self.collateral_asset(), amount: u(amt) }).unwrap(),
            ),
            Msg::IfOwner { new } => w(self.ifund.to_string(), to_binary(&ifund::ExecuteMsg::UpdateOwner { owner: self.addr(*new) }).unwrap()),
            Msg::FpAdd { tok } => w(self.feepool.to_string(), to_binary(&fpool::ExecuteMsg::AddToken { token: self.tok_string(*tok) }).unwrap()),
            Msg::FpRm { tok } => w(self.feepool.to_string(), to_binary(&fpool::ExecuteMsg::RemoveToken { token: self.tok_string(*tok) }).unwrap()),
            Msg::FpSend { tok, amt, to } => w(
                self.feepool.to_string(),
                to_binary(&fpool::ExecuteMsg::SendToken { token: self.tok_string(*tok), amount: u(amt), recipient: self.addr(*to) }).unwrap(),
            ),
            Msg::FpOwner { new } => w(self.feepool.to_string(), to_binary(&fpool::ExecuteMsg::UpdateOwner { owner: self.addr(*new) }).unwrap()),
            Msg::Oracle { price, ts } => w(
                self.feed.to_string(),
                to_binary(&feed::ExecuteMsg::AppendPrice { key: ORACLE_KEY.to_string(), price: u(price), timestamp: *ts }).unwrap(),
            ),
            Msg::FdOwner { new } => {
                if self.cfg.real_feed {
                    w(self.feed.to_string(), to_binary(&feed::ExecuteMsg::UpdateOwner { owner: self.addr(*new) }).unwrap())
                } else {
                    w(
                        self.feed.to_string(),
                        to_binary(&mock_pricefeed::contract::ExecuteMsg::UpdateConfig { owner: Some(self.addr(*new)) }).unwrap(),
                    )
                }
            }
            Msg::TApprove { amt } => w(
                self.tok_string(5),
                to_binary(&Cw20ExecuteMsg::IncreaseAllowance { spender: self.engine.to_string(), amount: u(amt), expires: None }).unwrap(),
            ),
            Msg::TDecrease { amt } => w(
                self.tok_string(5),
                to_binary(&Cw20ExecuteMsg::DecreaseAllowance { spender: self.engine.to_string(), amount: u(amt), expires: None }).unwrap(),
            ),
            Msg::TTransfer { to, amt } => {
                w(self.tok_string(5), to_binary(&Cw20ExecuteMsg::Transfer { recipient: self.addr(*to), amount: u(amt) }).unwrap())
            }
            Msg::BSend { to, amt } => Action::Bank { to: self.addr(*to), amount: *amt },
        }
    }

    pub fn set_block(&mut self, height: u64, time: u64) {
        let chain_id = self.app.block_info().chain_id;
        // block times are not whole seconds on a real chain: every block gets a sub-second part decided by its height (the
        // contracts — and the model — read seconds only; a slip that subtracts full timestamps shows only with uneven parts)
        self.app.set_block(BlockInfo { height, time: Timestamp::from_nanos(time * 1_000_000_000 + crate::subsec(height)), chain_id });
    }

    fn transfers(&self, resp: &AppResponse) -> (Vec<(u64, u64, u128)>, Vec<String>) {
        let mut xf = vec![];
        let mut actions = vec![];
        for ev in &resp.events {
            let get = |k: &str| ev.attributes.iter().find(|a| a.key == k).map(|a| a.value.clone());
            if ev.ty == "wasm" {
                let c = get("_contract_addr").unwrap_or_default();
                let action = get("action").unwrap_or_default();
                if c == self.engine.as_str() && !action.is_empty() {
                    actions.push(action.clone());
                }
                if let Some(t) = &self.token {
                    if c == t.as_str() && (action == "transfer" || action == "transfer_from") {
                        let amt = get("amount").and_then(|a| a.parse::<u128>().ok()).unwrap_or(0);
                        xf.push((self.id(&get("from").unwrap_or_default()), self.id(&get("to").unwrap_or_default()), amt));
                    }
                }
            } else if ev.ty == "transfer" && self.token.is_none() {
                let amount = get("amount").unwrap_or_default();
                for part in amount.split(',') {
                    if let Some(n) = part.strip_suffix("uwasm") {
                        if let Ok(a) = n.parse::<u128>() {
                            xf.push((self.id(&get("sender").unwrap_or_default()), self.id(&get("recipient").unwrap_or_default()), a));
                        }
                    }
                }
            }
        }
        (xf, actions)
    }

    /// Sets the block of the transaction and executes it. A panic is reported with `panicked`;
    /// the caller is responsible for restoring the world afterwards.
    pub fn exec_tx(&mut self, tx: &Tx) -> TxResult {
        self.set_block(tx.height, tx.time);
        let sender = Addr::unchecked(self.addr(tx.snd));
        let mut funds: Vec<Coin> = vec![];
        if tx.funds > 0 {
            funds.push(Coin::new(tx.funds, "uwasm"));
        }
        if tx.extra {
            funds.push(Coin::new(7u128, "ucosmos"));
        }
        let (cmsg, target) = match self.action(&tx.msg) {
            Action::Wasm { contract, msg } => (CosmosMsg::Wasm(WasmMsg::Execute { contract_addr: contract.clone(), msg, funds }), Some(contract)),
            Action::Bank { to, amount } => (CosmosMsg::Bank(BankMsg::Send { to_address: to, amount: vec![Coin::new(amount, "uwasm")] }), None),
        };
        {
            let mut c = self.ctl.lock().unwrap();
            c.counter = 0;
            c.fired = false;
            c.armed = tx.fault;
        }
        let app = &mut self.app;
        let res = catch_unwind(AssertUnwindSafe(|| app.execute(sender, cmsg)));
        let (fired, subcalls) = {
            // a panic while the lock is held cannot happen (hit() does not panic), but be lenient
            let mut c = match self.ctl.lock() {
                Ok(g) => g,
                Err(p) => p.into_inner(),
            };
            c.armed = None;
            (c.fired, c.counter)
        };
        match res {
            Err(_) => TxResult { ok: false, panicked: true, xf: vec![], err: "panic".to_string(), actions: vec![], fired, subcalls },
            Ok(Err(e)) => {
                TxResult { ok: false, panicked: false, xf: vec![], err: err_tag(&format!("{}", e.root_cause())), actions: vec![], fired, subcalls }
            }
            Ok(Ok(resp)) => {
                let (mut xf, actions) = self.transfers(&resp);
                if let (Some(t), true, true) = (&target, tx.funds > 0, self.token.is_none()) {
                    // cw-multi-test drops the event of the attached-funds transfer; it happened first
                    xf.insert(0, (tx.snd, self.id(t), tx.funds));
                }
                TxResult { ok: true, panicked: false, xf, err: "-".to_string(), actions, fired, subcalls }
            }
        }
    }
}
