//! Deployment configuration of one world history: generation, printing and parsing of the `CFG` line.
use crate::rng::Rng;
use std::collections::HashMap;

pub const OWNER: u64 = 100;
pub const TRADERS: [u64; 4] = [101, 102, 103, 104];
pub const LIQUIDATOR: u64 = 110;
pub const PAUSER: u64 = 111;
pub const STRANGER: u64 = 120;
pub const NEWOWNER: u64 = 121;
pub const BANK: u64 = 130;
pub const ENGINE: u64 = 1;
pub const IFUND: u64 = 2;
pub const FEEPOOL: u64 = 3;
pub const FEED: u64 = 4;
pub const TOKEN: u64 = 5;
pub const VAMM0: u64 = 10;

pub const ACCOUNTS: &[(u64, &str)] = &[
    (100, "owner"),
    (101, "alice"),
    (102, "bob"),
    (103, "carol"),
    (104, "david"),
    // proper suffixes of "alice" / "carol": used for the key-alias probes
    (105, "ice"),
    (106, "rol"),
    (110, "liquidator"),
    (111, "pauser"),
    (120, "stranger"),
    (121, "newowner"),
    (130, "bank"),
];
/// address used for id 0 (not a contract, owns nothing)
pub const NOBODY: &str = "nocontract";
pub const LEDGER_IDS: [u64; 21] = [0, 1, 2, 3, 4, 10, 11, 12, 13, 100, 101, 102, 103, 104, 105, 106, 110, 111, 120, 121, 130];
pub const ALLOW_IDS: [u64; 7] = [101, 102, 103, 104, 105, 106, 110];
pub const ICE: u64 = 105;
pub const ROL: u64 = 106;
/// id offsets of the alias strings `addr(v) ++ "al"` and `addr(v) ++ "ca"`
pub const ALIAS_AL: u64 = 20;
pub const ALIAS_CA: u64 = 30;
pub const ORACLE_KEY: &str = "USD";

#[derive(Clone, Debug, PartialEq)]
pub struct VammInit {
    pub q: u128,
    pub b: u128,
    pub period: u64,
    pub toll: u128,
    pub spread: u128,
    pub fluct: u128,
    pub cap: u128,
    pub oic: u128,
    pub registered: bool,
    pub opened: bool,
    /// decimal places of this vAMM (differs from the engine's for the decimals-mismatch vAMM)
    pub dp: u32,
}

#[derive(Clone, Debug, PartialEq)]
pub struct Cfg {
    pub h: u64,
    pub seed: u64,
    pub native: bool,
    pub dp: u32,
    pub d: u128,
    pub real_feed: bool,
    pub imr: u128,
    pub mmr: u128,
    pub lf: u128,
    pub plr: u128,
    pub vamms: Vec<VammInit>,
    pub funds: Vec<(u64, u128)>,
    pub ifbal: u128,
    pub allow: Vec<(u64, u128)>,
    pub oracle0: u128,
}

fn weighted<T: Copy>(r: &mut Rng, xs: &[(T, u64)]) -> T {
    let total: u64 = xs.iter().map(|x| x.1).sum();
    let mut c = r.below(total);
    for (v, w) in xs {
        if c < *w {
            return *v;
        }
        c -= *w;
    }
    xs[0].0
}

/// `force = Some((native, dp))` fixes the collateral (twin mode); the PRNG draws stay the same
pub fn gen_cfg(r: &mut Rng, h: u64, seed: u64, force: Option<(bool, u32)>) -> Cfg {
    let mut native = r.chance(1, 2);
    let mut dp: u32 = if native { 6 } else { *r.pick(&[6u32, 9]) };
    if let Some((n, p)) = force {
        native = n;
        dp = p;
    }
    let d = 10u128.pow(dp);
    let real_feed = r.chance(15, 100);
    // ratios in 1/10000 of D
    let imr_bp = weighted(r, &[(500u128, 30), (1000, 35), (2000, 25), (10000, 10)]);
    let mmr_choices: Vec<u128> = [250u128, 500, 1000].iter().cloned().filter(|m| *m <= imr_bp).collect();
    let mmr_bp = if r.chance(1, 3) { *mmr_choices.last().unwrap() } else { *r.pick(&mmr_choices) };
    let lf_bp = weighted(r, &[(0u128, 15), (125, 25), (250, 30), (500, 25), (10000, 5)]);
    let plr_bp = weighted(r, &[(0u128, 50), (2500, 17), (5000, 17), (10000, 16)]);
    let bp = |x: u128| x * d / 10000;
    let nv = r.range(1, 3) as usize;
    let skip_reg = if r.chance(1, 10) { Some(r.below(nv as u64) as usize) } else { None };
    let skip_open = if r.chance(1, 10) { Some(r.below(nv as u64) as usize) } else { None };
    let mut vamms = vec![];
    for i in 0..nv {
        let (qu, bu) = weighted(r, &[((1000u128, 100u128), 40), ((100, 100), 20), ((100, 1000), 20), ((1_000_000, 100_000), 20)]);
        let ratio = |r: &mut Rng| bp(weighted(r, &[(0u128, 40), (10, 25), (100, 25), (1000, 10)]));
        let toll = ratio(r);
        let spread = ratio(r);
        let fluct = bp(weighted(r, &[(0u128, 60), (100, 13), (500, 13), (2000, 14)]));
        let cap = if r.chance(1, 5) { r.range(20, 200) as u128 * d } else { 0 };
        let oic = if r.chance(1, 5) { r.range(500, 5000) as u128 * d } else { 0 };
        vamms.push(VammInit {
            q: qu * d,
            b: bu * d,
            // mostly one hour / one day; also periods that do not divide a day (5 h, 7 h, 50 min)
            period: *r.pick(&[3600u64, 86400, 3600, 86400, 18000, 25200, 3000]),
            toll,
            spread,
            fluct,
            cap,
            oic,
            registered: skip_reg != Some(i),
            opened: skip_open != Some(i),
            dp,
        });
    }
    // decimals-mismatch vAMM: one more market whose decimals differ from the engine's, never registered
    if nv < 3 && r.chance(38, 100) {
        let dp2: u32 = if dp == 6 { 9 } else { 6 };
        let d2 = 10u128.pow(dp2);
        vamms.push(VammInit {
            q: 1000 * d2,
            b: 100 * d2,
            period: 3600,
            toll: 0,
            spread: 0,
            fluct: 0,
            cap: 0,
            oic: 0,
            registered: false,
            opened: true,
            dp: dp2,
        });
    }
    // registry-capacity deployments: a fourth market with the engine's decimals, not registered at deployment, so
    // that the insurance fund's capacity of three can be reached and exceeded.  Decided from (seed, h) without
    // consuming PRNG draws: every other history stays exactly as it was.
    if nv == 3 && vamms.len() == 3 && (seed.wrapping_mul(2654435761).wrapping_add(h.wrapping_mul(40503)) >> 3) % 3 == 0 {
        vamms.push(VammInit {
            q: 1000 * d,
            b: 100 * d,
            period: 3600,
            toll: 0,
            spread: bp(10),
            fluct: 0,
            cap: 0,
            oic: 0,
            registered: false,
            opened: true,
            dp,
        });
    }
    let mut funds: Vec<(u64, u128)> = ALLOW_IDS.iter().map(|id| (*id, 5000 * d)).collect();
    if r.chance(1, 5) {
        let i = r.below(funds.len() as u64) as usize;
        funds[i].1 = 10 * d;
    }
    // the profit-taking campaign runs (`--bias pump`) put more weight on a small or empty insurance fund: payouts whose
    // shortfall the fund cannot cover either
    let pump = super::gen::BIAS.get().map(|b| b == "pump").unwrap_or(false);
    let ifbal = if pump { weighted(r, &[(5000u128, 40), (50, 35), (3, 10), (0, 15)]) } else { weighted(r, &[(5000u128, 70), (50, 15), (0, 15)]) } * d;
    let mut allow: Vec<(u64, u128)> = vec![];
    if !native {
        allow = ALLOW_IDS.iter().map(|id| (*id, 1_000_000 * d)).collect();
        if r.chance(1, 5) {
            let i = r.below(allow.len() as u64) as usize;
            allow[i].1 = 100 * d;
        }
    }
    let oracle0 = vamms[0].q * d / vamms[0].b;
    // ratios that are not round numbers: one raw unit above the menu value in a third of the deployments (decided from
    // (seed, h) without consuming PRNG draws).  Halving, splitting and rounding of such a ratio leaves remainders that the
    // round menu values never produce.
    let jit = |k: u64| -> u128 { ((seed.wrapping_mul(0x2545_F491).wrapping_add(h.wrapping_mul(0x9E37)).wrapping_add(k.wrapping_mul(0x85EB)) >> 4) % 3 == 0) as u128 };
    let odd = |x: u128, k: u64| -> u128 { if x != 0 && x < d { x + jit(k) } else { x } };
    for (i, v) in vamms.iter_mut().enumerate() {
        v.toll = odd(v.toll, 10 + i as u64);
        v.spread = odd(v.spread, 20 + i as u64);
        v.fluct = odd(v.fluct, 30 + i as u64);
    }
    let lf_odd = odd(bp(lf_bp), 1);
    let plr_odd = odd(bp(plr_bp), 2);
    Cfg {
        h,
        seed,
        native,
        dp,
        d,
        real_feed,
        imr: bp(imr_bp),
        mmr: bp(mmr_bp),
        lf: lf_odd,
        plr: plr_odd,
        vamms,
        funds,
        ifbal,
        allow,
        oracle0,
    }
}

fn pairs(xs: &[(u64, u128)]) -> String {
    if xs.is_empty() {
        "none".to_string()
    } else {
        xs.iter().map(|(a, b)| format!("{}:{}", a, b)).collect::<Vec<_>>().join(";")
    }
}

impl Cfg {
    pub fn line(&self, setup_ok: bool) -> String {
        let mut s = format!(
            "CFG h={} seed={} coll={} dp={} D={} feed={} nv={} setup_ok={} imr={} mmr={} lf={} plr={}",
            self.h,
            self.seed,
            if self.native { "native" } else { "cw20" },
            self.dp,
            self.d,
            if self.real_feed { "real" } else { "mock" },
            self.vamms.len(),
            setup_ok as u8,
            self.imr,
            self.mmr,
            self.lf,
            self.plr
        );
        for (i, v) in self.vamms.iter().enumerate() {
            let dp_field = if v.dp != self.dp { format!(":{}", v.dp) } else { String::new() };
            s.push_str(&format!(
                " v{}.init={}:{}:{}:{}:{}:{}:{}:{}:{}:{}{}",
                VAMM0 + i as u64,
                v.q,
                v.b,
                v.period,
                v.toll,
                v.spread,
                v.fluct,
                v.cap,
                v.oic,
                v.registered as u8,
                v.opened as u8,
                dp_field
            ));
        }
        s.push_str(&format!(
            " fund={} ifbal={} allow0={} oracle0={}",
            pairs(&self.funds),
            self.ifbal,
            pairs(&self.allow),
            self.oracle0
        ));
        s
    }

    pub fn parse(line: &str) -> Option<Cfg> {
        let m = tokens(line);
        let g = |k: &str| -> Option<u128> { m.get(k)?.parse::<u128>().ok() };
        let nv = g("nv")? as usize;
        let mut vamms = vec![];
        for i in 0..nv {
            let t = m.get(format!("v{}.init", VAMM0 + i as u64).as_str())?;
            let p: Vec<u128> = t.split(':').filter_map(|x| x.parse().ok()).collect();
            if p.len() != 10 && p.len() != 11 {
                return None;
            }
            vamms.push(VammInit {
                q: p[0],
                b: p[1],
                period: p[2] as u64,
                toll: p[3],
                spread: p[4],
                fluct: p[5],
                cap: p[6],
                oic: p[7],
                registered: p[8] == 1,
                opened: p[9] == 1,
                dp: if p.len() == 11 { p[10] as u32 } else { g("dp")? as u32 },
            });
        }
        let plist = |k: &str| -> Option<Vec<(u64, u128)>> {
            let t = m.get(k)?;
            if *t == "none" {
                return Some(vec![]);
            }
            let mut v = vec![];
            for e in t.split(';') {
                let mut it = e.split(':');
                v.push((it.next()?.parse().ok()?, it.next()?.parse().ok()?));
            }
            Some(v)
        };
        Some(Cfg {
            h: g("h")? as u64,
            seed: m.get("seed")?.parse().ok()?,
            native: *m.get("coll")? == "native",
            dp: g("dp")? as u32,
            d: g("D")?,
            real_feed: *m.get("feed")? == "real",
            imr: g("imr")?,
            mmr: g("mmr")?,
            lf: g("lf")?,
            plr: g("plr")?,
            vamms,
            funds: plist("fund")?,
            ifbal: g("ifbal")?,
            allow: plist("allow0")?,
            oracle0: g("oracle0")?,
        })
    }
}

/// `key=value` tokens of a line (the leading record kind is skipped)
pub fn tokens(line: &str) -> HashMap<&str, &str> {
    let mut m = HashMap::new();
    for t in line.split(' ') {
        if let Some(i) = t.find('=') {
            m.insert(&t[..i], &t[i + 1..]);
        }
    }
    m
}
