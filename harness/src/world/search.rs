//! Neighbourhood search: from the state right after (and right before) step k of a recorded history,
//! try every operation of a fixed menu in several blocks and print each attempt as a self-contained
//! mini-history (`CFG … src=`, `OBS k=init`, `TX k=0`, `OBS k=0`, `QRY`…).
use super::cfg::*;
use super::deploy::World;
use super::gen::{dirq, mul_div, open_funds, vinfos};
use super::tx::{parse_tx, Msg, Tx};
use super::Runner;
use crate::stats::Stats;
use cosmwasm_std::Uint128;
use margined_perp::margined_vamm as vamm;
use std::io::Write;

const ACCOUNTS5: [u64; 5] = [101, 102, 103, 104, 110];

/// one candidate: sender, message, native funds (0 on cw20 worlds)
#[derive(Clone, Debug)]
pub struct Cand {
    pub snd: u64,
    pub msg: Msg,
    pub funds: u128,
}

/// candidate menu built from the current state of the world; `now` is used for oracle timestamps
/// registry / switch operations only (small menu, searched two steps deep)
pub fn admin_menu(w: &World) -> Vec<Cand> {
    let vis = vinfos(w);
    let mut out: Vec<Cand> = vec![];
    for v in &vis {
        out.push(Cand { snd: w.if_owner(), msg: Msg::IfAdd { v: v.id }, funds: 0 });
        out.push(Cand { snd: w.if_owner(), msg: Msg::IfRm { v: v.id }, funds: 0 });
        out.push(Cand { snd: w.vamm_owner(&v.addr), msg: Msg::VSetOpen { v: v.id, uopen: !v.open as u64 }, funds: 0 });
    }
    out.push(Cand { snd: w.pauser(), msg: Msg::Pause { p: !w.engine_paused() as u64 }, funds: 0 });
    out.push(Cand { snd: w.if_owner(), msg: Msg::IfShutdown, funds: 0 });
    out
}

pub static MENU: std::sync::OnceLock<String> = std::sync::OnceLock::new();

pub fn menu(w: &World) -> Vec<Cand> {
    if MENU.get().map(|m| m == "admin").unwrap_or(false) {
        return admin_menu(w);
    }
    let d = w.cfg.d;
    let vis = vinfos(w);
    let ps = w.positions();
    let mut out: Vec<Cand> = vec![];
    let native = w.cfg.native;
    let mut push = |snd: u64, msg: Msg, funds: u128| out.push(Cand { snd, msg, funds: if native { funds } else { 0 } });
    for v in &vis {
        for a in ACCOUNTS5 {
            let pos = ps.iter().find(|p| p.v == v.id && p.t == a);
            for side in 0..2u64 {
                for margin in [d, 25 * d] {
                    for lev in [d, 10 * d] {
                        push(a, Msg::Open { v: v.id, side, margin, lev, lim: 0 }, open_funds(w, Some(v), pos, side, margin, lev));
                    }
                }
            }
            if let Some(p) = pos {
                // opposite-side trades just below / above the position's current value: reduce vs reverse
                let value = w
                    .q::<Uint128, _>(&v.addr, &vamm::QueryMsg::OutputAmount { direction: dirq(p.dir), amount: Uint128::new(p.size) })
                    .map(|x| x.u128())
                    .unwrap_or(p.notional);
                for margin in [value.saturating_sub(1).max(1), value + 1] {
                    let side = 1 - p.dir;
                    push(a, Msg::Open { v: v.id, side, margin, lev: d, lim: 0 }, open_funds(w, Some(v), pos, side, margin, d));
                }
                push(a, Msg::Close { v: v.id, lim: 0 }, 0);
                push(a, Msg::Withdraw { v: v.id, amt: 1 }, 0);
                let fc = w.free_collateral(&p.vaddr, &p.taddr).filter(|x| !x.negative).map(|x| x.value.u128()).unwrap_or(0);
                if fc > 1 {
                    push(a, Msg::Withdraw { v: v.id, amt: fc }, 0);
                }
                push(a, Msg::Deposit { v: v.id, amt: d }, d);
                push(LIQUIDATOR, Msg::Liq { v: v.id, trader: a, lim: 0 }, 0);
                if a != LIQUIDATOR {
                    push(a, Msg::Liq { v: v.id, trader: a, lim: 0 }, 0);
                }
            }
        }
        push(STRANGER, Msg::PayFunding { v: v.id }, 0);
        let spot = v.spot(d);
        for price in [spot, mul_div(spot, 85, 100), mul_div(spot, 115, 100)] {
            push(w.feed_owner(), Msg::Oracle { price, ts: 0 }, 0);
        }
        push(w.vamm_owner(&v.addr), Msg::VSetOpen { v: v.id, uopen: !v.open as u64 }, 0);
    }
    push(w.pauser(), Msg::Pause { p: 1 }, 0);
    push(w.pauser(), Msg::Pause { p: 0 }, 0);
    push(w.if_owner(), Msg::IfShutdown, 0);
    out
}

fn to_tx(c: &Cand, k: u64, height: u64, time: u64) -> Tx {
    let msg = match &c.msg {
        Msg::Oracle { price, .. } => Msg::Oracle { price: *price, ts: time },
        m => m.clone(),
    };
    Tx { k, snd: c.snd, funds: c.funds, extra: false, height, time, msg, fault: None }
}

pub struct Opts {
    pub hist: u64,
    pub step: u64,
    pub w: Option<String>,
    pub depth: u64,
    pub max_exec: u64,
}

/// a runner brought to the state after the given prefix (only its successful transactions are kept)
fn reach(cfg: &Cfg, prefix: &[Tx], stats: &mut Stats) -> Option<Runner> {
    let world = World::deploy(cfg).ok()?;
    let mut rn = Runner { world, done: vec![], last_body: String::new(), last_height: 0, tag: None, replaying: false };
    for t in prefix {
        let r = rn.world.exec_tx(t);
        if r.panicked {
            rn.restore(stats);
        } else if r.ok {
            rn.done.push(t.clone());
        }
    }
    rn.last_body = rn.world.observe_body();
    rn.last_height = rn.world.app.block_info().height;
    Some(rn)
}

pub fn run(input: &str, o: &Opts, out: &mut dyn Write, stats: &mut Stats) {
    // the history's CFG line and its plain TX lines up to the step
    let mut cfg_line: Option<&str> = None;
    let mut txs: Vec<Tx> = vec![];
    for line in input.lines() {
        let is_cfg = line.starts_with("CFG ");
        if !is_cfg && !line.starts_with("TX ") {
            continue;
        }
        let m = tokens(line);
        if m.get("h").and_then(|x| x.parse::<u64>().ok()) != Some(o.hist) {
            continue;
        }
        if let Some(w) = &o.w {
            if m.get("w").map(|x| x.to_string()).as_ref() != Some(w) {
                continue;
            }
        }
        if is_cfg {
            cfg_line = Some(line);
        } else if m.get("fault").map(|f| *f != "none").unwrap_or(false) {
            continue;
        } else if let Some(t) = parse_tx(line) {
            if t.k <= o.step {
                txs.push(t);
            }
        }
    }
    let cfg = match cfg_line.and_then(Cfg::parse) {
        Some(c) => c,
        None => {
            eprintln!("search: no CFG line for history {}", o.hist);
            return;
        }
    };
    let (blk_h, blk_t) = match txs.iter().find(|t| t.k == o.step) {
        Some(t) => (t.height, t.time),
        None => {
            eprintln!("search: history {} has no step {}", o.hist, o.step);
            return;
        }
    };
    let post: Vec<Tx> = txs.clone();
    let pre: Vec<Tx> = txs.iter().filter(|t| t.k < o.step).cloned().collect();
    let cfg_tokens: String = {
        // the deployment tokens of the original line without `h=`/`w=`
        cfg.line(true).split(' ').skip(2).collect::<Vec<_>>().join(" ")
    };
    writeln!(out, "{}", cfg.line(true)).unwrap();
    let mut fresh = 1_000_000 * (o.hist + 1);
    let mut execs = 0u64;
    // (label, prefix, block variants)
    let later = (blk_h + 167, blk_t + 1000);
    let bases: Vec<(&str, &Vec<Tx>, Vec<(&str, (u64, u64))>)> = vec![
        ("base", &post, vec![("same", (blk_h, blk_t)), ("next", (blk_h + 1, blk_t + 6)), ("later", later)]),
        ("prebase", &pre, vec![("pre", (blk_h, blk_t))]),
    ];
    for (label, prefix, variants) in bases {
        let mut rn = match reach(&cfg, prefix, stats) {
            Some(r) => r,
            None => return,
        };
        let plen = rn.done.len();
        let base_block = rn.world.app.block_info();
        let (base_h, base_t) = (base_block.height, base_block.time.seconds());
        let base_body = rn.last_body.clone();
        rn.world.cfg.h = o.hist;
        writeln!(out, "{}", rn.world.obs_line(label, &base_body)).unwrap();
        let cands = menu(&rn.world);
        stats.count("search", &format!("menu_{}:{}", label, cands.len()));
        'outer: for (vname, (bh, bt)) in &variants {
            for (ci, c) in cands.iter().enumerate() {
                if execs >= o.max_exec {
                    stats.count("search", "truncated");
                    break 'outer;
                }
                // depth 1
                fresh += 1;
                rn.world.cfg.h = fresh;
                rn.world.set_block(base_h, base_t);
                rn.last_body = base_body.clone();
                rn.last_height = base_h;
                writeln!(out, "CFG h={} {} src={}:{}:{}:{}", fresh, cfg_tokens, o.hist, o.step, ci, vname).unwrap();
                writeln!(out, "{}", rn.world.obs_line("init", &base_body)).unwrap();
                let t0 = to_tx(c, 0, *bh, *bt);
                let res = rn.step(&t0, out, stats);
                execs += 1;
                stats.count("search_ok", &format!("{}:{}:{}", vname, t0.msg.kind(), res.ok as u8));
                let dirty = res.ok || res.panicked;
                if res.ok && o.depth >= 2 {
                    // depth 2: every candidate of the new state's menu, in the same block
                    let body1 = rn.last_body.clone();
                    let cands2 = menu(&rn.world);
                    for (cj, c2) in cands2.iter().enumerate() {
                        if execs >= o.max_exec {
                            stats.count("search", "truncated");
                            break;
                        }
                        fresh += 1;
                        rn.world.cfg.h = fresh;
                        rn.last_body = body1.clone();
                        rn.last_height = *bh;
                        writeln!(out, "CFG h={} {} src={}:{}:{}:{}:{}", fresh, cfg_tokens, o.hist, o.step, ci, vname, cj).unwrap();
                        rn.world.set_block(base_h, base_t);
                        writeln!(out, "{}", rn.world.obs_line("init", &base_body)).unwrap();
                        rn.world.set_block(*bh, *bt);
                        writeln!(out, "{}", super::tx::tx_line(fresh, &t0, &res)).unwrap();
                        writeln!(out, "{}", rn.world.obs_line("0", &body1)).unwrap();
                        let t1 = to_tx(c2, 1, *bh, *bt);
                        let r2 = rn.step(&t1, out, stats);
                        execs += 1;
                        stats.count("search_ok2", &format!("{}:{}", t1.msg.kind(), r2.ok as u8));
                        if r2.ok || r2.panicked {
                            // back to the state after the first candidate
                            rn.done.truncate(plen + 1);
                            rn.restore(stats);
                        }
                    }
                }
                if dirty {
                    rn.done.truncate(plen);
                    rn.restore(stats);
                }
            }
        }
    }
    stats.count("search", &format!("executions:{}", execs));
}
