#!/bin/bash
# usage: rewriteproc.sh <n>   — applies the behaviour-preserving rewrite /tmp/seed/r-<n>/seeded_out/patch.diff to /repo (serialised by
# the lock on /repo), first confirms the 410 tests in the scratch worktree, runs ALL 20 quick checks, records them under
# /verif/seeded/harmless/R<n>/, undoes it.  Expected: 20 x exit 0, no VIOLATION line.
N=$1; W=/tmp/seed/r-$N; OUT=/verif/seeded/harmless/R$N
mkdir -p $OUT; cp $W/seeded_out/patch.diff $W/seeded_out/README.md $OUT/
(cd $W && CARGO_TARGET_DIR=$W/target CARGO_NET_OFFLINE=true cargo test --workspace --offline --no-fail-fast 2>&1 | grep -h "^test result" > $OUT/tests.txt)
cd /verif
(
  flock 9
  git -C /repo status --short | grep -q . && { echo "R$N: /repo dirty, skipping"; exit 3; }
  git -C /repo apply $OUT/patch.diff || { echo "R$N: patch does not apply"; exit 2; }
  : > $OUT/checks.log
  for i in 01 02 03 04 05 06 07 08 09 10 11 12 13 14 15 16 17 18 19 20; do
    ./check C$i --tier quick > /tmp/seed/R$N.check_C$i.log 2>&1; rc=$?
    echo "C$i rc=$rc $(grep -h '^VIOLATION' /tmp/seed/R$N.check_C$i.log | head -1) $(grep -h '^OK' /tmp/seed/R$N.check_C$i.log | head -1 | cut -c1-120)" >> $OUT/checks.log
  done
  git -C /repo checkout -- .
  git -C /verif checkout -- evidence replays 2>/dev/null
) 9>/tmp/repo.lock
echo "R$N: $(grep -c 'rc=0' $OUT/checks.log)/20 exit 0; violations: $(grep -c VIOLATION $OUT/checks.log); tests: $(cat $OUT/tests.txt | tr '\n' ' ' | cut -c1-300)"
