#!/bin/bash
# usage: confirm_seed.sh <worktree> <id> <name>
# Confirms a seeded change in its scratch worktree (change + demo applied there), then stores it under /verif/seeded/<name>.
W=$1; ID=$2; NAME=$3
export CARGO_TARGET_DIR=$W/target CARGO_NET_OFFLINE=true
cd $W || exit 2
OUT=/verif/seeded/$NAME; mkdir -p $OUT
# 1. full suite with change + demo: only demo tests may fail
cargo test --workspace --offline --no-fail-fast > $OUT/run_with_change.log 2>&1
PASS=$(grep -h "^test result" $OUT/run_with_change.log | sed 's/.*ok\. \([0-9]*\) passed.*/\1/;s/.*FAILED\. \([0-9]*\) passed.*/\1/' | paste -sd+ | bc)
FAILED_TESTS=$(grep -h "^test .* FAILED" $OUT/run_with_change.log | sed 's/ \.\.\. FAILED//' | sort -u | tr '\n' ';')
# 2. revert only the source change, keep the demo
git apply -R seeded_out/patch.diff || { echo "cannot revert patch"; exit 2; }
cargo test --workspace --offline --no-fail-fast > $OUT/run_without_change.log 2>&1
PASS2=$(grep -h "^test result" $OUT/run_without_change.log | sed 's/.*ok\. \([0-9]*\) passed.*/\1/;s/.*FAILED\. \([0-9]*\) passed.*/\1/' | paste -sd+ | bc)
FAILED2=$(grep -h "^test .* FAILED" $OUT/run_without_change.log | sed 's/ \.\.\. FAILED//' | sort -u | tr '\n' ';')
git apply seeded_out/patch.diff
cp seeded_out/patch.diff seeded_out/demo.diff seeded_out/README.md $OUT/
tail -5 $OUT/run_with_change.log > $OUT/tail_with.txt; rm -f $OUT/run_with_change.log $OUT/run_without_change.log
echo "$NAME property=$ID with_change: passed=$PASS failed=[$FAILED_TESTS] | without_change(demo kept): passed=$PASS2 failed=[$FAILED2]" | tee $OUT/confirmation.txt
