#!/bin/bash
# usage: seedproc.sh <round-letter> <prop> [<extra-prop>...]
# Confirms the seeded change in /tmp/seed/<round>-<prop> (scratch worktree), stores it as /verif/seeded/<prop>-<round>,
# then (serialised by a lock on /repo) applies it to /repo, runs the property's quick check (and any extra ones), undoes it.
R=$1; P=$2; shift 2
W=/tmp/seed/$R-$P; NAME=$P-$R
cd /verif
./confirm_seed.sh $W $P $NAME > /tmp/seed/$NAME.confirm.log 2>&1
(
  flock 9
  git -C /repo status --short | grep -q . && { echo "$NAME: /repo dirty, skipping"; exit 3; }
  git -C /repo apply /verif/seeded/$NAME/patch.diff || { echo "$NAME: patch does not apply"; exit 2; }
  for id in $P "$@"; do
    s=$(date +%s)
    ./check $id --tier quick > /tmp/seed/$NAME.check_$id.log 2>&1; rc=$?
    rp=$(grep -h '^VIOLATION' /tmp/seed/$NAME.check_$id.log | head -1 | sed 's/.*replay=\([^ ]*\).*/\1/')
    [ -n "$rp" ] && [ -f "$rp" ] && head -c 200000 "$rp" > /verif/seeded/$NAME/replay_$id.txt
    echo "$NAME check=$id rc=$rc t=$(( $(date +%s)-s ))s $(grep -h '^VIOLATION' /tmp/seed/$NAME.check_$id.log | head -2 | tr '\n' ' ')"
  done
  git -C /repo checkout -- .
  git -C /verif checkout -- evidence replays 2>/dev/null
) 9>/tmp/repo.lock
cat /verif/seeded/$NAME/confirmation.txt | cut -c1-400
