#!/bin/sh
# usage: seedtest.sh <patch.diff> <prop> [<prop>...]   — apply a seeded change to /repo, run checks, undo it
P=$1; shift
git -C /repo apply "$P" || { echo "patch does not apply"; exit 2; }
for id in "$@"; do
  ./check "$id" 2>&1 | tail -3
done
git -C /repo checkout -- .
git -C /repo status --short | head -3
