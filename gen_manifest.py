#!/usr/bin/env python3
"""Regenerates MANIFEST.json from the table below (kept in one place so that it stays valid)."""
import json

TRUST = ("Trusted: Lean 4.33.0 kernel (+leanchecker), axioms {propext, Classical.choice, Quot.sound} audited per theorem each run, "
         "the hand-written Lean model (tied to /repo on every run by the differential correspondence: Rust harness executing the real "
         "crates, compiled Lean driver replaying the same cases), the harness/driver/line protocol, cosmwasm-std / cw-multi-test / cw20-base "
         "as the meaning of 'the chain'. ")

CLAIMS = {
 "C01": ("Curve conservation is proved for the vAMM model for every reserve pair, direction, amount and every interleaving of all vAMM execute variants "
         "(swap_input_step / swap_output_step / run_conserves / run_quote_recovery); the same predicates (Spec.C01) are evaluated on the real vAMM's "
         "state after every operation of generated unit histories and engine-driven world histories, and the model is compared with the contract step by step.",
         "The quote-recovery clause needs base >= one whole unit (the property's quantifier); zero-amount swaps are trivial steps.",
         "Lean 4 proof (nonlinear Nat arithmetic on floor/ceil division, induction over call lists) + differential correspondence"),
 "C15": ("vAMM part proved: a no-go-over swap is accepted only with the price inside the previous block's band before and after, any swap is rejected once the price is outside, "
         "and IsOverFluctuationLimit answers exactly 'a swap_output of this size leaves the band' (Props.C15); the engine part (which swaps an open/close issues) is checked by Spec.C15 on world histories and by the model correspondence.",
         "Band arithmetic is the contract's fixed-point arithmetic; the engine-level statement relies on the world model of open/close flows.",
         "Lean 4 proof (inversion of checked arithmetic) + Spec on implementation observations + correspondence"),
 "C17": ("Proved for the vAMM model: an accepted swap exchanges exactly the quoted amount and moves exactly the requested amount on the requested side; a non-zero limit has no other effect than rejecting "
         "exactly when the quoted amount is on the wrong side (swap*_spec, swap*_limit_iff, swap*_needs_quote). On the implementation every swap is run together with its quote and a limit-free twin.",
         "Zero-amount swaps skip the limit check (nothing is exchanged) and are excluded from the limit clause.",
         "Lean 4 proof + twin-run differential check"),
 "C18": ("Proved: the reserve TWAP lies between the lowest and highest in-effect spot price for every snapshot list and interval (calcTwap_within / _const / _zero), and the snapshot discipline (one per block, newest mirrors reserves) is an invariant of every vAMM call under a monotone clock; "
         "the price feed part (latest / n-back / TWAP) is checked by Spec.C18F on the real margined_pricefeed and by model correspondence.",
         "Feed theorems are being added; the feed spec applies to submissions with non-decreasing, non-future timestamps as the property states.",
         "Lean 4 proof (weighted-average bounds by induction over the snapshot list) + differential correspondence"),
 "C19": ("Every clause of the property is a Lean theorem over all operands (both flags, all magnitudes < 2^128) of a model that mirrors integer.rs branch by branch; `spec_model` proves the observation-level predicate Spec.C19 of the model, "
         "and the same predicate is evaluated on the real Integer API's answers on every run while model and implementation are compared case by case.",
         "serde is exercised (round trip through JSON) but not modelled.",
         "Lean 4 proof (case analysis + omega over Int/Nat) + differential correspondence"),
}

CLAIMS.update({
 "C03": ("Proved for the world model: every ledger primitive, every message of the dispatcher tree and every transaction of every kind conserves the total collateral (Dispatch.exec_total / applyTx_total / step_total, induction over the dispatcher's fuel); "
         "frames show that vAMM messages move no collateral. The recipient clauses are evaluated by Spec.C03 on every transaction of generated histories (balances of all accounts decoded before/after, transfer events) and the model's transfer log is compared with the implementation's.",
         "Permitted-recipient clause is checked on the implementation and by model correspondence; its world-level theorem is in progress (WorldInv).",
         "Lean 4 proof (mutual induction over the dispatcher model) + Spec on implementation observations + correspondence"),
 "C08": ("Proved for the dispatcher model: the engine's reply turns every reported failure into a failure, a failing sub-message with ReplyOn Always/Error fails the engine's response and with Never/Success fails any contract's response, and a successful response implies success of each sub-message, its reply and everything that reply dispatched (Dispatch.replyErr_is_error, execSubs_head_error(_never), execSubs_cons_ok). "
         "Spec.C08 checks on every transaction of generated histories that a failed call leaves all decoded storage and balances unchanged and that no tmp-swap / sent-funds / tmp-liquidator record remains.",
         "Transaction atomicity itself is the host's (cw-multi-test) behaviour, stated as an assumption; single-fault injection at every sub-message is being added to the harness.",
         "Lean 4 proof + Spec on full storage dumps"),
 "C09": ("Role theorems proved for the vAMM (swaps/settlement only by the engine, config/owner only by the owner, set_open only by owner or insurance fund, transfer of ownership moves the right) and the price feed; engine / insurance fund / fee pool role theorems are in EngineGuards. "
         "Spec.C09 evaluates every execute variant of all five contracts by every kind of sender on generated histories: an accepted privileged call must come from the role holder of the pre-state, and ownership transfers must take effect.",
         "The mock feed has no access control by design (fixture); claimed for the repository's margined_pricefeed.",
         "Lean 4 proof (guard inversion) + Spec on implementation observations + correspondence"),
 "C11": ("vAMM half proved (settleFunding_spec: time guard, premium fraction = trunc((TWAP - oracle TWAP) * period / day), next funding time at least the buffer = half a period later, nothing else changes); engine half (payFundingReply_spec, calcRemainMargin_spec) in EngineMoney. "
         "Spec.C11 checks schedule, formula, the single collateral movement and the per-action checkpoint/charge on generated histories; a defect found by it (funding skipped on reversal) was repaired.",
         "Per-action exactly-once is stated on the checkpoint, not as a sum over history (truncation is not additive).",
         "Lean 4 proof + Spec on implementation observations + correspondence"),
 "C14": ("vAMM part proved (closed market rejects swaps and settlement; set_open only flips the flag for owner / insurance fund); engine guards (pause, require_vamm) and registry invariants in EngineGuards / WorldInv. Spec.C14 checks every engine operation against paused / closed / unregistered pre-states, registry shape, and shutdown outcome on generated histories.",
         "Known finding C14-F5: ShutdownVamms reverts when a registered vAMM is already closed (pinned by an existing test), reported as KNOWN-FINDING.",
         "Lean 4 proof (guard inversion) + Spec on implementation observations + correspondence"),
 "C20": ("vAMM half proved for every update sequence (run_configOK: ratios within [0,1], TWAP interval within [1 min, 1 week] after instantiate and after any accepted call); engine half (updateConfig_configOK, caps, registry) in EngineGuards. Spec.C20 checks bounds after every transaction and caps after every position-increasing trade.",
         "",
         "Lean 4 proof (invariant over call lists) + Spec on implementation observations + correspondence"),
})

NOT_YET = "not claimed in this commit: world-level model/theorems under construction (DESIGN.md §8 build order)"

def chk(pid, text, note, tech):
    return {"property_id": pid, "quick_cmd": f"./check {pid} --tier quick", "thorough_cmd": f"./check {pid} --tier thorough",
            "evidence_file": f"/verif/evidence/{pid}.json", "replay_cmd_template": f"./check {pid} --replay {{path}}",
            "engine": "lean-proof+correspondence",
            "level_claimed": {"category": "proof", "text": text, "design_ref": "DESIGN.md §7 " + pid},
            "level_note": TRUST + note, "technique": tech}

def main():
    ids = [f"C{i:02d}" for i in range(1, 21)]
    m = {
        "version": 1,
        "setup_cmd": "cd /verif && ./setup.sh",
        "hooks": {"guard": "margined_protocol_perpetuals_verif",
                  "enable": "none needed: the harness links the unmodified crates by path (no hook commits exist)",
                  "baseline_off_cmd": "cd /repo && cargo test --workspace --no-fail-fast --offline",
                  "source_commits": [], "add_only": True},
        "engines": [{"name": "lean-proof+correspondence", "path": "/verif/check",
                     "serves_properties": sorted(CLAIMS.keys()),
                     "kind_free_text": "Lean 4 theorems about a hand-written executable model (lean/Perp), tied to /repo by a Rust harness (harness/) that runs the real crates and a compiled Lean driver (lean/Driver) that replays the same cases on the model and evaluates the Spec predicates on the implementation's observations"}],
        "checks": [chk(p, *CLAIMS[p]) for p in ids if p in CLAIMS],
        "notes": "see DESIGN.md; known_findings.json lists fixed and open findings; seeded/ holds validated property-breaking changes",
        "not_applicable": [{"property_id": p, "reason": NOT_YET} for p in ids if p not in CLAIMS],
    }
    json.dump(m, open("/verif/MANIFEST.json", "w"), indent=1)

if __name__ == "__main__":
    main()
