#!/usr/bin/env python3
"""Regenerates MANIFEST.json from the table below (kept in one place so that it stays valid)."""
import json

TRUST = ("Trusted: Lean 4.33.0 kernel (+leanchecker), axioms {propext, Classical.choice, Quot.sound} audited per theorem each run, "
         "the hand-written Lean model (tied to /repo on every run by the differential correspondence: Rust harness executing the real "
         "crates, compiled Lean driver replaying the same cases), the harness/driver/line protocol, cosmwasm-std / cw-multi-test / cw20-base "
         "as the meaning of 'the chain'. ")

CLAIMS = {
 "C01": ("Curve conservation is proved for the vAMM model for every reserve pair, direction, amount and every interleaving of all vAMM execute variants "
         "(swap_input_step / swap_output_step / run_conserves / run_quote_recovery); the same predicates (Spec.C01) are evaluated on the real vAMM's "
         "state after every operation of generated unit histories and engine-driven world histories, and the model is compared with the contract step by step.",
         "The quote-recovery clause needs base >= one whole unit (the property's quantifier); zero-amount swaps are trivial steps.",
         "Lean 4 proof (nonlinear Nat arithmetic on floor/ceil division, induction over call lists) + differential correspondence"),
 "C15": ("vAMM part proved: a no-go-over swap is accepted only with the price inside the previous block's band before and after, any swap is rejected once the price is outside, "
         "and IsOverFluctuationLimit answers exactly 'a swap_output of this size leaves the band' (Props.C15); the engine part (which swaps an open/close issues) is checked by Spec.C15 on world histories and by the model correspondence.",
         "Band arithmetic is the contract's fixed-point arithmetic; the engine-level statement relies on the world model of open/close flows.",
         "Lean 4 proof (inversion of checked arithmetic) + Spec on implementation observations + correspondence"),
 "C17": ("Proved for the vAMM model: an accepted swap exchanges exactly the quoted amount and moves exactly the requested amount on the requested side; a non-zero limit has no other effect than rejecting "
         "exactly when the quoted amount is on the wrong side (swap*_spec, swap*_limit_iff, swap*_needs_quote). On the implementation every swap is run together with its quote and a limit-free twin.",
         "Zero-amount swaps skip the limit check (nothing is exchanged) and are excluded from the limit clause.",
         "Lean 4 proof + twin-run differential check"),
 "C18": ("Proved: the reserve TWAP lies between the lowest and highest in-effect spot price for every snapshot list and interval (calcTwap_within / _const / _zero), and the snapshot discipline (one per block, newest mirrors reserves) is an invariant of every vAMM call under a monotone clock; "
         "the price feed part (latest / n-back / TWAP) is checked by Spec.C18F on the real margined_pricefeed and by model correspondence.",
         "Feed theorems are in Props.C18F (latest / n-back / TWAP bounds, role guards); the feed spec applies to submissions with non-decreasing, non-future timestamps as the property states.",
         "Lean 4 proof (weighted-average bounds by induction over the snapshot list) + differential correspondence"),
 "C19": ("Every clause of the property is a Lean theorem over all operands (both flags, all magnitudes < 2^128) of a model that mirrors integer.rs branch by branch; `spec_model` proves the observation-level predicate Spec.C19 of the model, "
         "and the same predicate is evaluated on the real Integer API's answers on every run while model and implementation are compared case by case.",
         "serde is exercised (round trip through JSON) but not modelled.",
         "Lean 4 proof (case analysis + omega over Int/Nat) + differential correspondence"),
}

CLAIMS.update({
 "C03": ("Proved for the world model: every ledger primitive, every message of the dispatcher tree and every transaction of every kind conserves the total collateral (Dispatch.exec_total / applyTx_total / step_total, induction over the dispatcher's fuel); "
         "frames show that vAMM messages move no collateral. The recipient clauses are evaluated by Spec.C03 on every transaction of generated histories (balances of all accounts decoded before/after, transfer events) and the model's transfer log is compared with the implementation's.",
         "Permitted-recipient clause: WorldMore.engine_tx_log_permitted / engine_tx_balances_frame / liquidated_trader_balance (every transfer of an engine transaction has both endpoints among sender, engine, fund, fee pool; every other balance unchanged).",
         "Lean 4 proof (mutual induction over the dispatcher model) + Spec on implementation observations + correspondence"),
 "C08": ("Proved for the dispatcher model: the engine's reply turns every reported failure into a failure, a failing sub-message with ReplyOn Always/Error fails the engine's response and with Never/Success fails any contract's response, and a successful response implies success of each sub-message, its reply and everything that reply dispatched (Dispatch.replyErr_is_error, execSubs_head_error(_never), execSubs_cons_ok). "
         "Spec.C08 checks on every transaction of generated histories that a failed call leaves all decoded storage and balances unchanged and that no tmp-swap / sent-funds / tmp-liquidator record remains.",
         "Transaction atomicity itself is the host's (cw-multi-test) behaviour, stated as an assumption; single-fault injection at every sub-message is part of every run (fault mode).",
         "Lean 4 proof + Spec on full storage dumps"),
 "C09": ("Role theorems proved for the vAMM (swaps/settlement only by the engine, config/owner only by the owner, set_open only by owner or insurance fund, transfer of ownership moves the right) and the price feed; engine / insurance fund / fee pool role theorems are in EngineGuards. "
         "Spec.C09 evaluates every execute variant of all five contracts by every kind of sender on generated histories: an accepted privileged call must come from the role holder of the pre-state, and ownership transfers must take effect.",
         "The mock feed has no access control by design (fixture); claimed for the repository's margined_pricefeed.",
         "Lean 4 proof (guard inversion) + Spec on implementation observations + correspondence"),
 "C11": ("vAMM half proved (settleFunding_spec: time guard, premium fraction = trunc((TWAP - oracle TWAP) * period / day), next funding time at least the buffer = half a period later, nothing else changes); engine half (payFundingReply_spec, calcRemainMargin_spec) in EngineMoney. "
         "Spec.C11 checks schedule, formula, the single collateral movement and the per-action checkpoint/charge on generated histories; a defect found by it (funding skipped on reversal) was repaired.",
         "Per-action exactly-once is stated on the checkpoint, not as a sum over history (truncation is not additive).",
         "Lean 4 proof + Spec on implementation observations + correspondence"),
 "C14": ("vAMM part proved (closed market rejects swaps and settlement; set_open only flips the flag for owner / insurance fund); engine guards (pause, require_vamm) and registry invariants in EngineGuards / WorldInv. Spec.C14 checks every engine operation against paused / closed / unregistered pre-states, registry shape, and shutdown outcome on generated histories.",
         "Known finding C14-F5: ShutdownVamms reverts when a registered vAMM is already closed (pinned by an existing test), reported as KNOWN-FINDING.",
         "Lean 4 proof (guard inversion) + Spec on implementation observations + correspondence"),
 "C20": ("vAMM half proved for every update sequence (run_configOK: ratios within [0,1], TWAP interval within [1 min, 1 week] after instantiate and after any accepted call); engine half (updateConfig_configOK, caps, registry) in EngineGuards. Spec.C20 checks bounds after every transaction and caps after every position-increasing trade.",
         "",
         "Lean 4 proof (invariant over call lists) + Spec on implementation observations + correspondence"),
})

CLAIMS.update({
 "C02": ("Handler level proved: every reply handler changes the stored size by exactly the base amount the vAMM reports, with the direction's sign (EngineMoney: partialLiquidationReply_spec, closePositionReply_spec, liquidateReply_spec, reversePositionReply_fees; updateReserve moves the vAMM's net by the same amount, C01.ur_add/ur_rem), a reducing or partially closing trade never flips a position (CurveNoFlip, under the regular-curve side conditions), and no transaction touches another trader's position or leaves residue (WorldInv). The world-level invariant (Mirror.mirror_invariant_partial) is being assembled from these. "
         "Spec.C02 evaluates 'sum of all decoded positions = vAMM net' after EVERY transaction (successful or not) of every generated history; it found the partial-liquidation defect that was repaired (fix 4aa1bc2).",
         "World-level theorem Mirror.mirror_invariant_partial2 / mirror_along_history2 (inductive invariant over every transaction kind) holds under NotRewire, CurveRegular (the partial-close-of-a-short no-flip lemma needs spot price >= 1; counterexample at price 1/9 is a checked example) and no vAMM at the empty-address sentinel (the statement without it is refuted by a kernel-evaluated history).",
         "Lean 4 proof (handler inversions, curve arithmetic) + Spec on full storage dumps + correspondence"),
 "C04": ("Proved (EngineMoney): a whole close pays exactly margin + realised PnL - funding (calcRemainMargin_spec, closePositionReply_spec), is rejected with bad debt, erases the position and leaves other positions alone; a partial close with bad debt is rejected; withdraw() books exactly the vault's shortfall as prepaid bad debt and requests exactly that from the insurance fund (withdraw_spec). Spec.C04 recomputes the equity from observations (position, cumulative fraction, quote moved by the vAMM) and compares it with the transfers to the trader, and checks the insurance-fund drain bound on every trader-initiated call.",
         "Transaction level: SatB.sat_C04 (the whole Spec.C04 predicate of the model's step, all flows, both collateral kinds).",
         "Lean 4 proof (handler inversion, Int arithmetic) + Spec on implementation observations + correspondence"),
 "C05": ("Proved: leverage below 1 or above 1/initial ratio rejects the whole transaction (WorldInv.leverage_tx_rejected), the last guard of every open flow is margin ratio >= maintenance on the stored post-trade position and the ratio does not depend on the fields changed afterwards (EngineMoney.updatePositionReply_ratio), withdrawal reduces the margin by amount + funding, moves the checkpoint and is covered by free collateral, deposit raises the margin by exactly the amount taken (withdrawMargin_spec, depositMargin_spec). Spec.C05 checks the same on the implementation with the engine's own ratio / free-collateral definitions (validated by QRY correspondence).",
         "",
         "Lean 4 proof + Spec on implementation observations + query correspondence"),
 "C06": ("Proved (handler level): liquidate() proceeds only when the (oracle-lifted) ratio is <= maintenance (EngineGuards / liquidate inversion), a full liquidation pays the liquidator half the penalty, sends the remaining margin to the insurance fund, erases the position and pays the trader nothing; a partial liquidation changes the size by exactly the base amount, keeps its sign side, and pays fund and liquidator half the penalty each (EngineMoney.liquidateReply_spec, partialLiquidationReply_spec). Spec.C06 recomputes the liquidation ratio (spot / TWAP / oracle rule) from the pre-state and checks payouts from the transfer list; it found and led to the repair of the partial-liquidation branch defect.",
         "",
         "Lean 4 proof + Spec on implementation observations + correspondence"),
 "C07": ("The full liveness statement is FALSE of the unchanged code; known findings C07-F2 (partial path arithmetic underflow for under-water positions; a checked witness is LiqTwin.partial_path_underflows) and C07-F3 (repository price feed unreadable by the vAMM) are reported as KNOWN-FINDING. Proved partial results: the execute half of Liquidate has no failure path of its own on the full-liquidation path (LiqTwin.liquidate_full_path_live), liquidation and funding ignore the pause flag (EngineGuards). Spec.C07 evaluates the property's precondition on every attempted liquidation and flags any rejection whose error class is not one of the listed findings.",
         "Liveness through the dispatcher is proved for the full-liquidation sub-case (SatD.sat_C07: forward simulation of liquidate, swap, reply and every transfer); outside it the model reproduces the listed findings (witness worlds in SatDWitness).",
         "Lean 4 partial proof + checked counter-witness + Spec (liveness monitor) on implementation"),
 "C10": ("Proved for the world model (WorldInv.others_untouched): for every transaction of every kind, the stored position of any trader other than the sender (and the trader named by a Liquidate) is unchanged, not created and not removed; execute and every reply write only the in-flight trader's key. Spec.C10 compares the whole decoded position bucket before/after every transaction.",
         "Position keys are assumed injective in (vamm, trader); key-alias probes (suffix-related account names) are part of the generator.",
         "Lean 4 proof (invariant over the dispatcher) + Spec on full bucket dumps"),
 "C12": ("Proved (handler level): transfer_fees emits exactly the spread to the insurance fund and the toll to the fee pool as quoted by the vAMM (EngineGuards.transferFees_spec), an open charges them exactly once on the requested notional — in update_position_reply unless the reversal leg already did, in which case the flag suppresses it (EngineMoney.updatePositionReply_fees, reversePositionReply_fees) — and a close charges them on the open notional (closePositionReply_spec). Spec.C12 checks fee-pool and insurance-fund deltas and the transfer list on every open/close, and that deposit/withdraw/funding/liquidation charge nothing.",
         "",
         "Lean 4 proof + Spec on implementation observations + correspondence"),
 "C13": ("Twin runs: two deployments identical except the collateral are driven in lock-step with the native call attaching exactly what the cw20 run pulled; Spec.C13 compares accept/reject, positions, vAMM and engine state and per-account balance deltas after every operation. Three genuine divergences of the unchanged code are reported as KNOWN-FINDING (C13-F10a/a2 reversal accounting, C13-F10b close with vault shortfall, C13-F10c closing fee paid by the vault). Proved (LiqTwin): for every handler that does not read attached funds the native engine does exactly what the cw20 engine does with each transfer in native form, a deposit changes the stored margin identically, and both transfer forms have the same ledger effect.",
         "The relational theorem covers handlers, not whole transactions; open/reversal flows (where the known divergences live) are excluded from it.",
         "Lean 4 partial relational proof + lock-step twin differential on the implementation"),
 "C16": ("Proved: a restricted sender's Open/Close transaction is rejected (WorldInv.restricted_tx_rejected), an unrestricted one passes this guard (EngineGuards.unrestricted_passes), both liquidation replies set the restriction block (liquidateReply_restricts, partialLiquidationReply_restricts). Spec.C16 derives 'a liquidation happened on this vAMM in this block' from the observed history (not from the engine's marker) and checks every Open/Close of the block; generator campaigns replay trader / liquidator / bystander actions in the liquidation block and the next one.",
         "",
         "Lean 4 proof + history-aware Spec on implementation observations + correspondence"),
})

REFINE = {
 "C01": "SatA.sat_C01", "C02": "SatA.sat_C02", "C03": "SatA.sat_C03", "C04": "SatB.sat_C04", "C05": "SatC.sat_C05",
 "C06": "SatD.sat_C06", "C07": "SatD.sat_C07 (sub-case) / sat_C07_general", "C08": "SatA.sat_C08", "C09": "SatF.sat_C09",
 "C10": "SatA.sat_C10", "C11": "SatE.sat_C11 / C11_tags", "C12": "SatB.sat_C12", "C14": "SatF.sat_C14 / tags_C14",
 "C15": "SatE.sat_C15 / C15_tags", "C16": "SatC.sat_C16", "C17": "SatE.sat_C17", "C18": "SatA.sat_C18", "C20": "SatC.sat_C20",
}

EXTRA = {
 "C15": " Ghost snapshots (Spec/Ghost.lean): the band is also judged against the snapshot history as the MODEL writes it along the observed operations (the stored snapshots are the state a snapshot defect corrupts) — GhostSound.next_tracks / run_tracks (on the model the ghost history IS the stored history, for every sequence of operations) and bandCheck_quiet (the clause is quiet on every model step).",
 "C07": " Partial path: SatDC07Partial.sat_C07_partial extends the liveness theorem to LiqSubCase OR LiqPartialCase (forward simulation of the partial liquidation); every clause of LiqPartialCase has a kernel-evaluated world in which exactly that clause fails and the liquidation fails although the property's premises hold (the exact condition is |realised PnL| + penalty <= margin, not the sign of the ratio). Ghost registry (Spec/GhostReg.lean): 'registered' is also read off the registry as the model writes it along the history's accepted AddVamm / RemoveVamm (GhostRegSound.next_tracks: on the model the ghost list is the stored list after every transaction; regCheck_quiet), so a registry defect that drops a listed market cannot move a liquidation outside the quantifier.",
 "C08": " Every fault point: Model/Fault.lean is the dispatcher with one injected failure (countdown over every dispatched message); FaultAtomic.fault_fails_tx proves for every k, world and transaction of every kind that a transaction which succeeds although fault k was armed never reached it and has the normal result (a fired fault fails the whole call; stepF_atomic: nothing changes), fault_profile gives the exact profile; the harness's fault mode and the theorem speak about the same indices (the driver compares, per engine transaction and index, whether the model's tree reaches the index and whether the implementation's sub-call exists). Fund side: Spec.C08.checkWithdrawExact (Spec/WithdrawExact.lean) — an accepted insurance-fund Withdraw{amount} moved exactly `amount` from the fund to its engine (a fund that pays what it has instead of failing would let the engine's transaction commit): SatWithdrawExact.sat_C08_withdrawExact.",
 "C14": " Registry clause Spec.C14.checkReg (a successful RemoveVamm / AddVamm changes exactly the named entry, nothing else changes the registry): SatExtra3.sat_C14_reg, reachable_extra3, history_extra3. Liveness clause Spec.C14.checkPauseLive (a Liquidate / PayFunding refused BECAUSE the engine is paused, judged on the error text): SatExtra4.sat_C14_pauseLive; that the model's handlers do not consult the pause flag is EngineGuards.liquidate_ignores_pause / payFunding_ignores_pause. Ghost registry frame (Spec/GhostReg.lean, regFrame): after every transaction the stored list equals the list the history's accepted adds and removes leave when replayed with the model's list operations — GhostRegSound.next_tracks / regFrame_quiet (no hypothesis).",
 "C17": " vAMM-side clause Spec.C17.checkVammSide (Spec/LimitV.lean): on an accepted OpenPosition with a non-zero limit that opens, increases or reduces, the base amount is read off the vAMM's base reserve (not off the engine's stored size, which a book-keeping defect corrupts): SatLimitV.sat_C17_vammSide under the sign/direction invariant alone (shown necessary by a kernel-evaluated witness), corollaries on Reachable / ReachableTx worlds and along histories; swapInput_baseMoved: the swap moves the base reserve by exactly the reported amount and the vAMM's own guard gives the inequality.",
 "C18": " Feed clause Spec.C18F.recordedOk (an accepted submission is exactly one new round with the submitted values, older rounds untouched; latest / n-back answers are judged against what was SUBMITTED): C18FRec.appendPrice_recorded / appendMultiple_recorded.",
 "C12": " Deployment: the fee ratios a market charges are the ones its instantiate message carried — InstV.instantiate_fields (what one accepted vAMM instantiate stores, field by field) and DeployFields.deploy_fields (every market of a successful model deployment stores its spec's toll, spread, fluctuation limit, funding period, reserves, owner, engine, zero caps, open flag, registry bit; only the distinctness of the addresses is used, and shown necessary by a kernel-evaluated witness); on the implementation the driver compares the parameters of the CFG line with the first observation of every real deployment (deployChecks) and the vAMM stream compares the instantiate parameters with the stored configuration.",
 "C20": " Deployment: Engine.instantiate is modelled (Model/Instantiate.lean) and compared with the contract on boundary-biased instantiate probes (EINST lines, incl. collaterals with 0..39 decimals); Inst.instantiate_ok_iff (accepts exactly the in-bounds messages), instantiate_configOK, instantiate_fresh.",
 "C09": " Frame clause Spec.C09.checkFrame (Spec/Roles.lean): the holder of every role (engine owner, pauser, fund / pool / feed owner, every vAMM's owner) and every delegation address (engine's fund and pool, each vAMM's engine / fund / feed, the fund's engine) is the same before and after EVERY transaction except a successful transfer / update-config naming exactly that field: SatRoles.sat_C09_frame (every world, sender, block, funds, transaction; no hypothesis), history level SatRoles.run_pauser / run_engine_owner / run_vamm_owner / ... (along Capstone.run a role moves only if the history contains its transfer); kernel-evaluated witnesses that the clause sees a moved pauser / vAMM owner and passes the permitted transfers. Generator: role hand-over and delegation scripts (each role handed over, the old holder / engine owner / a stranger try the role's calls in the states where they act, the new holder acts, hands back, tries again).",
 "C10": " Scope of the Liquidate exception (Spec/Scope.lean, C10.checkLiqScope): a Liquidate{v, t} sent by another account leaves t's records on every OTHER vAMM exactly as they were — SatScope.sat_C10_liqScope (every world, sender, block, funds, transaction; no hypothesis, not even the absence of stale in-flight records: liquidate_scopeK), kernel-evaluated two-market witnesses (full and partial liquidation, stale residue harmless, clause not vacuous). Query view: after every transaction the engine's own answer to Position{vamm, trader} for every deployed market x trading account is compared with the stored records and with its previous answer (only the sender's own answers, or the one a Liquidate names, may change).",
}

def refine_text(pid):
    if pid == "C13":
        return (" Transaction level (SatG): twin_withdraw / twin_liquidate / twin_payFunding prove, for every world, that the native deployment's whole "
                "transaction EQUALS the cw20 deployment's mapped to native form (outcome incl. error value, engine and vAMM state, balances, transfer list); "
                "twin_deposit, twin_open_increase(_outcome) and twin_close_whole prove agreement of engine state, vAMM state and every account's balance when "
                "the native caller attaches exactly what the cw20 run pulls (flat / same-side opens; whole closes without vault shortfall and with the fee "
                "payable up front); SatGReduce.twin_open_reduce / twin_close_partial prove the same for reducing orders and partial closes (both directions, with non-vacuity "
                "worlds evaluated by the kernel; the native partial close does not compare the attached amount with the fees, witness F10d, hence the fee-equality premise "
                "of direction B); SatGReverse.twin_open_reverse_closeonly / twin_open_reverse_reopen cover reversing orders, the latter under NetsOKQ, which is exact "
                "(reopen_exact: given a successful cw20 run the native run with the pulled amount succeeds iff NetsOKQ; F10a is the kernel-evaluated violation); "
                "the recorded findings F10a/b/c and one more divergence are kernel-evaluated witness worlds (SatGWitness). Known-finding signatures carry the "
                "reference model's verdict on the same pair of calls, so a divergence the model does not predict is reported. History level: SatGSim (ledger extensionality: a native deployment reads its ledger only "
                "through balances; Sim is a simulation relation, sim_step_<flow> for all ten flows) and SatGHistory.twin_history / twin_history_C13 / twin_history_steps: along any history whose steps satisfy StepOK the "
                "native deployment attaching exactly what the cw20 step pulled stays in step (same positions, vAMMs, engine state, every balance).")
    if pid not in REFINE:
        return ""
    return (f" Refinement layer: {REFINE[pid]} proves, for every world, block, sender, funds and transaction, that the observation record of the "
            f"MODEL's step (Props.ModelStep.modelStep) satisfies the same decidable predicate Spec.{pid}.check that this check evaluates on the "
            "implementation's observations (hypotheses: invariants proved preserved by World.step, deployment wiring, or preconditions of the "
            "property; each with a kernel-evaluated witness that it is needed; see DESIGN.md §7.1). Capstone.reachable_sat / history_sat: along every "
            "history of user transactions from a deployment (side conditions SideOK at each step) every tag of every Spec check of the model's step is "
            "one of the five tags of the recorded findings, and this property's check is [] where it has no recorded finding. The hypotheses themselves are "
            "monitored on the IMPLEMENTATION: Spec.Monitor gives Boolean versions of Deployed / AllInv / SideOK, proved equivalent to the Props "
            "(MonitorSound.deployed_iff / allInv_iff / side_iff); the driver evaluates them on every observed deployment and step, reports in "
            "evidence.coverage.theorem_domain how many observed steps lie inside the theorems' domain, and treats a violated prediction AllInv(post) "
            "on an in-domain step as a correspondence break. CapstoneTx re-proves the capstone under the per-transaction hypothesis CurveRegularTx "
            "(unit reserves; no overshoot of the re-quote when THIS transaction is a partial close of a short) instead of the global price condition: "
            "reachable_sat_tx / history_sat_tx / reachable_sat_all_tx, monitors in MonitorTxSound; measured on the implementation 98-99 % of observed steps "
            "lie inside this domain. DeployOK.deploy_deployed: the instantiate entry points followed by the wiring transactions yield a Deployed world." + EXTRA.get(pid, ""))

NOT_YET = "not claimed in this commit: world-level model/theorems under construction (DESIGN.md §8 build order)"

def chk(pid, text, note, tech):
    return {"property_id": pid, "quick_cmd": f"./check {pid} --tier quick", "thorough_cmd": f"./check {pid} --tier thorough",
            "evidence_file": f"/verif/evidence/{pid}.json", "replay_cmd_template": f"./check {pid} --replay {{path}}",
            "engine": "lean-proof+correspondence",
            "level_claimed": {"category": "proof", "text": text + refine_text(pid), "design_ref": "DESIGN.md §7 " + pid},
            "level_note": TRUST + note, "technique": tech}

def main():
    ids = [f"C{i:02d}" for i in range(1, 21)]
    m = {
        "version": 1,
        "setup_cmd": "cd /verif && ./setup.sh",
        "hooks": {"guard": "margined_protocol_perpetuals_verif",
                  "enable": "none needed: the harness links the unmodified crates by path (no hook commits exist)",
                  "baseline_off_cmd": "cd /repo && cargo test --workspace --no-fail-fast --offline",
                  "source_commits": [], "add_only": True},
        "engines": [{"name": "lean-proof+correspondence", "path": "/verif/check",
                     "serves_properties": sorted(CLAIMS.keys()),
                     "kind_free_text": "Lean 4 theorems about a hand-written executable model (lean/Perp), tied to /repo by a Rust harness (harness/) that runs the real crates and a compiled Lean driver (lean/Driver) that replays the same cases on the model and evaluates the Spec predicates on the implementation's observations"}],
        "checks": [chk(p, *CLAIMS[p]) for p in ids if p in CLAIMS],
        "notes": "see DESIGN.md; known_findings.json lists fixed and open findings; seeded/ holds validated property-breaking changes",
        "not_applicable": [{"property_id": p, "reason": NOT_YET} for p in ids if p not in CLAIMS],
    }
    json.dump(m, open("/verif/MANIFEST.json", "w"), indent=1)

if __name__ == "__main__":
    main()
