/-
  Observation-level specification predicates for the vAMM properties (C01, C15, C17, C18 unit parts).
  Everything here is a decidable function of what a user can observe: the vAMM's `State`/`Config`
  query results, the reserve-snapshot list, block height/time, the arguments and result of a call.
  The driver evaluates these on the implementation; `Props.*` proves them of the model.
-/
import Perp.Model.Vamm

namespace Perp.Spec
open Perp Perp.Vamm

/-! ### C01 -/
namespace C01

/-- scaled reserve product -/
def k (D q b : Nat) : Nat := q * b / D

/-- one accepted vAMM operation: the scaled product does not fall, base + net is unchanged -/
def stepOk (D : Nat) (pre post : State) : Bool :=
  decide (k D pre.quote pre.base ≤ k D post.quote post.base) &&
  decide ((pre.base : Int) + pre.net.toInt = (post.base : Int) + post.net.toInt)

/-- net position back at an earlier value (base at least one whole unit) ⇒ quote not below its earlier value -/
def recoveryOk (D : Nat) (earlier later : State) : Bool :=
  if later.net.toInt = earlier.net.toInt ∧ D ≤ earlier.base then decide (earlier.quote ≤ later.quote) else true

end C01

/-! ### C17 -/
namespace C17

/-- an accepted `swap_input`: the quote moved is the requested amount on the requested side, the base
    moved is exactly what `InputAmount` quoted at the pre-state, and a non-zero limit was respected -/
def swapInputOk (pre post : State) (dir : Direction) (amt lim : Nat) (quoted : Option Nat)
    (execQuote execBase : Nat) : Bool :=
  execQuote == amt && quoted == some execBase &&
  (match dir with
   | .addToAmm => post.quote == pre.quote + amt && post.base + execBase == pre.base
   | .removeFromAmm => post.quote + amt == pre.quote && post.base == pre.base + execBase) &&
  (if lim ≠ 0 ∧ amt ≠ 0 then
     (match dir with
      | .addToAmm => decide (lim ≤ execBase)
      | .removeFromAmm => decide (execBase ≤ lim))
   else true)

/-- an accepted `swap_output` (direction = direction of the base asset) -/
def swapOutputOk (pre post : State) (dir : Direction) (amt lim : Nat) (quoted : Option Nat)
    (execQuote execBase : Nat) : Bool :=
  execBase == amt && quoted == some execQuote &&
  (match dir with
   | .addToAmm => post.base == pre.base + amt && post.quote + execQuote == pre.quote
   | .removeFromAmm => post.base + amt == pre.base && post.quote == pre.quote + execQuote) &&
  (if lim ≠ 0 ∧ amt ≠ 0 then
     (match dir with
      | .addToAmm => decide (lim ≤ execQuote)         -- trader sells base, receives quote
      | .removeFromAmm => decide (execQuote ≤ lim))   -- trader buys base, pays quote
   else true)

/-- does the quoted amount satisfy the limit of a `swap_input`? -/
def inputLimitMet (dir : Direction) (lim q : Nat) : Bool :=
  lim == 0 || (match dir with | .addToAmm => decide (lim ≤ q) | .removeFromAmm => decide (q ≤ lim))

def outputLimitMet (dir : Direction) (lim q : Nat) : Bool :=
  lim == 0 || (match dir with | .addToAmm => decide (lim ≤ q) | .removeFromAmm => decide (q ≤ lim))

end C17

/-! ### C15 (vAMM part) -/
namespace C15

/-- the reference price of the band: the latest snapshot of an earlier block (or the only snapshot) -/
def refSnapshot (snaps : List Snapshot) (height : Nat) : Option Snapshot :=
  match snaps with
  | [] => none
  | s :: [] => some s
  | s :: s2 :: _ => if s.height = height then some s2 else some s

/-- the band exactly as the contract computes it (`price_boundaries_of_last_block`), whatever block the
    reference snapshot is from -/
def bandRaw (D f : Nat) (snaps : List Snapshot) (height : Nat) : Option (Nat × Nat) :=
  match refSnapshot snaps height with
  | none => none
  | some s =>
    if s.base = 0 ∨ D = 0 then none else
    let p := s.quote * D / s.base
    some (p * (D + f) / D, p * (D - f) / D)

/-- (upper, lower) in the contract's fixed-point arithmetic: ⌊P·(D±f)/D⌋, P = ⌊q·D/b⌋.
    Undefined (`none`) when the reference snapshot is not from an earlier block: in a vAMM's
    instantiation block the only snapshot is stamped with the current height and is updated in place by
    every trade, so "the price at the end of the previous block" does not exist and C15 makes no claim. -/
def band (D f : Nat) (snaps : List Snapshot) (height : Nat) : Option (Nat × Nat) :=
  match refSnapshot snaps height with
  | none => none
  | some s =>
    if s.base = 0 ∨ D = 0 ∨ height ≤ s.height then none else
    let p := s.quote * D / s.base
    some (p * (D + f) / D, p * (D - f) / D)

def spot (D q b : Nat) : Nat := q * D / b

def inside (D : Nat) (bd : Nat × Nat) (q b : Nat) : Bool :=
  decide (spot D q b ≤ bd.1) && decide (bd.2 ≤ spot D q b)

end C15

/-! ### C18 (vAMM part) -/
namespace C18

/-- snapshots in effect during the window that starts at `baseTs` (list is newest first):
    every snapshot stamped after `baseTs`, plus the first one stamped at or before it -/
def inEffect (baseTs : Nat) : List Snapshot → List Snapshot
  | [] => []
  | s :: rest => if s.timestamp ≤ baseTs then [s] else s :: inEffect baseTs rest

def price (D : Nat) (s : Snapshot) : Nat := s.quote * D / s.base

/-- `r` lies between the lowest and highest spot price in effect in the window -/
def twapWithin (D : Nat) (snaps : List Snapshot) (now interval r : Nat) : Bool :=
  let eff := inEffect (now - interval) snaps
  eff.any (fun s => decide (price D s ≤ r)) && eff.any (fun s => decide (r ≤ price D s))

/-- at most one snapshot per block, newest first, not from the future, head mirrors the reserves -/
def snapshotsOk (st : State) (env : Env) : Bool :=
  (match st.snaps with
   | [] => false
   | s :: _ => s.quote == st.quote && s.base == st.base && decide (s.height ≤ env.height)
                && decide (s.timestamp ≤ env.time)) &&
  (st.snaps.zip st.snaps.tail).all (fun p => decide (p.2.height < p.1.height) && decide (p.2.timestamp ≤ p.1.timestamp))

end C18

end Perp.Spec
