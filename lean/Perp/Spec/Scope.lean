/-
  C10, scope of the Liquidate exception (added after seed round t).  C10: "a transaction sent by one account never changes
  another trader's stored position …; the only exception is Liquidate, which may change or remove THE position of the trader it
  names".  Liquidate names a vAMM and a trader: the exception covers that one record.  `Spec.C10.check` exempts every record of
  the named trader; `C10.checkLiqScope` closes the gap: a Liquidate{v, t} sent by another account leaves t's records on every
  OTHER vAMM exactly as they were.

  Refinement theorem: `Perp/Props/SatScope.lean` (`sat_C10_liqScope`).
-/
import Perp.Model.World
import Perp.Spec.World

namespace Perp.Spec
open Perp Perp.World

namespace C10

/-- the records of trader `t` on vAMMs other than `v`, in stored order -/
def elsewhere (w : World) (v t : Nat) : List Engine.Position :=
  w.engine.positions.filter (fun p => p.trader == t && p.vamm != v)

def checkLiqScope (s : Step) : List String :=
  match s.tx with
  | .engine (.liquidate v t _) =>
    if t == s.sender then [] else
    W.chk (elsewhere s.pre v t == elsewhere s.post v t) "liquidation-changed-the-named-traders-position-on-another-vamm"
  | _ => []

end C10

/-- clauses added after `extraChecks5` was enumerated by `SatRoles` -/
def extraChecks6 (s : Step) : List (String × List String) :=
  [("C10", C10.checkLiqScope s)]

end Perp.Spec
