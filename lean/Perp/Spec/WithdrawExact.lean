/-
  C08, insurance-fund side (added after seed C08-ff).  C08 says that a transaction whose insurance-fund withdrawal fails is
  reverted as a whole.  The engine relies on the fund for that: it asks for the exact amount it is short of and spends it in the
  same transaction.  A fund that "helpfully" pays what it has instead of failing (C08-ff: `amount.min(balance)`) turns a
  withdrawal that cannot be honoured into a success, and the engine transaction that needed the full amount commits.

  `C08.checkWithdrawExact`: an ACCEPTED `Withdraw{amount}` (amount ≠ 0) moved exactly `amount`, once, from the fund to its
  engine — nothing else moved.  Judged on the transfers the implementation performed.

  Refinement theorem: `Perp/Props/SatWithdrawExact.lean` (`sat_C08_withdrawExact`).
-/
import Perp.Model.World
import Perp.Spec.World

namespace Perp.Spec
open Perp Perp.World

namespace C08

def checkWithdrawExact (s : Step) : List String :=
  match s.tx with
  | .ifWithdraw amt =>
    if !s.ok || amt == 0 then [] else
    W.chk (s.xfers.filter (fun x => x.2.2 != 0) == [(IFUND, s.pre.ifund.engine, amt)])
      "fund-withdrawal-accepted-but-not-paid-in-full"
  | _ => []

end C08

/-- clauses added after `extraChecks7` -/
def extraChecks8 (s : Step) : List (String × List String) :=
  [("C08", C08.checkWithdrawExact s)]

end Perp.Spec
