/-
  Spec.C19 — the property "signed integers behave like mathematical integers" as a decidable
  predicate over *observations* (operands and the value the public API returned).  The oracle is
  Lean's `Int`; nothing of the model's internals is used except `toInt` (the denotation).
  The driver evaluates this predicate on the implementation's outputs; `Props.C19.spec_model`
  proves it of the model for all operands.
-/
import Perp.Model.Integer

namespace Perp.Spec.C19
open Perp Perp.Integer

inductive Op where
  | cadd | csub | cmul | cdiv | add | sub | mul | div | neg | abs
  | eq | cmp | isZero | isNeg | isPos | toStr | roundTrip
  deriving Repr, DecidableEq, Inhabited

/-- what an operation returned -/
inductive Res where
  | int (r : Option Integer)      -- `none` = failed (Err or panic)
  | bool (b : Bool)
  | ord (o : Ordering)
  | str (s : List Char)
  deriving Repr, DecidableEq, Inhabited

def fits (z : Int) : Bool := z.natAbs ≤ U128.MAX

/-- `r` denotes `z` and is representable -/
def denotes (r : Option Integer) (z : Int) : Bool :=
  match r with
  | some x => x.toInt == z && x.value ≤ U128.MAX
  | none => false

def isNone (r : Option Integer) : Bool := r.isNone

/-- decimal string of a mathematical integer -/
def intToStr (z : Int) : List Char :=
  if z < 0 then '-' :: natToString z.natAbs else natToString z.natAbs

/-- checked op: succeeds with the exact result iff it fits, fails otherwise -/
def checked (r : Option Integer) (z : Int) : Bool :=
  if fits z then denotes r z else isNone r

/-- unchecked op: must agree whenever the checked form succeeds (i.e. the result fits) -/
def unchecked (r : Option Integer) (z : Int) : Bool :=
  if fits z then denotes r z else true

def ok (op : Op) (a b : Integer) (res : Res) : Bool :=
  let x := a.toInt
  let y := b.toInt
  match op, res with
  | .cadd, .int r => checked r (x + y)
  | .csub, .int r => checked r (x - y)
  | .cmul, .int r => checked r (x * y)
  | .cdiv, .int r => if y == 0 then isNone r else denotes r (Int.tdiv x y)
  | .add, .int r => unchecked r (x + y)
  | .sub, .int r => unchecked r (x - y)
  | .mul, .int r => unchecked r (x * y)
  | .div, .int r => if y == 0 then true else denotes r (Int.tdiv x y)
  | .neg, .int r => denotes r (-x)
  | .abs, .int r => denotes r (x.natAbs : Int)
  | .eq, .bool v => v == (x == y)
  | .cmp, .ord o => o == compare x y
  | .isZero, .bool v => v == (x == 0)
  | .isNeg, .bool v => v == decide (x < 0)
  | .isPos, .bool v => v == decide (0 ≤ x)
  | .toStr, .str s => s == intToStr x
  | .roundTrip, .int r => denotes r x
  | _, _ => false

/-- the model's answer in the same observation format -/
def optOf (e : Except Err Integer) : Option Integer :=
  match e with
  | .ok r => some r
  | .error _ => none

def model (op : Op) (a b : Integer) : Res :=
  match op with
  | .cadd => .int (optOf (checkedAdd a b))
  | .csub => .int (optOf (checkedSub a b))
  | .cmul => .int (optOf (checkedMul a b))
  | .cdiv => .int (optOf (checkedDiv a b))
  | .add => .int (optOf (Integer.add a b))
  | .sub => .int (optOf (Integer.sub a b))
  | .mul => .int (optOf (Integer.mul a b))
  | .div => .int (optOf (Integer.div a b))
  | .neg => .int (some a.invertSign)
  | .abs => .int (some a.abs)
  | .eq => .bool (beq a b)
  | .cmp => .ord (cmp a b)
  | .isZero => .bool a.isZero
  | .isNeg => .bool a.isNegative
  | .isPos => .bool a.isPositive
  | .toStr => .str a.toStr
  | .roundTrip => .int (optOf (fromStr a.toStr))

/-- observational equality of two answers (integers are compared by denotation) -/
def sameRes (p q : Res) : Bool :=
  match p, q with
  | .int (some x), .int (some y) => x.toInt == y.toInt
  | .int none, .int none => true
  | .bool a, .bool b => a == b
  | .ord a, .ord b => a == b
  | .str a, .str b => a == b
  | _, _ => false

end Perp.Spec.C19
