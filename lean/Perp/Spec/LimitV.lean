/-
  C17 (engine part), judged on the vAMM's side (added after seed round w).  `Spec.C17.check` measures the base amount an
  OpenPosition exchanged by the change of the ENGINE's stored size — which is exactly what a defect in the engine's own
  book-keeping corrupts (seed C17-w: an increase routed through the reversal path executes a swap of 12.66 base while the
  stored size moves by 0.1).  `C17.checkVammSide` reads the amount off the vAMM's base reserve instead: on an accepted
  OpenPosition with a non-zero limit that opens, increases or reduces (no sign flip, not closed) the base the vAMM exchanged —
  |Δ base reserve| of the named vAMM, which no other message of the transaction touches — is at least the limit on a buy and at most the limit on a sell.

  Refinement theorem: `Perp/Props/SatLimitV.lean` (`sat_C17_vammSide`).
-/
import Perp.Model.World
import Perp.Spec.World

namespace Perp.Spec
open Perp Perp.World

namespace C17

def baseOf (w : World) (v : Nat) : Int := match w.vamm? v with | some x => (x.st.base : Int) | none => 0

/-- base asset the vAMM exchanged in this step -/
def baseMoved (s : Step) (v : Nat) : Nat := (baseOf s.post v - baseOf s.pre v).natAbs

def checkVammSide (s : Step) : List String :=
  if !s.ok then [] else
  match W.engineMsg s with
  | some (.openPosition v side _ _ lim) =>
    if lim == 0 then [] else
    let a := (W.pos s.pre v s.sender).size.toInt
    let b := (W.pos s.post v s.sender).size.toInt
    if a * b < 0 || b == 0 then [] else
    let moved := baseMoved s v
    (match side with
     | .buy => W.chk (moved ≥ lim) "open-base-limit-not-honoured-by-the-vamm-swap(buy)"
     | .sell => W.chk (moved ≤ lim) "open-base-limit-not-honoured-by-the-vamm-swap(sell)")
  | _ => []

end C17

/-- clauses added after `extraChecks6` was enumerated by `SatScope` -/
def extraChecks7 (s : Step) : List (String × List String) :=
  [("C17", C17.checkVammSide s)]

end Perp.Spec
