/-
  Executable monitors for the PER-TRANSACTION side conditions of `Perp/Props/CapstoneTx.lean`:
  `PresOKTx` / `SideOKTx` = `Capstone.PresOK` / `SideOK` with the global field `curve : Mirror.CurveRegular w`
  replaced by `curve : CurveTx.CurveRegularTx w env s tx`.

  `curveTxB w env s tx` decides `CurveTx.CurveRegularTx w env s tx` (`Perp/Props/MonitorTxSound.lean`:
  `curveTxB_iff`, both directions, every world):

    * `unitReservesB w` — both reserves of every market hold one whole unit;
    * if `tx` is `ClosePosition v` by `s`: `partialShortB w env s v` — IF the engine would turn it into a partial
      close of a short (a position under `(v, s)`, size not positive, `plr < decimals`, closing it whole leaves
      the band at block `env`), the base amount the vAMM re-quotes for the notional of the fraction
      (`partialShortRequote`) is at most `|size|`.

  Everything is computed on the pre-state with the model's own queriers on `{ w with env := env }`.
  This file imports the model, the observation-level specification and `Perp/Spec/Monitor.lean` only (no proof
  file): the compiled driver can import it.
-/
import Perp.Model.World
import Perp.Spec.World
import Perp.Spec.Monitor

namespace Perp.Spec.MonitorTx
open Perp Perp.World Perp.Engine

/-- `CurveTx.UnitReserves`: both reserves of every market hold at least one whole unit -/
def unitReservesB (w : World) : Bool :=
  Monitor.allVamm w (fun _ x => decide (x.cfg.decimals ≤ x.st.quote) && decide (x.cfg.decimals ≤ x.st.base))

/-- the engine would turn `ClosePosition v` by `s` at block `env` into a partial close of a SHORT: a position is
    stored under `(v, s)`, its size is not positive, the partial-close ratio is below one, and the vAMM answers
    that closing it whole leaves the price band -/
def partialShortTrigger (w : World) (env : Env) (s v : Nat) : Bool :=
  decide ((readPosition w.engine v s).size.value ≠ 0)
    && !(Integer.gt (readPosition w.engine v s).size Integer.zero)
    && decide (w.engine.cfg.plr < w.engine.cfg.decimals)
    && (match ({ w with env := env } : World).q.isOverFluct v .removeFromAmm (readPosition w.engine v s).size.value with
        | .ok true => true
        | _ => false)

/-- the base amount the vAMM re-quotes for the quote notional of the fraction `|size|·plr / decimals` of the
    short stored under `(v, s)` — what `partial_close_position_reply` will add to the stored size
    (an error: one of the engine's own steps fails, the transaction is rejected before any swap) -/
def partialShortRequote (w : World) (env : Env) (s v : Nat) : Except Err Nat := do
  let y ← cmul (readPosition w.engine v s).size.value w.engine.cfg.plr
  let pa ← cdiv y w.engine.cfg.decimals
  let N ← ({ w with env := env } : World).q.outputAmount v .removeFromAmm pa
  let x ← w.vammE v
  Vamm.queryInputAmount x .addToAmm N

/-- `CurveTx.PartialShortOK` -/
def partialShortB (w : World) (env : Env) (s v : Nat) : Bool :=
  !partialShortTrigger w env s v
    || (match partialShortRequote w env s v with
        | .ok b => decide (b ≤ (readPosition w.engine v s).size.value)
        | .error _ => true)

/-- the transaction-dependent half of `CurveTx.CurveRegularTx`: `partialShortB` if the transaction is a
    ClosePosition, nothing otherwise -/
def partialShortTxB (w : World) (env : Env) (s : Nat) (tx : Tx) : Bool :=
  match tx with
  | .engine (.closePosition v _) => partialShortB w env s v
  | _ => true

/-- `CurveTx.CurveRegularTx` -/
def curveTxB (w : World) (env : Env) (s : Nat) (tx : Tx) : Bool :=
  unitReservesB w && partialShortTxB w env s tx

/-- `CapstoneTx.PresOKTx`: names of the failing fields (the `curve` field refined by conjunct) -/
def presFailsTx (w : World) (env : Env) (s : Nat) (tx : Tx) : List String :=
  Monitor.tagIf (Monitor.userB w s) "user"
    ++ Monitor.tagIf (Monitor.notRewireB tx) "notRewire"
    ++ Monitor.tagIf (unitReservesB w) "curveTx:unitReserves"
    ++ Monitor.tagIf (partialShortTxB w env s tx) "curveTx:partialShort"
    ++ Monitor.tagIf (Monitor.clockB w env) "clock"

/-- `CapstoneTx.SideOKTx`: names of the failing fields (the attached funds `f` are read by no field) -/
def sideFailsTx (w : World) (env : Env) (s : Nat) (_f : Engine.Funds) (tx : Tx) : List String :=
  presFailsTx w env s tx
    ++ Monitor.tagIf (Monitor.wiredB w) "wired"
    ++ Monitor.tagIf (Monitor.nonZeroB s) "nonZero"

end Perp.Spec.MonitorTx
