/-
  Observation-level specification of the price feed part of C18: latest / n-back / TWAP answers
  against the list of submissions (newest first; the stored list ends with the dummy round 0).
-/
import Perp.Model.Pricefeed

namespace Perp.Spec.C18F
open Perp Perp.Pricefeed

/-- the submissions: everything but the dummy round -/
def subs (rounds : List Round) : List Round := rounds.filter (fun r => r.roundId != 0)

/-- submissions with non-decreasing timestamps (list is newest first), none in the future -/
def wellFormed (now : Nat) : List Round → Bool
  | [] => true
  | r :: rest => decide (r.timestamp ≤ now) && wellFormed r.timestamp rest

/-- `GetPrice` returns exactly the latest submission -/
def latestOk (rounds : List Round) (res : Option Round) : Bool :=
  match subs rounds with
  | r :: _ => res == some r
  | [] => true

/-- `GetPreviousPrice{n}` returns exactly the n-back submission, and fails when there is none -/
def previousOk (rounds : List Round) (n : Nat) (res : Option Round) : Bool :=
  match (subs rounds).drop n with
  | r :: _ => res == some r
  | [] => res == none

/-- accepted submissions `ps` (oldest first, `(price, timestamp)`) are recorded as exactly that many NEW rounds
    carrying exactly the submitted values, on top of the unchanged earlier rounds — "latest and n-rounds-back
    queries return exactly the submitted values" is judged against what was SUBMITTED, not against whatever the
    contract chose to store -/
def recordedOk (pre post : List Round) (ps : List (Nat × Nat)) : Bool :=
  (subs post).drop ps.length == subs pre
    && ((subs post).take ps.length).map (fun r => (r.price, r.timestamp)) == ps.reverse

def inEffect (baseTs : Nat) : List Round → List Round
  | [] => []
  | r :: rest => if r.timestamp ≤ baseTs then [r] else r :: inEffect baseTs rest

/-- the TWAP lies between the lowest and highest submitted price overlapping the window -/
def twapWithin (rounds : List Round) (now interval r : Nat) : Bool :=
  let eff := inEffect (now - interval) (subs rounds)
  eff.any (fun x => decide (x.price ≤ r)) && eff.any (fun x => decide (r ≤ x.price))

end Perp.Spec.C18F
