/-
  Executable monitors for the hypotheses of the capstone theorems (`Perp/Props/Capstone.lean`):
  `Deployed`, `AllInv`, `PresOK`, `SideOK`.  Each monitor returns the list of NAMES of the failing
  components (empty list = the hypothesis holds).  Every component is a `Bool`-valued function over the
  finite lists the world stores; `Perp/Props/MonitorSound.lean` proves each of them EQUIVALENT to the
  corresponding `Prop` (for every world, no side hypothesis).

  This file imports only the model and the observation-level specification (no proof file): the compiled
  driver imports it.

  Where a `Prop` quantifies over the world's vAMM lookup (`∀ a x, w.vamm? a = some x → …`) the Boolean
  version walks the stored list `w.vamms` and judges, for each stored key, the record the LOOKUP answers
  for that key (`allVamm`): shadowed duplicates are thereby ignored exactly as the `Prop` ignores them.
-/
import Perp.Model.World
import Perp.Spec.World

namespace Perp.Spec.Monitor
open Perp Perp.World Perp.Engine

/-- one tag if the component fails -/
def tagIf (c : Bool) (tag : String) : List String := if c then [] else [tag]

/-! ### quantifying over the vAMM lookup -/

/-- `f a x` for every address `a` at which the lookup `w.vamm?` answers a record `x` -/
def allVamm (w : World) (f : Nat → Vamm.V → Bool) : Bool :=
  w.vamms.all (fun p => match w.vamm? p.1 with
    | some x => f p.1 x
    | none => true)

/-! ### shared pieces -/

/-- `WorldInv.NoResidue` / `WF.noResidue`: no in-flight swap, sent-funds or liquidator record -/
def noResidueB (e : E) : Bool :=
  decide (e.tmpSwap = none) && decide (e.sentFunds = none) && decide (e.tmpLiq = none)

def balNodupB (w : World) : Bool := decide ((w.ledger.bal.map (·.1)).Nodup)
def allowNodupB (w : World) : Bool := decide ((w.ledger.allow.map (·.1)).Nodup)

/-- `EngineGuards.ConfigOK` -/
def engineConfigB (c : Engine.Config) : Bool :=
  decide (c.imr ≤ c.decimals) && decide (c.mmr ≤ c.decimals) && decide (c.plr ≤ c.decimals)
    && decide (c.liqFee ≤ c.decimals) && decide (c.mmr ≤ c.imr)

/-- `VammGuards.ConfigOK` -/
def vammConfigB (c : Vamm.Config) : Bool :=
  decide (c.toll ≤ c.decimals) && decide (c.spread ≤ c.decimals) && decide (c.fluct ≤ c.decimals)
    && decide (60 ≤ c.twapInterval) && decide (c.twapInterval ≤ 604800)

/-- `SatC.VAll VammGuards.ConfigOK` (stated on the stored list) -/
def vammConfigsB (w : World) : Bool := w.vamms.all (fun p => vammConfigB p.2.cfg)

/-! ### the eleven invariants of `AllInv` -/

/-- `ModelStep.WF` -/
def wfB (w : World) : Bool := noResidueB w.engine && balNodupB w && allowNodupB w

/-- `SatA.VammKeysNodup` -/
def vammKeysB (w : World) : Bool := decide ((w.vamms.map (·.1)).Nodup)

/-- `Mirror.sumSizes`: signed sum of the stored position sizes of one vAMM -/
def sumSizes (e : E) (v : Nat) : Int :=
  ((e.positions.filter (fun p => p.vamm == v)).map (fun p => p.size.toInt)).foldl (· + ·) 0

/-- `Mirror.MirrorOK` -/
def mirrorSumB (w : World) : Bool :=
  allVamm w (fun a x => decide (x.cfg.marginEngine = ENGINE → sumSizes w.engine a = x.st.net.toInt))

/-- `Mirror.SignDir` -/
def signDirB (e : E) : Bool :=
  e.positions.all (fun p =>
    decide (0 < p.size.toInt → p.direction = Direction.addToAmm)
      && decide (p.size.toInt < 0 → p.direction = Direction.removeFromAmm))

/-- a later record under the same (vamm, trader) key -/
def keyClash (p : Position) (l : List Position) : Bool :=
  l.any (fun q => p.vamm == q.vamm && p.trader == q.trader)

/-- `MirrorP.KeysND`: no two records under one (vamm, trader) key -/
def keysNDB : List Position → Bool
  | [] => true
  | p :: l => !keyClash p l && keysNDB l

/-- `Mirror.NoZeroVamm` -/
def noZeroVammB (w : World) : Bool := (w.vamm? 0).isNone

/-- `Mirror.Inv` -/
def mirrorB (w : World) : Bool :=
  mirrorSumB w && signDirB w.engine && keysNDB w.engine.positions && engineConfigB w.engine.cfg
    && noZeroVammB w && noResidueB w.engine

/-- `SatA.TradersAreUsers` -/
def tradersB (w : World) : Bool :=
  w.engine.positions.all (fun p => p.trader != ENGINE && p.trader != IFUND && p.trader != FEEPOOL)

/-- `SatA.SnapInvW` -/
def snapB (w : World) : Bool := w.vamms.all (fun p => Spec.C18.snapshotsOk p.2.st w.env)

/-- `SatC.MarginRep` -/
def marginRepB (e : E) : Bool := e.positions.all (fun p => decide (p.margin ≤ U128.MAX))

/-- `SatC.AllConfigOK` -/
def configB (w : World) : Bool := engineConfigB w.engine.cfg && vammConfigsB w

/-- `SatD.NoContractPositions`: the `Prop` asks `readPosition … = Position.default` for every vAMM
    address; a stored record found under the key `(v, ENGINE)` has trader `ENGINE ≠ 0`, so it is never the
    default record: the `Prop` holds exactly when no stored record names the engine or the fund as trader -/
def noContractB (w : World) : Bool :=
  w.engine.positions.all (fun p => p.trader != ENGINE && p.trader != IFUND)

/-- `Dispatch.total` -/
def total (g : Ledger) : Nat := (g.bal.map (·.2)).foldl (· + ·) 0

/-- `SatD.TotalBounded` -/
def totalB (w : World) : Bool := decide (total w.ledger ≤ U128.MAX)

/-- `SatF14.RegInv` -/
def registryB (s : Insurance.S) : Bool :=
  decide (s.vamms.Nodup) && decide (s.vamms.length ≤ 3) && (s.vamms.isEmpty || s.stored)

/-- `SatC11.BufferHalf` -/
def bufferB (w : World) : Bool :=
  allVamm w (fun _ x => decide (x.cfg.fundingBuffer = x.cfg.fundingPeriod / 2))

/-! ### the components of `Deployed` that are not already above -/

def noPositionsB (w : World) : Bool := w.engine.positions.isEmpty
def noZeroVammListB (w : World) : Bool := w.vamms.all (fun p => p.1 != 0)
def flatB (w : World) : Bool := w.vamms.all (fun p => decide (p.2.st.net.toInt = 0))
def bufferListB (w : World) : Bool :=
  w.vamms.all (fun p => decide (p.2.cfg.fundingBuffer = p.2.cfg.fundingPeriod / 2))

/-! ### the per-step side conditions -/

/-- `ModelStep.UserSender` -/
def userB (w : World) (s : Nat) : Bool :=
  s != ENGINE && s != IFUND && s != FEEPOOL && s != FEED && s != TOKEN && allVamm w (fun a _ => s != a)

/-- `Mirror.NotRewire` -/
def notRewireB (tx : Tx) : Bool :=
  match tx with
  | .vammConfig _ u => u.marginEngine.isNone
  | _ => true

/-- `Mirror.CurveRegular` -/
def curveB (w : World) : Bool :=
  allVamm w (fun _ x =>
    decide (x.cfg.decimals ≤ x.st.quote) && decide (x.cfg.decimals ≤ x.st.base)
      && decide (x.cfg.fluct ≠ 0 → x.st.base ≤ x.st.quote))

/-- `SatA.ClockMono` -/
def clockB (w : World) (env : Env) : Bool :=
  decide (w.env.height ≤ env.height) && decide (w.env.time ≤ env.time)

/-- `SatA.WiredPools` -/
def wiredB (w : World) : Bool :=
  w.engine.cfg.insuranceFund == IFUND && w.engine.cfg.feePool == FEEPOOL && w.ifund.engine == ENGINE

/-- `SatC.NonZeroSender` -/
def nonZeroB (s : Nat) : Bool := s != 0

/-! ### the monitors -/

/-- `Capstone.Deployed`: names of the failing fields -/
def deployedFails (w : World) : List String :=
  tagIf (noPositionsB w) "noPositions"
    ++ tagIf (noResidueB w.engine) "noResidue"
    ++ tagIf (engineConfigB w.engine.cfg) "config:engine"
    ++ tagIf (vammConfigsB w) "config:vamm"
    ++ tagIf (vammKeysB w) "vammKeys"
    ++ tagIf (noZeroVammListB w) "noZeroVamm"
    ++ tagIf (flatB w) "flat"
    ++ tagIf (snapB w) "snaps"
    ++ tagIf (bufferListB w) "buffer"
    ++ tagIf (registryB w.ifund) "registry"
    ++ tagIf (balNodupB w) "balNodup"
    ++ tagIf (allowNodupB w) "allowNodup"
    ++ tagIf (totalB w) "total"

/-- `Capstone.AllInv`: names of the failing fields (`wf`, `mirror`, `config` refined by conjunct) -/
def allInvFails (w : World) : List String :=
  tagIf (noResidueB w.engine) "wf:noResidue"
    ++ tagIf (balNodupB w) "wf:balNodup"
    ++ tagIf (allowNodupB w) "wf:allowNodup"
    ++ tagIf (vammKeysB w) "vammKeys"
    ++ tagIf (mirrorSumB w) "mirror:sum"
    ++ tagIf (signDirB w.engine) "mirror:signDir"
    ++ tagIf (keysNDB w.engine.positions) "mirror:keys"
    ++ tagIf (engineConfigB w.engine.cfg) "mirror:engineConfig"
    ++ tagIf (noZeroVammB w) "mirror:noZeroVamm"
    ++ tagIf (noResidueB w.engine) "mirror:noResidue"
    ++ tagIf (tradersB w) "traders"
    ++ tagIf (snapB w) "snap"
    ++ tagIf (marginRepB w.engine) "marginRep"
    ++ tagIf (engineConfigB w.engine.cfg) "config:engine"
    ++ tagIf (vammConfigsB w) "config:vamm"
    ++ tagIf (noContractB w) "noContract"
    ++ tagIf (totalB w) "total"
    ++ tagIf (registryB w.ifund) "registry"
    ++ tagIf (bufferB w) "buffer"

/-- `Capstone.PresOK`: names of the failing fields -/
def presFails (w : World) (env : Env) (s : Nat) (tx : Tx) : List String :=
  tagIf (userB w s) "user"
    ++ tagIf (notRewireB tx) "notRewire"
    ++ tagIf (curveB w) "curve"
    ++ tagIf (clockB w env) "clock"

/-- `Capstone.SideOK`: names of the failing fields (the attached funds `f` are read by no field, as in
    `SideOK` itself) -/
def sideFails (w : World) (env : Env) (s : Nat) (_f : Engine.Funds) (tx : Tx) : List String :=
  presFails w env s tx
    ++ tagIf (wiredB w) "wired"
    ++ tagIf (nonZeroB s) "nonZero"

end Perp.Spec.Monitor
