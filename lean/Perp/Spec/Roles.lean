/-
  C09, frame clause (added after seed round q).  C09 says that a role is exercised only by its holder, that a transfer takes
  effect at once and that the old holder keeps nothing.  The clauses of `Spec.C09.check` judge each ACCEPTED PRIVILEGED CALL
  against the holder stored in the pre-state — so a role that silently moves during some OTHER transaction (an `update_config`
  that also resets the pauser, a trade that rewrites a vAMM's owner, a fund call that changes the address the vAMM trusts for
  `SetOpen`) is never seen by them: every later call is judged against the moved holder.  `C09.checkFrame`:

    * the holder of each role (engine owner, pauser, insurance-fund owner, fee-pool owner, price-feed owner, every vAMM's owner)
      is the same before and after EVERY transaction, successful or not, except a SUCCESSFUL transfer of exactly that role;
    * the addresses that roles are delegated through (the engine's insurance fund and fee pool, every vAMM's margin engine,
      insurance fund and price feed, the fund's engine) change only in a successful `UpdateConfig` of the contract that stores
      them which names that field.

  Refinement theorem: `Perp/Props/SatRoles.lean` (`sat_C09_frame`: the model's step satisfies the clause for every world,
  sender, block, funds and transaction).
-/
import Perp.Model.World
import Perp.Spec.World

namespace Perp.Spec
open Perp Perp.World

namespace C09

def feedOwnerOf (w : World) : Nat := match w.feed with | .real f => f.owner | .mock m => m.owner

/-- the role / delegation fields of one vAMM that `tx` may change when it succeeds -/
def vammMay (tx : Tx) (a : Nat) : Bool × Bool × Bool × Bool :=
  -- (owner, marginEngine, insuranceFund, pricefeed)
  match tx with
  | .vammOwner v _ => (v == a, false, false, false)
  | .vammConfig v u => (false, v == a && u.marginEngine.isSome, v == a && u.insuranceFund.isSome, v == a && u.pricefeed.isSome)
  | _ => (false, false, false, false)

/-- frame of one vAMM's role fields -/
def vammFrame (s : Step) (a : Nat) (x : Vamm.V) : List String :=
  match s.post.vamm? a with
  | none => ["vamm-disappeared"]
  | some y =>
    let m := vammMay s.tx a
    W.chk (y.cfg.owner == x.cfg.owner || (s.ok && m.1)) "vamm-owner-changed-by-unrelated-transaction"
    ++ W.chk (y.cfg.marginEngine == x.cfg.marginEngine || (s.ok && m.2.1)) "vamm-engine-changed-by-unrelated-transaction"
    ++ W.chk (y.cfg.insuranceFund == x.cfg.insuranceFund || (s.ok && m.2.2.1)) "vamm-fund-changed-by-unrelated-transaction"
    ++ W.chk (y.cfg.pricefeed == x.cfg.pricefeed || (s.ok && m.2.2.2)) "vamm-feed-changed-by-unrelated-transaction"

def engineOwnerMay (tx : Tx) : Bool := match tx with | .engine (.updateConfig u) => u.owner.isSome | _ => false
def engineFundMay (tx : Tx) : Bool := match tx with | .engine (.updateConfig u) => u.insuranceFund.isSome | _ => false
def enginePoolMay (tx : Tx) : Bool := match tx with | .engine (.updateConfig u) => u.feePool.isSome | _ => false
def pauserMay (tx : Tx) : Bool := match tx with | .engine (.updatePauser _) => true | _ => false
def fundOwnerMay (tx : Tx) : Bool := match tx with | .ifOwner _ => true | _ => false
def poolOwnerMay (tx : Tx) : Bool := match tx with | .fpOwner _ => true | _ => false
def feedOwnerMay (tx : Tx) : Bool := match tx with | .feedOwner _ => true | _ => false

def checkFrame (s : Step) : List String :=
  W.chk (s.post.engine.cfg.owner == s.pre.engine.cfg.owner || (s.ok && engineOwnerMay s.tx)) "engine-owner-changed-by-unrelated-transaction"
  ++ W.chk (s.post.engine.pauser == s.pre.engine.pauser || (s.ok && pauserMay s.tx)) "pauser-changed-by-unrelated-transaction"
  ++ W.chk (s.post.engine.cfg.insuranceFund == s.pre.engine.cfg.insuranceFund || (s.ok && engineFundMay s.tx)) "engine-fund-changed-by-unrelated-transaction"
  ++ W.chk (s.post.engine.cfg.feePool == s.pre.engine.cfg.feePool || (s.ok && enginePoolMay s.tx)) "engine-pool-changed-by-unrelated-transaction"
  ++ W.chk (s.post.ifund.owner == s.pre.ifund.owner || (s.ok && fundOwnerMay s.tx)) "fund-owner-changed-by-unrelated-transaction"
  ++ W.chk (s.post.ifund.engine == s.pre.ifund.engine) "fund-beneficiary-changed"
  ++ W.chk (s.post.feePool.owner == s.pre.feePool.owner || (s.ok && poolOwnerMay s.tx)) "pool-owner-changed-by-unrelated-transaction"
  ++ W.chk (feedOwnerOf s.post == feedOwnerOf s.pre || (s.ok && feedOwnerMay s.tx)) "feed-owner-changed-by-unrelated-transaction"
  ++ (s.pre.vamms.map (fun p => match s.pre.vamm? p.1 with
        | some x => vammFrame s p.1 x
        | none => [])).flatten

end C09

/-- clauses added after `extraChecks4` was enumerated by `SatExtra4` -/
def extraChecks5 (s : Step) : List (String × List String) :=
  [("C09", C09.checkFrame s)]

end Perp.Spec
