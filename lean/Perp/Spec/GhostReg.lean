/-
  Ghost registry (world stream; added after seed C07-ff).  C07 quantifies over positions on REGISTERED markets, and
  `Spec.C07.precondition` reads "registered" off the insurance fund's stored list — the state a defect in the fund's list
  book-keeping corrupts (C07-ff: removing the second-to-last member drops the LAST one instead; every later Liquidate on the
  dropped market fails as "not registered", and judged against the stored list it is simply outside the quantifier).

  The driver therefore also carries the registry as the MODEL writes it along the observed transactions: started at the first
  observation, advanced by the model's own `ifAdd` / `ifRemove` on every such transaction the implementation accepted.

    * `regFrame`: after every transaction the stored list is the ghost list (C14: the registry is what its owner's accepted
      adds and removes left);
    * `regCheck`: C07 judged once more with the ghost list in place of the stored one, when they differ.

  Soundness on the model: `Perp/Props/GhostRegSound.lean`.
-/
import Perp.Model.World
import Perp.Spec.World

namespace Perp.Spec.GhostReg
open Perp Perp.World

/-- the world with the ghost list in place of the stored registry -/
def withReg (w : World) (g : List Nat) : World := { w with ifund := { w.ifund with vamms := g } }

/-- the ghost registry after one observed transaction (`ok` = the implementation accepted it; `post` = the observed post-state) -/
def next (g : List Nat) (pre post : World) (env : Env) (sender : Nat) (funds : Engine.Funds) (ok : Bool) (tx : Tx) : List Nat :=
  if !ok then g else
  match tx with
  | .ifAdd _ | .ifRemove _ =>
    (match World.applyTx (withReg pre g) env sender funds tx with
     | .ok mw => mw.ifund.vamms
     | .error _ => post.ifund.vamms)
  | _ => if post.ifund.vamms == pre.ifund.vamms then g else post.ifund.vamms

/-- C14: the stored registry is what the history's accepted adds and removes leave -/
def regFrame (g' : List Nat) (post : World) : List String :=
  W.chk (g' == post.ifund.vamms) "registry-differs-from-what-the-history's-adds-and-removes-leave"

/-- C07 with "registered" read off the ghost registry (only when it differs from the stored one) -/
def regCheck (g : List Nat) (s : Step) : List String :=
  if g == s.pre.ifund.vamms then [] else
  (C07.check { s with pre := withReg s.pre g }).map (· ++ "(registered-by-the-history's-adds-and-removes)")

end Perp.Spec.GhostReg
