/-
  Further observation-level clauses (added after seed round h), kept apart from `Perp/Spec/World.lean` so that
  the files proved against it are not invalidated.  Each clause has its refinement theorem in
  `Perp/Props/SatExtra3.lean` (the model's step satisfies it for every world, sender, block and transaction).

  * `C14.checkReg` — C14 speaks of "a vAMM (not) registered with the insurance fund"; the registry is only what
    the owner's AddVamm / RemoveVamm calls made it.  A successful RemoveVamm{v} leaves exactly the other entries,
    a successful AddVamm{v} adds exactly v, and no other transaction (successful or not) changes the registry.
    (Without this clause a registry that silently keeps a deregistered market, or drops another one, is judged
    "registered" by every other C14 clause, which read the stored list.)
-/
import Perp.Model.World
import Perp.Spec.World

namespace Perp.Spec
open Perp Perp.World

namespace C14

/-- same entries, order aside (the registry has no duplicates: `SatF14.RegInv`) -/
def sameSet (a b : List Nat) : Bool := a.all (fun x => b.contains x) && b.all (fun x => a.contains x)

def checkReg (s : Step) : List String :=
  let pre := s.pre.ifund.vamms
  let post := s.post.ifund.vamms
  match s.tx, s.ok with
  | .ifRemove v, true =>
    W.chk (!post.contains v) "deregistered-vamm-still-registered"
    ++ W.chk (pre.all (fun x => x == v || post.contains x)) "other-vamm-dropped-from-registry"
    ++ W.chk (post.all (fun x => pre.contains x)) "registry-gained-entry-on-removal"
  | .ifAdd v, true =>
    W.chk (post.contains v) "registered-vamm-not-in-registry"
    ++ W.chk (pre.all (fun x => post.contains x)) "other-vamm-dropped-from-registry"
    ++ W.chk (post.all (fun x => x == v || pre.contains x)) "registry-gained-unrelated-entry"
  | _, _ => W.chk (sameSet pre post) "registry-changed-by-unrelated-transaction"

/-- C14, liveness sentence "while the engine is paused … Liquidate and PayFunding remain available": a Liquidate or
    PayFunding on a paused engine that the implementation refuses BECAUSE of the pause (judged on its error text, like
    `C09.checkLive` / `C16.checkLive`).  A model step carries no error text. -/
def checkPauseLive (s : Step) : List String :=
  match s.tx with
  | .engine (.liquidate _ _ _) | .engine (.payFunding _) =>
    W.chk (!(s.err != "" && !s.ok && s.pre.engine.st.pause && (s.err.splitOn "paused").length > 1)) "refused-because-the-engine-is-paused"
  | _ => []

end C14

/-- clauses added after `extraChecks2` was enumerated by `SatExtra2` -/
def extraChecks3 (s : Step) : List (String × List String) :=
  [("C14", C14.checkReg s)]

/-- clauses added after `extraChecks3` was enumerated by `SatExtra3` -/
def extraChecks4 (s : Step) : List (String × List String) :=
  [("C14", C14.checkPauseLive s)]

end Perp.Spec
