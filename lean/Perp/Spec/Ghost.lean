/-
  Ghost reserve snapshots (vAMM stream; added after seed C15-aa, moved out of the driver into `Spec` so that it carries a theorem).

  The per-block band of C15 is defined by the reserve snapshots, and `Spec.C15.band` read on the implementation's own stored
  snapshots is judged against exactly the state a snapshot defect corrupts.  The driver therefore also carries the snapshot
  history as the MODEL writes it along the observed operations: started at the first observation, advanced by `next` on every
  operation.  `bandCheck` judges an accepted swap against the band those ghost snapshots define.

  Soundness on the model (`Perp/Props/GhostSound.lean`): along the model's own steps the ghost history IS the stored history
  (`next_tracks_*`), and `bandCheck` is quiet on every accepted model swap (`bandCheck_quiet_*`) — so the clause can only fire on
  code whose snapshot book-keeping or band check differs from the model's.
-/
import Perp.Model.Vamm
import Perp.Spec.Vamm

namespace Perp.Spec.Ghost
open Perp Perp.Vamm

/-- the operations of the vAMM stream as far as the snapshot history is concerned -/
inductive GOp where
  | swapIn (snd : Nat) (dir : Direction) (amt lim : Nat) (cgo : Bool)
  | swapOut (snd : Nat) (dir : Direction) (amt lim : Nat)
  | other
  deriving Repr, DecidableEq

def GOp.isSwap : GOp → Bool
  | .other => false
  | _ => true

/-- the observed state with the ghost history in place of the stored one -/
def withSnaps (v : V) (g : List Snapshot) : V := { v with st := { v.st with snaps := g } }

/-- the ghost history after one observed operation (`ok` = the implementation accepted it) -/
def next (g : List Snapshot) (pre post : V) (env : Env) (ok : Bool) (op : GOp) : List Snapshot :=
  if !ok then g else
  match op with
  | .swapIn snd dir amt lim cgo =>
    (match Vamm.swapInput (withSnaps pre g) env snd dir amt lim cgo with
     | .ok (mv, _) => mv.st.snaps
     | .error _ => post.st.snaps)
  | .swapOut snd dir amt lim =>
    (match Vamm.swapOutput (withSnaps pre g) env snd dir amt lim with
     | .ok (mv, _) => mv.st.snaps
     | .error _ => post.st.snaps)
  | .other => if post.st.snaps == pre.st.snaps then g else post.st.snaps

def chk (c : Bool) (tag : String) : List String := if c then [] else [tag]

/-- C15 judged against the band the ghost history defines: an accepted swap starts inside it, and an accepted
    `swap_input` that may not go over ends inside it -/
def bandCheck (D : Nat) (g : List Snapshot) (pre post : V) (env : Env) (ok : Bool) (op : GOp) : List String :=
  if pre.cfg.fluct == 0 || !op.isSwap || !ok then [] else
  match C15.band D pre.cfg.fluct g env.height with
  | none => []
  | some bd =>
    chk (C15.inside D bd pre.st.quote pre.st.base) "swap-accepted-outside-band(band-from-the-history's-snapshots)"
    ++ (match op with
        | .swapIn _ _ _ _ false =>
          chk (C15.inside D bd post.st.quote post.st.base) "no-go-over-swap-left-band(band-from-the-history's-snapshots)"
        | _ => [])

end Perp.Spec.Ghost
