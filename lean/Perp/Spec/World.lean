/-
  Observation-level specification of the world properties.  A `Step` is what can be observed
  around one transaction: the decoded state of all contracts and balances before and after, the
  block, sender, attached funds, message, whether it succeeded, and the ordered list of executed
  collateral transfers.  Every predicate returns the list of violated clauses (empty = holds).
  The driver evaluates them on the implementation's observations; `Props.*` proves them of the model.

  Where a property speaks of "the margin ratio", "free collateral", "spot / TWAP notional", the
  definitions are the engine's / vAMM's query functions applied to the *observed* state
  (`Engine.queryMarginRatio` …); those functions are validated against the implementation's own
  query answers by the `QRY` correspondence.
-/
import Perp.Model.World
import Perp.Spec.Vamm

namespace Perp.Spec
open Perp

structure Step where
  pre : World
  post : World
  env : Env
  sender : Nat
  funds : Engine.Funds
  tx : World.Tx
  ok : Bool
  xfers : List (Nat × Nat × Nat)        -- (from, to, amount), execution order
  residue : Bool                          -- any of tmp-swap / sent-funds / tmp-liquidator present after
  /-- vAMMs on which a liquidation succeeded earlier in this transaction's block (from the observed history) -/
  liqsThisBlock : List Nat := []
  /-- the implementation's error text of a rejected transaction (empty for model steps) -/
  err : String := ""
  /-- vAMMs on which the sender's stored position was updated (successful OpenPosition / ClosePosition that
      left a record) earlier in this transaction's block (from the observed history) -/
  tradedThisBlock : List Nat := []
  deriving Inhabited

namespace W

def bal (w : World) (a : Nat) : Int := (w.ledger.balance a : Int)

def accounts (w : World) : List Nat := w.ledger.bal.map (·.1)

def total (w : World) : Int := (w.ledger.bal.map (fun p => (p.2 : Int))).foldl (· + ·) 0

def positionsOf (w : World) (v : Nat) : List Engine.Position := w.engine.positions.filter (·.vamm == v)

def sumSizes (w : World) (v : Nat) : Int := ((positionsOf w v).map (·.size.toInt)).foldl (· + ·) 0

def pos (w : World) (v t : Nat) : Engine.Position := Engine.readPosition w.engine v t

def hasPos (w : World) (v t : Nat) : Bool := w.engine.positions.any (fun p => p.vamm == v && p.trader == t)

def inflow (xf : List (Nat × Nat × Nat)) (to : Nat) : Int :=
  ((xf.filter (fun x => x.2.1 == to)).map (fun x => (x.2.2 : Int))).foldl (· + ·) 0

def flow (xf : List (Nat × Nat × Nat)) (src to : Nat) : Int :=
  ((xf.filter (fun x => x.1 == src && x.2.1 == to)).map (fun x => (x.2.2 : Int))).foldl (· + ·) 0

def isOpenV (w : World) (v : Nat) : Bool := match w.vamm? v with | some x => x.st.isOpen | none => false
def registered (w : World) (v : Nat) : Bool := w.ifund.vamms.contains v

def quoteOf (w : World) (v : Nat) : Int := match w.vamm? v with | some x => (x.st.quote : Int) | none => 0

/-- quote asset the vAMM exchanged in this step -/
def quoteMoved (s : Step) (v : Nat) : Nat := (quoteOf s.post v - quoteOf s.pre v).natAbs

def trunc (a b : Int) : Int := Int.tdiv a b

/-- funding owed by a position at the current cumulative fraction -/
def fundingOwed (w : World) (p : Engine.Position) : Int :=
  trunc (((Engine.latestCum w.engine p.vamm).toInt - p.chk.toInt) * p.size.toInt) (w.engine.cfg.decimals : Int)

def whitelisted (w : World) (a : Nat) : Bool := w.engine.whitelist.contains a

/-- engine message of the step, if any -/
def engineMsg (s : Step) : Option Engine.ExecMsg :=
  match s.tx with
  | .engine m => some m
  | _ => none

def sameEngineData (a b : World) : Bool :=
  a.engine.cfg == b.engine.cfg && a.engine.st == b.engine.st && a.engine.pauser == b.engine.pauser
  && a.engine.whitelist == b.engine.whitelist && a.engine.positions == b.engine.positions
  && a.engine.vammMaps == b.engine.vammMaps

/-- everything but the clock -/
def sameWorld (a b : World) : Bool :=
  sameEngineData a b && a.vamms == b.vamms && a.ifund == b.ifund && a.feePool == b.feePool
  && a.feed == b.feed && a.ledger.bal == b.ledger.bal && a.ledger.allow == b.ledger.allow

def chk (c : Bool) (tag : String) : List String := if c then [] else [tag]

/-- the pre-state as the transaction sees it: same data, the transaction's block -/
def preAt (s : Step) : World := { s.pre with env := s.env }

/-- the insurance fund / fee pool the engine is configured with when the transaction starts -/
def ifd (s : Step) : Nat := s.pre.engine.cfg.insuranceFund
def fpool (s : Step) : Nat := s.pre.engine.cfg.feePool

/-- vAMMs wired to this engine before and after (re-wiring is outside every property) -/
def wiredVamms (s : Step) : List (Nat × Vamm.V × Vamm.V) :=
  s.pre.vamms.filterMap (fun p =>
    match s.post.vamm? p.1 with
    | some y => if p.2.cfg.marginEngine == ENGINE && y.cfg.marginEngine == ENGINE then some (p.1, p.2, y) else none
    | none => none)

end W

open W

/-! ### C01 (world part): every transaction is a conservative step for every vAMM -/
def C01.check (s : Step) : List String :=
  (wiredVamms s).foldl (fun acc t =>
    acc ++ chk (Spec.C01.stepOk t.2.1.cfg.decimals t.2.1.st t.2.2.st) s!"k-or-net-invariant(v{t.1})") []

/-! ### C02: engine positions mirror the vAMM's net position -/
def C02.check (s : Step) : List String :=
  (wiredVamms s).foldl (fun acc t =>
    acc ++ chk (sumSizes s.post t.1 == t.2.2.st.net.toInt) s!"positions-sum-differs-from-vamm-net(v{t.1})") []

/-! ### C03: collateral conserved, permitted recipients only -/
def C03.permitted (s : Step) : List Nat :=
  match s.tx with
  | .engine _ => [s.sender, ENGINE, ifd s, fpool s]
  | .fpSend _ _ to => [FEEPOOL, to]
  | .ifWithdraw _ => [IFUND, ENGINE]
  | .tokenTransfer to _ => [s.sender, to]
  | .bankSend to _ => [s.sender, to]
  | _ => []

def C03.check (s : Step) : List String :=
  chk (total s.pre == total s.post) "total-collateral-changed" ++
  chk ((accounts s.post).all (fun a => bal s.pre a == bal s.post a || (C03.permitted s).contains a))
    "balance-of-uninvolved-account-changed" ++
  (match s.tx with
   | .engine (.liquidate _ t _) =>
     chk (!s.ok || t == s.sender || bal s.post t == bal s.pre t) "liquidated-trader-balance-changed"
   | _ => [])

/-! ### C08: all-or-nothing, no in-flight residue -/
def C08.check (s : Step) : List String :=
  chk (s.ok || sameWorld s.pre s.post) "failed-transaction-changed-state" ++
  chk (!s.residue) "in-flight-record-left-behind"

/-! ### C09: privileged operations restricted to their role -/
def C09.role (s : Step) : Option (List Nat) :=
  let vOwner (v : Nat) : List Nat := match s.pre.vamm? v with | some x => [x.cfg.owner] | none => []
  let vEng (v : Nat) : List Nat := match s.pre.vamm? v with | some x => [x.cfg.marginEngine] | none => []
  match s.tx with
  | .engine (.updateConfig _) => some [s.pre.engine.cfg.owner]
  | .engine (.updatePauser _) | .engine (.addWhitelist _) | .engine (.removeWhitelist _) | .engine (.setPause _) =>
    some [s.pre.engine.pauser]
  | .vammConfig v _ | .vammOwner v _ => some (vOwner v)
  | .vammSetOpen v _ => some (match s.pre.vamm? v with | some x => [x.cfg.owner, x.cfg.insuranceFund] | none => [])
  | .vammSwapInput v _ _ _ _ | .vammSwapOutput v _ _ _ | .vammSettle v => some (vEng v)
  | .ifAdd _ | .ifRemove _ | .ifOwner _ => some [s.pre.ifund.owner]
  | .ifShutdown => some [s.pre.ifund.owner, IFUND]
  | .ifWithdraw _ => some [s.pre.ifund.engine]
  | .fpAdd _ | .fpRemove _ | .fpSend _ _ _ | .fpOwner _ => some [s.pre.feePool.owner]
  | .oracle _ _ => (match s.pre.feed with | .real f => some [f.owner] | .mock _ => none)
  | .feedOwner _ => some [match s.pre.feed with | .real f => f.owner | .mock m => m.owner]
  | _ => none

def C09.check (s : Step) : List String :=
  (match C09.role s with
   | some holders => chk (!s.ok || holders.contains s.sender) "privileged-call-accepted-from-non-holder"
   | none => []) ++
  (if s.ok then
    match s.tx with
    | .engine (.updateConfig u) =>
      (match u.owner with | some n => chk (s.post.engine.cfg.owner == n) "engine-owner-not-transferred" | none => [])
    | .engine (.updatePauser n) => chk (s.post.engine.pauser == n) "pauser-not-transferred"
    | .vammOwner v n => chk ((s.post.vamm? v).map (·.cfg.owner) == some n) "vamm-owner-not-transferred"
    | .ifOwner n => chk (s.post.ifund.owner == n) "if-owner-not-transferred"
    | .fpOwner n => chk (s.post.feePool.owner == n) "feepool-owner-not-transferred"
    | .feedOwner n => chk ((match s.post.feed with | .real f => f.owner | .mock m => m.owner) == n) "feed-owner-not-transferred"
    | _ => []
   else [])

/-! ### C10: one account's transaction never alters another trader's position -/
def C10.check (s : Step) : List String :=
  let touched : List Nat :=
    match s.tx with
    | .engine (.liquidate _ t _) => [s.sender, t]
    | .engine _ => [s.sender]
    | _ => []
  let others (w : World) := w.engine.positions.filter (fun p => !touched.contains p.trader)
  chk (others s.pre == others s.post) "another-traders-position-changed"

/-! ### C14: pause, closed markets, shutdown -/
def C14.check (s : Step) : List String :=
  let closedOps : List String :=
    match engineMsg s with
    | some (.openPosition v _ _ _ _) =>
      chk (!(s.ok && s.pre.engine.st.pause)) "open-while-paused" ++
      chk (!(s.ok && !isOpenV s.pre v)) "open-on-closed-vamm" ++
      chk (!(s.ok && !registered s.pre v)) "open-on-unregistered-vamm"
    | some (.closePosition v _) =>
      chk (!(s.ok && s.pre.engine.st.pause)) "close-while-paused" ++
      chk (!(s.ok && !isOpenV s.pre v)) "close-on-closed-vamm"
    | some (.depositMargin _ _) => chk (!(s.ok && s.pre.engine.st.pause)) "deposit-while-paused"
    | some (.withdrawMargin v _) =>
      chk (!(s.ok && s.pre.engine.st.pause)) "withdraw-while-paused" ++
      chk (!(s.ok && !isOpenV s.pre v)) "withdraw-on-closed-vamm" ++
      chk (!(s.ok && !registered s.pre v)) "withdraw-on-unregistered-vamm"
    | some (.liquidate v _ _) =>
      chk (!(s.ok && !isOpenV s.pre v)) "liquidate-on-closed-vamm" ++
      chk (!(s.ok && !registered s.pre v)) "liquidate-on-unregistered-vamm"
    | some (.payFunding v) =>
      chk (!(s.ok && !isOpenV s.pre v)) "payfunding-on-closed-vamm" ++
      chk (!(s.ok && !registered s.pre v)) "payfunding-on-unregistered-vamm"
    | _ => []
  closedOps ++
  chk (s.post.ifund.vamms.length ≤ 3 && s.post.ifund.vamms.eraseDups.length == s.post.ifund.vamms.length)
    "registry-duplicates-or-over-capacity" ++
  (match s.tx with
   | .ifShutdown =>
     chk (!s.ok || s.pre.ifund.vamms.all (fun v => !isOpenV s.post v)) "shutdown-left-a-vamm-open" ++
     -- the owner's shutdown must go through whatever state each (correctly wired) registered vAMM is in
     (if !s.ok && s.sender == s.pre.ifund.owner && !s.pre.ifund.vamms.isEmpty
         && s.pre.ifund.vamms.all (fun v => match s.pre.vamm? v with
                                             | some x => x.cfg.insuranceFund == IFUND || x.cfg.owner == IFUND
                                             | none => false)
      then [if s.pre.ifund.vamms.any (fun v => !isOpenV s.pre v) then "shutdown-by-owner-failed[some-vamm-already-closed]"
            else "shutdown-by-owner-failed"]
      else [])
   | _ => [])

/-! ### C16: after a liquidation, no second position action in the same block -/
/-- restricted: a liquidation happened on this vAMM in this block (as observed in the history of
    transactions; the engine's own marker is consulted as well) and the sender's position was already
    updated in this block -/
def C16.restricted (s : Step) (v : Nat) : Bool :=
  (s.liqsThisBlock.contains v || (Engine.readVammMap s.pre.engine v).lastRestriction == s.env.height)
  && (pos s.pre v s.sender).block == s.env.height

def C16.check (s : Step) : List String :=
  match engineMsg s with
  | some (.openPosition v _ _ _ _) => chk (!(s.ok && C16.restricted s v)) "open-in-restricted-block"
  | some (.closePosition v _) => chk (!(s.ok && C16.restricted s v)) "close-in-restricted-block"
  | _ => []

/-! ### C20: caps and configuration bounds -/
def C20.check (s : Step) : List String :=
  let c := s.post.engine.cfg
  chk (c.imr ≤ c.decimals && c.mmr ≤ c.decimals && c.plr ≤ c.decimals && c.liqFee ≤ c.decimals)
    "engine-ratio-above-one" ++
  chk (c.mmr ≤ c.imr) "maintenance-above-initial" ++
  s.post.vamms.foldl (fun acc p =>
    acc ++ chk (p.2.cfg.toll ≤ p.2.cfg.decimals && p.2.cfg.spread ≤ p.2.cfg.decimals && p.2.cfg.fluct ≤ p.2.cfg.decimals)
      s!"vamm-ratio-above-one(v{p.1})" ++
    chk (60 ≤ p.2.cfg.twapInterval && p.2.cfg.twapInterval ≤ 604800) s!"vamm-twap-interval-out-of-range(v{p.1})") [] ++
  (match s.tx with
   | .ifAdd v => chk (!s.ok || (s.post.vamm? v).map (·.cfg.decimals) == some s.post.engine.cfg.decimals)
                   "registered-vamm-with-other-decimals"
   | _ => []) ++
  (match engineMsg s with
   | some (.openPosition v _ _ _ _) =>
     if s.ok && !whitelisted s.pre s.sender then
       let a := (pos s.pre v s.sender).size.toInt
       let b := (pos s.post v s.sender).size.toInt
       let increasing := b.natAbs > a.natAbs || (a * b < 0)
       match s.post.vamm? v with
       | some x =>
         chk (!(increasing && x.cfg.oiCap ≠ 0 && s.post.engine.st.oi > x.cfg.oiCap)) "open-interest-above-cap" ++
         chk (!(increasing && x.cfg.holdingCap ≠ 0 && b.natAbs > x.cfg.holdingCap)) "position-above-holding-cap"
       | none => []
     else []
   | _ => [])

/-! ### C12: trading fees exact, once, routed to the right pools -/
def C12.fees (w : World) (v N : Nat) : Nat × Nat :=
  match w.vamm? v with
  | some x => (N * x.cfg.toll / x.cfg.decimals, N * x.cfg.spread / x.cfg.decimals)
  | none => (0, 0)

def C12.check (s : Step) : List String :=
  if !s.ok then [] else
  let dFee := bal s.post (fpool s) - bal s.pre (fpool s)
  let dPrepaid : Int := (s.post.engine.st.prepaid : Int) - (s.pre.engine.st.prepaid : Int)
  match engineMsg s with
  | some (.openPosition v _ margin lev _) =>
    let N := margin * lev / s.pre.engine.cfg.decimals
    let (toll, spread) := C12.fees s.pre v N
    chk (dFee == (toll : Int)) "open-toll-not-exact" ++
    chk (inflow s.xfers (ifd s) == (spread : Int)) "open-spread-not-exact" ++
    chk ((s.xfers.filter (fun x => x.2.1 == fpool s)).length == (if toll == 0 then 0 else 1)) "open-toll-charged-more-than-once" ++
    chk (bal s.post (ifd s) - bal s.pre (ifd s) + dPrepaid == (spread : Int)) "open-insurance-fund-delta"
  | some (.closePosition v _) =>
    let p := pos s.pre v s.sender
    let whole := !hasPos s.post v s.sender
    let N := if whole then p.notional else quoteMoved s v
    let (toll, spread) := C12.fees s.pre v N
    chk (dFee == (toll : Int)) "close-toll-not-exact" ++
    chk (inflow s.xfers (ifd s) == (spread : Int)) "close-spread-not-exact"
  | some (.depositMargin _ _) | some (.withdrawMargin _ _) | some (.payFunding _) | some (.liquidate _ _ _) =>
    chk (dFee == 0) "fee-charged-on-fee-free-operation"
  | _ => []

/-! ### C04: closing pays exactly the equity; bad debt cannot be cashed out -/
def C04.check (s : Step) : List String :=
  if !s.ok then [] else
  let ifDrain : List String :=
    match engineMsg s with
    | some (.openPosition _ _ _ _ _) | some (.closePosition _ _) | some (.depositMargin _ _) | some (.withdrawMargin _ _) =>
      chk (bal s.pre (ifd s) - bal s.post (ifd s) ≤ (s.post.engine.st.prepaid : Int) - (s.pre.engine.st.prepaid : Int))
        "insurance-fund-drained-beyond-prepaid-bad-debt"
    | _ => []
  ifDrain ++
  (match engineMsg s with
   | some (.closePosition v _) =>
     let p := pos s.pre v s.sender
     if hasPos s.post v s.sender then [] else
       let out : Int := quoteMoved s v
       let pnl : Int := match p.direction with
         | .addToAmm => out - p.notional
         | .removeFromAmm => (p.notional : Int) - out
       let equity := (p.margin : Int) + pnl - fundingOwed s.pre p
       chk (equity ≥ 0) "closed-with-negative-equity" ++
       chk (flow s.xfers ENGINE s.sender == equity) "close-payout-not-equity"
   | _ => [])

/-! ### C05: trader actions never leave the trader under-margined -/
def exInt (e : Except Err Integer) : Option Int :=
  match e with
  | .ok a => some a.toInt
  | .error _ => none

def C05.check (s : Step) : List String :=
  let D := s.pre.engine.cfg.decimals
  match engineMsg s with
  | some (.openPosition v _ _ lev _) =>
    chk (!(s.ok && (lev < D || (lev ≠ 0 && D * D / lev < s.pre.engine.cfg.imr))))
      "open-accepted-with-leverage-out-of-range" ++
    (if s.ok && !(pos s.post v s.sender).size.isZero then
      match exInt (Engine.queryMarginRatio s.post.q s.post.engine v s.sender) with
      | some r => chk (r ≥ (s.post.engine.cfg.mmr : Int)) "position-below-maintenance-after-open"
      | none => ["margin-ratio-undefined-after-open"]
     else [])
  | some (.withdrawMargin v amt) =>
    if !s.ok then [] else
    let p := pos s.pre v s.sender
    let p' := pos s.post v s.sender
    -- the wallet receives exactly the requested amount; whatever native coins the caller chose to
    -- attach to the call stay with the engine (the handler is not payable-aware), so the net change is
    -- the amount received minus the amount attached
    chk (bal s.post s.sender - bal s.pre s.sender
          == (amt : Int) - (if s.pre.engine.cfg.native then (s.funds.amount : Int) else 0)) "withdraw-wallet-delta" ++
    chk ((p'.margin : Int) == (p.margin : Int) - amt - fundingOwed s.pre p) "withdraw-margin-delta" ++
    chk (p'.chk.toInt == (Engine.latestCum s.pre.engine v).toInt) "withdraw-checkpoint-not-moved" ++
    (match exInt (Engine.queryFreeCollateral s.post.q s.post.engine v s.sender) with
     | some fc => chk (fc ≥ 0) "negative-free-collateral-after-withdraw"
     | none => ["free-collateral-undefined-after-withdraw"])
  | some (.depositMargin v amt) =>
    if !s.ok then [] else
    chk (((pos s.post v s.sender).margin : Int) == (pos s.pre v s.sender).margin + amt) "deposit-margin-delta" ++
    chk (bal s.pre s.sender - bal s.post s.sender == (amt : Int)) "deposit-wallet-delta"
  | _ => []

/-! ### C06: liquidation only of under-margined positions, exact payouts -/

/-- the ratio the property defines for liquidation, on the observed pre-state -/
def liqRatio (w : World) (v t : Nat) : Option Int :=
  match exInt (Engine.queryMarginRatio w.q w.engine v t) with
  | none => none
  | some r =>
    match w.q.isOverSpread v with
    | .ok true =>
      (match exInt (Engine.marginRatioByOption w.q w.engine v t .oracle) with
       | some o => some (if o > r then o else r)
       | none => none)
    | .ok false => some r
    | .error _ => none

def C06.check (s : Step) : List String :=
  match engineMsg s with
  | some (.liquidate v t _) =>
    if !s.ok then [] else
    let p := pos s.pre v t
    let D := s.pre.engine.cfg.decimals
    let out := quoteMoved s v
    let penalty := out * s.pre.engine.cfg.liqFee / D
    let fee := penalty / 2
    (match liqRatio (preAt s) v t with
     | some r => chk (r ≤ (s.pre.engine.cfg.mmr : Int)) "liquidated-above-maintenance"
     | none => ["liquidation-ratio-undefined-but-liquidated"]) ++
    (if !hasPos s.post v t then
       -- full liquidation
       let pnl : Int := match p.direction with
         | .addToAmm => (out : Int) - p.notional
         | .removeFromAmm => (p.notional : Int) - out
       let equity := (p.margin : Int) + pnl - fundingOwed s.pre p
       let remaining : Int := if equity ≤ 0 then 0 else if equity ≥ fee then equity - fee else 0
       chk (flow s.xfers ENGINE s.sender == (fee : Int) || t == s.sender) "full-liquidation-fee-not-half-penalty" ++
       chk (inflow s.xfers (ifd s) == remaining) "full-liquidation-remaining-margin-to-insurance-fund" ++
       chk (t == s.sender || inflow s.xfers t == 0) "liquidated-trader-was-paid"
     else
       let a := p.size.toInt
       let b := (pos s.post v t).size.toInt
       chk (b.natAbs == a.natAbs - a.natAbs * s.pre.engine.cfg.plr / D) "partial-liquidation-size-not-the-fraction" ++
       chk (a * b > 0 || b == 0) "partial-liquidation-flipped-position" ++
       chk (flow s.xfers ENGINE s.sender == (fee : Int) || t == s.sender) "partial-liquidation-liquidator-share" ++
       chk (inflow s.xfers (ifd s) == (fee : Int)) "partial-liquidation-insurance-share" ++
       chk (t == s.sender || inflow s.xfers t == 0) "liquidated-trader-was-paid")
  | _ => []

/-! ### C07: under-margined positions can always be liquidated -/
def C07.precondition (s : Step) (v t : Nat) : Bool :=
  let w := preAt s
  let p := pos w v t
  match w.vamm? v with
  | none => false
  | some x =>
    let fillable := match Vamm.queryOutputAmount x p.direction p.size.value with | .ok _ => true | .error _ => false
    let out : Nat := match Vamm.queryOutputAmount x p.direction p.size.value with | .ok o => o | .error _ => 0
    let inBand := x.cfg.fluct == 0 ||
      (match Spec.C15.band x.cfg.decimals x.cfg.fluct x.st.snaps s.env.height with
       | some bd => Spec.C15.inside x.cfg.decimals bd x.st.quote x.st.base
       | none => false)
    let pnl : Int := match p.direction with
      | .addToAmm => (out : Int) - p.notional
      | .removeFromAmm => (p.notional : Int) - out
    let equity := (p.margin : Int) + pnl - fundingOwed w p
    let feeN : Nat := out * w.engine.cfg.liqFee / w.engine.cfg.decimals / 2
    let fee : Int := (feeN : Int)
    let need : Int := (if equity < 0 then -equity else 0) + fee + fee
    !p.size.isZero && x.st.isOpen && registered w v && fillable && inBand && w.engine.cfg.liqFee ≠ 0
    && feeN ≠ 0
    && x.cfg.marginEngine == ENGINE && w.engine.cfg.insuranceFund == IFUND
    && bal w IFUND ≥ need

/-- under-margined by the property's definition; `none` when the definition itself cannot be
    evaluated (e.g. the vAMM cannot read its oracle) -/
def C07.underMargined (s : Step) (v t : Nat) : Option Bool :=
  match exInt (Engine.queryMarginRatio (preAt s).q s.pre.engine v t) with
  | none => none
  | some r => some (r < (s.pre.engine.cfg.mmr : Int))

def C07.check (s : Step) : List String :=
  match engineMsg s with
  | some (.liquidate v t lim) =>
    if s.ok then [] else
    -- a caller-supplied slippage limit may legitimately reject; the property is about limit-free calls
    if lim == 0 && C07.precondition s v t && C07.underMargined s v t == some true then
      -- the oracle-priced ratio may lift the ratio above maintenance only when the spread limit is exceeded
      match liqRatio (preAt s) v t with
      | some r => if r < (s.pre.engine.cfg.mmr : Int) then ["liquidatable-position-could-not-be-liquidated"] else []
      | none => ["liquidatable-position-could-not-be-liquidated(oracle-unreadable)"]
    else []
  | _ => []

/-! ### C11: funding settles on schedule, exactly, charged once -/
def C11.check (s : Step) : List String :=
  if !s.ok then [] else
  match engineMsg s with
  | some (.payFunding v) =>
    (match s.pre.vamm? v, s.post.vamm? v with
     | some x, some y =>
       let D := s.pre.engine.cfg.decimals
       let cum := (Engine.latestCum s.pre.engine v).toInt
       let cum' := (Engine.latestCum s.post.engine v).toInt
       let pf := cum' - cum
       let payment := trunc (x.st.net.toInt * pf) D
       chk (s.env.time ≥ x.st.nextFunding) "funding-settled-before-its-time" ++
       chk (y.st.nextFunding ≥ s.env.time + x.cfg.fundingPeriod / 2) "next-funding-less-than-half-a-period-away" ++
       (match Vamm.queryTwapPrice x s.env x.cfg.twapInterval, (preAt s).oracleTwap x.cfg.pricefeed x.cfg.twapInterval with
        | .ok tv, .ok to => chk (pf == trunc (((tv : Int) - to) * x.cfg.fundingPeriod) 86400) "premium-fraction-formula"
        | _, _ => ["funding-settled-without-readable-twaps"]) ++
       -- native coins the caller chose to attach reach the vault first (one more transfer, a larger vault)
       (let att : Nat := if s.pre.engine.cfg.native then s.funds.amount else 0
        let pre : List (Nat × Nat × Nat) := if att == 0 then [] else [(s.sender, ENGINE, att)]
        let vault : Int := bal s.pre ENGINE + (if s.sender == ENGINE then 0 else (att : Int))
        if payment > 0 then
          let amt : Int := if vault < payment then vault else payment
          chk (s.xfers == pre ++ [(ENGINE, ifd s, amt.toNat)]) "funding-payment-to-insurance-fund"
        else if payment < 0 then
          chk (s.xfers == pre ++ [(ifd s, ENGINE, payment.natAbs)]) "funding-payment-from-insurance-fund"
        else chk (s.xfers == pre) "funding-moved-collateral-with-zero-payment")
     | _, _ => ["payfunding-on-unknown-vamm"])
  | some (.openPosition v side margin lev _) =>
    let p := pos s.pre v s.sender
    let p' := pos s.post v s.sender
    let D := s.pre.engine.cfg.decimals
    let cum := (Engine.latestCum s.pre.engine v).toInt
    -- the engine's own case distinction (`open_position`): an absent record and a stored record of size zero
    -- are flat — the order opens / increases; otherwise an order on the position's side increases it, an
    -- order on the other side reduces it while the position is worth more than the order and reverses it
    -- (closing it first) when it is not
    let flat := !hasPos s.pre v s.sender || p.size.isZero
    let sameSide := flat || (p.direction == sideToDirection side)
    let N := margin * lev / D
    let reduces : Bool := match Engine.positionNotionalPnl (preAt s).q s.pre.engine p .spot with
      | .ok r => decide (r.1 > N)
      | .error _ => false
    if sameSide then
      -- open / increase: margin grows by ⌊N·D/L⌋ minus the funding owed; checkpoint moves
      let want := (p.margin : Int) + (N * D / lev : Nat) - fundingOwed s.pre p
      chk (p'.chk.toInt == cum) "checkpoint-not-moved-on-trade" ++
      chk ((p'.margin : Int) == (if want < 0 then 0 else want)) "funding-not-charged-on-increase"
    else if reduces then
      -- reduce: realised pnl share, minus funding; the record stays (even if rounding takes the size to 0)
      chk (p'.chk.toInt == cum) "checkpoint-not-moved-on-trade"
    else
      -- reversal: the position is closed whole for `outClose`; what is left of the order re-opens on the
      -- other side unless it is worth less than one unit of margin (`(N − outClose) / leverage = 0`)
      let outClose : Nat := match s.pre.vamm? v with
        | some x => (match Vamm.queryOutputAmount x p.direction p.size.value with | .ok o => o | .error _ => 0)
        | none => 0
      let rest := if N > outClose then N - outClose else outClose - N
      if rest / lev == 0 then
        -- closed by a reversal that re-opens nothing: the trader is due margin + pnl − funding
        let pnl : Int := match p.direction with
          | .addToAmm => (outClose : Int) - p.notional
          | .removeFromAmm => (p.notional : Int) - outClose
        let equity := (p.margin : Int) + pnl - fundingOwed s.pre p
        chk (equity < 0 || flow s.xfers ENGINE s.sender == equity) "funding-skipped-when-closing-by-reversal"
      else
        chk (p'.chk.toInt == cum) "checkpoint-not-moved-on-trade"
  | _ => []

/-! ### C15: per-block price band -/
def C15.check (s : Step) : List String :=
  match engineMsg s with
  | some (.openPosition v _ _ _ _) =>
    (match s.pre.vamm? v, s.post.vamm? v with
     | some x, some y =>
       if x.cfg.fluct == 0 then [] else
       match Spec.C15.band x.cfg.decimals x.cfg.fluct x.st.snaps s.env.height with
       | some bd =>
         chk (!(s.ok && !Spec.C15.inside x.cfg.decimals bd x.st.quote x.st.base)) "open-accepted-outside-band" ++
         chk (!(s.ok && !(pos s.post v s.sender).size.isZero && !Spec.C15.inside x.cfg.decimals bd y.st.quote y.st.base))
           "open-left-price-outside-band"
       | none => []
     | _, _ => [])
  | some (.closePosition v _) =>
    if !s.ok then [] else
    (match s.pre.vamm? v, s.post.vamm? v with
     | some x, some y =>
       if x.cfg.fluct == 0 || s.pre.engine.cfg.plr ≥ s.pre.engine.cfg.decimals then [] else
       match Spec.C15.band x.cfg.decimals x.cfg.fluct x.st.snaps s.env.height with
       | some bd =>
         let p := pos s.pre v s.sender
         if !hasPos s.post v s.sender then
           chk (Spec.C15.inside x.cfg.decimals bd y.st.quote y.st.base) "whole-close-left-price-outside-band"
         else
           let a := p.size.toInt
           let b := (pos s.post v s.sender).size.toInt
           let want := a.natAbs * s.pre.engine.cfg.plr / s.pre.engine.cfg.decimals
           let got := a.natAbs - b.natAbs
           let dev := if got ≥ want then got - want else want - got
           -- the close is priced in quote and re-quoted in base: one quote unit is base/quote base units
           -- (the exchange rate moves during the trade: the larger of the rates before and after bounds it)
           let roundingBound := max (x.st.base / x.st.quote) (y.st.base / y.st.quote) + 2
           chk (got == want && a * b > 0)
             (if a * b > 0 && dev ≤ roundingBound then "partial-close-not-the-configured-fraction[within-requote-rounding]"
              else "partial-close-not-the-configured-fraction[gross]") ++
           -- a partial close is only allowed when the whole close would have left the band
           (match Vamm.swapOutput x s.env ENGINE p.direction p.size.value 0 with
            | .ok (z, _) => chk (!Spec.C15.inside x.cfg.decimals bd z.st.quote z.st.base) "partial-close-although-whole-close-fits-band"
            | .error _ => [])
       | none => []
     | _, _ => [])
  | _ => []

/-! ### C17 (engine part): the caller's limit is applied unchanged -/
def C17.check (s : Step) : List String :=
  if !s.ok then [] else
  match engineMsg s with
  | some (.openPosition v side _ _ lim) =>
    if lim == 0 then [] else
    let a := (pos s.pre v s.sender).size.toInt
    let b := (pos s.post v s.sender).size.toInt
    -- open / increase / reduce (no sign flip, not closed): the base exchanged is |Δsize|
    if a * b < 0 || b == 0 then [] else
    let moved := (b - a).natAbs
    (match side with
     | .buy => chk (moved ≥ lim) "open-base-limit-not-honoured(buy)"
     | .sell => chk (moved ≤ lim) "open-base-limit-not-honoured(sell)")
  | some (.closePosition v lim) =>
    if lim == 0 || hasPos s.post v s.sender then [] else
    let p := pos s.pre v s.sender
    let out := quoteMoved s v
    (match p.direction with
     | .addToAmm => chk (out ≥ lim) "close-quote-limit-not-honoured(long)"
     | .removeFromAmm => chk (out ≤ lim) "close-quote-limit-not-honoured(short)")
  | _ => []

/-! ### C18 (world part): snapshot discipline of every vAMM after every transaction -/
def C18.check (s : Step) : List String :=
  s.post.vamms.foldl (fun acc p => acc ++ chk (Spec.C18.snapshotsOk p.2.st s.env) s!"snapshot-discipline(v{p.1})") []

/-! ### permission ("…has exactly these rights", "…are not restricted") clauses.
  They speak about REJECTED calls and need the reason of the rejection, which only the implementation's
  error text gives; a model step carries no error text and satisfies them trivially. -/

def hasSub (hay needle : String) : Bool := (hay.splitOn needle).length > 1

/-- C09, last sentence: the holder of a role is not turned away as unauthorized.  A `SetOpen` / `SetPause` that does not
    change the flag and the emergency shutdown (which nests such calls) answer "unauthorized" by design of the
    vAMM (finding F5 is judged by C14), so they are not judged here. -/
def C09.checkLive (s : Step) : List String :=
  if s.ok || !(hasSub s.err "nauthorized" || hasSub s.err "not_admin") then [] else
  match C09.role s with
  | some holders =>
    let noop := match s.tx with
      | .vammSetOpen v o => isOpenV s.pre v == o
      | .engine (.setPause p) => s.pre.engine.st.pause == p
      | .ifShutdown => true
      | _ => false
    chk (!(holders.contains s.sender) || noop) "role-holder-refused-as-unauthorized"
  | none => []

/-- C16, second sentence: a trader is turned away by the one-action-per-block rule only if a liquidation
    happened on that vAMM earlier in this block and the trader's stored position was updated by a trade of
    its own earlier in this block (both from the observed history; the engine's block stamp is not consulted) -/
def C16.checkLive (s : Step) : List String :=
  if s.ok || !(hasSub s.err "Only_one_action") then [] else
  match engineMsg s with
  | some (.openPosition v _ _ _ _) | some (.closePosition v _) =>
    chk (s.liqsThisBlock.contains v && s.tradedThisBlock.contains v)
      "unrestricted-trader-refused-as-restricted"
  | _ => []

/-- C04, second sentence, on the partial-close path: a ClosePosition that closes only part of the position
    (the position remains) must not succeed when margin + realised PnL of the closed part − funding owed is
    negative.  The realised PnL is the position's spot PnL times the closed base amount (the size difference,
    whatever its sign) over the size, exactly as the engine computes it (`SatExtra.sat_C04_partial`). -/
def C04.checkPartial (s : Step) : List String :=
  if !s.ok then [] else
  match engineMsg s with
  | some (.closePosition v _) =>
    if !hasPos s.post v s.sender then [] else
    let p := pos s.pre v s.sender
    let p' := pos s.post v s.sender
    let a := p.size.toInt.natAbs
    let closed := (p.size.toInt - p'.size.toInt).natAbs
    if a == 0 then [] else
    (match Engine.positionNotionalPnl (preAt s).q s.pre.engine p .spot with
     | .ok r =>
       let realized := trunc (r.2.toInt * (closed : Int)) (a : Int)
       chk ((p.margin : Int) + realized - fundingOwed s.pre p ≥ 0) "partial-close-accepted-with-bad-debt"
     | .error _ => [])
  | _ => []

/-- C11, per-position clause on a REDUCING OpenPosition and on a PARTIAL ClosePosition: the position that
    remains carries margin + realised PnL of the part given up − the funding owed since its checkpoint
    (never below zero), i.e. the funding is charged when the owner trades on it -/
def C11.checkCharge (s : Step) : List String :=
  if !s.ok then [] else
  let judge (v : Nat) : List String :=
    let p := pos s.pre v s.sender
    let p' := pos s.post v s.sender
    let a := p.size.toInt.natAbs
    let closed := (p.size.toInt - p'.size.toInt).natAbs
    if a == 0 || !hasPos s.post v s.sender then [] else
    (match Engine.positionNotionalPnl (preAt s).q s.pre.engine p .spot with
     | .ok r =>
       let realized := trunc (r.2.toInt * (closed : Int)) (a : Int)
       let want := (p.margin : Int) + realized - fundingOwed s.pre p
       chk ((p'.margin : Int) == (if want < 0 then 0 else want)) "funding-not-charged-on-reduce-or-partial-close"
     | .error _ => [])
  match engineMsg s with
  | some (.closePosition v _) => judge v
  | some (.openPosition v side margin lev _) =>
    let p := pos s.pre v s.sender
    let D := s.pre.engine.cfg.decimals
    let flat := !hasPos s.pre v s.sender || p.size.isZero
    let N := margin * lev / D
    let reduces : Bool := match Engine.positionNotionalPnl (preAt s).q s.pre.engine p .spot with
      | .ok r => decide (r.1 > N)
      | .error _ => false
    if !flat && p.direction != sideToDirection side && reduces then judge v else []
  | _ => []

/-- C13 on a single native deployment: a call that needs a definite amount of coins is accepted only with
    exactly that amount attached (what the cw20 deployment would pull) — DepositMargin: the deposited amount,
    and nothing in another denom -/
def C13.checkNative (s : Step) : List String :=
  if !s.ok || !s.pre.engine.cfg.native then [] else
  match engineMsg s with
  | some (.depositMargin _ amt) =>
    chk (s.funds.amount == amt && !s.funds.extra) "native-deposit-accepted-with-other-funds-than-the-amount"
  | _ => []

/-- C16 judged on the observed history alone (the engine's own block stamp is not consulted): a liquidation
    happened on this vAMM earlier in this block, the sender's stored position was updated earlier in this
    block and still exists — then neither OpenPosition nor ClosePosition may succeed -/
def C16.checkHist (s : Step) : List String :=
  if !s.ok then [] else
  match engineMsg s with
  | some (.openPosition v _ _ _ _) | some (.closePosition v _) =>
    chk (!(s.liqsThisBlock.contains v && s.tradedThisBlock.contains v && hasPos s.pre v s.sender))
      "second-action-in-liquidation-block(observed-history)"
  | _ => []

/-- C11, per-position clause on `ClosePosition`: a position that remains after a (partial) close was charged
    its funding and its checkpoint stands at the current cumulative fraction; a position that is gone has
    nothing left to charge -/
def C11.checkClose (s : Step) : List String :=
  if !s.ok then [] else
  match engineMsg s with
  | some (.closePosition v _) =>
    if !hasPos s.post v s.sender then [] else
    let p' := pos s.post v s.sender
    if p'.size.isZero then [] else
    chk (p'.chk.toInt == (Engine.latestCum s.pre.engine v).toInt) "checkpoint-not-moved-on-partial-close"
  | _ => []

/-- all world checks, tagged by property -/
def allChecks (s : Step) : List (String × List String) :=
  [("C01", C01.check s), ("C02", C02.check s), ("C03", C03.check s), ("C04", C04.check s),
   ("C05", C05.check s), ("C06", C06.check s), ("C07", C07.check s), ("C08", C08.check s),
   ("C09", C09.check s), ("C10", C10.check s), ("C11", C11.check s), ("C12", C12.check s),
   ("C14", C14.check s), ("C15", C15.check s), ("C16", C16.check s), ("C17", C17.check s),
   ("C18", C18.check s), ("C20", C20.check s),
   ("C09", C09.checkLive s), ("C16", C16.checkLive s), ("C11", C11.checkClose s)]

/-- further clauses evaluated by every run (kept apart from `allChecks`, whose list the capstone theorem
    enumerates); their refinement theorems are in `Perp/Props/SatExtra.lean` -/
def extraChecks (s : Step) : List (String × List String) :=
  [("C16", C16.checkHist s), ("C04", C04.checkPartial s), ("C13", C13.checkNative s)]

/-- clauses added after `extraChecks` was enumerated by `SatExtra.sat_extra` -/
def extraChecks2 (s : Step) : List (String × List String) :=
  [("C11", C11.checkCharge s)]

end Perp.Spec
