/-
  `instantiate` of the margin engine (contracts/margined_engine/src/contract.rs), kept in its own file so that the
  files proved against `Engine.lean` are not invalidated.  (The vAMM's `instantiate` is `Vamm.instantiate`; the
  insurance fund, fee pool and price feed instantiate without validation.)
-/
import Perp.Model.Engine

namespace Perp.Engine

/-- the `InstantiateMsg`, with what the chain answers for the collateral:
    `tokenDecimals` = `eligible_collateral.get_decimals` (6 for a `u…` native denom, the cw20's `TokenInfo.decimals` otherwise) -/
structure InstantiateMsg where
  pauser : Nat
  insuranceFund : Nat
  feePool : Nat
  native : Bool
  tokenDecimals : Nat
  imr : Nat
  mmr : Nat
  liqFee : Nat
  deriving Repr, DecidableEq, Inhabited

/-- `instantiate`: `validate_decimal_places`, three `validate_ratio`, `validate_margin_ratios`, then the stored
    configuration (partial liquidation ratio 0), the default state and the pauser -/
def instantiate (sender : Nat) (m : InstantiateMsg) : Except Err E :=
  if m.tokenDecimals < 6 then .error (.guard 36)
  else
    let D := 10 ^ m.tokenDecimals
    if D > U128.MAX then .error .panic      -- 10u128.pow overflow
    else do
      validateRatio m.imr D
      validateRatio m.mmr D
      validateRatio m.liqFee D
      validateMarginRatios m.imr m.mmr
      pure { cfg := { owner := sender, insuranceFund := m.insuranceFund, feePool := m.feePool, native := m.native,
                      decimals := D, imr := m.imr, mmr := m.mmr, plr := 0, liqFee := m.liqFee },
             st := ⟨0, 0, false⟩, pauser := m.pauser, whitelist := [], positions := [], vammMaps := [],
             tmpSwap := none, sentFunds := none, tmpLiq := none }

end Perp.Engine
