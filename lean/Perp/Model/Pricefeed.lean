/-
  Model of `contracts/margined_pricefeed` (state.rs, handle.rs, query.rs) and of the fixture
  `mocks/mock_pricefeed`.  Rounds are kept newest first; the code's "dummy" round 0 (price 0,
  timestamp 0), materialised the first time a key is written, is the last element.
-/
import Perp.Model.Vamm

namespace Perp.Pricefeed

structure Round where
  roundId : Nat
  price : Nat
  timestamp : Nat
  deriving Repr, DecidableEq, Inhabited

def dummy : Round := ⟨0, 0, 0⟩

/-- `read_price_data`: an unknown key reads as the single dummy round -/
def readRounds (stored : Option (List Round)) : List Round :=
  match stored with
  | some l => l
  | none => [dummy]

/-- `store_price_data` on the (newest-first) list -/
def pushRound (rounds : List Round) (price ts : Nat) : List Round :=
  ⟨rounds.length, price, ts⟩ :: rounds

/-- `query_get_price`: the latest round *record* -/
def getPrice (rounds : List Round) : Except Err Round :=
  match rounds with
  | r :: _ => .ok r
  | [] => .error .panic

/-- `query_get_previous_price` -/
def getPrevious (rounds : List Round) (n : Nat) : Except Err Round :=
  match rounds with
  | [] => .error .panic
  | latest :: _ =>
    if n ≥ latest.roundId then .error (.guard 40)
    else match rounds.drop n with
      | r :: _ => .ok r
      | [] => .error .panic

/-- the loop of `query_get_twap_price` over the older rounds -/
def twapLoop (baseTs interval : Nat) :
    List Round → (latest : Round) → (timestamp cumulative weighted : Nat) → Except Err Nat
  | rest, latest, timestamp, cumulative, weighted =>
    if latest.roundId = 1 then
      if cumulative = 0 then .error .panic else .ok (weighted / cumulative)
    else
      match rest with
      | [] => .error .panic
      | r :: rest' =>
        if r.timestamp ≤ baseTs then
          if timestamp < baseTs then .error .panic
          else if r.price * (timestamp - baseTs) > U128.MAX then .error .panic
          else if weighted + r.price * (timestamp - baseTs) > U128.MAX then .error .panic
          else if interval = 0 then .error .panic
          else .ok ((weighted + r.price * (timestamp - baseTs)) / interval)
        else
          if timestamp < r.timestamp then .error .panic
          else if r.price * (timestamp - r.timestamp) > U128.MAX then .error .panic
          else if weighted + r.price * (timestamp - r.timestamp) > U128.MAX then .error .panic
          else if cumulative + (timestamp - r.timestamp) > U128.MAX then .error .panic
          else twapLoop baseTs interval rest' r r.timestamp (cumulative + (timestamp - r.timestamp))
                 (weighted + r.price * (timestamp - r.timestamp))
termination_by rest _ _ _ _ => rest.length

/-- `query_get_twap_price` -/
def getTwap (rounds : List Round) (now interval : Nat) : Except Err Nat :=
  if interval = 0 then .error (.guard 41)
  else if now < interval then .error .panic
  else
    let baseTs := now - interval
    match rounds with
    | [] => .error .panic
    | latest :: rest =>
      if latest.roundId = 0 then .error (.guard 42)
      else if latest.timestamp < baseTs ∨ latest.roundId = 1 then .ok latest.price
      else if now < latest.timestamp then .error .panic
      else do
        let cumulative := now - latest.timestamp
        let w ← cmul latest.price cumulative
        twapLoop baseTs interval rest latest latest.timestamp cumulative w

/-! ### contract state -/

structure Feed where
  owner : Nat
  keys : List (Nat × List Round)     -- key id ↦ rounds (newest first)
  deriving Repr, DecidableEq, Inhabited

def Feed.lookup (f : Feed) (key : Nat) : Option (List Round) :=
  match f.keys.find? (fun p => p.1 == key) with
  | some p => some p.2
  | none => none

def Feed.store (f : Feed) (key : Nat) (rounds : List Round) : Feed :=
  { f with keys := (key, rounds) :: f.keys.filter (fun p => p.1 != key) }

/-- one `store_price_data` -/
def Feed.push (f : Feed) (key price ts : Nat) : Feed :=
  f.store key (pushRound (readRounds (f.lookup key)) price ts)

def appendPrice (f : Feed) (sender key price ts : Nat) : Except Err Feed :=
  if sender ≠ f.owner then .error .unauthorized
  else .ok (f.push key price ts)

def appendMultiple (f : Feed) (sender key : Nat) (prices tss : List Nat) : Except Err Feed :=
  if sender ≠ f.owner then .error .unauthorized
  else if prices.length ≠ tss.length then .error (.guard 43)
  else .ok ((prices.zip tss).foldl (fun g p => g.push key p.1 p.2) f)

def updateOwner (f : Feed) (sender newOwner : Nat) : Except Err Feed :=
  if sender ≠ f.owner then .error .unauthorized else .ok { f with owner := newOwner }

/-! ### the fixture feed: one scalar, no access control on submissions -/

structure Mock where
  owner : Nat
  price : Option Nat
  deriving Repr, DecidableEq, Inhabited

def Mock.get (m : Mock) : Except Err Nat :=
  match m.price with
  | some p => .ok p
  | none => .error (.guard 44)

end Perp.Pricefeed
