/-
  Model of cosmwasm-std `Uint128` checked / unchecked arithmetic as used by the contracts.
  Amounts are `Nat`; every operation that can overflow / underflow / divide by zero in Rust
  returns `Except Err Nat`.  Rust's *unchecked* operators on `Uint128` panic on overflow
  (cosmwasm-std implements `Add`/`Sub`/`Mul` with `checked_*().unwrap()`‑like behaviour and the
  workspace builds with `overflow-checks = true`), and a panic aborts the call, so unchecked and
  checked operators are the same function here, differing only in the `Err` tag.
  Import-free on purpose (the driver links this file into a native executable).
-/
namespace Perp

/-- Failure classes.  Only `ok`/`error` is compared with the implementation; the tag is diagnostic. -/
inductive Err where
  | overflow      -- checked_* overflow / underflow (OverflowError)
  | divZero       -- DivideByZeroError
  | panic         -- Rust panic (`unwrap` on Err, unchecked operator overflow)
  | unauthorized
  | guard (code : Nat)   -- StdError::generic_err raised by a `require_*` / explicit check
  | subcall (code : Nat) -- a dispatched sub-message failed
  deriving Repr, DecidableEq, Inhabited

/-- 2^128 - 1 -/
def U128.MAX : Nat := 340282366920938463463374607431768211455

def U128.ok (a : Nat) : Bool := a ≤ U128.MAX

def cadd (a b : Nat) : Except Err Nat :=
  if a + b ≤ U128.MAX then .ok (a + b) else .error .overflow

def csub (a b : Nat) : Except Err Nat :=
  if b ≤ a then .ok (a - b) else .error .overflow

def cmul (a b : Nat) : Except Err Nat :=
  if a * b ≤ U128.MAX then .ok (a * b) else .error .overflow

def cdiv (a b : Nat) : Except Err Nat :=
  if b = 0 then .error .divZero else .ok (a / b)

/-- u64 arithmetic (block times, heights): plain Rust `+`/`-`/`*` with overflow-checks → panic. -/
def U64.MAX : Nat := 18446744073709551615

def add64 (a b : Nat) : Except Err Nat :=
  if a + b ≤ U64.MAX then .ok (a + b) else .error .panic

def sub64 (a b : Nat) : Except Err Nat :=
  if b ≤ a then .ok (a - b) else .error .panic

end Perp
