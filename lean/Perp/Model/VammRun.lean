/-
  The vAMM as a state machine: every execute variant as a `Call`, applied transactionally
  (a failing call leaves the state unchanged — the chain reverts it).
-/
import Perp.Model.Vamm

namespace Perp.Vamm

inductive VOp where
  | swapInput (dir : Direction) (amt lim : Nat) (canGoOver : Bool)
  | swapOutput (dir : Direction) (amt lim : Nat)
  | settle (oracleTwap : Except Err Nat)
  | setOpen (o : Bool)
  | updateConfig (u : ConfigUpdate)
  | updateOwner (n : Nat)

structure Call where
  env : Env
  sender : Nat
  op : VOp

def apply (v : V) (c : Call) : Except Err V :=
  match c.op with
  | .swapInput dir amt lim cgo => (swapInput v c.env c.sender dir amt lim cgo).map (·.1)
  | .swapOutput dir amt lim => (swapOutput v c.env c.sender dir amt lim).map (·.1)
  | .settle o => (settleFunding v c.env c.sender o).map (·.1)
  | .setOpen o => setOpen v c.env c.sender o
  | .updateConfig u => updateConfig v c.sender u
  | .updateOwner n => updateOwner v c.sender n

/-- transactional step -/
def step (v : V) (c : Call) : V :=
  match apply v c with
  | .ok v' => v'
  | .error _ => v

def run (v : V) (cs : List Call) : V := cs.foldl step v

end Perp.Vamm
