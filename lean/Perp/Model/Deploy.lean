/-
  The DEPLOYMENT of the protocol as a function of the model: the contracts' own `instantiate` entry points
  (`Engine.instantiate`, `Vamm.instantiate`; the insurance fund, the fee pool and the price feed store their
  arguments without validation), followed by the wiring transactions, each run through `World.applyTx` so that
  every guard of the real entry points applies (owner checks, ratio validation, the decimals comparison and the
  capacity of the fund's registry, the `u64` clock addition of `SetOpen`).

  Order (the repository's fixtures and the verification harness): fee pool; (cw20) token; engine with a placeholder
  fund address; insurance fund with the engine's address; engine `UpdateConfig{insurance_fund, partial_liquidation_ratio}`
  by the owner; price feed; for each vAMM: instantiate, owner `UpdateConfig{margin_engine}`, fund owner `AddVamm`
  (optional), vAMM owner `SetOpen{true}` (optional); balances and allowances.

  The world of the model has a fixed list of vAMM records and no transaction that creates one, so all vAMMs are
  instantiated before the first wiring transaction; `instantiate` is a pure function of its message, the block and
  the sender, so the only observable difference to the interleaved order is WHICH error a failing deployment reports.
  The ledger (`bal`, `allow`) is installed as given: minting and approving are the collateral token's business, not
  the protocol's.
-/
import Perp.Model.World
import Perp.Model.Instantiate

namespace Perp.World

/-- one market of the deployment -/
structure VammSpec where
  /-- the address the chain hands out -/
  addr : Nat
  /-- the sender of the vAMM's `instantiate` (its owner) -/
  owner : Nat
  msg : Vamm.InstantiateMsg
  /-- the fund's owner registers it (`AddVamm`) -/
  register : Bool
  /-- the vAMM's owner opens it (`SetOpen{true}`) -/
  open_ : Bool
  deriving Repr, DecidableEq, Inhabited

structure DeployCfg where
  /-- the block of the deployment -/
  env : Env
  /-- deployer = owner of engine / fund / pool / feed -/
  owner : Nat
  /-- the engine's `InstantiateMsg`; its `insuranceFund` field is the placeholder, `deploy` re-points it to `IFUND` -/
  engine : Engine.InstantiateMsg
  /-- the partial-liquidation ratio set by the post-instantiate `UpdateConfig` -/
  plr : Nat
  vamms : List VammSpec
  /-- initial feed state (mock with / without a price, or the real feed with no rounds) -/
  feed : FeedS
  bal : List (Nat × Nat)
  allow : List (Nat × Nat)
  deriving Repr, DecidableEq, Inhabited

/-- the wiring transactions carry no funds -/
def noFunds : Engine.Funds := ⟨0, false⟩

/-- `instantiate` of every vAMM, in order, at the deployment block, by its owner -/
def instVamms (env : Env) : List VammSpec → Except Err (List (Nat × Vamm.V))
  | [] => .ok []
  | s :: rest => do
    let v ← Vamm.instantiate env s.owner s.msg
    let vs ← instVamms env rest
    pure ((s.addr, v) :: vs)

/-- the world right after the instantiate calls: engine at `ENGINE` (still pointing to the placeholder fund),
    fund at `IFUND` with the engine's address, an empty and never stored registry; fee pool at `FEEPOOL` -/
def initWorld (c : DeployCfg) (e : Engine.E) (vs : List (Nat × Vamm.V)) : World :=
  { env := c.env, engine := e, vamms := vs,
    ifund := { owner := c.owner, engine := ENGINE, vamms := [], stored := false },
    feePool := { owner := c.owner, tokens := [] },
    feed := c.feed,
    ledger := { bal := c.bal, allow := c.allow },
    log := [] }

/-- the engine's post-instantiate `UpdateConfig` -/
def engineWiring (c : DeployCfg) : Tx :=
  .engine (.updateConfig { insuranceFund := some IFUND, plr := some c.plr })

/-- an optional wiring transaction -/
def optTx (b : Bool) (w : World) (env : Env) (sender : Nat) (tx : Tx) : Except Err World :=
  if b then w.applyTx env sender noFunds tx else .ok w

/-- the wiring of one market: owner `UpdateConfig{margin_engine}`, fund owner `AddVamm`, owner `SetOpen{true}` -/
def wireVamm (env : Env) (owner : Nat) (w : World) (s : VammSpec) : Except Err World := do
  let w1 ← w.applyTx env s.owner noFunds (.vammConfig s.addr { marginEngine := some ENGINE })
  let w2 ← optTx s.register w1 env owner (.ifAdd s.addr)
  optTx s.open_ w2 env s.owner (.vammSetOpen s.addr true)

def wireAll (env : Env) (owner : Nat) : World → List VammSpec → Except Err World
  | w, [] => .ok w
  | w, s :: rest => do
    let w' ← wireVamm env owner w s
    wireAll env owner w' rest

/-- instantiate everything and run the wiring transactions through `applyTx` (so that every guard of the real
    entry points applies).  Any failing step fails the deployment. -/
def deploy (c : DeployCfg) : Except Err World := do
  let e ← Engine.instantiate c.owner c.engine
  let vs ← instVamms c.env c.vamms
  let w ← (initWorld c e vs).applyTx c.env c.owner noFunds (engineWiring c)
  wireAll c.env c.owner w c.vamms

end Perp.World
