/-
  Model of `packages/margined_common/src/integer.rs` : sign–magnitude integer over `Uint128`.
  Mirrors the code branch by branch (including which comparison each branch uses), so that the
  theorems in `Props/C19.lean` are about what the code does, not about ℤ re-implemented.
-/
import Perp.Model.U128

namespace Perp

structure Integer where
  value : Nat
  negative : Bool
  deriving Repr, DecidableEq, Inhabited

namespace Integer

def zero : Integer := ⟨0, false⟩
def newPositive (v : Nat) : Integer := ⟨v, false⟩
/-- `new_negative`: a zero magnitude is never flagged negative. -/
def newNegative (v : Nat) : Integer := ⟨v, v != 0⟩

def isZero (a : Integer) : Bool := a.value == 0
/-- `is_negative`: the flag counts only for a non-zero magnitude. -/
def isNegative (a : Integer) : Bool := a.negative && a.value != 0
def isPositive (a : Integer) : Bool := !a.isNegative

def invertSign (a : Integer) : Integer := ⟨a.value, !a.negative && a.value != 0⟩
def abs (a : Integer) : Integer := ⟨a.value, false⟩

/-- hand-written `PartialEq` -/
def beq (a b : Integer) : Bool := a.value == b.value && a.isNegative == b.isNegative

/-- the mathematical integer denoted -/
def toInt (a : Integer) : Int := if a.isNegative then -(a.value : Int) else (a.value : Int)

/-- representable: magnitude fits `Uint128` -/
def Rep (a : Integer) : Prop := a.value ≤ U128.MAX

def checkedAdd (a b : Integer) : Except Err Integer :=
  match a.negative, b.negative with
  | false, false => do let v ← cadd a.value b.value; pure (newPositive v)
  | true, true => do let v ← cadd a.value b.value; pure (newNegative v)
  | false, true =>
    if a.value ≥ b.value then do let v ← csub a.value b.value; pure (newPositive v)
    else do let v ← csub b.value a.value; pure (newNegative v)
  | true, false =>
    if a.value > b.value then do let v ← csub a.value b.value; pure (newNegative v)
    else do let v ← csub b.value a.value; pure (newPositive v)

def checkedSub (a b : Integer) : Except Err Integer :=
  match a.negative, b.negative with
  | false, true => do let v ← cadd a.value b.value; pure (newPositive v)
  | true, false => do let v ← cadd a.value b.value; pure (newNegative v)
  | false, false =>
    if a.value ≥ b.value then do let v ← csub a.value b.value; pure (newPositive v)
    else do let v ← csub b.value a.value; pure (newNegative v)
  | true, true =>
    if a.value > b.value then do let v ← csub a.value b.value; pure (newNegative v)
    else do let v ← csub b.value a.value; pure (newPositive v)

def signOfProduct (an bn : Bool) (v : Nat) : Integer :=
  match an, bn with
  | true, true | false, false => newPositive v
  | false, true | true, false => newNegative v

def checkedMul (a b : Integer) : Except Err Integer := do
  let v ← cmul a.value b.value
  pure (signOfProduct a.negative b.negative v)

def checkedDiv (a b : Integer) : Except Err Integer := do
  let v ← cdiv a.value b.value
  pure (signOfProduct a.negative b.negative v)

/-- unchecked `Add` (`std::ops::Add`): `Uint128` operators panic on overflow. -/
def add (a b : Integer) : Except Err Integer :=
  match a.negative, b.negative with
  | false, false => do let v ← cadd a.value b.value; pure (newPositive v)
  | true, true => do let v ← cadd a.value b.value; pure (newNegative v)
  | false, true =>
    if a.value ≥ b.value then do let v ← csub a.value b.value; pure (newPositive v)
    else do let v ← csub b.value a.value; pure (newNegative v)
  | true, false =>
    if a.value ≥ b.value then do let v ← csub a.value b.value; pure (newNegative v)
    else do let v ← csub b.value a.value; pure (newPositive v)

/-- unchecked `Sub` = `self + rhs.invert_sign()` -/
def sub (a b : Integer) : Except Err Integer := add a b.invertSign

def mul (a b : Integer) : Except Err Integer := do
  let v ← cmul a.value b.value
  pure (signOfProduct a.negative b.negative v)

/-- unchecked `Div`: `Uint128 / Uint128` panics on a zero divisor. -/
def div (a b : Integer) : Except Err Integer := do
  let v ← cdiv a.value b.value
  pure (signOfProduct a.negative b.negative v)

/-- `Ord::cmp` -/
def cmp (a b : Integer) : Ordering :=
  if a.isNegative && b.isPositive then .lt
  else if a.isPositive && b.isNegative then .gt
  else if a.isPositive then compare a.value b.value
  else compare b.value a.value

def lt (a b : Integer) : Bool := cmp a b == .lt
def gt (a b : Integer) : Bool := cmp a b == .gt
def le (a b : Integer) : Bool := cmp a b != .gt
def ge (a b : Integer) : Bool := cmp a b != .lt

/-! ### decimal string form (own digit codec; `List Char`) -/

def digitChar (d : Nat) : Char := Char.ofNat (48 + d)

/-- least-significant-first digits of `n`, `fuel` bounds the recursion (≥ number of digits). -/
def digitsRev : Nat → Nat → List Char
  | 0, _ => []
  | fuel + 1, n => if n < 10 then [digitChar n] else digitChar (n % 10) :: digitsRev fuel (n / 10)

/-- `Uint128::to_string` (any `Nat`; 40 digits of fuel cover 2^128). -/
def natToString (n : Nat) : List Char := (digitsRev (n + 1) n).reverse

def charDigit? (c : Char) : Option Nat :=
  if 48 ≤ c.toNat ∧ c.toNat ≤ 57 then some (c.toNat - 48) else none

def parseDigits : List Char → Nat → Option Nat
  | [], acc => some acc
  | c :: cs, acc =>
    match charDigit? c with
    | some d => parseDigits cs (acc * 10 + d)
    | none => none

/-- `str::parse::<u128>`: optional leading `+`, at least one digit, value ≤ u128::MAX -/
def parseU128 (cs : List Char) : Option Nat :=
  let body := match cs with
    | '+' :: r => r
    | _ => cs
  match body with
  | [] => none
  | _ =>
    match parseDigits body 0 with
    | some n => if n ≤ U128.MAX then some n else none
    | none => none

/-- `Display` -/
def toStr (a : Integer) : List Char :=
  if a.negative && a.value != 0 then '-' :: natToString a.value else natToString a.value

/-- `FromStr` (`&input[..1]` panics on the empty string) -/
def fromStr (cs : List Char) : Except Err Integer :=
  match cs with
  | [] => .error .panic
  | '-' :: rest =>
    match parseU128 rest with
    | some v => .ok (newNegative v)
    | none => .error (.guard 1)
  | _ =>
    match parseU128 cs with
    | some v => .ok (newPositive v)
    | none => .error (.guard 1)

end Integer
end Perp
