/-
  Model of `contracts/margined_engine` (contract.rs, handle.rs, reply.rs, utils.rs, query.rs,
  messages.rs, state.rs).  Handlers are pure functions `Engine → … → Except Err (Engine × List SubMsg)`;
  cross-contract queries come in through the record `Q` (closed over the world by `World.lean`).
  `unwrap()`s in the Rust code are `Err.panic` here (a panic aborts the transaction like an error).
-/
import Perp.Model.Vamm

namespace Perp

inductive Side where
  | buy | sell
  deriving Repr, DecidableEq, Inhabited

inductive PnlOpt where
  | spot | twap | oracle
  deriving Repr, DecidableEq, Inhabited

inductive ReplyOn where
  | always | success | error | never
  deriving Repr, DecidableEq, Inhabited

/-- every message a contract of the protocol dispatches -/
inductive Msg where
  | vammSwapInput (vamm : Nat) (dir : Direction) (amt lim : Nat) (cgo : Bool)
  | vammSwapOutput (vamm : Nat) (dir : Direction) (amt lim : Nat)
  | vammSettle (vamm : Nat)
  | vammSetOpen (vamm : Nat) (o : Bool)
  | tokenTransfer (to amt : Nat)                 -- cw20 `Transfer` sent by the dispatching contract
  | tokenTransferFrom (owner to amt : Nat)       -- cw20 `TransferFrom` (spender = dispatching contract)
  | bankSend (to amt : Nat)                      -- `BankMsg::Send` of the collateral denom
  | ifWithdraw (amt : Nat)                       -- insurance fund `Withdraw{token = collateral, amount}`
  deriving Repr, DecidableEq, Inhabited

structure SubMsg where
  msg : Msg
  id : Nat
  replyOn : ReplyOn
  deriving Repr, DecidableEq, Inhabited

/-- what a reply handler reads from the sub-call's first `wasm` event -/
inductive Ev where
  | swap (o : Vamm.SwapOut)
  | settle (premiumFraction : Integer) (vamm : Nat)
  | none
  deriving Repr, DecidableEq, Inhabited

def sideToDirection : Side → Direction
  | .buy => .addToAmm
  | .sell => .removeFromAmm

def directionToSide : Direction → Side
  | .addToAmm => .buy
  | .removeFromAmm => .sell

/-- `position_to_side`: the side that closes a position of this size -/
def positionToSide (size : Integer) : Side :=
  if Integer.gt size Integer.zero then .sell else .buy

namespace Engine

structure Position where
  vamm : Nat             -- 0 = "" (no record)
  trader : Nat
  direction : Direction
  size : Integer
  margin : Nat
  notional : Nat
  chk : Integer          -- last_updated_premium_fraction
  block : Nat
  deriving Repr, DecidableEq, Inhabited

def Position.default : Position := ⟨0, 0, .addToAmm, Integer.zero, 0, 0, Integer.zero, 0⟩

structure Config where
  owner : Nat
  insuranceFund : Nat
  feePool : Nat
  native : Bool          -- eligible collateral is a native coin (else the cw20 token)
  decimals : Nat
  imr : Nat
  mmr : Nat
  plr : Nat
  liqFee : Nat
  deriving Repr, DecidableEq, Inhabited

structure State where
  oi : Nat
  prepaid : Nat
  pause : Bool
  deriving Repr, DecidableEq, Inhabited

structure VammMap where
  lastRestriction : Nat
  cums : List Integer          -- newest first
  deriving Repr, DecidableEq, Inhabited

structure TmpSwap where
  vamm : Nat
  trader : Nat
  side : Side
  marginAmount : Nat
  leverage : Nat
  openNotional : Nat
  positionNotional : Nat
  upnl : Integer
  marginToVault : Integer
  feesPaid : Bool
  deriving Repr, DecidableEq, Inhabited

structure SentFunds where
  amount : Nat
  required : Nat
  deriving Repr, DecidableEq, Inhabited

structure E where
  cfg : Config
  st : State
  pauser : Nat
  whitelist : List Nat
  positions : List Position
  vammMaps : List (Nat × VammMap)
  tmpSwap : Option TmpSwap
  sentFunds : Option SentFunds
  tmpLiq : Option Nat
  deriving Repr, DecidableEq, Inhabited

/-- answers of the other contracts, as the engine's queriers see them -/
structure Q where
  isVamm : Nat → Except Err Bool
  vammOpen : Nat → Except Err Bool
  vammNet : Nat → Except Err Integer
  vammCaps : Nat → Except Err (Nat × Nat)                       -- (holding cap, OI cap)
  outputAmount : Nat → Direction → Nat → Except Err Nat
  outputTwap : Nat → Direction → Nat → Except Err Nat
  calcFee : Nat → Nat → Except Err (Nat × Nat)                   -- (toll, spread)
  isOverSpread : Nat → Except Err Bool
  underlyingPrice : Nat → Except Err Nat
  isOverFluct : Nat → Direction → Nat → Except Err Bool
  balance : Nat → Except Err Nat                                 -- collateral balance of an account

/-- funds attached to a call: amount of the collateral denom, and whether other coins came along -/
structure Funds where
  amount : Nat
  extra : Bool
  deriving Repr, DecidableEq, Inhabited

def REPLY_INCREASE : Nat := 1
def REPLY_DECREASE : Nat := 2
def REPLY_REVERSE : Nat := 3
def REPLY_CLOSE : Nat := 4
def REPLY_PARTIAL_CLOSE : Nat := 5
def REPLY_LIQUIDATION : Nat := 6
def REPLY_PARTIAL_LIQUIDATION : Nat := 7
def REPLY_PAY_FUNDING : Nat := 8
def REPLY_TRANSFER_FAILURE : Nat := 9

/-- turn an `unwrap()` into a panic -/
def unwrap {α : Type} (e : Except Err α) : Except Err α :=
  match e with
  | .ok a => .ok a
  | .error _ => .error .panic

/-! ### storage -/

def readPosition (e : E) (vamm trader : Nat) : Position :=
  match e.positions.find? (fun p => p.vamm == vamm && p.trader == trader) with
  | some p => p
  | none => Position.default

def erasePosition (ps : List Position) (vamm trader : Nat) : List Position :=
  ps.filter (fun p => !(p.vamm == vamm && p.trader == trader))

def storePosition (e : E) (p : Position) : E :=
  { e with positions := p :: erasePosition e.positions p.vamm p.trader }

def removePosition (e : E) (p : Position) : E :=
  { e with positions := erasePosition e.positions p.vamm p.trader }

def readVammMap (e : E) (vamm : Nat) : VammMap :=
  match e.vammMaps.find? (fun p => p.1 == vamm) with
  | some p => p.2
  | none => ⟨0, []⟩

def storeVammMap (e : E) (vamm : Nat) (m : VammMap) : E :=
  { e with vammMaps := (vamm, m) :: e.vammMaps.filter (fun p => p.1 != vamm) }

def latestCum (e : E) (vamm : Nat) : Integer :=
  match (readVammMap e vamm).cums with
  | c :: _ => c
  | [] => Integer.zero

def enterRestrictionMode (e : E) (vamm height : Nat) : E :=
  storeVammMap e vamm { readVammMap e vamm with lastRestriction := height }

/-- `append_cumulative_premium_fraction` (unchecked `+`) -/
def appendCum (e : E) (vamm : Nat) (pf : Integer) : Except Err E :=
  let m := readVammMap e vamm
  match m.cums with
  | [] => .ok (storeVammMap e vamm { m with cums := [pf] })
  | c :: _ => do
    let s ← Integer.add pf c
    pure (storeVammMap e vamm { m with cums := s :: m.cums })

/-! ### utils.rs -/

/-- `get_position` -/
def getPosition (env : Env) (e : E) (vamm trader : Nat) (side : Side) : Position :=
  let p := readPosition e vamm trader
  if p.vamm = 0 then
    { p with vamm := vamm, trader := trader, direction := sideToDirection side, block := env.height }
  else p

def transferFromMsg (cfg : Config) (owner receiver amount : Nat) : SubMsg :=
  if cfg.native then ⟨.bankSend receiver amount, REPLY_TRANSFER_FAILURE, .error⟩
  else ⟨.tokenTransferFrom owner receiver amount, REPLY_TRANSFER_FAILURE, .error⟩

def transferMsg (cfg : Config) (receiver amount : Nat) : SubMsg :=
  if cfg.native then ⟨.bankSend receiver amount, REPLY_TRANSFER_FAILURE, .error⟩
  else ⟨.tokenTransfer receiver amount, REPLY_TRANSFER_FAILURE, .error⟩

def ifWithdrawMsg (amount : Nat) : SubMsg := ⟨.ifWithdraw amount, REPLY_TRANSFER_FAILURE, .error⟩

/-- `realize_bad_debt` → (state, messages, pre-paid shortfall) -/
def realizeBadDebt (st : State) (badDebt : Nat) : State × List SubMsg × Nat :=
  if st.prepaid > badDebt then ({ st with prepaid := st.prepaid - badDebt }, [], 0)
  else ({ st with prepaid := 0 }, [ifWithdrawMsg (badDebt - st.prepaid)], badDebt - st.prepaid)

/-- `update_open_interest_notional` -/
def updateOpenInterest (q : Q) (e : E) (st : State) (vamm : Nat) (amount : Integer) (trader : Nat) :
    Except Err State := do
  let (_, cap) ← q.vammCaps vamm
  let upd ← Integer.checkedAdd amount (Integer.newPositive st.oi)
  let upd := if upd.isNegative then Integer.zero else upd
  if (cap ≠ 0 ∧ amount.isPositive = true ∧ Integer.gt upd (Integer.newPositive cap) = true)
      ∧ ¬ (e.whitelist.contains trader = true) then .error (.guard 50)
  else pure { st with oi := upd.value }

/-- `check_base_asset_holding_cap` -/
def checkHoldingCap (q : Q) (e : E) (vamm size trader : Nat) : Except Err Unit := do
  let (cap, _) ← q.vammCaps vamm
  if (cap ≠ 0 ∧ size > cap) ∧ ¬ (e.whitelist.contains trader = true) then .error (.guard 51)
  else pure ()

/-- `get_position_notional_unrealized_pnl` → (position notional, unrealized pnl) -/
def positionNotionalPnl (q : Q) (e : E) (p : Position) (opt : PnlOpt) : Except Err (Nat × Integer) :=
  if p.size.isZero then .ok (0, Integer.zero) else do
    let out ← match opt with
      | .twap => q.outputTwap p.vamm p.direction p.size.value
      | .spot => q.outputAmount p.vamm p.direction p.size.value
      | .oracle => do
          let price ← q.underlyingPrice p.vamm
          let x ← cmul price p.size.value
          cdiv x e.cfg.decimals
    let pnl ← match p.direction with
      | .addToAmm => Integer.sub (Integer.newPositive out) (Integer.newPositive p.notional)
      | .removeFromAmm => Integer.sub (Integer.newPositive p.notional) (Integer.newPositive out)
    pure (out, pnl)

structure RemainMargin where
  funding : Integer
  margin : Nat
  badDebt : Nat
  latest : Integer
  deriving Repr, DecidableEq, Inhabited

/-- `calc_remain_margin_with_funding_payment` (unchecked Integer operators) -/
def calcRemainMargin (e : E) (p : Position) (marginDelta : Integer) : Except Err RemainMargin := do
  let latest := latestCum e p.vamm
  let d ← Integer.sub latest p.chk
  let m ← Integer.mul d p.size
  let funding ← Integer.div m (Integer.newPositive e.cfg.decimals)
  let a ← Integer.sub marginDelta funding
  let remaining ← Integer.add a (Integer.newPositive p.margin)
  if remaining.isNegative then
    pure ⟨funding, 0, remaining.invertSign.value, latest⟩
  else pure ⟨funding, remaining.value, 0, latest⟩

/-- `calc_funding_payment` (negative = trader pays) -/
def calcFundingPayment (e : E) (p : Position) (latest : Integer) : Except Err Integer :=
  if !p.size.isZero then do
    let d ← Integer.sub latest p.chk
    let m ← Integer.mul d p.size
    let f ← Integer.div m (Integer.newPositive e.cfg.decimals)
    Integer.mul f (Integer.newNegative 1)
  else .ok Integer.zero

def clearPosition (env : Env) (p : Position) : Position :=
  { p with size := Integer.zero, margin := 0, notional := 0, chk := Integer.zero, block := env.height }

/-- `require_vamm` -/
def requireVamm (q : Q) (vamm : Nat) : Except Err Unit := do
  let r ← q.isVamm vamm
  if !r then .error (.guard 52) else do
  let o ← q.vammOpen vamm
  if !o then .error (.guard 53) else pure ()

def requireNotPaused (st : State) : Except Err Unit :=
  if st.pause then .error (.guard 54) else .ok ()

def requireNonZero (x : Nat) : Except Err Unit :=
  if x = 0 then .error (.guard 55) else .ok ()

/-- `require_additional_margin`: ratio ≥ base -/
def requireAdditionalMargin (ratio : Integer) (base : Nat) : Except Err Unit :=
  if Integer.lt ratio (Integer.newPositive base) then .error (.guard 56) else .ok ()

/-- `require_insufficient_margin`: ratio ≤ base -/
def requireInsufficientMargin (ratio : Integer) (base : Nat) : Except Err Unit :=
  if Integer.gt ratio (Integer.newPositive base) then .error (.guard 57) else .ok ()

/-- `require_not_restriction_mode` -/
def requireNotRestrictionMode (e : E) (vamm trader height : Nat) : Except Err Unit :=
  if (readVammMap e vamm).lastRestriction = height ∧ (readPosition e vamm trader).block = height
  then .error (.guard 58) else .ok ()

/-! ### messages.rs -/

/-- `transfer_fees` → (messages, spread fee, toll fee) -/
def transferFees (q : Q) (e : E) (fromAddr vamm notional : Nat) : Except Err (List SubMsg × Nat × Nat) := do
  let (toll, spread) ← q.calcFee vamm notional
  let m1 := if spread ≠ 0 then [transferFromMsg e.cfg fromAddr e.cfg.insuranceFund spread] else []
  let m2 := if toll ≠ 0 then [transferFromMsg e.cfg fromAddr e.cfg.feePool toll] else []
  pure (m1 ++ m2, spread, toll)

/-- `withdraw` → (state, messages); the engine's own address is 1 -/
def ENGINE_ADDR : Nat := 1

def withdraw (q : Q) (e : E) (st : State) (receiver amount prePaid : Nat) : Except Err (State × List SubMsg) := do
  let bal ← unwrap (q.balance ENGINE_ADDR)
  let tot ← cadd bal prePaid
  if tot < amount then do
    let shortfall ← csub amount tot
    let pp ← cadd st.prepaid shortfall
    pure ({ st with prepaid := pp }, [ifWithdrawMsg shortfall, transferMsg e.cfg receiver amount])
  else pure (st, [transferMsg e.cfg receiver amount])

/-- `execute_transfer_to_insurance_fund` -/
def transferToInsuranceFund (q : Q) (e : E) (amount : Nat) : Except Err SubMsg := do
  let bal ← unwrap (q.balance ENGINE_ADDR)
  pure (transferMsg e.cfg e.cfg.insuranceFund (if bal < amount then bal else amount))

/-! ### query.rs -/

/-- the less favourable (smaller magnitude) of spot and TWAP PnL; ties → spot -/
def choosePnl (spot twap : Nat × Integer) : Nat × Integer :=
  if Integer.gt spot.2.abs twap.2.abs then twap else spot

/-- ratio = ((margin − badDebt) · D) / notional with unchecked operators -/
def ratioOf (e : E) (rm : RemainMargin) (notional : Nat) : Except Err Integer := do
  let a ← Integer.sub (Integer.newPositive rm.margin) (Integer.newPositive rm.badDebt)
  let b ← Integer.mul a (Integer.newPositive e.cfg.decimals)
  Integer.div b (Integer.newPositive notional)

/-- `query_margin_ratio` -/
def queryMarginRatio (q : Q) (e : E) (vamm trader : Nat) : Except Err Integer :=
  let p := readPosition e vamm trader
  if p.size.isZero then .ok Integer.zero else do
    let spot ← positionNotionalPnl q e p .spot
    let twap ← positionNotionalPnl q e p .twap
    let (notional, pnl) := choosePnl spot twap
    let rm ← calcRemainMargin e p pnl
    ratioOf e rm notional

/-- `get_margin_ratio_calc_option` -/
def marginRatioByOption (q : Q) (e : E) (vamm trader : Nat) (opt : PnlOpt) : Except Err Integer :=
  let p := readPosition e vamm trader
  if p.size.isZero then .ok Integer.zero else do
    let (notional, pnl) ← positionNotionalPnl q e p opt
    let rm ← calcRemainMargin e p pnl
    ratioOf e rm notional

/-- `query_trader_position_with_funding_payment` -/
def positionWithFunding (e : E) (vamm trader : Nat) : Except Err Position := do
  let p := readPosition e vamm trader
  let fp ← calcFundingPayment e p (latestCum e vamm)
  let m ← Integer.add (Integer.newPositive p.margin) fp
  pure { p with margin := if m.isPositive then m.value else 0 }

/-- `query_free_collateral` -/
def queryFreeCollateral (q : Q) (e : E) (vamm trader : Nat) : Except Err Integer := do
  let p ← positionWithFunding e vamm trader
  let spot ← positionNotionalPnl q e p .spot
  let twap ← positionNotionalPnl q e p .twap
  let (notional, pnl) := choosePnl spot twap
  let accountValue ← Integer.checkedAdd pnl (Integer.newPositive p.margin)
  let d ← Integer.checkedSub accountValue (Integer.newPositive p.margin)
  let minimum := if d.isPositive then Integer.newPositive p.margin else accountValue
  let req ← if p.size.isPositive then (do let x ← cmul p.notional e.cfg.imr; cdiv x e.cfg.decimals)
            else (do let x ← cmul notional e.cfg.imr; cdiv x e.cfg.decimals)
  Integer.checkedSub minimum (Integer.newPositive req)

/-! ### handle.rs -/

def swapInputMsg (vamm : Nat) (side : Side) (notional lim : Nat) (cgo : Bool) (id : Nat) : SubMsg :=
  ⟨.vammSwapInput vamm (sideToDirection side) notional lim cgo, id, .always⟩

def swapOutputMsg (vamm : Nat) (side : Side) (amount lim : Nat) (id : Nat) : SubMsg :=
  ⟨.vammSwapOutput vamm (sideToDirection side) amount lim, id, .always⟩

structure ConfigUpdate where
  owner : Option Nat := none
  insuranceFund : Option Nat := none
  feePool : Option Nat := none
  imr : Option Nat := none
  mmr : Option Nat := none
  plr : Option Nat := none
  liqFee : Option Nat := none
  deriving Repr, DecidableEq, Inhabited

def validateRatio (x D : Nat) : Except Err Unit := if x > D then .error (.guard 30) else .ok ()
def validateMarginRatios (initial maintenance : Nat) : Except Err Unit :=
  if maintenance > initial then .error (.guard 34) else .ok ()

/-- `update_config` -/
def updateConfig (e : E) (sender : Nat) (u : ConfigUpdate) : Except Err E :=
  if sender ≠ e.cfg.owner then .error .unauthorized else do
  let c := e.cfg
  let c := match u.owner with | some x => { c with owner := x } | none => c
  let c := match u.insuranceFund with | some x => { c with insuranceFund := x } | none => c
  let c := match u.feePool with | some x => { c with feePool := x } | none => c
  let c ← match u.imr with
    | some x => do validateRatio x c.decimals; validateMarginRatios x c.mmr; pure { c with imr := x }
    | none => pure c
  let c ← match u.mmr with
    | some x => do validateRatio x c.decimals; validateMarginRatios c.imr x; pure { c with mmr := x }
    | none => pure c
  let c ← match u.plr with
    | some x => do validateRatio x c.decimals; pure { c with plr := x }
    | none => pure c
  let c ← match u.liqFee with
    | some x => do validateRatio x c.decimals; pure { c with liqFee := x }
    | none => pure c
  pure { e with cfg := c }

/-- `open_position` -/
def openPosition (q : Q) (e : E) (env : Env) (sender : Nat) (funds : Funds)
    (vamm : Nat) (side : Side) (margin leverage baseLimit : Nat) : Except Err (E × List SubMsg) := do
  requireNotPaused e.st
  requireVamm q vamm
  requireNotRestrictionMode e vamm sender env.height
  requireNonZero margin
  requireNonZero leverage
  if leverage < e.cfg.decimals then .error (.guard 59) else do
  let dd ← cmul e.cfg.decimals e.cfg.decimals
  let mr ← cdiv dd leverage
  requireAdditionalMargin (Integer.newPositive mr) e.cfg.imr
  let p := getPosition env e vamm sender side
  -- (a record left at size zero by an earlier trade has nothing to reverse, whatever its direction)
  let isIncrease := p.size.isZero = true ∨ (p.direction = .addToAmm ∧ side = .buy) ∨ (p.direction = .removeFromAmm ∧ side = .sell)
  let ml ← cmul margin leverage
  let openNotional ← cdiv ml e.cfg.decimals
  let msg ← if isIncrease then pure (swapInputMsg vamm side openNotional baseLimit false REPLY_INCREASE)
    else do
      let (posNotional, _) ← unwrap (positionNotionalPnl q e p .spot)
      if posNotional > openNotional then
        pure (swapInputMsg p.vamm side openNotional baseLimit false REPLY_DECREASE)
      else pure (swapOutputMsg p.vamm (directionToSide p.direction) p.size.value 0 REPLY_REVERSE)
  let (posNotional, upnl) ← unwrap (positionNotionalPnl q e p .spot)
  let tmp : TmpSwap := ⟨vamm, sender, side, margin, leverage, openNotional, posNotional, upnl, Integer.zero, false⟩
  let sent : SentFunds := ⟨if e.cfg.native then funds.amount else 0, 0⟩
  pure ({ e with tmpSwap := some tmp, sentFunds := some sent }, [msg])

/-- `internal_close_position` -/
def internalClosePosition (e : E) (p : Position) (quoteLimit id : Nat) : E × SubMsg :=
  let tmp : TmpSwap := ⟨p.vamm, p.trader, directionToSide p.direction, p.size.value, 0, p.notional, 0,
                        Integer.zero, Integer.zero, false⟩
  ({ e with tmpSwap := some tmp },
   swapOutputMsg p.vamm (directionToSide p.direction) p.size.value quoteLimit id)

/-- `close_position` -/
def closePosition (q : Q) (e : E) (env : Env) (sender vamm quoteLimit : Nat) :
    Except Err (E × List SubMsg) := do
  let p := readPosition e vamm sender
  requireNotPaused e.st
  if p.size.value = 0 then .error (.guard 60) else do
  requireNotRestrictionMode e vamm sender env.height
  let baseDir : Direction := if Integer.gt p.size Integer.zero then .addToAmm else .removeFromAmm
  let over ← q.isOverFluct vamm baseDir p.size.value
  if over ∧ e.cfg.plr < e.cfg.decimals then do
    let side := positionToSide p.size
    let x ← cmul p.size.value e.cfg.plr
    let partialAmount ← cdiv x e.cfg.decimals
    let partialNotional ← q.outputAmount vamm baseDir partialAmount
    let (posNotional, upnl) ← unwrap (positionNotionalPnl q e p .spot)
    let tmp : TmpSwap := ⟨p.vamm, p.trader, side, p.size.value, e.cfg.decimals, partialNotional, posNotional,
                          upnl, Integer.zero, false⟩
    pure ({ e with tmpSwap := some tmp },
          [swapInputMsg p.vamm side partialNotional 0 true REPLY_PARTIAL_CLOSE])
  else
    let (e', m) := internalClosePosition e p quoteLimit REPLY_CLOSE
    pure (e', [m])

/-- `partial_liquidation` (every step is `unwrap`ped) -/
def partialLiquidation (q : Q) (e : E) (vamm trader quoteLimit : Nat) : Except Err (E × SubMsg) := do
  let p := readPosition e vamm trader
  let partialSize ← unwrap (do let x ← cmul p.size.value e.cfg.plr; cdiv x e.cfg.decimals)
  let partialLimit ← unwrap (do let x ← cmul quoteLimit e.cfg.plr; cdiv x e.cfg.decimals)
  let currentNotional ← unwrap (q.outputAmount vamm p.direction partialSize)
  let (_, upnl) ← unwrap (positionNotionalPnl q e p .spot)
  let side := positionToSide p.size
  let tmp : TmpSwap := ⟨p.vamm, p.trader, side, partialSize, 0, currentNotional, 0, upnl, Integer.zero, false⟩
  let msg := swapOutputMsg vamm (directionToSide p.direction) partialSize partialLimit REPLY_PARTIAL_LIQUIDATION
  pure ({ e with tmpSwap := some tmp }, msg)

/-- `liquidate` -/
def liquidate (q : Q) (e : E) (_env : Env) (sender vamm trader quoteLimit : Nat) :
    Except Err (E × List SubMsg) := do
  let e := { e with tmpLiq := some sender }
  let ratio0 ← queryMarginRatio q e vamm trader
  let overSpread ← q.isOverSpread vamm
  let ratio ← if overSpread then do
      let oracleRatio ← marginRatioByOption q e vamm trader .oracle
      let d ← Integer.checkedSub oracleRatio ratio0
      pure (if Integer.gt d Integer.zero then oracleRatio else ratio0)
    else pure ratio0
  requireVamm q vamm
  requireInsufficientMargin ratio e.cfg.mmr
  let p := readPosition e vamm trader
  if p.size.value = 0 then .error (.guard 60) else
  if ratio.value > e.cfg.liqFee ∧ e.cfg.plr ≠ 0 then do
    let (e', m) ← partialLiquidation q e vamm trader quoteLimit
    pure (e', [m])
  else
    let (e', m) := internalClosePosition e p quoteLimit REPLY_LIQUIDATION
    pure (e', [m])

/-- `pay_funding` -/
def payFunding (q : Q) (e : E) (vamm : Nat) : Except Err (E × List SubMsg) := do
  requireVamm q vamm
  pure (e, [⟨.vammSettle vamm, REPLY_PAY_FUNDING, .always⟩])

/-- `deposit_margin` -/
def depositMargin (e : E) (_env : Env) (sender : Nat) (funds : Funds) (vamm amount : Nat) :
    Except Err (E × List SubMsg) := do
  requireNotPaused e.st
  requireNonZero amount
  let msgs ← if e.cfg.native then
      -- `must_pay`: exactly one coin, of the collateral denom, non-zero, equal to `amount`
      if funds.extra then .error (.guard 61)
      else if funds.amount = 0 then .error (.guard 62)
      else if funds.amount ≠ amount then .error (.guard 63)
      else pure []
    else pure [transferFromMsg e.cfg sender ENGINE_ADDR amount]
  let p := readPosition e vamm sender
  if p.trader ≠ sender then .error (.guard 64) else do
  let m ← cadd p.margin amount
  pure (storePosition e { p with margin := m }, msgs)

/-- `withdraw_margin` -/
def withdrawMargin (q : Q) (e : E) (_env : Env) (sender vamm amount : Nat) : Except Err (E × List SubMsg) := do
  requireVamm q vamm
  requireNotPaused e.st
  requireNonZero amount
  let p := readPosition e vamm sender
  let rm ← calcRemainMargin e p (Integer.newNegative amount)
  if rm.badDebt ≠ 0 then .error (.guard 65) else do
  let fc ← queryFreeCollateral q e vamm sender
  let d ← Integer.checkedSub fc (Integer.newPositive amount)
  if d.isNegative then .error (.guard 66) else do
  let (st, msgs) ← unwrap (withdraw q e e.st sender amount 0)
  let e := storePosition e { p with margin := rm.margin, chk := rm.latest }
  pure ({ e with st := st }, msgs)

/-- cw-controllers `Admin::execute_update_admin` on the pauser -/
def updatePauser (e : E) (sender newPauser : Nat) : Except Err E :=
  if sender ≠ e.pauser then .error .unauthorized else .ok { e with pauser := newPauser }

/-- cw-controllers `Hooks::execute_add_hook` / `execute_remove_hook` guarded by the pauser -/
def addWhitelist (e : E) (sender addr : Nat) : Except Err E :=
  if sender ≠ e.pauser then .error .unauthorized
  else if e.whitelist.contains addr then .error (.guard 67)
  else .ok { e with whitelist := e.whitelist ++ [addr] }

def removeWhitelist (e : E) (sender addr : Nat) : Except Err E :=
  if sender ≠ e.pauser then .error .unauthorized
  else if !e.whitelist.contains addr then .error (.guard 68)
  else .ok { e with whitelist := e.whitelist.filter (fun a => a != addr) }

/-- `set_pause` -/
def setPause (e : E) (sender : Nat) (p : Bool) : Except Err E :=
  if sender ≠ e.pauser ∨ e.st.pause = p then .error .unauthorized
  else .ok { e with st := { e.st with pause := p } }

/-! ### reply.rs -/

def sentFundsSufficient (f : SentFunds) : Except Err Unit :=
  if f.amount > f.required then .error (.guard 69)
  else if f.amount < f.required then .error (.guard 70)
  else .ok ()

def signedOutput (side : Side) (output : Nat) : Integer :=
  match side with
  | .buy => Integer.newPositive output
  | .sell => Integer.newNegative output

/-- notional left after realising part of the pnl (shared by reduce and partial close) -/
def remainingNotional (p : Position) (swap : TmpSwap) (upnlAfter : Integer) : Except Err Integer :=
  if Integer.gt p.size Integer.zero then do
    let a ← Integer.sub (Integer.newPositive swap.positionNotional) (Integer.newPositive swap.openNotional)
    Integer.sub a upnlAfter
  else do
    let a ← Integer.add upnlAfter (Integer.newPositive swap.positionNotional)
    Integer.sub a (Integer.newPositive swap.openNotional)

/-- realised share of the pnl: `upnl * |signed_output| / |size|` -/
def realizedPnl (p : Position) (swap : TmpSwap) (so : Integer) : Except Err Integer :=
  if !p.size.isZero then do
    let m ← Integer.checkedMul swap.upnl so.abs
    Integer.div m p.size.abs
  else .ok Integer.zero

/-- `update_position_reply` (reply ids 1 and 2) -/
def updatePositionReply (q : Q) (e : E) (env : Env) (input output replyId : Nat) :
    Except Err (E × List SubMsg) := do
  let swap ← match e.tmpSwap with | some s => pure s | none => .error (.guard 71)
  let funds ← match e.sentFunds with | some s => pure s | none => .error (.guard 72)
  let p := getPosition env e swap.vamm swap.trader swap.side
  let so := signedOutput swap.side output
  let st ← updateOpenInterest q e e.st swap.vamm
    (if replyId = REPLY_INCREASE then Integer.newPositive input else Integer.newNegative input) swap.trader
  let (swapMargin, mtv, marginDelta, newDir, newNotional) ←
    if replyId = REPLY_INCREASE then do
      let x ← cmul swap.openNotional e.cfg.decimals
      let sm ← cdiv x swap.leverage
      let mtv ← Integer.checkedAdd swap.marginToVault (Integer.newPositive sm)
      let nn ← cadd p.notional swap.openNotional
      pure (sm, mtv, Integer.newPositive sm, sideToDirection swap.side, nn)
    else do
      let realized ← realizedPnl p swap so
      let upnlAfter ← Integer.sub swap.upnl realized
      let rn ← remainingNotional p swap upnlAfter
      pure (0, swap.marginToVault, realized, p.direction, rn.value)
  let rm ← calcRemainMargin e p marginDelta
  let newSize ← Integer.add p.size so
  let p' : Position := { p with direction := newDir, notional := newNotional, size := newSize,
                                margin := rm.margin, chk := rm.latest, block := env.height }
  let e1 := storePosition e p'
  checkHoldingCap q e1 swap.vamm p'.size.value swap.trader
  let (st, msgs, required) ←
    if Integer.lt mtv Integer.zero then do
      let (st', ms) ← unwrap (withdraw q e1 st swap.trader mtv.value 0)
      pure (st', ms, funds.required)
    else if Integer.gt mtv Integer.zero then
      if e.cfg.native then do
        let r ← cadd funds.required swapMargin
        pure (st, [], r)
      else pure (st, [transferFromMsg e.cfg swap.trader ENGINE_ADDR mtv.value], funds.required)
    else pure (st, [], funds.required)
  let (msgs, required) ←
    if !swap.feesPaid then do
      let (fm, spread, toll) ← unwrap (transferFees q e1 swap.trader swap.vamm swap.openNotional)
      let r ← cadd required spread
      let r ← cadd r toll
      pure (msgs ++ fm, r)
    else pure (msgs, required)
  if e.cfg.native then sentFundsSufficient { funds with required := required } else pure ()
  let ratio ← queryMarginRatio q e1 p'.vamm p'.trader
  requireAdditionalMargin ratio e.cfg.mmr
  pure ({ e1 with st := st, tmpSwap := none, sentFunds := none }, msgs)

/-- `reverse_position_reply` (reply id 3) -/
def reversePositionReply (q : Q) (e : E) (env : Env) (output : Nat) : Except Err (E × List SubMsg) := do
  let swap ← match e.tmpSwap with | some s => pure s | none => .error (.guard 71)
  let funds ← match e.sentFunds with | some s => pure s | none => .error (.guard 72)
  let p := getPosition env e swap.vamm swap.trader swap.side
  let st ← updateOpenInterest q e e.st swap.vamm (Integer.newNegative output) swap.trader
  -- the funding owed since the checkpoint is settled with the trader (as in a close)
  let rm0 ← calcRemainMargin e p swap.upnl
  let previousMargin ← Integer.checkedAdd (Integer.newNegative p.margin) rm0.funding
  let p' := clearPosition env p
  let currentOpenNotional := swap.openNotional
  let newOpen := if swap.openNotional > output then swap.openNotional - output else output - swap.openNotional
  let (fm, spread, toll) ← unwrap (transferFees q e swap.trader swap.vamm currentOpenNotional)
  let r ← cadd funds.required spread
  let required ← cadd r toll
  let lev ← cdiv newOpen swap.leverage
  if lev = 0 then do
    let margin ← Integer.checkedSub previousMargin swap.upnl
    let msgs := fm ++ [transferMsg e.cfg swap.trader margin.value]
    if e.cfg.native then sentFundsSufficient { funds with required := required } else pure ()
    let e1 := storePosition { e with tmpSwap := none, sentFunds := none } p'
    pure ({ e1 with st := st }, msgs)
  else do
    let mtv ← Integer.checkedSub previousMargin swap.upnl
    let required ←
      if mtv.isPositive then cadd required mtv.value
      else if required > mtv.value then csub required mtv.value
      else cadd spread toll
    let swap' : TmpSwap := { swap with openNotional := newOpen, marginToVault := mtv, upnl := Integer.zero,
                                       feesPaid := true }
    let msgs := fm ++ [swapInputMsg swap.vamm swap.side newOpen 0 false REPLY_INCREASE]
    let e1 := storePosition { e with tmpSwap := some swap', sentFunds := some { funds with required := required } } p'
    pure ({ e1 with st := st }, msgs)

/-- margin delta of a whole close: what the vAMM paid compared with the open notional -/
def closeMarginDelta (p : Position) (swap : TmpSwap) (output : Nat) : Except Err Integer :=
  match p.direction with
  | .addToAmm => Integer.sub (Integer.newPositive output) (Integer.newPositive swap.openNotional)
  | .removeFromAmm => Integer.sub (Integer.newPositive swap.openNotional) (Integer.newPositive output)

/-- `close_position_reply` (reply id 4) -/
def closePositionReply (q : Q) (e : E) (env : Env) (output : Nat) : Except Err (E × List SubMsg) := do
  let swap ← match e.tmpSwap with | some s => pure s | none => .error (.guard 71)
  let p := getPosition env e swap.vamm swap.trader swap.side
  let marginDelta ← closeMarginDelta p swap output
  let rm ← calcRemainMargin e p marginDelta
  let withdrawAmount ← Integer.checkedAdd (Integer.newPositive rm.margin) swap.upnl
  if rm.badDebt ≠ 0 then .error (.guard 73) else do
  let (st, msgs) ← if !withdrawAmount.isZero then unwrap (withdraw q e e.st swap.trader withdrawAmount.value 0)
                   else pure (e.st, [])
  let msgs ← if p.notional ≠ 0 then do
      let (fm, _, _) ← unwrap (transferFees q e swap.trader swap.vamm p.notional)
      pure (msgs ++ fm)
    else pure msgs
  let v1 ← Integer.add marginDelta (Integer.newPositive rm.badDebt)
  let value ← Integer.add v1 (Integer.newPositive p.notional)
  let st ← updateOpenInterest q e st swap.vamm value.invertSign swap.trader
  let e1 := removePosition e p
  pure ({ e1 with st := st, tmpSwap := none }, msgs)

/-- `partial_close_position_reply` (reply id 5) -/
def partialClosePositionReply (q : Q) (e : E) (env : Env) (input output : Nat) :
    Except Err (E × List SubMsg) := do
  let swap ← match e.tmpSwap with | some s => pure s | none => .error (.guard 71)
  let p := getPosition env e swap.vamm swap.trader swap.side
  let st ← updateOpenInterest q e e.st swap.vamm (Integer.newNegative input) swap.trader
  let so := signedOutput swap.side output
  let realized ← realizedPnl p swap so
  let rm ← calcRemainMargin e p realized
  let upnlAfter ← Integer.sub swap.upnl realized
  let rn ← remainingNotional p swap upnlAfter
  let (fm, _, _) ← unwrap (transferFees q e swap.trader swap.vamm swap.openNotional)
  let newSize ← Integer.add p.size so
  let p' : Position := { p with size := newSize, margin := rm.margin, notional := rn.value, chk := rm.latest,
                                block := env.height }
  if rm.badDebt ≠ 0 then .error (.guard 73) else
  let e1 := storePosition e p'
  pure ({ e1 with st := st, tmpSwap := none }, fm)

/-- `liquidate_reply` (reply id 6) -/
def liquidateReply (q : Q) (e : E) (env : Env) (output : Nat) : Except Err (E × List SubMsg) := do
  let swap ← match e.tmpSwap with | some s => pure s | none => .error (.guard 71)
  let liquidator ← match e.tmpLiq with | some l => pure l | none => .error (.guard 74)
  let p := getPosition env e swap.vamm swap.trader swap.side
  let marginDelta ← closeMarginDelta p swap output
  let rm ← calcRemainMargin e p marginDelta
  let x ← cmul output e.cfg.liqFee
  let penalty ← cdiv x e.cfg.decimals
  let fee := penalty / 2
  let (margin, badDebt) ←
    if fee > rm.margin then do
      let b ← cadd rm.badDebt (fee - rm.margin)
      pure (0, b)
    else pure (rm.margin - fee, rm.badDebt)
  let (st, m1, prePaid) := if badDebt ≠ 0 then realizeBadDebt e.st badDebt else (e.st, [], 0)
  let m2 := if margin ≠ 0 then [transferMsg e.cfg e.cfg.insuranceFund margin] else []
  let (st, m3) ← unwrap (withdraw q e st liquidator fee prePaid)
  let e1 := removePosition e p
  let e2 := enterRestrictionMode { e1 with st := st, tmpSwap := none, tmpLiq := none } swap.vamm env.height
  pure (e2, m1 ++ m2 ++ m3)

/-- `partial_liquidation_reply` (reply id 7) -/
def partialLiquidationReply (q : Q) (e : E) (env : Env) (input output : Nat) :
    Except Err (E × List SubMsg) := do
  let swap ← match e.tmpSwap with | some s => pure s | none => .error (.guard 71)
  let liquidator ← match e.tmpLiq with | some l => pure l | none => .error (.guard 74)
  let p := getPosition env e swap.vamm swap.trader swap.side
  let a ← Integer.mul swap.upnl (Integer.newPositive e.cfg.plr)
  let realized ← Integer.div a (Integer.newPositive e.cfg.decimals)
  let x ← cmul output e.cfg.liqFee
  let penalty ← cdiv x e.cfg.decimals
  let fee := penalty / 2
  let newSize ← if Integer.lt p.size Integer.zero then Integer.add p.size (Integer.newPositive input)
                else Integer.add p.size (Integer.newNegative input)
  let m1 ← csub p.margin realized.value
  let newMargin ← csub m1 penalty
  let newNotional ←
    if !newSize.negative then do
      let a ← csub p.notional swap.openNotional
      csub a realized.value
    else do
      let a ← cadd realized.value p.notional
      csub a swap.openNotional
  let p' : Position := { p with size := newSize, margin := newMargin, notional := newNotional }
  let (st, msgs) ← if fee ≠ 0 then do
      let (st', ms) ← unwrap (withdraw q e e.st liquidator fee 0)
      pure (st', transferMsg e.cfg e.cfg.insuranceFund fee :: ms)
    else pure (e.st, [])
  let e1 := storePosition e p'
  let e2 := enterRestrictionMode { e1 with st := st, tmpSwap := none, tmpLiq := none } swap.vamm env.height
  pure (e2, msgs)

/-- `pay_funding_reply` (reply id 8) -/
def payFundingReply (q : Q) (e : E) (_env : Env) (premiumFraction : Integer) (vamm : Nat) :
    Except Err (E × List SubMsg) := do
  let e1 ← appendCum e vamm premiumFraction
  let net ← q.vammNet vamm
  let a ← Integer.mul net premiumFraction
  let payment ← Integer.div a (Integer.newPositive e.cfg.decimals)
  if payment.isNegative ∧ !payment.isZero then
    pure (e1, [ifWithdrawMsg payment.value])
  else if payment.isPositive ∧ !payment.isZero then do
    let m ← transferToInsuranceFund q e1 payment.value
    pure (e1, [m])
  else pure (e1, [])

/-- the `reply` entry point: success arms -/
def replyOk (q : Q) (e : E) (env : Env) (id : Nat) (ev : Ev) : Except Err (E × List SubMsg) :=
  if id = REPLY_PAY_FUNDING then
    match ev with
    | .settle pf v => payFundingReply q e env pf v
    | _ => .error .panic
  else if 1 ≤ id ∧ id ≤ 7 then
    match ev with
    | .swap o =>
      -- `parse_swap`: input/output by the swap type
      let input := if o.isInput then o.quoteAmt else o.baseAmt
      let output := if o.isInput then o.baseAmt else o.quoteAmt
      if id = REPLY_INCREASE then updatePositionReply q e env input output REPLY_INCREASE
      else if id = REPLY_DECREASE then updatePositionReply q e env input output REPLY_DECREASE
      else if id = REPLY_REVERSE then reversePositionReply q e env output
      else if id = REPLY_CLOSE then closePositionReply q e env output
      else if id = REPLY_PARTIAL_CLOSE then partialClosePositionReply q e env input output
      else if id = REPLY_LIQUIDATION then liquidateReply q e env output
      else partialLiquidationReply q e env input output
    | _ => .error .panic
  else .error (.guard 75)

/-- the `reply` entry point: every failure arm returns an error -/
def replyErr (_e : E) (id : Nat) : Except Err (E × List SubMsg) := .error (.subcall id)

/-! ### execute entry point -/

inductive ExecMsg where
  | updateConfig (u : ConfigUpdate)
  | updatePauser (p : Nat)
  | addWhitelist (a : Nat)
  | removeWhitelist (a : Nat)
  | openPosition (vamm : Nat) (side : Side) (margin leverage baseLimit : Nat)
  | closePosition (vamm quoteLimit : Nat)
  | liquidate (vamm trader quoteLimit : Nat)
  | payFunding (vamm : Nat)
  | depositMargin (vamm amount : Nat)
  | withdrawMargin (vamm amount : Nat)
  | setPause (p : Bool)
  deriving Repr, DecidableEq, Inhabited

def execute (q : Q) (e : E) (env : Env) (sender : Nat) (funds : Funds) (m : ExecMsg) :
    Except Err (E × List SubMsg) :=
  match m with
  | .updateConfig u => (updateConfig e sender u).map (fun e' => (e', []))
  | .updatePauser p => (updatePauser e sender p).map (fun e' => (e', []))
  | .addWhitelist a => (addWhitelist e sender a).map (fun e' => (e', []))
  | .removeWhitelist a => (removeWhitelist e sender a).map (fun e' => (e', []))
  | .openPosition v s m l b => openPosition q e env sender funds v s m l b
  | .closePosition v l => closePosition q e env sender v l
  | .liquidate v t l => liquidate q e env sender v t l
  | .payFunding v => payFunding q e v
  | .depositMargin v a => depositMargin e env sender funds v a
  | .withdrawMargin v a => withdrawMargin q e env sender v a
  | .setPause p => (setPause e sender p).map (fun e' => (e', []))

end Engine
end Perp
