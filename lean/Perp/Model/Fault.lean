/-
  Fault injection: a copy of the host dispatcher (`World.execMsg` / `World.execSubs` / `World.applyTx`)
  with ONE injected failure.  A countdown `n : Option Nat` is threaded through the execution:
    `none`       no fault armed (or the fault was already consumed),
    `some 0`     the NEXT dispatched message fails instead of executing (`Err.guard 99`, no state change),
    `some (k+1)` armed for later: becomes `some k` after one dispatched message.
  "Dispatched message" = every call of `execMsgF` on a `Msg` (vAMM call, token transfer / transferFrom,
  bank send, insurance-fund withdrawal and the token / bank message the fund itself dispatches, and the
  host's bank send of the coins attached to an engine call), counted in execution order.

  The countdown has to survive a FAILED sub-message too (its error may be handled by a `reply`, and the
  sub-messages of that reply are dispatched with the countdown after the failure).  Therefore the error
  side of the two dispatcher functions carries the countdown as well (`FErr = Err × Option Nat`); the
  top-level `applyTxF` drops it and has the plain type `Except Err (World × Option Nat)`.
-/
import Perp.Model.World

namespace Perp.World

/-- error of the instrumented dispatcher: the error, and the countdown after the failure -/
abbrev FErr := Err × Option Nat

/-- the error of the injected failure -/
def FAULT : Err := .guard 99

/-- a contract-level failure (no message dispatched meanwhile): the countdown is the current one -/
def liftE {α : Type} (n : Option Nat) : Except Err α → Except FErr α
  | .ok a => .ok a
  | .error e => .error (e, n)

/-- forget the countdown of a failure -/
def dropE {α : Type} : Except FErr α → Except Err α
  | .ok a => .ok a
  | .error e => .error e.1

/-- the countdown after one dispatched message that did not fire: `some (k+1) ↦ some k`, `none ↦ none` -/
def tick (n : Option Nat) : Option Nat := n.map Nat.pred

mutual

/-- `execMsg` with the countdown `n`: the message is counted, fails if the countdown is `some 0`,
    otherwise executes as in `execMsg` with the countdown `tick n` -/
def execMsgF (fuel : Nat) (n : Option Nat) (w : World) (sender : Nat) (m : Msg) :
    Except FErr (World × Ev × Option Nat) :=
  match fuel with
  | 0 => .error (.panic, n)
  | fuel + 1 =>
    if n = some 0 then .error (FAULT, none) else
    let n1 := tick n
    match m with
    | .vammSwapInput a dir amt lim cgo => liftE n1 do
        let v ← w.vammE a
        let (v', o) ← Vamm.swapInput v w.env sender dir amt lim cgo
        pure (w.setVamm a v', .swap o, n1)
    | .vammSwapOutput a dir amt lim => liftE n1 do
        let v ← w.vammE a
        let (v', o) ← Vamm.swapOutput v w.env sender dir amt lim
        pure (w.setVamm a v', .swap o, n1)
    | .vammSettle a => liftE n1 do
        let v ← w.vammE a
        let (v', pf) ← Vamm.settleFunding v w.env sender (w.oracleTwap v.cfg.pricefeed v.cfg.twapInterval)
        pure (w.setVamm a v', .settle pf a, n1)
    | .vammSetOpen a o => liftE n1 do
        let v ← w.vammE a
        let v' ← Vamm.setOpen v w.env sender o
        pure (w.setVamm a v', .none, n1)
    | .tokenTransfer to amt => liftE n1 do
        let g ← w.ledger.tokenTransfer sender to amt
        pure ({ w with ledger := g, log := w.log ++ [(sender, to, amt)] }, .none, n1)
    | .tokenTransferFrom owner to amt =>
        if sender ≠ ENGINE then .error (.guard 91, n1) else liftE n1 do
        let g ← w.ledger.tokenTransferFrom owner to amt
        pure ({ w with ledger := g, log := w.log ++ [(owner, to, amt)] }, .none, n1)
    | .bankSend to amt => liftE n1 do
        let g ← w.ledger.bankSend sender to amt
        pure ({ w with ledger := g, log := w.log ++ [(sender, to, amt)] }, .none, n1)
    | .ifWithdraw amt =>
        if w.engine.cfg.insuranceFund ≠ IFUND then .error (.guard 95, n1)
        else if sender ≠ w.ifund.engine then .error (.unauthorized, n1)
        else
          let sub : SubMsg :=
            if w.engine.cfg.native then ⟨.bankSend w.ifund.engine amt, 0, .never⟩
            else ⟨.tokenTransfer w.ifund.engine amt, 0, .never⟩
          match execSubsF fuel n1 w IFUND [sub] with
          | .ok (w', n2) => .ok (w', .none, n2)
          | .error e => .error e

/-- `execSubs` with the countdown `n` -/
def execSubsF (fuel : Nat) (n : Option Nat) (w : World) (c : Nat) (subs : List SubMsg) :
    Except FErr (World × Option Nat) :=
  match fuel with
  | 0 => .error (.panic, n)
  | fuel + 1 =>
    match subs with
    | [] => .ok (w, n)
    | s :: rest =>
      match execMsgF fuel n w c s.msg with
      | .ok (w1, ev, n1) =>
        if s.replyOn = .always ∨ s.replyOn = .success then
          if c ≠ ENGINE then .error (.panic, n1) else
          match Engine.replyOk w1.q w1.engine w1.env s.id ev with
          | .ok (e2, subs2) =>
            match execSubsF fuel n1 { w1 with engine := e2 } c subs2 with
            | .ok (w3, n3) => execSubsF fuel n3 w3 c rest
            | .error err => .error err
          | .error err => .error (err, n1)
        else execSubsF fuel n1 w1 c rest
      | .error (err, n1) =>
        -- `n1`: the countdown AFTER the failure (a fired fault stays consumed)
        if s.replyOn = .always ∨ s.replyOn = .error then
          if c ≠ ENGINE then .error (.panic, n1) else
          -- the sub-call's effects are discarded; the reply runs on the state before it
          match Engine.replyErr w.engine s.id with
          | .ok (e2, subs2) =>
            match execSubsF fuel n1 { w with engine := e2 } c subs2 with
            | .ok (w3, n3) => execSubsF fuel n3 w3 c rest
            | .error err2 => .error err2
          | .error err2 => .error (err2, n1)
        else .error (err, n1)

end

/-- `applyTx` with the countdown `n`, the countdown of a failure still attached -/
def applyTxFE (n : Option Nat) (w0 : World) (env : Env) (sender : Nat) (funds : Engine.Funds) (tx : Tx) :
    Except FErr (World × Option Nat) :=
  let w := { w0 with env := env, log := [] }
  let msgF (m : Msg) : Except FErr (World × Option Nat) :=
    match execMsgF FUEL n w sender m with
    | .ok (w', _, n') => .ok (w', n')
    | .error e => .error e
  match tx with
  | .engine m =>
      -- `execute_wasm`: first move the attached cash (one dispatched message when it happens)
      match (if w.engine.cfg.native ∧ funds.amount ≠ 0 then msgF (.bankSend ENGINE funds.amount)
             else .ok (w, n)) with
      | .ok (w, n) =>
        match Engine.execute w.q w.engine env sender funds m with
        | .ok (e', subs) => execSubsF FUEL n { w with engine := e' } ENGINE subs
        | .error e => .error (e, n)
      | .error e => .error e
  | .vammSwapInput v dir amt lim cgo => msgF (.vammSwapInput v dir amt lim cgo)
  | .vammSwapOutput v dir amt lim => msgF (.vammSwapOutput v dir amt lim)
  | .vammSettle v => msgF (.vammSettle v)
  | .vammSetOpen v o => msgF (.vammSetOpen v o)
  | .ifShutdown =>
      if sender ≠ w.ifund.owner ∧ sender ≠ IFUND then .error (.unauthorized, n)
      else if !w.ifund.stored then .error (.guard 83, n)
      else execSubsF FUEL n w IFUND ((w.ifund.vamms.take Insurance.VAMM_LIMIT).map (fun v => ⟨.vammSetOpen v false, 0, .never⟩))
  | .ifWithdraw amt => msgF (.ifWithdraw amt)
  | .fpSend tok amt to =>
      if amt = 0 then .error (.guard 88, n)
      else if sender ≠ w.feePool.owner then .error (.unauthorized, n)
      else if !w.feePool.tokens.contains tok then .error (.guard 89, n)
      else if tok ≠ w.collateralTok then .error (.guard 89, n)
      else if w.ledger.balance FEEPOOL < amt then .error (.guard 92, n)
      else execSubsF FUEL n w FEEPOOL
        [if tok = 0 then ⟨.bankSend to amt, 0, .never⟩ else ⟨.tokenTransfer to amt, 0, .never⟩]
  | .tokenTransfer to amt =>
      if w.engine.cfg.native then .error (.guard 95, n)
      else msgF (.tokenTransfer to amt)
  | .bankSend to amt =>
      if !w.engine.cfg.native then .error (.guard 95, n)
      else msgF (.bankSend to amt)
  -- the remaining transactions (configuration / ownership / registry updates, oracle rounds, cw20
  -- allowances) dispatch no message: they run as in `applyTx`, the countdown is untouched
  | tx => liftE n ((applyTx w0 env sender funds tx).map (fun w' => (w', n)))

/-- one transaction with ONE injected failure at the `k`-th dispatched message (`n = some k`), or none -/
def applyTxF (n : Option Nat) (w0 : World) (env : Env) (sender : Nat) (funds : Engine.Funds) (tx : Tx) :
    Except Err (World × Option Nat) :=
  dropE (applyTxFE n w0 env sender funds tx)

/-- the transactional step under an injected failure (a failed transaction changes nothing but the clock) -/
def stepF (n : Option Nat) (w : World) (env : Env) (sender : Nat) (funds : Engine.Funds) (tx : Tx) : World :=
  match applyTxF n w env sender funds tx with
  | .ok r => r.1
  | .error _ => { w with env := env, log := [] }

end Perp.World
