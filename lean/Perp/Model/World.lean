/-
  The closed world: all five contracts + the collateral ledger + the host's message dispatcher
  (cw-multi-test 0.13.4 `execute_wasm` / `process_response` / `execute_submsg` / `_reply`):
  depth-first, each sub-message in its own transactional cache, `reply` called according to
  `ReplyOn`, a failing top-level call leaves the world unchanged.
  Fixed address ids: engine 1, insurance fund 2, fee pool 3, pricefeed 4, cw20 token 5, vAMMs 10.., users ≥ 100.
-/
import Perp.Model.Engine
import Perp.Model.Pricefeed

namespace Perp

def ENGINE : Nat := 1
def IFUND : Nat := 2
def FEEPOOL : Nat := 3
def FEED : Nat := 4
def TOKEN : Nat := 5

/-! ### small contracts -/

namespace Insurance

structure S where
  owner : Nat
  engine : Nat
  vamms : List Nat          -- stored order
  /-- the list item exists in storage (`may_load` answers `Some`): true once a vAMM was ever added,
      also after the last one was removed again — `ShutdownVamms` tells the two apart -/
  stored : Bool
  deriving Repr, DecidableEq, Inhabited

def VAMM_LIMIT : Nat := 3

/-- `save_vamm` (after the owner and decimals checks of `add_vamm`) -/
def addVamm (s : S) (sender vamm : Nat) (engineDecimals vammDecimals : Except Err Nat) : Except Err S :=
  if sender ≠ s.owner then .error .unauthorized else do
  let ed ← engineDecimals
  let vd ← vammDecimals
  if ed ≠ vd then .error (.guard 80)
  else if s.vamms.contains vamm then .error (.guard 81)
  else if s.vamms.length ≥ VAMM_LIMIT then .error (.guard 82)
  else pure { s with vamms := s.vamms ++ [vamm], stored := true }

/-- `Vec::swap_remove` -/
def swapRemove (l : List Nat) (x : Nat) : List Nat :=
  match l.getLast? with
  | none => []
  | some last =>
    let init := l.dropLast
    if last = x ∧ ¬ init.contains x then init
    else
      -- replace the first occurrence of x by the last element, drop the last
      let rec go : List Nat → List Nat
        | [] => []
        | y :: ys => if y = x then last :: ys else y :: go ys
      go init

def removeVamm (s : S) (sender vamm : Nat) : Except Err S :=
  if sender ≠ s.owner then .error .unauthorized
  else if !s.stored then .error (.guard 83)
  else if !s.vamms.contains vamm then .error (.guard 84)
  else .ok { s with vamms := swapRemove s.vamms vamm }

def updateOwner (s : S) (sender n : Nat) : Except Err S :=
  if sender ≠ s.owner then .error .unauthorized else .ok { s with owner := n }

end Insurance

namespace FeePool

structure S where
  owner : Nat
  tokens : List Nat        -- 0 = the native denom, 5 = the cw20 token
  deriving Repr, DecidableEq, Inhabited

def TOKEN_LIMIT : Nat := 3

def addToken (s : S) (sender tok : Nat) : Except Err S :=
  if sender ≠ s.owner then .error .unauthorized
  else if s.tokens.contains tok then .error (.guard 85)
  else if s.tokens.length ≥ TOKEN_LIMIT then .error (.guard 86)
  else .ok { s with tokens := s.tokens ++ [tok] }

def removeToken (s : S) (sender tok : Nat) : Except Err S :=
  if sender ≠ s.owner then .error .unauthorized
  else if !s.tokens.contains tok then .error (.guard 87)
  else .ok { s with tokens := Insurance.swapRemove s.tokens tok }

def updateOwner (s : S) (sender n : Nat) : Except Err S :=
  if sender ≠ s.owner then .error .unauthorized else .ok { s with owner := n }

end FeePool

/-! ### collateral ledger (bank module for a native denom, cw20-base for a token) -/

structure Ledger where
  bal : List (Nat × Nat)
  allow : List (Nat × Nat)       -- allowance granted to the engine, per owner
  deriving Repr, DecidableEq, Inhabited

namespace Ledger

def get (l : List (Nat × Nat)) (a : Nat) : Nat :=
  match l.find? (fun p => p.1 == a) with
  | some p => p.2
  | none => 0

def set (l : List (Nat × Nat)) (a v : Nat) : List (Nat × Nat) :=
  (a, v) :: l.filter (fun p => p.1 != a)

def balance (g : Ledger) (a : Nat) : Nat := get g.bal a

/-- move `amt` from `src` to `dst` (checked like `Uint128`) -/
def move (g : Ledger) (src dst amt : Nat) : Except Err Ledger :=
  if balance g src < amt then .error .overflow
  else
    let b1 := set g.bal src (balance g src - amt)
    let g1 := { g with bal := b1 }
    if balance g1 dst + amt > U128.MAX then .error .overflow
    else .ok { g1 with bal := set g1.bal dst (balance g1 dst + amt) }

/-- cw20 `Transfer` (cw20-base rejects a zero amount) -/
def tokenTransfer (g : Ledger) (src dst amt : Nat) : Except Err Ledger :=
  if amt = 0 then .error (.guard 90) else move g src dst amt

/-- cw20 `TransferFrom` by the engine as spender -/
def tokenTransferFrom (g : Ledger) (owner dst amt : Nat) : Except Err Ledger :=
  if amt = 0 then .error (.guard 90)
  else if get g.allow owner < amt then .error (.guard 91)
  else move { g with allow := set g.allow owner (get g.allow owner - amt) } owner dst amt

/-- bank `Send` (cw-multi-test filters zero coins out and rejects an empty send) -/
def bankSend (g : Ledger) (src dst amt : Nat) : Except Err Ledger :=
  if amt = 0 then .error (.guard 90) else move g src dst amt

end Ledger

/-! ### the world -/

inductive FeedS where
  | mock (m : Pricefeed.Mock)
  | real (f : Pricefeed.Feed)
  deriving Repr, DecidableEq, Inhabited

structure World where
  env : Env
  engine : Engine.E
  vamms : List (Nat × Vamm.V)
  ifund : Insurance.S
  feePool : FeePool.S
  feed : FeedS
  ledger : Ledger
  /-- ghost: collateral transfers executed so far in the current transaction (from, to, amount), in order -/
  log : List (Nat × Nat × Nat) := []
  deriving Repr, DecidableEq, Inhabited

namespace World

def FEED_KEY : Nat := 1

def vamm? (w : World) (a : Nat) : Option Vamm.V :=
  match w.vamms.find? (fun p => p.1 == a) with
  | some p => some p.2
  | none => none

def setVamm (w : World) (a : Nat) (v : Vamm.V) : World :=
  { w with vamms := w.vamms.map (fun p => if p.1 == a then (a, v) else p) }

def vammE (w : World) (a : Nat) : Except Err Vamm.V :=
  match w.vamm? a with
  | some v => .ok v
  | none => .error (.guard 95)      -- not a contract: the query / call fails

/-- the feed's answer to `GetPrice` as the vAMM parses it (a bare number) -/
def oraclePrice (w : World) (feedAddr : Nat) : Except Err Nat :=
  if feedAddr ≠ FEED then .error (.guard 95) else
  match w.feed with
  | .mock m => m.get
  | .real _ => .error (.guard 96)   -- the real feed answers with a record; `Uint128` parse fails

/-- the feed's answer to `GetTwapPrice{interval}` -/
def oracleTwap (w : World) (feedAddr interval : Nat) : Except Err Nat :=
  if feedAddr ≠ FEED then .error (.guard 95) else
  match w.feed with
  | .mock m => m.get
  | .real f => Pricefeed.getTwap (Pricefeed.readRounds (f.lookup FEED_KEY)) w.env.time interval

/-- the engine's queriers, closed over the world -/
def q (w : World) : Engine.Q where
  isVamm := fun v => if w.engine.cfg.insuranceFund = IFUND then .ok (w.ifund.vamms.contains v) else .error (.guard 95)
  vammOpen := fun v => (w.vammE v).map (·.st.isOpen)
  vammNet := fun v => (w.vammE v).map (·.st.net)
  vammCaps := fun v => (w.vammE v).map (fun x => (x.cfg.holdingCap, x.cfg.oiCap))
  outputAmount := fun v d a => do let x ← w.vammE v; Vamm.queryOutputAmount x d a
  outputTwap := fun v d a => do let x ← w.vammE v; Vamm.queryOutputTwap x w.env d a
  calcFee := fun v a => do let x ← w.vammE v; Vamm.queryCalcFee x a
  isOverSpread := fun v => do let x ← w.vammE v; Vamm.queryIsOverSpreadLimit x (w.oraclePrice x.cfg.pricefeed)
  underlyingPrice := fun v => do let x ← w.vammE v; w.oraclePrice x.cfg.pricefeed
  isOverFluct := fun v d a => do let x ← w.vammE v; Vamm.queryIsOverFluctuationLimit x w.env d a
  balance := fun a => .ok (w.ledger.balance a)

-- cw-multi-test dispatcher.  `fuel` bounds the nesting depth of sub-messages.
mutual

/-- execute one message sent by contract `sender`; returns the callee's reply-visible event -/
def execMsg (fuel : Nat) (w : World) (sender : Nat) (m : Msg) : Except Err (World × Ev) :=
  match fuel with
  | 0 => .error .panic
  | fuel + 1 =>
    match m with
    | .vammSwapInput a dir amt lim cgo => do
        let v ← w.vammE a
        let (v', o) ← Vamm.swapInput v w.env sender dir amt lim cgo
        pure (w.setVamm a v', .swap o)
    | .vammSwapOutput a dir amt lim => do
        let v ← w.vammE a
        let (v', o) ← Vamm.swapOutput v w.env sender dir amt lim
        pure (w.setVamm a v', .swap o)
    | .vammSettle a => do
        let v ← w.vammE a
        let (v', pf) ← Vamm.settleFunding v w.env sender (w.oracleTwap v.cfg.pricefeed v.cfg.twapInterval)
        pure (w.setVamm a v', .settle pf a)
    | .vammSetOpen a o => do
        let v ← w.vammE a
        let v' ← Vamm.setOpen v w.env sender o
        pure (w.setVamm a v', .none)
    | .tokenTransfer to amt => do
        let g ← w.ledger.tokenTransfer sender to amt
        pure ({ w with ledger := g, log := w.log ++ [(sender, to, amt)] }, .none)
    | .tokenTransferFrom owner to amt =>
        -- only the engine holds allowances in this model
        if sender ≠ ENGINE then .error (.guard 91) else do
        let g ← w.ledger.tokenTransferFrom owner to amt
        pure ({ w with ledger := g, log := w.log ++ [(owner, to, amt)] }, .none)
    | .bankSend to amt => do
        let g ← w.ledger.bankSend sender to amt
        pure ({ w with ledger := g, log := w.log ++ [(sender, to, amt)] }, .none)
    | .ifWithdraw amt =>
        -- insurance fund `withdraw`: only the engine; pays the engine; ReplyOn::Never
        if w.engine.cfg.insuranceFund ≠ IFUND then .error (.guard 95)
        else if sender ≠ w.ifund.engine then .error .unauthorized
        else do
          let sub : SubMsg :=
            if w.engine.cfg.native then ⟨.bankSend w.ifund.engine amt, 0, .never⟩
            else ⟨.tokenTransfer w.ifund.engine amt, 0, .never⟩
          let w' ← execSubs fuel w IFUND [sub]
          pure (w', .none)

/-- `process_response`: run the sub-messages of contract `c` in order -/
def execSubs (fuel : Nat) (w : World) (c : Nat) (subs : List SubMsg) : Except Err World :=
  match fuel with
  | 0 => .error .panic
  | fuel + 1 =>
    match subs with
    | [] => .ok w
    | s :: rest =>
      match execMsg fuel w c s.msg with
      | .ok (w1, ev) =>
        if s.replyOn = .always ∨ s.replyOn = .success then
          -- only the engine implements `reply`
          if c ≠ ENGINE then .error .panic else
          match Engine.replyOk w1.q w1.engine w1.env s.id ev with
          | .ok (e2, subs2) =>
            match execSubs fuel { w1 with engine := e2 } c subs2 with
            | .ok w3 => execSubs fuel w3 c rest
            | .error err => .error err
          | .error err => .error err
        else execSubs fuel w1 c rest
      | .error err =>
        if s.replyOn = .always ∨ s.replyOn = .error then
          if c ≠ ENGINE then .error .panic else
          -- the sub-call's effects are discarded; the reply runs on the state before it
          match Engine.replyErr w.engine s.id with
          | .ok (e2, subs2) =>
            match execSubs fuel { w with engine := e2 } c subs2 with
            | .ok w3 => execSubs fuel w3 c rest
            | .error err2 => .error err2
          | .error err2 => .error err2
        else .error err

end

def FUEL : Nat := 40

/-! ### top-level transactions -/

inductive Tx where
  | engine (m : Engine.ExecMsg)
  | vammSwapInput (v : Nat) (dir : Direction) (amt lim : Nat) (cgo : Bool)
  | vammSwapOutput (v : Nat) (dir : Direction) (amt lim : Nat)
  | vammSettle (v : Nat)
  | vammSetOpen (v : Nat) (o : Bool)
  | vammConfig (v : Nat) (u : Vamm.ConfigUpdate)
  | vammOwner (v : Nat) (n : Nat)
  | ifAdd (v : Nat)
  | ifRemove (v : Nat)
  | ifShutdown
  | ifWithdraw (amt : Nat)
  | ifOwner (n : Nat)
  | fpAdd (tok : Nat)
  | fpRemove (tok : Nat)
  | fpSend (tok amt to : Nat)
  | fpOwner (n : Nat)
  | oracle (price ts : Nat)
  | feedOwner (n : Nat)
  | tokenApprove (amt : Nat)
  | tokenDecrease (amt : Nat)
  | tokenTransfer (to amt : Nat)
  | bankSend (to amt : Nat)
  deriving Repr, Inhabited

/-- the collateral's token id as the fee pool lists it -/
def collateralTok (w : World) : Nat := if w.engine.cfg.native then 0 else TOKEN

/-- one transaction by `sender` with `funds` attached, in block `env`.  An error leaves the world
    unchanged (the caller keeps `w`). -/
def applyTx (w0 : World) (env : Env) (sender : Nat) (funds : Engine.Funds) (tx : Tx) : Except Err World :=
  let w := { w0 with env := env, log := [] }
  match tx with
  | .engine m => do
      -- `execute_wasm`: first move the attached cash (native collateral only; nothing attached = no send)
      let w ← if w.engine.cfg.native ∧ funds.amount ≠ 0 then
          (execMsg FUEL w sender (.bankSend ENGINE funds.amount)).map (·.1)
        else pure w
      let (e', subs) ← Engine.execute w.q w.engine env sender funds m
      execSubs FUEL { w with engine := e' } ENGINE subs
  | .vammSwapInput v dir amt lim cgo => (execMsg FUEL w sender (.vammSwapInput v dir amt lim cgo)).map (·.1)
  | .vammSwapOutput v dir amt lim => (execMsg FUEL w sender (.vammSwapOutput v dir amt lim)).map (·.1)
  | .vammSettle v => (execMsg FUEL w sender (.vammSettle v)).map (·.1)
  | .vammSetOpen v o => (execMsg FUEL w sender (.vammSetOpen v o)).map (·.1)
  | .vammConfig v u => do
      let x ← w.vammE v
      let x' ← Vamm.updateConfig x sender u
      pure (w.setVamm v x')
  | .vammOwner v n => do
      let x ← w.vammE v
      let x' ← Vamm.updateOwner x sender n
      pure (w.setVamm v x')
  | .ifAdd v => do
      let s ← Insurance.addVamm w.ifund sender v
                (if w.ifund.engine = ENGINE then .ok w.engine.cfg.decimals else .error (.guard 95))
                ((w.vammE v).map (·.cfg.decimals))
      pure { w with ifund := s }
  | .ifRemove v => do
      let s ← Insurance.removeVamm w.ifund sender v
      pure { w with ifund := s }
  | .ifShutdown =>
      if sender ≠ w.ifund.owner ∧ sender ≠ IFUND then .error .unauthorized
      else if !w.ifund.stored then .error (.guard 83)
      else execSubs FUEL w IFUND ((w.ifund.vamms.take Insurance.VAMM_LIMIT).map (fun v => ⟨.vammSetOpen v false, 0, .never⟩))
  | .ifWithdraw amt => (execMsg FUEL w sender (.ifWithdraw amt)).map (·.1)
  | .ifOwner n => do
      let s ← Insurance.updateOwner w.ifund sender n
      pure { w with ifund := s }
  | .fpAdd tok => do
      let s ← FeePool.addToken w.feePool sender tok
      pure { w with feePool := s }
  | .fpRemove tok => do
      let s ← FeePool.removeToken w.feePool sender tok
      pure { w with feePool := s }
  | .fpSend tok amt to =>
      if amt = 0 then .error (.guard 88)
      else if sender ≠ w.feePool.owner then .error .unauthorized
      else if !w.feePool.tokens.contains tok then .error (.guard 89)
      else if tok ≠ w.collateralTok then .error (.guard 89)      -- only the collateral is modelled
      else if w.ledger.balance FEEPOOL < amt then .error (.guard 92)
      else execSubs FUEL w FEEPOOL
        [if tok = 0 then ⟨.bankSend to amt, 0, .never⟩ else ⟨.tokenTransfer to amt, 0, .never⟩]
  | .fpOwner n => do
      let s ← FeePool.updateOwner w.feePool sender n
      pure { w with feePool := s }
  | .oracle price ts =>
      match w.feed with
      | .mock m => .ok { w with feed := .mock { m with price := some price } }
      | .real f => do
          let f' ← Pricefeed.appendPrice f sender FEED_KEY price ts
          pure { w with feed := .real f' }
  | .feedOwner n =>
      match w.feed with
      | .mock m => if sender ≠ m.owner then .error .unauthorized else .ok { w with feed := .mock { m with owner := n } }
      | .real f => do
          let f' ← Pricefeed.updateOwner f sender n
          pure { w with feed := .real f' }
  | .tokenApprove amt =>
      if w.engine.cfg.native then .error (.guard 95)
      else if amt = 0 then .ok w    -- cw20-base accepts a zero increase
      else if Ledger.get w.ledger.allow sender + amt > U128.MAX then .error .overflow
      else .ok { w with ledger := { w.ledger with allow := Ledger.set w.ledger.allow sender (Ledger.get w.ledger.allow sender + amt) } }
  | .tokenDecrease amt =>
      if w.engine.cfg.native then .error (.guard 95)
      else
        let cur := Ledger.get w.ledger.allow sender
        -- cw20-base loads the allowance record; it is removed when it reaches zero by a decrease
        if cur = 0 then .error (.guard 93) else
        .ok { w with ledger := { w.ledger with allow := Ledger.set w.ledger.allow sender (if amt < cur then cur - amt else 0) } }
  | .tokenTransfer to amt =>
      if w.engine.cfg.native then .error (.guard 95)
      else (execMsg FUEL w sender (.tokenTransfer to amt)).map (·.1)
  | .bankSend to amt =>
      if !w.engine.cfg.native then .error (.guard 95)
      else (execMsg FUEL w sender (.bankSend to amt)).map (·.1)

/-- transactional step: a failed transaction changes nothing but the clock -/
def step (w : World) (env : Env) (sender : Nat) (funds : Engine.Funds) (tx : Tx) : World :=
  match applyTx w env sender funds tx with
  | .ok w' => w'
  | .error _ => { w with env := env, log := [] }

end World
end Perp
