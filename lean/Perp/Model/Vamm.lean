/-
  Model of `contracts/margined_vamm` (handle.rs, utils.rs, query.rs, contract.rs, state.rs).
  Addresses are `Nat` ids.  Reserve snapshots are kept newest-first (the code indexes them
  1..counter and walks downwards; `snaps.head` is snapshot `counter`).
-/
import Perp.Model.Integer

namespace Perp

inductive Direction where
  | addToAmm | removeFromAmm
  deriving Repr, DecidableEq, Inhabited

def Direction.flip : Direction → Direction
  | .addToAmm => .removeFromAmm
  | .removeFromAmm => .addToAmm

structure Env where
  height : Nat
  time : Nat       -- seconds
  deriving Repr, DecidableEq, Inhabited

namespace Vamm

structure Snapshot where
  quote : Nat
  base : Nat
  timestamp : Nat
  height : Nat
  deriving Repr, DecidableEq, Inhabited

structure Config where
  owner : Nat
  marginEngine : Nat
  insuranceFund : Nat
  pricefeed : Nat
  holdingCap : Nat
  oiCap : Nat
  decimals : Nat            -- 10^dp
  toll : Nat
  spread : Nat
  fluct : Nat
  twapInterval : Nat
  fundingPeriod : Nat
  fundingBuffer : Nat
  deriving Repr, DecidableEq, Inhabited

structure State where
  isOpen : Bool
  quote : Nat
  base : Nat
  net : Integer              -- total_position_size
  fundingRate : Integer
  nextFunding : Nat
  snaps : List Snapshot      -- newest first, never empty after instantiate
  deriving Repr, DecidableEq, Inhabited

structure V where
  cfg : Config
  st : State
  deriving Repr, DecidableEq, Inhabited

def ONE_MINUTE : Nat := 60
def ONE_HOUR : Nat := 3600
def ONE_DAY : Nat := 86400
def ONE_WEEK : Nat := 604800
def FIFTEEN_MINUTES : Nat := 900

/-! ### pricing -/

/-- `utils::modulo`: `a*d - b*((a*d)/b)`; the multiplication is `checked_mul().unwrap()`. -/
def modulo (a b d : Nat) : Except Err Nat :=
  if a * d ≤ U128.MAX then
    if b = 0 then .error .panic else .ok (a * d - b * ((a * d) / b))
  else .error .panic

/-- `get_input_price_with_reserves` -/
def getInputPrice (D : Nat) (dir : Direction) (quoteAmt qR bR : Nat) : Except Err Nat :=
  if quoteAmt = 0 then .ok 0 else do
    let xy ← cmul qR bR
    let k ← cdiv xy D
    let qAfter ← match dir with
      | .addToAmm => cadd qR quoteAmt
      | .removeFromAmm => csub qR quoteAmt
    let kd ← cmul k D
    let bAfter ← cdiv kd qAfter
    let bought := if bAfter > bR then bAfter - bR else bR - bAfter
    let rem ← modulo k qAfter D
    if rem ≠ 0 then
      match dir with
      | .addToAmm => csub bought 1
      | .removeFromAmm => cadd bought 1
    else pure bought

/-- `get_output_price_with_reserves` -/
def getOutputPrice (D : Nat) (dir : Direction) (baseAmt qR bR : Nat) : Except Err Nat :=
  if baseAmt = 0 then .ok 0 else do
    let xy ← cmul qR bR
    let k ← cdiv xy D
    let bAfter ← match dir with
      | .addToAmm => cadd bR baseAmt
      | .removeFromAmm => csub bR baseAmt
    let kd ← cmul k D
    let qAfter ← cdiv kd bAfter
    let sold := if qAfter > qR then qAfter - qR else qR - qAfter
    let rem ← modulo k bAfter D
    if rem ≠ 0 then
      match dir with
      | .addToAmm => csub sold 1
      | .removeFromAmm => cadd sold 1
    else pure sold

/-- price `quote * D / base` (checked) -/
def priceOf (D q b : Nat) : Except Err Nat := do
  let x ← cmul q D
  cdiv x b

/-! ### fluctuation band -/

/-- `price_boundaries_of_last_block` → (upper, lower) -/
def priceBoundaries (cfg : Config) (snaps : List Snapshot) (env : Env) : Except Err (Nat × Nat) :=
  match snaps with
  | [] => .error .panic
  | s :: rest =>
    let latest := match rest with
      | s2 :: _ => if s.height = env.height then s2 else s
      | [] => s
    do
      let last ← priceOf cfg.decimals latest.quote latest.base
      let up ← cadd cfg.decimals cfg.fluct
      let upper ← (do let x ← cmul last up; cdiv x cfg.decimals)
      let dn ← csub cfg.decimals cfg.fluct
      let lower ← (do let x ← cmul last dn; cdiv x cfg.decimals)
      pure (upper, lower)

/-- `check_is_over_block_fluctuation_limit` (direction = the reserve-update direction) -/
def checkFluctuation (v : V) (env : Env) (dir : Direction) (quoteAmt baseAmt : Nat) (canGoOver : Bool) :
    Except Err Unit :=
  if v.cfg.fluct = 0 then .ok () else do
    let (upper, lower) ← priceBoundaries v.cfg v.st.snaps env
    let cur ← priceOf v.cfg.decimals v.st.quote v.st.base
    if cur > upper ∨ cur < lower then .error (.guard 20)
    else if !canGoOver then do
      let price ← match dir with
        | .addToAmm => do
            let q ← cadd v.st.quote quoteAmt
            let x ← cmul q v.cfg.decimals
            let b ← csub v.st.base baseAmt
            cdiv x b
        | .removeFromAmm => do
            let q ← csub v.st.quote quoteAmt
            let x ← cmul q v.cfg.decimals
            let b ← cadd v.st.base baseAmt
            cdiv x b
      if price > upper ∨ price < lower then .error (.guard 21) else pure ()
    else pure ()

/-- `add_reserve_snapshot` -/
def addSnapshot (snaps : List Snapshot) (env : Env) (q b : Nat) : List Snapshot :=
  match snaps with
  | [] => [⟨q, b, env.time, env.height⟩]
  | s :: rest =>
    if s.height = env.height then ⟨q, b, s.timestamp, s.height⟩ :: rest
    else ⟨q, b, env.time, env.height⟩ :: s :: rest

/-- `update_reserve` -/
def updateReserve (v : V) (env : Env) (dir : Direction) (quoteAmt baseAmt : Nat) (canGoOver : Bool) :
    Except Err V := do
  checkFluctuation v env dir quoteAmt baseAmt canGoOver
  let (q, b, net) ← match dir with
    | .addToAmm => do
        let q ← cadd v.st.quote quoteAmt
        let b ← csub v.st.base baseAmt
        let n ← Integer.add v.st.net (Integer.newPositive baseAmt)
        pure (q, b, n)
    | .removeFromAmm => do
        let b ← cadd v.st.base baseAmt
        let q ← csub v.st.quote quoteAmt
        let n ← Integer.sub v.st.net (Integer.newPositive baseAmt)
        pure (q, b, n)
  pure { v with st := { v.st with quote := q, base := b, net := net,
                                   snaps := addSnapshot v.st.snaps env q b } }

/-! ### swaps -/

/-- what the engine parses from the swap's `wasm` event -/
structure SwapOut where
  isInput : Bool       -- type = "input" | "output"
  quoteAmt : Nat
  baseAmt : Nat
  deriving Repr, DecidableEq, Inhabited

def requireOpen (v : V) : Except Err Unit := if v.st.isOpen then .ok () else .error (.guard 10)
def requireEngine (v : V) (sender : Nat) : Except Err Unit :=
  if sender = v.cfg.marginEngine then .ok () else .error .unauthorized

/-- `swap_input` -/
def swapInput (v : V) (env : Env) (sender : Nat) (dir : Direction) (quoteAmt baseLimit : Nat)
    (canGoOver : Bool) : Except Err (V × SwapOut) := do
  requireOpen v
  requireEngine v sender
  let baseAmt ← if quoteAmt ≠ 0 then do
      let b ← getInputPrice v.cfg.decimals dir quoteAmt v.st.quote v.st.base
      if baseLimit ≠ 0 then
        if dir = .addToAmm ∧ b < baseLimit then .error (.guard 11)
        else if dir = .removeFromAmm ∧ b > baseLimit then .error (.guard 12)
        else pure b
      else pure b
    else pure 0
  let v' ← updateReserve v env dir quoteAmt baseAmt canGoOver
  pure (v', ⟨true, quoteAmt, baseAmt⟩)

/-- `swap_output` -/
def swapOutput (v : V) (env : Env) (sender : Nat) (dir : Direction) (baseAmt quoteLimit : Nat) :
    Except Err (V × SwapOut) := do
  requireOpen v
  requireEngine v sender
  let upd := dir.flip
  let quoteAmt ← if baseAmt ≠ 0 then do
      let q ← getOutputPrice v.cfg.decimals dir baseAmt v.st.quote v.st.base
      if quoteLimit ≠ 0 then
        if upd = .removeFromAmm ∧ q < quoteLimit then .error (.guard 13)
        else if upd = .addToAmm ∧ q > quoteLimit then .error (.guard 14)
        else pure q
      else pure q
    else pure 0
  let v' ← updateReserve v env upd quoteAmt baseAmt true
  pure (v', ⟨false, quoteAmt, baseAmt⟩)

/-! ### TWAP -/

inductive TwapOpt where
  | reserve
  | input (dir : Direction) (amount : Nat) (quoteIn : Bool)
  deriving Repr, DecidableEq, Inhabited

/-- `get_price_with_specific_snapshot` -/
def snapPrice (D : Nat) (opt : TwapOpt) (s : Snapshot) : Except Err Nat :=
  match opt with
  | .reserve => priceOf D s.quote s.base
  | .input dir amount quoteIn =>
    if amount = 0 then .ok 0
    else if quoteIn then getInputPrice D dir amount s.quote s.base
    else getOutputPrice D dir amount s.quote s.base

/-- the `loop` of `calc_twap` over the older snapshots (newest first) -/
def twapLoop (D : Nat) (opt : TwapOpt) (baseTs interval : Nat) :
    List Snapshot → (prevTs period weighted : Nat) → Except Err Nat
  | [], _, period, weighted => cdiv weighted period          -- history too short
  | s :: rest, prevTs, period, weighted => do
    let p ← snapPrice D opt s
    if s.timestamp ≤ baseTs then
      -- unwraps: overflow / underflow panic
      if prevTs < baseTs then .error .panic
      else if p * (prevTs - baseTs) > U128.MAX then .error .panic
      else if weighted + p * (prevTs - baseTs) > U128.MAX then .error .panic
      else cdiv (weighted + p * (prevTs - baseTs)) interval
    else
      if prevTs < s.timestamp then .error .panic
      else if p * (prevTs - s.timestamp) > U128.MAX then .error .panic
      else if weighted + p * (prevTs - s.timestamp) > U128.MAX then .error .panic
      else if period + (prevTs - s.timestamp) > U128.MAX then .error .panic
      else twapLoop D opt baseTs interval rest s.timestamp (period + (prevTs - s.timestamp))
             (weighted + p * (prevTs - s.timestamp))

/-- `calc_twap` -/
def calcTwap (D : Nat) (snaps : List Snapshot) (env : Env) (opt : TwapOpt) (interval : Nat) :
    Except Err Nat :=
  match snaps with
  | [] => .error .panic
  | s :: rest => do
    let cur ← snapPrice D opt s
    if interval = 0 then pure cur
    else if env.time < interval then .error .panic
    else
      let baseTs := env.time - interval
      if rest.isEmpty ∨ s.timestamp ≤ baseTs then pure cur
      else if env.time < s.timestamp then .error .panic
      else do
        let period := env.time - s.timestamp
        let w ← cmul cur period
        twapLoop D opt baseTs interval rest s.timestamp period w

/-! ### funding, open/close, configuration -/

/-- `settle_funding`; `underlyingTwap` is the oracle's answer to `GetTwapPrice{interval}`. -/
def settleFunding (v : V) (env : Env) (sender : Nat) (underlyingTwap : Except Err Nat) :
    Except Err (V × Integer) := do
  requireOpen v
  requireEngine v sender
  if env.time < v.st.nextFunding then .error (.guard 15) else do
  let underlying ← underlyingTwap
  let index ← calcTwap v.cfg.decimals v.st.snaps env .reserve v.cfg.twapInterval
  let premium ← Integer.checkedSub (Integer.newPositive index) (Integer.newPositive underlying)
  let pm ← Integer.checkedMul premium (Integer.newPositive v.cfg.fundingPeriod)
  let premiumFraction ← Integer.checkedDiv pm (Integer.newPositive ONE_DAY)
  let fr ← Integer.checkedMul premiumFraction (Integer.newPositive v.cfg.decimals)
  let fundingRate ← Integer.checkedDiv fr (Integer.newPositive underlying)
  let minNext ← add64 env.time v.cfg.fundingBuffer
  let t ← add64 env.time v.cfg.fundingPeriod
  let next := t / ONE_HOUR * ONE_HOUR
  let nextFunding := if next > minNext then next else minNext
  pure ({ v with st := { v.st with fundingRate := fundingRate, nextFunding := nextFunding } },
        premiumFraction)

/-- `set_open` -/
def setOpen (v : V) (env : Env) (sender : Nat) (o : Bool) : Except Err V :=
  if (sender ≠ v.cfg.owner ∧ sender ≠ v.cfg.insuranceFund) ∨ v.st.isOpen = o then .error .unauthorized
  else if o then do
    let t ← add64 env.time (v.cfg.fundingPeriod / ONE_HOUR * ONE_HOUR)
    pure { v with st := { v.st with isOpen := true, nextFunding := t } }
  else pure { v with st := { v.st with isOpen := false } }

structure ConfigUpdate where
  holdingCap : Option Nat := none
  oiCap : Option Nat := none
  toll : Option Nat := none
  spread : Option Nat := none
  fluct : Option Nat := none
  marginEngine : Option Nat := none
  insuranceFund : Option Nat := none
  pricefeed : Option Nat := none
  twapInterval : Option Nat := none
  deriving Repr, DecidableEq, Inhabited

def validateRatio (x D : Nat) : Except Err Unit := if x > D then .error (.guard 30) else .ok ()

/-- `update_config` (fields are applied in the code's order; any failure rejects the whole call) -/
def updateConfig (v : V) (sender : Nat) (u : ConfigUpdate) : Except Err V :=
  if sender ≠ v.cfg.owner then .error .unauthorized else do
  let c := v.cfg
  let c := match u.holdingCap with | some x => { c with holdingCap := x } | none => c
  let c := match u.oiCap with | some x => { c with oiCap := x } | none => c
  let c := match u.marginEngine with | some x => { c with marginEngine := x } | none => c
  let c := match u.insuranceFund with | some x => { c with insuranceFund := x } | none => c
  let c ← match u.toll with
    | some x => do validateRatio x c.decimals; pure { c with toll := x }
    | none => pure c
  let c ← match u.spread with
    | some x => do validateRatio x c.decimals; pure { c with spread := x }
    | none => pure c
  let c ← match u.fluct with
    | some x => do validateRatio x c.decimals; pure { c with fluct := x }
    | none => pure c
  let c := match u.pricefeed with | some x => { c with pricefeed := x } | none => c
  let c ← match u.twapInterval with
    | some x => if x < ONE_MINUTE ∨ x > ONE_WEEK then .error (.guard 31) else pure { c with twapInterval := x }
    | none => pure c
  pure { v with cfg := c }

/-- `update_owner` (cw-controllers `Admin::execute_update_admin`) -/
def updateOwner (v : V) (sender newOwner : Nat) : Except Err V :=
  if sender ≠ v.cfg.owner then .error .unauthorized
  else .ok { v with cfg := { v.cfg with owner := newOwner } }

structure InstantiateMsg where
  decimalPlaces : Nat
  pricefeed : Nat
  marginEngine : Option Nat
  insuranceFund : Option Nat
  quoteReserve : Nat
  baseReserve : Nat
  fundingPeriod : Nat
  toll : Nat
  spread : Nat
  fluct : Nat
  deriving Repr, DecidableEq, Inhabited

/-- `instantiate` -/
def instantiate (env : Env) (sender : Nat) (m : InstantiateMsg) : Except Err V :=
  let D := 10 ^ m.decimalPlaces
  if m.decimalPlaces < 6 then .error (.guard 32)
  else if D > U128.MAX then .error .panic      -- 10u128.pow overflow
  else if m.toll > D ∨ m.spread > D ∨ m.fluct > D then .error (.guard 30)
  else if m.baseReserve < D ∨ m.quoteReserve < D then .error (.guard 33)
  else
    let cfg : Config :=
      { owner := sender, marginEngine := m.marginEngine.getD 0,
        insuranceFund := m.insuranceFund.getD 0, pricefeed := m.pricefeed,
        holdingCap := 0, oiCap := 0, decimals := D, toll := m.toll, spread := m.spread,
        fluct := m.fluct, twapInterval := ONE_HOUR, fundingPeriod := m.fundingPeriod,
        fundingBuffer := m.fundingPeriod / 2 }
    let st : State :=
      { isOpen := false, quote := m.quoteReserve, base := m.baseReserve,
        net := Integer.zero, fundingRate := Integer.zero, nextFunding := 0,
        snaps := [⟨m.quoteReserve, m.baseReserve, env.time, env.height⟩] }
    .ok ⟨cfg, st⟩

/-! ### queries -/

def queryInputAmount (v : V) (dir : Direction) (amount : Nat) : Except Err Nat :=
  getInputPrice v.cfg.decimals dir amount v.st.quote v.st.base

def queryOutputAmount (v : V) (dir : Direction) (amount : Nat) : Except Err Nat :=
  getOutputPrice v.cfg.decimals dir amount v.st.quote v.st.base

def queryInputPrice (v : V) (dir : Direction) (amount : Nat) : Except Err Nat := do
  let out ← queryInputAmount v dir amount
  if out = 0 then pure 0 else do
    let x ← cmul amount v.cfg.decimals
    cdiv x out

def queryOutputPrice (v : V) (dir : Direction) (amount : Nat) : Except Err Nat := do
  let out ← queryOutputAmount v dir amount
  if out = 0 then pure 0 else do
    let x ← cmul amount v.cfg.decimals
    cdiv x out

def querySpotPrice (v : V) : Except Err Nat := priceOf v.cfg.decimals v.st.quote v.st.base

def queryTwapPrice (v : V) (env : Env) (interval : Nat) : Except Err Nat :=
  calcTwap v.cfg.decimals v.st.snaps env .reserve interval

def queryInputTwap (v : V) (env : Env) (dir : Direction) (amount : Nat) : Except Err Nat :=
  calcTwap v.cfg.decimals v.st.snaps env (.input dir amount true) FIFTEEN_MINUTES

def queryOutputTwap (v : V) (env : Env) (dir : Direction) (amount : Nat) : Except Err Nat :=
  calcTwap v.cfg.decimals v.st.snaps env (.input dir amount false) FIFTEEN_MINUTES

/-- `query_calc_fee` → (toll, spread) -/
def queryCalcFee (v : V) (quoteAmt : Nat) : Except Err (Nat × Nat) :=
  if quoteAmt = 0 then .ok (0, 0) else do
    let t ← (do let x ← cmul quoteAmt v.cfg.toll; cdiv x v.cfg.decimals)
    let s ← (do let x ← cmul quoteAmt v.cfg.spread; cdiv x v.cfg.decimals)
    pure (t, s)

/-- `query_is_over_spread_limit`; `oraclePrice` is the feed's answer to `GetPrice` as the vAMM
    parses it (a scalar), an error when the feed answers with another shape. -/
def queryIsOverSpreadLimit (v : V) (oraclePrice : Except Err Nat) : Except Err Bool := do
  let oracle ← oraclePrice
  if oracle = 0 then .error (.guard 16) else do
  let market ← querySpotPrice v
  let d ← Integer.sub (Integer.newPositive market) (Integer.newPositive oracle)
  let m ← Integer.mul d (Integer.newPositive v.cfg.decimals)
  let cur ← Integer.div m (Integer.newPositive oracle)
  let mx ← Integer.checkedDiv (Integer.newPositive v.cfg.decimals) (Integer.newPositive 10)
  pure (Integer.ge cur.abs mx)

/-- `query_is_over_fluctuation_limit` (direction = direction of a `swap_output`) -/
def queryIsOverFluctuationLimit (v : V) (env : Env) (dir : Direction) (baseAmt : Nat) :
    Except Err Bool :=
  if v.cfg.fluct = 0 then .ok false else do
    let (upper, lower) ← priceBoundaries v.cfg v.st.snaps env
    let quoteAmt ← queryOutputAmount v dir baseAmt
    let price ← match dir with
      | .removeFromAmm => do
          let q ← cadd v.st.quote quoteAmt
          let x ← cmul q v.cfg.decimals
          let b ← csub v.st.base baseAmt
          cdiv x b
      | .addToAmm => do
          let q ← csub v.st.quote quoteAmt
          let x ← cmul q v.cfg.decimals
          let b ← cadd v.st.base baseAmt
          cdiv x b
    pure (!(price ≤ upper ∧ price ≥ lower))

end Vamm
end Perp
