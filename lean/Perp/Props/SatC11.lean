/-
  SatC11 — the model's step against `Spec.C11.check` (funding settles on schedule, exactly, charged once).
-/
import Perp.Props.SatFlows
import Perp.Props.TxLog

namespace Perp.Props.SatC11
open Perp Perp.World Perp.Engine Perp.Spec Perp.Spec.W Perp.Props.ModelStep
open Perp.Props.Dispatch Perp.Props.SatTrace Perp.Props.SatFlows
open Perp.Props.EngineGuards (Post Post_bind Post_pure Post_ok Post_error Post_bind_pure Post_bind_error)
open Perp.Props.MirrorP (AllCE SD SignDirE)

/-! ### handler inversions -/

/-- an increase (also the second leg of a reversal): the margin added is `⌊openNotional·D/leverage⌋`, the
    funding owed is charged in the same step -/
theorem upr_inc_margin (q : Q) (e : E) (env : Env) (i o : Nat) (sw : TmpSwap) (hs : e.tmpSwap = some sw) :
    Post (fun r => ∃ x sm rm, cmul sw.openNotional e.cfg.decimals = .ok x ∧ cdiv x sw.leverage = .ok sm
        ∧ calcRemainMargin e (getPosition env e sw.vamm sw.trader sw.side) (Integer.newPositive sm) = .ok rm
        ∧ ∃ p' : Position, r.1.positions = (storePosition e p').positions
          ∧ p'.vamm = (getPosition env e sw.vamm sw.trader sw.side).vamm
          ∧ p'.trader = (getPosition env e sw.vamm sw.trader sw.side).trader
          ∧ p'.margin = rm.margin)
      (updatePositionReply q e env i o REPLY_INCREASE) := by
  unfold updatePositionReply
  rw [hs]
  walk [first | contradiction | exact ⟨_, _, _, by assumption, by assumption, by assumption, _, rfl, rfl, rfl, rfl⟩]


/-- a reversal that closes the position (nothing left to re-open): the trader is sent
    `|−margin + funding − upnl|` -/
theorem rev_closed_inv (q : Q) (e : E) (env : Env) (o : Nat) (sw : TmpSwap) (hs : e.tmpSwap = some sw) :
    Post (fun r => r.1.tmpSwap = none → ∃ rm0 pm mg fm sp tl,
        calcRemainMargin e (getPosition env e sw.vamm sw.trader sw.side) sw.upnl = .ok rm0
        ∧ Integer.checkedAdd (Integer.newNegative (getPosition env e sw.vamm sw.trader sw.side).margin) rm0.funding = .ok pm
        ∧ Integer.checkedSub pm sw.upnl = .ok mg
        ∧ transferFees q e sw.trader sw.vamm sw.openNotional = .ok (fm, sp, tl)
        ∧ r.2 = fm ++ [transferMsg e.cfg sw.trader mg.value])
      (reversePositionReply q e env o) := by
  unfold reversePositionReply
  rw [hs]
  walk [first
    | (intro hh; cases hh; done)
    | (intro _
       have hf := EngineGuards.unwrap_ok _ _ ‹unwrap (transferFees q e _ _ _) = Except.ok (_, _, _)›
       exact ⟨_, _, _, _, _, _, by assumption, by assumption, by assumption, hf, rfl⟩)]

/-- the spot PnL recorded by `open_position` -/
theorem pnl_spot_inv (q : Q) (e : E) (p : Position) (pn : Nat) (u : Integer)
    (h : positionNotionalPnl q e p .spot = .ok (pn, u)) :
    (p.size.value = 0 → pn = 0 ∧ u.toInt = 0)
    ∧ (p.size.value ≠ 0 → q.outputAmount p.vamm p.direction p.size.value = .ok pn
        ∧ u.toInt = (match p.direction with
                     | .addToAmm => (pn : Int) - p.notional
                     | .removeFromAmm => (p.notional : Int) - pn)) := by
  unfold positionNotionalPnl at h
  split at h
  · rename_i hz
    have hz' : p.size.value = 0 := by simpa [Integer.isZero] using hz
    injection h with h
    injection h with h1 h2
    subst h1 h2
    exact ⟨fun _ => ⟨rfl, rfl⟩, fun hne => absurd hz' hne⟩
  · rename_i hz
    have hz' : p.size.value ≠ 0 := by simpa [Integer.isZero] using hz
    refine ⟨fun h0 => absurd h0 hz', fun _ => ?_⟩
    simp only [] at h
    obtain ⟨out, hout, h⟩ := EngineMoney.bind_ok h
    cases hd : p.direction with
    | addToAmm =>
      rw [hd] at h hout
      simp only [] at h
      obtain ⟨pnl, hp, h⟩ := EngineMoney.bind_ok h
      simp only [pure_ok_iff] at h
      injection h with h1 h2
      subst h1 h2
      have := (C19.sub_ok _ _ _ hp).1
      rw [C19.toInt_newPositive, C19.toInt_newPositive] at this
      exact ⟨hout, this⟩
    | removeFromAmm =>
      rw [hd] at h hout
      simp only [] at h
      obtain ⟨pnl, hp, h⟩ := EngineMoney.bind_ok h
      simp only [pure_ok_iff] at h
      injection h with h1 h2
      subst h1 h2
      have := (C19.sub_ok _ _ _ hp).1
      rw [C19.toInt_newPositive, C19.toInt_newPositive] at this
      exact ⟨hout, this⟩


/-! ### the engine's own case distinction -/

theorem id_absurd {P : Prop} {msg m0 : SubMsg} {k : Nat} (hm : [m0] = [msg]) (hid : msg.id = k) (hne : m0.id ≠ k) : P := by
  have hm' := (List.cons.inj hm).1
  subst hm'
  exact absurd hid hne

/-- `open_position`, the branch condition behind the dispatched message: a reduce (`REPLY_DECREASE`) is
    dispatched only when the position's spot notional exceeds the order's notional `m·l/D`, a reversal
    (`REPLY_REVERSE`) only when it does not -/
theorem openPosition_branch (q : Q) (e : E) (env : Env) (s : Nat) (f : Funds) (v : Nat) (side : Side) (m l b : Nat) :
    Post (fun r => ∃ pn u, positionNotionalPnl q e (getPosition env e v s side) .spot = .ok (pn, u)
        ∧ (∀ msg, r.2 = [msg] → msg.id = REPLY_DECREASE → pn > m * l / e.cfg.decimals)
        ∧ (∀ msg, r.2 = [msg] → msg.id = REPLY_REVERSE → ¬ pn > m * l / e.cfg.decimals))
      (openPosition q e env s f v side m l b) := by
  unfold openPosition
  walk [(
    have h1 := (cmul_ok _ _ _).1 ‹cmul m l = Except.ok _›
    have h2 := (cdiv_ok _ _ _).1 ‹cdiv _ e.cfg.decimals = Except.ok _›
    obtain ⟨_, rfl⟩ := h1
    obtain ⟨_, rfl⟩ := h2
    first
      | (have hgt := ‹_ > _›
         refine ⟨_, ?_, ?_, fun _ _ _ => hgt, fun msg hm hid => id_absurd hm hid (Nat.ne_of_beq_eq_false rfl)⟩
         rotate_left
         exact EngineGuards.unwrap_ok _ _ (by assumption))
      | (have hng := ‹¬ _ > _›
         refine ⟨_, ?_, ?_, fun msg hm hid => id_absurd hm hid (Nat.ne_of_beq_eq_false rfl), fun _ _ _ => hng⟩
         rotate_left
         exact EngineGuards.unwrap_ok _ _ (by assumption))
      | exact ⟨_, _, EngineGuards.unwrap_ok _ _ ‹unwrap (positionNotionalPnl q e _ PnlOpt.spot) = Except.ok (_, _)›,
          fun msg hm hid => id_absurd hm hid (Nat.ne_of_beq_eq_false rfl),
          fun msg hm hid => id_absurd hm hid (Nat.ne_of_beq_eq_false rfl)⟩)]

/-- `|a − b|` on naturals: what `reverse_position_reply` has left of the order after closing the position -/
def adiff (a b : Nat) : Nat := if a > b then a - b else b - a

/-- `reverse_position_reply` closes without re-opening exactly when what is left of the order is worth less
    than one unit of margin (`|openNotional − output| / leverage = 0`) -/
theorem rev_branch_inv (q : Q) (e : E) (env : Env) (o : Nat) (sw : TmpSwap) (hs : e.tmpSwap = some sw) :
    Post (fun r => (r.1.tmpSwap = none ↔ adiff sw.openNotional o / sw.leverage = 0))
      (reversePositionReply q e env o) := by
  unfold reversePositionReply
  rw [hs]
  walk [(
    have hd := (cdiv_ok _ _ _).1 ‹cdiv _ sw.leverage = Except.ok _›
    obtain ⟨_, rfl⟩ := hd
    first
      | exact ⟨fun _ => by assumption, fun _ => rfl⟩
      | (refine ⟨fun hh => ?_, fun hh => ?_⟩
         · have hh' : some _ = (none : Option TmpSwap) := hh
           cases hh'
         · have hn : ¬ (_ / _ = 0) := ‹¬ _ = 0›
           exact absurd hh hn))]

/-- the spot valuation reads the vAMMs only -/
theorem pnl_spot_congr (q q' : Q) (e : E) (p : Position)
    (h : ∀ v d a, q.outputAmount v d a = q'.outputAmount v d a) :
    positionNotionalPnl q e p .spot = positionNotionalPnl q' e p .spot := by
  unfold positionNotionalPnl
  simp only [h]

/-- attaching the funds changes the ledger and the log only: the world `execute` runs in answers the vAMM
    queries like the pre-state at the transaction's block -/
theorem start_outputAmount {w w1 : World} {env : Env} (hst : Start w w1 env) (v : Nat) (d : Direction) (a : Nat) :
    w1.q.outputAmount v d a = ({ w with env := env } : World).q.outputAmount v d a := by
  have hv : w1.vammE v = World.vammE ({ w with env := env } : World) v := by
    unfold World.vammE World.vamm?
    rw [hst.vamms]
  show (do let x ← w1.vammE v; Vamm.queryOutputAmount x d a)
    = (do let x ← World.vammE ({ w with env := env } : World) v; Vamm.queryOutputAmount x d a)
  rw [hv]

/-! ### small facts about collateral messages -/

theorem execSubs_single_err (fuel : Nat) (w w' : World) (m : SubMsg) (hr : m.replyOn = .error)
    (h : execSubs fuel w ENGINE [m] = .ok w') : ∃ fuel' ev, execMsg fuel' w ENGINE m.msg = .ok (w', ev) := by
  cases fuel with
  | zero => unfold execSubs at h; cases h
  | succ fuel =>
    obtain ⟨w1, ev, hx, _, hno⟩ := execSubs_cons_ok fuel w w' ENGINE m [] h
    have := hno (WorldInv.not_reply_of_err hr)
    rw [WorldInv.execSubs_nil _ _ _ _ this]
    exact ⟨fuel, ev, hx⟩

theorem execMsg_ifWithdraw_guards (fuel : Nat) (w : World) (sd amt : Nat) (r : World × Ev)
    (h : execMsg fuel w sd (.ifWithdraw amt) = .ok r) :
    w.engine.cfg.insuranceFund = IFUND ∧ sd = w.ifund.engine := by
  cases fuel with
  | zero => unfold execMsg at h; cases h
  | succ fuel =>
    unfold execMsg at h
    simp only [] at h
    split at h
    · cases h
    · rename_i h1
      split at h
      · cases h
      · rename_i h2
        exact ⟨Decidable.not_not.mp h1, Decidable.not_not.mp h2⟩

theorem collEntry_transferMsg (ife : Nat) (c : Config) (r a : Nat) :
    collEntry ife (transferMsg c r a).msg = (ENGINE, r, a) := by
  unfold transferMsg; split <;> rfl

theorem collEntry_transferFromMsg (ife : Nat) (c : Config) (o r a : Nat) :
    collEntry ife (transferFromMsg c o r a).msg = (if c.native then ENGINE else o, r, a) := by
  unfold transferFromMsg; split <;> rfl

/-! ### PayFunding -/

/-- **invariant** used by `sat_C11` (clause `next-funding-less-than-half-a-period-away`): a vAMM's funding
    buffer is half its funding period.  `instantiate` sets it so (`VammGuards.instantiate_buffer`) and no
    message of the vAMM writes either field (`update_config` has no such parameter), so it holds in every
    reachable world; the contract itself enforces only `next_funding_time ≥ now + buffer`.
    Without it the clause fails: a vAMM record with `fundingPeriod = 3600`, `fundingBuffer = 0` settles at
    time `t = 3599` to `next = 3600 < t + 1800`. -/
def BufferHalf (w : World) : Prop :=
  ∀ a x, w.vamm? a = some x → x.cfg.fundingBuffer = x.cfg.fundingPeriod / 2

/- (The former precondition `NoFundsAttached` — "no native coins are attached to the PayFunding call" — is
   gone: `Spec.C11.check` now tolerates attached coins.  The entry point is not payable-checked: attached
   coins are first sent to the vault by the host — one more entry `(sender, ENGINE, amount)` at the head of
   the transfer list, and a vault that is larger by that amount for the cap on the payment, unless the
   sender is the vault itself (a self-transfer leaves the balance as it is, `TxLog.move_balance`).
   `SatEWitness.c11_funds_attached_ok` replays the former counterexample.) -/

/-- native coins attached to the call, as the host moves them (`execute_wasm`: native collateral only) -/
def att (w : World) (f : Funds) : Nat := if w.engine.cfg.native = true then f.amount else 0

/-- the transfer the host executes before the handler runs -/
def attLog (w : World) (s : Nat) (f : Funds) : List (Nat × Nat × Nat) :=
  if att w f = 0 then [] else [(s, ENGINE, att w f)]

/-- the vault balance the handler sees -/
def vaultAt (w : World) (s : Nat) (f : Funds) : Nat :=
  w.ledger.balance ENGINE + (if s = ENGINE then 0 else att w f)

/-- the start of an engine transaction, exactly: the pre-state at the transaction's block, with the attached
    coins moved to the vault and logged -/
theorem engine_start_att (w w' : World) (env : Env) (s : Nat) (f : Funds) (m : ExecMsg)
    (h : applyTx w env s f (.engine m) = .ok w') :
    ∃ (g : Ledger) (e1 : E) (subs : List SubMsg),
      g.balance ENGINE = vaultAt w s f
      ∧ execute ({ w with env := env, log := attLog w s f, ledger := g } : World).q w.engine env s f m = .ok (e1, subs)
      ∧ execSubs FUEL { w with env := env, log := attLog w s f, ledger := g, engine := e1 } ENGINE subs = .ok w' := by
  unfold applyTx at h
  dsimp only at h
  split at h
  · rename_i hc
    simp at h
    obtain ⟨w1, hg, e', subs, hex, h⟩ := h
    obtain ⟨⟨w1', ev⟩, hg', rfl⟩ := (exmap_ok _ _ _).1 hg
    have hg'' : execMsg (39 + 1) { w with env := env, log := [] } s (.bankSend ENGINE f.amount) = .ok (w1', ev) := hg'
    unfold execMsg at hg''
    simp at hg''
    obtain ⟨g, hgl, rfl, _⟩ := hg''
    have hatt : att w f = f.amount := by unfold att; rw [if_pos hc.1]
    have hlog : attLog w s f = [(s, ENGINE, f.amount)] := by unfold attLog; rw [hatt, if_neg hc.2]
    rw [hlog]
    refine ⟨g, e', subs, ?_, hex, h⟩
    unfold Ledger.bankSend at hgl
    rw [if_neg hc.2] at hgl
    have hb := TxLog.move_balance _ _ _ _ _ ENGINE hgl
    unfold vaultAt
    rw [hatt]
    rw [if_pos rfl] at hb
    by_cases hs : s = ENGINE
    · rw [if_pos hs.symm] at hb; rw [if_pos hs]; omega
    · rw [if_neg (fun hh => hs hh.symm)] at hb; rw [if_neg hs]; omega
  · rename_i hc
    simp at h
    obtain ⟨e', subs, hex, h⟩ := h
    have hatt : att w f = 0 := by
      unfold att
      by_cases hn : w.engine.cfg.native = true
      · rw [if_pos hn]; exact Decidable.byContradiction (fun h0 => hc ⟨hn, h0⟩)
      · rw [if_neg hn]
    have hlog : attLog w s f = [] := by unfold attLog; rw [if_pos hatt]
    rw [hlog]
    refine ⟨w.ledger, e', subs, ?_, hex, h⟩
    unfold vaultAt
    rw [hatt]
    split <;> rfl

theorem payFunding_core (w w' : World) (env : Env) (s : Nat) (f : Funds) (v : Nat)
    (h : applyTx w env s f (.engine (.payFunding v)) = .ok w') :
    ∃ (x x' : Vamm.V) (pf : Integer), w.vamm? v = some x ∧ w'.vamm? v = some x'
      ∧ x.st.nextFunding ≤ env.time ∧ env.time + x.cfg.fundingBuffer ≤ x'.st.nextFunding
      ∧ (∃ u tw, ({ w with env := env } : World).oracleTwap x.cfg.pricefeed x.cfg.twapInterval = .ok u
          ∧ Vamm.queryTwapPrice x env x.cfg.twapInterval = .ok tw
          ∧ pf.toInt = Int.tdiv (((tw : Int) - (u : Int)) * (x.cfg.fundingPeriod : Int)) 86400)
      ∧ (latestCum w'.engine v).toInt = (latestCum w.engine v).toInt + pf.toInt
      ∧ ((EngineMoney.trunc (x.st.net.toInt * pf.toInt) (w.engine.cfg.decimals : Int) < 0 →
            w'.log = attLog w s f ++ [(w.engine.cfg.insuranceFund, ENGINE,
                       (EngineMoney.trunc (x.st.net.toInt * pf.toInt) (w.engine.cfg.decimals : Int)).natAbs)])
        ∧ (EngineMoney.trunc (x.st.net.toInt * pf.toInt) (w.engine.cfg.decimals : Int) = 0 → w'.log = attLog w s f)
        ∧ (0 < EngineMoney.trunc (x.st.net.toInt * pf.toInt) (w.engine.cfg.decimals : Int) →
            w'.log = attLog w s f ++ [(ENGINE, w.engine.cfg.insuranceFund,
                       (if vaultAt w s f
                            < (EngineMoney.trunc (x.st.net.toInt * pf.toInt) (w.engine.cfg.decimals : Int)).natAbs
                        then vaultAt w s f
                        else (EngineMoney.trunc (x.st.net.toInt * pf.toInt) (w.engine.cfg.decimals : Int)).natAbs))])) := by
  obtain ⟨g, e1, subs, hgb, hex, hrun⟩ := engine_start_att w w' env s f _ h
  have hex' : payFunding ({ w with env := env, log := attLog w s f, ledger := g } : World).q w.engine v = .ok (e1, subs) := hex
  obtain ⟨h1, h2⟩ := WorldInv.payFunding_frame _ _ _ _ hex'
  dsimp only at h1 h2
  subst h1 h2
  obtain ⟨fuel', w2, ev, e3, subs3, hx, hrep, hs2⟩ := execSubs_single _ _ _ _ rfl hrun
  obtain ⟨x, x', pf, hxv, hsettle, hw2, rfl⟩ := MirrorP.execMsg_settle_inv _ _ _ _ _ _ hx
  have hxv' : w.vamm? v = some x := hxv
  obtain ⟨t1, ⟨u, tw, hu, htw, hpf⟩, t3, t4, _, _, t7, _, _⟩ := VammGuards.settleFunding_spec _ _ _ _ _ _ hsettle
  have he2 : w2.engine = w.engine := by rw [hw2]; rfl
  have hv2 : w2.env = env := by rw [hw2]; rfl
  have hvm2 : w2.vamm? v = some x' := by rw [hw2]; exact MirrorP.setVamm_vamm_same _ _ _ _ hxv
  have hl2 : w2.ledger = g := by rw [hw2]; rfl
  have hg2 : w2.log = attLog w s f := by rw [hw2]; rfl
  have hi2 : w2.ifund = w.ifund := by rw [hw2]; rfl
  rw [he2, hv2] at hrep
  have hrep' : payFundingReply w2.q w.engine env pf v = .ok (e3, subs3) := hrep
  obtain ⟨hcum, net, hnet, hneg, hzero, hpos, _, _, hcfg3⟩ := EngineMoney.payFundingReply_spec _ _ _ _ _ _ _ hrep'
  have hnet' : w2.q.vammNet v = .ok x'.st.net := by
    show (w2.vammE v).map _ = _
    rw [(MirrorP.vammE_ok _ _ _).2 hvm2]
    rfl
  rw [hnet'] at hnet
  injection hnet with hnet
  subst hnet
  rw [t7] at hneg hzero hpos
  -- the world after the reply's messages
  have hfin : (∀ a, w'.vamm? a = w2.vamm? a) ∧ w'.engine = e3 := by
    obtain ⟨_, hce⟩ := MirrorP.payFundingReply_eff _ _ _ _ _ _ hrep'
    obtain ⟨c1, c2, _, _, _⟩ := coll_run _ _ _ _ hs2 hce
    exact ⟨c2, c1⟩
  refine ⟨x, x', pf, hxv', by rw [hfin.1 v]; exact hvm2, t1, t3, ⟨u, tw, hu, htw, hpf⟩, ?_, ?_, ?_, ?_⟩
  · rw [hfin.2]; exact hcum
  · intro hp
    rw [hneg hp] at hs2
    obtain ⟨fuel2, ev2, hx2⟩ := execSubs_single_err _ _ _ _ rfl hs2
    have hx2' : execMsg fuel2 { w2 with engine := e3 } ENGINE (.ifWithdraw _) = .ok (w', ev2) := hx2
    obtain ⟨g1, g2⟩ := execMsg_ifWithdraw_guards _ _ _ _ _ hx2'
    obtain ⟨hlog, _⟩ := execMsg_coll_log _ _ _ (Msg.ifWithdraw _) _ trivial hx2'
    rw [hlog]
    show w2.log ++ [(IFUND, w2.ifund.engine, _)] = _
    have g1' : w.engine.cfg.insuranceFund = IFUND := by rw [← hcfg3]; exact g1
    have g2' : ENGINE = w2.ifund.engine := g2
    rw [hg2, ← g2', g1']
  · intro hp
    rw [hzero hp] at hs2
    rw [WorldInv.execSubs_nil _ _ _ _ hs2]
    exact hg2
  · intro hp
    obtain ⟨bal, hbal, hm⟩ := hpos hp
    have hbal' : w2.q.balance ENGINE_ADDR = .ok (vaultAt w s f) := by
      show Except.ok (w2.ledger.balance ENGINE_ADDR) = _
      rw [hl2, ← hgb]; rfl
    rw [hbal'] at hbal
    injection hbal with hbal
    subst hbal
    rw [hm] at hs2
    obtain ⟨fuel2, ev2, hx2⟩ := execSubs_single_err _ _ _ _ (WorldInv.transferMsg_err _ _ _) hs2
    obtain ⟨hlog, _⟩ := execMsg_coll_log _ _ _ _ _ (MirrorP.CE_transferMsg _ _ _).2 hx2
    rw [hlog, collEntry_transferMsg]
    show w2.log ++ _ = _
    rw [hg2]


theorem chk_true (c : Bool) (tag : String) (h : c = true) : W.chk c tag = [] := by
  unfold W.chk; rw [h]; rfl

theorem min_toNat (B : Nat) (P : Int) (hP : 0 < P) :
    (if (B : Int) < P then (B : Int) else P).toNat = if B < P.natAbs then B else P.natAbs := by
  by_cases h : (B : Int) < P
  · rw [if_pos h, if_pos (by omega)]; simp
  · rw [if_neg h, if_neg (by omega)]; omega

/-- the property's transfer-list prefix is the host's attachment transfer -/
theorem spec_pre (w : World) (s : Nat) (f : Funds) :
    (if ((if w.engine.cfg.native = true then f.amount else 0) == 0) = true then []
      else [(s, ENGINE, if w.engine.cfg.native = true then f.amount else 0)]) = attLog w s f := by
  unfold attLog att
  by_cases h : (if w.engine.cfg.native = true then f.amount else 0) = 0
  · rw [if_pos h, if_pos (by rw [h]; rfl)]
  · rw [if_neg h, if_neg (by simpa using h)]

/-- the property's vault is the balance the handler sees -/
theorem spec_vault (w : World) (s : Nat) (f : Funds) :
    (w.ledger.balance ENGINE : Int)
      + (if (s == ENGINE) = true then 0 else (((if w.engine.cfg.native = true then f.amount else 0 : Nat)) : Int))
    = ((vaultAt w s f : Nat) : Int) := by
  unfold vaultAt att
  by_cases h : s = ENGINE
  · subst h; simp
  · rw [if_neg (by simpa using h), if_neg h]; simp

theorem check_payFunding (w w' : World) (env : Env) (s : Nat) (f : Funds) (v : Nat)
    (hbh : BufferHalf w)
    (h : applyTx w env s f (.engine (.payFunding v)) = .ok w') :
    Spec.C11.check (okStep w w' env s f (.engine (.payFunding v))) = [] := by
  obtain ⟨x, x', pf, hxv, hyv, t1, t2, ⟨u, tw, hu, htw, hpf⟩, hcum, hneg, hzero, hpos⟩ :=
    payFunding_core w w' env s f v h
  have hb := hbh v x hxv
  have hpf' : (latestCum w'.engine v).toInt - (latestCum w.engine v).toInt = pf.toInt := by omega
  unfold Spec.C11.check
  dsimp +instances only [okStep, W.engineMsg, W.preAt, W.ifd, W.bal]
  simp only [hxv, hyv, htw, hu, hpf', W.trunc]
  simp only [EngineMoney.trunc] at hneg hzero hpos
  rw [if_neg (by decide)]
  refine List.append_eq_nil_iff.2 ⟨List.append_eq_nil_iff.2 ⟨List.append_eq_nil_iff.2 ⟨?_, ?_⟩, ?_⟩, ?_⟩
  · exact chk_true _ _ (by simpa using t1)
  · exact chk_true _ _ (by rw [← hb]; simpa using t2)
  · exact chk_true _ _ (by rw [hpf]; simp)
  rw [spec_pre, spec_vault]
  by_cases hp : Int.tdiv (x.st.net.toInt * pf.toInt) (w.engine.cfg.decimals : Int) > 0
  · rw [if_pos hp, hpos hp]
    apply chk_true
    rw [min_toNat _ _ hp]
    simp
  · rw [if_neg hp]
    by_cases hn : Int.tdiv (x.st.net.toInt * pf.toInt) (w.engine.cfg.decimals : Int) < 0
    · rw [if_pos hn, hneg hn]
      apply chk_true
      simp
    · rw [if_neg hn, hzero (by omega)]
      apply chk_true
      simp


/-! ### OpenPosition -/

/-- **deployment wiring** used by `sat_C11` (clause `funding-skipped-when-closing-by-reversal`): the
    sender is not the vault, the configured insurance fund or the configured fee pool (implied by
    `Wired w ∧ UserSender w s`).  Otherwise the fee transfers of the same transaction are themselves
    transfers "from the vault to the sender" and the payout cannot be read off the transfer list. -/
def SenderOutside (w : World) (s : Nat) : Prop :=
  s ≠ ENGINE ∧ s ≠ w.engine.cfg.insuranceFund ∧ s ≠ w.engine.cfg.feePool

theorem SenderOutside.of_wired {w : World} {s : Nat} (hw : Wired w) (hu : UserSender w s) : SenderOutside w s :=
  ⟨hu.1, by rw [hw.ifd]; exact hu.2.1, by rw [hw.fp]; exact hu.2.2.1⟩

/- (The former sub-case hypothesis `StaleClean` — "a stored record of size zero carries no open notional" —
   is gone: since `open_position` treats a stored record of size zero like an absent one (increase path),
   the reversal path is only taken for a record of non-zero size, for which the engine's PnL and the
   property's formula agree.  `SatEWitness.c11_stale_notional_ok` replays the former counterexample.) -/

theorem latestCum_congr {e e' : E} (h : e'.vammMaps = e.vammMaps) (v : Nat) : latestCum e' v = latestCum e v := by
  unfold latestCum readVammMap; rw [h]

theorem fundingOwed_congr {e e' : E} (h : e'.vammMaps = e.vammMaps) (hc : e'.cfg = e.cfg) (p : Position) :
    EngineMoney.fundingOwed e' p = EngineMoney.fundingOwed e p := by
  unfold EngineMoney.fundingOwed; rw [latestCum_congr h, hc]

theorem fundingOwed_spec (w : World) (p : Position) : W.fundingOwed w p = EngineMoney.fundingOwed w.engine p := rfl

theorem getPosition_congr {e e' : E} (h : e'.positions = e.positions) (env : Env) (v t : Nat) (side : Side) :
    getPosition env e' v t side = getPosition env e v t side := by
  unfold getPosition; rw [WorldInv.rp_same v t h]

theorem getPosition_margin (env : Env) (e : E) (v t : Nat) (side : Side) :
    (getPosition env e v t side).margin = (readPosition e v t).margin := by
  unfold getPosition; simp only []; split <;> rfl

theorem getPosition_notional (env : Env) (e : E) (v t : Nat) (side : Side) :
    (getPosition env e v t side).notional = (readPosition e v t).notional := by
  unfold getPosition; simp only []; split <;> rfl

theorem getPosition_chk (env : Env) (e : E) (v t : Nat) (side : Side) :
    (getPosition env e v t side).chk = (readPosition e v t).chk := by
  unfold getPosition; simp only []; split <;> rfl

theorem fundingOwed_get (env : Env) (e : E) (v t : Nat) (side : Side) :
    EngineMoney.fundingOwed e (getPosition env e v t side) = EngineMoney.fundingOwed e (readPosition e v t) := by
  unfold EngineMoney.fundingOwed
  rw [getPosition_chk, MirrorP.getPosition_size, (EngineMoney.getPosition_key env e v t side).1]
  rcases EngineMoney.readPosition_key e v t with hk | hk
  · rw [hk.1]
  · rw [hk]
    have : Position.default.size.toInt = 0 := MirrorP.default_size
    rw [this, Int.mul_zero, Int.mul_zero]

/-! #### the transfer list -/

theorem flow_nil (a b : Nat) : W.flow [] a b = 0 := rfl

theorem flow_cons (x : Nat × Nat × Nat) (l : List (Nat × Nat × Nat)) (a b : Nat) :
    W.flow (x :: l) a b = (if x.1 = a ∧ x.2.1 = b then (x.2.2 : Int) else 0) + W.flow l a b := by
  unfold W.flow
  by_cases h : x.1 = a ∧ x.2.1 = b
  · have : (x.1 == a && x.2.1 == b) = true := by simp [h.1, h.2]
    rw [List.filter_cons_of_pos (p := fun (x : Nat × Nat × Nat) => x.1 == a && x.2.1 == b) this, List.map_cons, List.foldl_cons, if_pos h, MirrorP.foldl_add]
    omega
  · have : ¬ ((x.1 == a && x.2.1 == b) = true) := by simpa using h
    rw [List.filter_cons_of_neg (p := fun (x : Nat × Nat × Nat) => x.1 == a && x.2.1 == b) this, if_neg h]
    omega

theorem flow_append (l1 l2 : List (Nat × Nat × Nat)) (a b : Nat) :
    W.flow (l1 ++ l2) a b = W.flow l1 a b + W.flow l2 a b := by
  induction l1 with
  | nil => rw [List.nil_append, flow_nil]; omega
  | cons x l ih => rw [List.cons_append, flow_cons, flow_cons, ih]; omega

theorem flow_zero (l : List (Nat × Nat × Nat)) (a b : Nat) (h : ∀ x ∈ l, ¬ (x.1 = a ∧ x.2.1 = b)) :
    W.flow l a b = 0 := by
  induction l with
  | nil => rfl
  | cons x l ih =>
    rw [flow_cons, if_neg (h x (List.mem_cons_self)), ih (fun y hy => h y (List.mem_cons_of_mem _ hy))]
    rfl


theorem reversePositionReply_maps (q : Q) (e : E) (env : Env) (o : Nat) :
    Post (fun r => r.1.vammMaps = e.vammMaps) (reversePositionReply q e env o) := by
  unfold reversePositionReply
  walk [rfl]

/-- what the trader is due when a reversal closes the position for `out`: margin + PnL at the executed
    price − funding -/
def equityOf (w : World) (v s out : Nat) : Int :=
  ((readPosition w.engine v s).margin : Int)
    + (match (readPosition w.engine v s).direction with
       | .addToAmm => (out : Int) - (readPosition w.engine v s).notional
       | .removeFromAmm => ((readPosition w.engine v s).notional : Int) - (out : Int))
    - EngineMoney.fundingOwed w.engine (readPosition w.engine v s)

/-- the margin an increase must leave: old margin + ⌊N·D/L⌋ − funding owed -/
def wantOf (w : World) (v s m l : Nat) : Int :=
  ((readPosition w.engine v s).margin : Int)
    + ((m * l / w.engine.cfg.decimals * w.engine.cfg.decimals / l : Nat) : Int)
    - EngineMoney.fundingOwed w.engine (readPosition w.engine v s)

/-- a successful OpenPosition, by the engine's own case distinction.  `pn` is the position's spot notional as
    the property evaluates it (pre-state at the transaction's block — equal to the engine's evaluation after
    funds attachment, `start_outputAmount`):
    * increase (record flat or on the order's side): checkpoint moved, margin formula;
    * reduce (`pn > N`): checkpoint moved;
    * reversal (`pn ≤ N`): the position is closed for `qo` = the vAMM's quote of the whole size in the pre-state;
      close-only exactly when `|N − qo| / l = 0`, then the trader is paid the equity; otherwise the rest is
      re-opened and the checkpoint moved. -/
theorem open_core (w w' : World) (env : Env) (s : Nat) (f : Funds) (v : Nat) (side : Side) (m l b : Nat)
    (h : applyTx w env s f (.engine (.openPosition v side m l b)) = .ok w') :
    ∃ (x : Vamm.V) (pn : Nat) (u : Integer), w.vamm? v = some x
      ∧ positionNotionalPnl ({ w with env := env } : World).q w.engine (getPosition env w.engine v s side) .spot
          = .ok (pn, u)
      ∧ ((((getPosition env w.engine v s side).size.isZero = true
            ∨ (getPosition env w.engine v s side).direction = sideToDirection side)
          ∧ (readPosition w'.engine v s).chk = latestCum w.engine v
          ∧ (0 ≤ wantOf w v s m l → ((readPosition w'.engine v s).margin : Int) = wantOf w v s m l)
          ∧ (wantOf w v s m l < 0 → (readPosition w'.engine v s).margin = 0))
        ∨ ((¬ (getPosition env w.engine v s side).size.isZero = true
              ∧ (getPosition env w.engine v s side).direction ≠ sideToDirection side)
          ∧ pn > m * l / w.engine.cfg.decimals
          ∧ (readPosition w'.engine v s).chk = latestCum w.engine v)
        ∨ ((¬ (getPosition env w.engine v s side).size.isZero = true
              ∧ (getPosition env w.engine v s side).direction ≠ sideToDirection side)
          ∧ ¬ pn > m * l / w.engine.cfg.decimals
          ∧ ∃ qo, Vamm.queryOutputAmount x (readPosition w.engine v s).direction
                    (readPosition w.engine v s).size.value = .ok qo
            ∧ ((adiff (m * l / w.engine.cfg.decimals) qo / l = 0
                  ∧ (SenderOutside w s →
                      equityOf w v s qo < 0 ∨ W.flow w'.log ENGINE s = equityOf w v s qo))
               ∨ (adiff (m * l / w.engine.cfg.decimals) qo / l ≠ 0
                  ∧ (readPosition w'.engine v s).chk = latestCum w.engine v)))) := by
  obtain ⟨w1, e1, x, sw, msgs, hst, hlog1, hxv, hex, hsw, sv, st, ss, hpos, hcfg, hcase⟩ :=
    open_flow_msgs w w' env s f v side m l b h
  obtain ⟨hmaps, _, _, hD0, pn, u, hpnl, htmp, _⟩ := openPosition_inv2 _ _ _ _ _ _ _ _ _ _ _ hex
  obtain ⟨pn', u', hpnl', hdec, hrev⟩ := openPosition_branch _ _ _ _ _ _ _ _ _ _ _ hex
  dsimp only at hmaps htmp hdec hrev
  have hpp : pn' = pn := by
    have := hpnl'.symm.trans hpnl
    injection this with this
    injection this
  subst hpp
  have hpnlW : positionNotionalPnl ({ w with env := env } : World).q w.engine
      (getPosition env w.engine v s side) .spot = .ok (pn', u) := by
    rw [← pnl_spot_congr _ _ _ _ (start_outputAmount hst)]
    exact hpnl
  refine ⟨x, pn', u, hxv, hpnlW, ?_⟩
  have hswe : sw = ⟨v, s, side, m, l, m * l / w.engine.cfg.decimals, pn', u, Integer.zero, false⟩ := by
    have := hsw.symm.trans htmp
    injection this
  have hcum1 : latestCum e1 v = latestCum w.engine v := latestCum_congr hmaps v
  have hg1 : getPosition env e1 v s side = getPosition env w.engine v s side := getPosition_congr hpos env v s side
  -- the checkpoint after any path that ends in `update_position_reply`
  have hupr : ∀ (q : Q) (e e' : E) (i o id : Nat) (subs : List SubMsg) (sw0 : TmpSwap),
      e.tmpSwap = some sw0 → sw0.vamm = v → sw0.trader = s → e.vammMaps = w.engine.vammMaps →
      updatePositionReply q e env i o id = .ok (e', subs) → w'.engine = e' →
      (readPosition w'.engine v s).chk = latestCum w.engine v := by
    intro q e e' i o id subs sw0 hs0 hv0 ht0 hm0 hr he'
    obtain ⟨r, _, _, _, hchk⟩ := EngineMoney.updatePositionReply_ratio _ _ _ _ _ _ _ _ sw0 hs0 hr
    rw [hv0, ht0] at hchk
    rw [he', hchk]
    exact latestCum_congr hm0 v
  rcases hcase with ⟨id, hid, hmsg, x', bo, w2, e3, subs3, hswap, hrep, _, he3, _⟩
      | ⟨⟨hnzp, hdir⟩, hmsg, x1, qo, w2, e3, subs3, hswap, hrep, hcase2⟩
  · have hc := hupr _ _ _ _ _ _ _ sw hsw sv st hmaps hrep he3
    rcases hid with ⟨rfl, hdir⟩ | ⟨rfl, hnzp, hdir⟩
    · left
      refine ⟨hdir, hc, ?_, ?_⟩
      all_goals
        obtain ⟨y, sm, rm, hy, hsm, hrm, p', hp', pv, pt, pmg⟩ := upr_inc_margin _ _ _ _ _ sw hsw _ hrep
        dsimp only at hp' pv pt pmg
        rw [hswe] at hy hsm hrm pv pt
        dsimp only at hy hsm hrm pv pt
        have hk := EngineMoney.getPosition_key env e1 v s side
        have hread : readPosition w'.engine v s = p' := by
          rw [he3]; exact read_of_store e1 e3 p' v s hp' (pv.trans hk.1) (pt.trans hk.2)
        simp only [cmul_ok] at hy
        obtain ⟨_, rfl⟩ := hy
        simp only [cdiv_ok] at hsm
        obtain ⟨_, rfl⟩ := hsm
        obtain ⟨_, _, hge, hlt⟩ := EngineMoney.calcRemainMargin_spec _ _ _ _ hrm
        rw [fundingOwed_get, fundingOwed_congr hmaps hcfg, WorldInv.rp_same v s hpos, getPosition_margin,
          WorldInv.rp_same v s hpos, C19.toInt_newPositive, hcfg] at hge hlt
        rw [hread, pmg]
        unfold wantOf
        intro hw
      · exact (hge (by omega)).1.trans (by omega)
      · exact (hlt (by omega)).1
    · right; left
      exact ⟨⟨hnzp, hdir⟩, hdec _ hmsg rfl, hc⟩
  · right; right
    refine ⟨⟨hnzp, hdir⟩, hrev _ hmsg rfl, ?_⟩
    have hmaps3 := reversePositionReply_maps _ _ _ _ _ hrep
    dsimp only at hmaps3
    -- the stored record is read as it is (its vamm field is not 0, else the order would be an increase)
    have hdir' := hdir
    rw [MirrorP.getPosition_direction] at hdir'
    have hvz : (readPosition w.engine v s).vamm ≠ 0 := by
      intro hz
      unfold MirrorP.gdir at hdir'
      rw [if_pos hz] at hdir'
      exact hdir' rfl
    have hgp : getPosition env w.engine v s side = readPosition w.engine v s := by
      unfold getPosition
      simp only []
      rw [if_neg hvz]
    rw [hgp] at hswap hpnl hnzp
    -- the vAMM side: the position is sold / bought back for the pre-state's quote of the whole size
    obtain ⟨q0, hq0, hu0, ho0, _⟩ := C17.swapOutput_inv _ _ _ _ _ _ _ _ hswap
    injection ho0 with _ hqo _
    subst hqo
    refine ⟨qo, hq0, ?_⟩
    -- close-only or re-open, by `|N − qo| / l`
    have hbr := rev_branch_inv _ _ _ _ sw hsw _ hrep
    rw [hswe] at hbr
    dsimp only at hbr
    rcases hcase2 with ⟨hnone, _, he3, hv1, hlog⟩
        | ⟨fm, sw', x2, bo2, w4, e5, subs5, _, _, hsw', sv', st', ss', _, hrep5, _, he5, _⟩
    · -- the position is closed
      left
      refine ⟨hbr.1 hnone, fun hso => ?_⟩
      obtain ⟨rm0, pm, mg, fm, sp, tl, hrm0, hpm, hmg, hfm, hsubs⟩ :=
        rev_closed_inv _ _ _ _ sw hsw _ hrep hnone
      dsimp only at hsubs
      rw [hswe] at hrm0 hpm hmg hfm hsubs
      dsimp only at hrm0 hpm hmg hfm hsubs
      rw [hg1, hgp] at hrm0 hpm
      -- amounts
      have e1' := (EngineMoney.calcRemainMargin_spec _ _ _ _ hrm0).1
      rw [fundingOwed_congr hmaps hcfg] at e1'
      have e2' := (C19.checkedAdd_ok _ _ _ hpm).1
      rw [C19.toInt_newNegative] at e2'
      have e3' := (C19.checkedSub_ok _ _ _ hmg).1
      have hmgv := C19.toInt_natAbs mg
      have hupnl : u.toInt = (match (readPosition w.engine v s).direction with
          | .addToAmm => (qo : Int) - (readPosition w.engine v s).notional
          | .removeFromAmm => ((readPosition w.engine v s).notional : Int) - qo) := by
        obtain ⟨_, hnz⟩ := pnl_spot_inv _ _ _ _ _ hpnl
        -- (the reversal path is only taken for a record of non-zero size)
        have hsz : (readPosition w.engine v s).size.value ≠ 0 := by
          intro h0
          exact hnzp (by simp [Integer.isZero, h0])
        obtain ⟨hout, hu⟩ := hnz hsz
        obtain ⟨x0, hx0, hqa⟩ := MirrorP.q_outputAmount _ _ _ _ _ hout
        have hvv := (MirrorP.read_found w.engine v s hsz).1
        rw [hvv, hst.vamm? v, hxv] at hx0
        cases hx0
        rw [hq0] at hqa
        injection hqa with hqa
        subst hqa
        exact hu
      have heq : equityOf w v s qo = - mg.toInt := by
        unfold equityOf
        rw [← hupnl]
        omega
      -- the transfer list
      have hflow : W.flow w'.log ENGINE s = (mg.value : Int) := by
        obtain ⟨_, hfmeq⟩ := EngineGuards.transferFees_spec _ _ _ _ _ _ _ _ hfm
        rw [hlog, hsubs, flow_append, flow_zero w1.log _ _ (fun y hy hc => hso.1 ((hlog1 y hy).symm.trans hc.1)),
          List.map_append, flow_append, List.map_cons, List.map_nil, collEntry_transferMsg, flow_cons, flow_nil,
          if_pos ⟨rfl, rfl⟩]
        rw [flow_zero]
        · simp
        · intro y hy hc
          rw [hfmeq] at hy
          rw [hcfg] at hy
          simp only [List.map_append, List.mem_append] at hy
          rcases hy with hy | hy
          · split at hy
            · simp only [List.map_cons, List.map_nil, List.mem_singleton] at hy
              rw [hy, collEntry_transferFromMsg] at hc
              exact hso.2.1 hc.2.symm
            · cases hy
          · split at hy
            · simp only [List.map_cons, List.map_nil, List.mem_singleton] at hy
              rw [hy, collEntry_transferFromMsg] at hc
              exact hso.2.2 hc.2.symm
            · cases hy
      by_cases hneg : equityOf w v s qo < 0
      · exact Or.inl hneg
      · right
        rw [hflow, heq]
        omega
    · -- the remainder is re-opened on the other side
      right
      have hm5 : e3.vammMaps = w.engine.vammMaps := hmaps3.trans hmaps
      refine ⟨fun hz => ?_, hupr _ _ _ _ _ _ _ sw' hsw' sv' st' hm5 hrep5 he5⟩
      have := hbr.2 hz
      rw [hsw'] at this
      cases this


/-! ### the check -/

theorem mem_ite_nil {c : Prop} [Decidable c] {l : List String} {t : String}
    (h : t ∈ (if c then [] else l)) : t ∈ l := by
  split at h
  · cases h
  · exact h

theorem mem_chk {c : Bool} {tag t : String} (h : t ∈ W.chk c tag) : t = tag := by
  unfold W.chk at h
  split at h
  · cases h
  · simpa using h

/-- the spec's `sameSide` test (record absent, of size zero, or on the order's side) is the engine's
    increase test -/
theorem sameSide_inc (w : World) (env : Env) (s v : Nat) (side : Side)
    (h : (!W.hasPos w v s || (readPosition w.engine v s).size.isZero
            || ((readPosition w.engine v s).direction == sideToDirection side)) = true) :
    (getPosition env w.engine v s side).size.isZero = true
      ∨ (getPosition env w.engine v s side).direction = sideToDirection side := by
  have h' : (W.hasPos w v s = false ∨ (readPosition w.engine v s).size.isZero = true)
      ∨ (readPosition w.engine v s).direction = sideToDirection side := by
    simpa using h
  rcases h' with (h1 | h1) | h1
  · right
    rw [MirrorP.getPosition_direction]
    unfold MirrorP.gdir
    rw [if_pos (by rw [hasPos_false_read w v s h1]; rfl)]
  · left
    rw [MirrorP.getPosition_size]
    exact h1
  · right
    rw [MirrorP.getPosition_direction]
    unfold MirrorP.gdir
    split
    · rfl
    · exact h1

/-- … and when it fails the stored record has non-zero size, lies on the other side, and is a record of
    this vAMM -/
theorem not_sameSide (w : World) (s v : Nat) (side : Side)
    (h : ¬ (!W.hasPos w v s || (readPosition w.engine v s).size.isZero
            || ((readPosition w.engine v s).direction == sideToDirection side)) = true) :
    (readPosition w.engine v s).vamm = v
      ∧ ¬ (readPosition w.engine v s).size.isZero = true
      ∧ (readPosition w.engine v s).direction ≠ sideToDirection side := by
  have h' : ¬ ((W.hasPos w v s = false ∨ (readPosition w.engine v s).size.isZero = true)
      ∨ (readPosition w.engine v s).direction = sideToDirection side) := by
    simpa using h
  have hz : ¬ (readPosition w.engine v s).size.isZero = true := fun hh => h' (Or.inl (Or.inr hh))
  have hd : (readPosition w.engine v s).direction ≠ sideToDirection side := fun hh => h' (Or.inr hh)
  have hsz : ¬ (readPosition w.engine v s).size.value = 0 := by
    intro h0
    exact hz (by simp [Integer.isZero, h0])
  exact ⟨(MirrorP.read_found w.engine v s hsz).1, hz, hd⟩

theorem ite3_nil (c1 c2 : Prop) [Decidable c1] [Decidable c2] (B : List String) :
    (if c1 then [] else if c2 then B else []) = [] ∨ (if c1 then [] else if c2 then B else []) = B := by
  by_cases h1 : c1
  · rw [if_pos h1]; exact Or.inl rfl
  · rw [if_neg h1]
    by_cases h2 : c2
    · rw [if_pos h2]; exact Or.inr rfl
    · rw [if_neg h2]; exact Or.inl rfl

/-- **invariant** used by `sat_C11` (OpenPosition, clause `funding-skipped-when-closing-by-reversal`): no
    vAMM lives at address 0, the engine's "no record" sentinel (`Mirror.NoZeroVamm`, a conjunct of
    `Mirror.Inv`).  A record stored under vAMM address 0 is taken by `get_position` for an absent one: the
    engine then treats an order against it as an increase whatever its size and direction, while the
    property — which reads the stored record — classifies it as a reduce or a reversal
    (`SatEWitness.c11_needs_noZeroVamm`). -/
def NoZeroVamm (w : World) : Prop := w.vamm? 0 = none

/-- the check of a successful OpenPosition is empty, or reduces to the single clause
    `funding-skipped-when-closing-by-reversal` of a close-only reversal, which holds on a real vAMM address for
    a sender outside the pools -/
theorem check_open_split (w w' : World) (env : Env) (s : Nat) (f : Funds) (v : Nat) (side : Side) (m l b : Nat)
    (h : applyTx w env s f (.engine (.openPosition v side m l b)) = .ok w') :
    Spec.C11.check (okStep w w' env s f (.engine (.openPosition v side m l b))) = []
    ∨ ∃ qo, Spec.C11.check (okStep w w' env s f (.engine (.openPosition v side m l b)))
            = W.chk (decide (equityOf w v s qo < 0) || W.flow w'.log ENGINE s == equityOf w v s qo)
                "funding-skipped-when-closing-by-reversal"
        ∧ (NoZeroVamm w → SenderOutside w s →
            equityOf w v s qo < 0 ∨ W.flow w'.log ENGINE s = equityOf w v s qo) := by
  obtain ⟨x, pn, u, hxv, hpnl, hcore⟩ := open_core w w' env s f v side m l b h
  simp only [Spec.C11.check, W.engineMsg, okStep, W.pos, W.preAt, fundingOwed_spec,
    Bool.not_true, Bool.false_eq_true, ↓reduceIte, hxv]
  have hchk : ∀ tag, (readPosition w'.engine v s).chk = latestCum w.engine v →
      W.chk ((readPosition w'.engine v s).chk.toInt == (latestCum w.engine v).toInt) tag = [] := by
    intro tag hc
    exact chk_true _ _ (by rw [hc]; simp)
  by_cases hss : (!W.hasPos w v s || (readPosition w.engine v s).size.isZero
      || ((readPosition w.engine v s).direction == sideToDirection side)) = true
  · rw [if_pos hss]
    left
    have hinc := sameSide_inc w env s v side hss
    rcases hcore with ⟨_, hc, hge, hlt⟩ | ⟨⟨h1, h2⟩, _⟩ | ⟨⟨h1, h2⟩, _⟩
    · refine List.append_eq_nil_iff.2 ⟨hchk _ hc, chk_true _ _ ?_⟩
      unfold wantOf at hge hlt
      by_cases hneg : ((readPosition w.engine v s).margin : Int)
          + ((m * l / w.engine.cfg.decimals * w.engine.cfg.decimals / l : Nat) : Int)
          - EngineMoney.fundingOwed w.engine (readPosition w.engine v s) < 0
      · simp only [hneg, ↓reduceIte]
        rw [hlt hneg]
        rfl
      · simp only [hneg, ↓reduceIte]
        rw [hge (by omega)]
        simp
    · rcases hinc with hi | hi
      · exact absurd hi h1
      · exact absurd hi h2
    · rcases hinc with hi | hi
      · exact absurd hi h1
      · exact absurd hi h2
  · rw [if_neg hss]
    obtain ⟨hvv, hz, hd⟩ := not_sameSide w s v side hss
    by_cases hvz : (readPosition w.engine v s).vamm = 0
    · -- a record stored under address 0, the "no record" sentinel: the engine takes it for absent
      have hv0 : v = 0 := hvv.symm.trans hvz
      have hc : (readPosition w'.engine v s).chk = latestCum w.engine v := by
        have hgd : (getPosition env w.engine v s side).direction = sideToDirection side := by
          rw [MirrorP.getPosition_direction]
          unfold MirrorP.gdir
          rw [if_pos hvz]
        rcases hcore with ⟨_, hc, _⟩ | ⟨⟨_, h2⟩, _⟩ | ⟨⟨_, h2⟩, _⟩
        · exact hc
        · exact absurd hgd h2
        · exact absurd hgd h2
      rw [hchk _ hc]
      refine Or.elim (ite3_nil _ _ _) Or.inl (fun h0 => Or.inr ⟨_, h0, fun hnz => ?_⟩)
      rw [hv0, hnz] at hxv
      cases hxv
    · -- a record of a real vAMM: the engine reads it as it is
      have hgp : getPosition env w.engine v s side = readPosition w.engine v s := by
        unfold getPosition
        simp only []
        rw [if_neg hvz]
      rw [hgp] at hpnl hcore
      rw [hpnl]
      simp only []
      have hnotinc : ¬ ((readPosition w.engine v s).size.isZero = true
          ∨ (readPosition w.engine v s).direction = sideToDirection side) := by
        intro hh
        rcases hh with hh | hh
        · exact hz hh
        · exact hd hh
      by_cases hred : pn > m * l / w.engine.cfg.decimals
      · rw [if_pos (by simpa using hred)]
        left
        rcases hcore with ⟨hinc, _⟩ | ⟨_, _, hc⟩ | ⟨_, hn, _⟩
        · exact absurd hinc hnotinc
        · exact hchk _ hc
        · exact absurd hred hn
      · rw [if_neg (by simpa using hred)]
        rcases hcore with ⟨hinc, _⟩ | ⟨_, hp, _⟩ | ⟨_, _, qo, hqo, hsub⟩
        · exact absurd hinc hnotinc
        · exact absurd hp hred
        · rw [hqo]
          simp only []
          rcases hsub with ⟨hz0, hE⟩ | ⟨hnz0, hc⟩
          · refine Or.inr ⟨qo, ?_, fun _ hso => hE hso⟩
            show (if (adiff (m * l / w.engine.cfg.decimals) qo / l == 0) = true then
                W.chk (decide (equityOf w v s qo < 0) || W.flow w'.log ENGINE s == equityOf w v s qo)
                  "funding-skipped-when-closing-by-reversal"
              else W.chk ((readPosition w'.engine v s).chk.toInt == (latestCum w.engine v).toInt)
                  "checkpoint-not-moved-on-trade") = _
            rw [if_pos (by rw [hz0]; rfl)]
          · left
            show (if (adiff (m * l / w.engine.cfg.decimals) qo / l == 0) = true then
                W.chk (decide (equityOf w v s qo < 0) || W.flow w'.log ENGINE s == equityOf w v s qo)
                  "funding-skipped-when-closing-by-reversal"
              else W.chk ((readPosition w'.engine v s).chk.toInt == (latestCum w.engine v).toInt)
                  "checkpoint-not-moved-on-trade") = []
            rw [if_neg (by simpa using hnz0)]
            exact hchk _ hc

theorem check_other (st : Step) (h1 : ∀ v side m l b, st.tx ≠ .engine (.openPosition v side m l b))
    (h2 : ∀ v, st.tx ≠ .engine (.payFunding v)) : Spec.C11.check st = [] := by
  unfold Spec.C11.check W.engineMsg
  split
  · rfl
  · split
    · rename_i hm
      split at hm
      · rename_i m' htx
        injection hm with hm
        subst hm
        exact absurd htx (h2 _)
      · cases hm
    · rename_i hm
      split at hm
      · rename_i m' htx
        injection hm with hm
        subst hm
        exact absurd htx (h1 _ _ _ _ _)
      · cases hm
    · rfl

/-- **C11, clean form.**  (The former sub-case hypothesis `w.engine.cfg.mmr ≠ 0` is gone: `Spec.C11.check`
    now follows the engine's own case distinction, so an order against a zero-size record, and a reduce or
    second leg that rounds the size to 0 — outcomes the final margin-ratio guard lets through only with a
    maintenance ratio of 0 — are no longer taken for "closed by a reversal".) -/
theorem sat_C11 (w : World) (env : Env) (s : Nat) (f : Funds) (tx : Tx)
    (hbh : BufferHalf w) (hso : SenderOutside w s) (hnz : NoZeroVamm w) :
    Spec.C11.check (modelStep w env s f tx) = [] := by
  cases hx : applyTx w env s f tx with
  | error e =>
    rw [modelStep_err hx]
    unfold Spec.C11.check errStep
    rfl
  | ok w' =>
    rw [modelStep_ok hx]
    by_cases ho : ∃ v side m l b, tx = .engine (.openPosition v side m l b)
    · obtain ⟨v, side, m, l, b, rfl⟩ := ho
      rcases check_open_split w w' env s f v side m l b hx with h0 | ⟨qo, heq, hE⟩
      · exact h0
      · rw [heq]
        apply chk_true
        rcases hE hnz hso with h1 | h1
        · simp [h1]
        · simp [h1]
    · by_cases hp : ∃ v, tx = .engine (.payFunding v)
      · obtain ⟨v, rfl⟩ := hp
        exact check_payFunding w w' env s f v hbh hx
      · exact check_other _ (fun v side m l b hh => ho ⟨v, side, m, l, b, hh⟩) (fun v hh => hp ⟨v, hh⟩)

/-- **C11, general form** — without the deployment facts `SenderOutside` and `NoZeroVamm`: only the
    reversal-payout clause can fail (a sender that is one of the pools; a record stored under vAMM address 0,
    `SatEWitness.c11_needs_noZeroVamm`) -/
theorem C11_tags (w : World) (env : Env) (s : Nat) (f : Funds) (tx : Tx)
    (hbh : BufferHalf w) :
    ∀ tag ∈ Spec.C11.check (modelStep w env s f tx), tag ∈ ["funding-skipped-when-closing-by-reversal"] := by
  cases hx : applyTx w env s f tx with
  | error e =>
    rw [modelStep_err hx]
    unfold Spec.C11.check errStep
    intro tag ht
    cases ht
  | ok w' =>
    rw [modelStep_ok hx]
    by_cases ho : ∃ v side m l b, tx = .engine (.openPosition v side m l b)
    · obtain ⟨v, side, m, l, b, rfl⟩ := ho
      rcases check_open_split w w' env s f v side m l b hx with h0 | ⟨qo, heq, _⟩
      · rw [h0]; intro tag ht; cases ht
      · rw [heq]
        intro tag ht
        rw [mem_chk ht]
        exact List.mem_singleton.2 rfl
    · by_cases hp : ∃ v, tx = .engine (.payFunding v)
      · obtain ⟨v, rfl⟩ := hp
        rw [check_payFunding w w' env s f v hbh hx]
        intro tag ht; cases ht
      · rw [check_other _ (fun v side m l b hh => ho ⟨v, side, m, l, b, hh⟩) (fun v hh => hp ⟨v, hh⟩)]
        intro tag ht; cases ht

end Perp.Props.SatC11
