/-
  `SatE.C15_tags_within` and the per-transaction curve hypothesis.

  `C15_tags_within` (the `[gross]` tag of C15 never occurs in the regular regime of the curve, given a bounded
  post-trade exchange rate) KEEPS a price hypothesis: `CurveTx.CurveRegularTx` does NOT suffice for it.

  * `c15_gross_under_curveRegularTx` — kernel-evaluated counterexample: `dust8`, a short of 8 raw units on a
    market at price 1/9 with a band.  Every invariant (`AllInv`) and every per-transaction side condition
    (`SideOKTx`, in particular `CurveRegularTx`: the re-quote is 8 ≤ 8) holds, `SatC15.PostRateBounded` holds, the
    ClosePosition takes the partial path and closes the WHOLE position (the re-quote of the notional of 4 base is
    8 base): the stored record ends at size 0 and `Spec.C15.check` reports `…[gross]`.
    `CurveRegularTx` only says the re-quote does not exceed the position (no sign flip — all `Mirror.Inv` needs);
    `C15_tags_within` needs the closed amount to be the configured FRACTION up to rounding, which for a short is
    `C15Requote.short_requote` and needs spot price ≥ 1 on the market traded on.
  * `C15_tags_within_at` — what it does need, per transaction: `CloseMarketRegular w tx` — IF the transaction is
    a ClosePosition, the ONE market it trades on is in the regular regime (reserves ≥ one unit, and price ≥ 1 if
    it has a band).  Other markets of the deployment are not constrained.  (Proof: `SatC15.partial_core`,
    `check_close_within`, `C15_tags_within` read the hypothesis at that market only; copied with the hypothesis
    localized.)  The old theorem is a corollary (`closeMarketRegular_of_curveRegular`).
-/
import Perp.Props.CurveTxWitness
import Perp.Props.SatE

namespace Perp.Props.CurveTx
open Perp Perp.World Perp.Engine Perp.Spec Perp.Spec.W Perp.Props.ModelStep
open Perp.Props.Dispatch Perp.Props.SatTrace Perp.Props.SatFlows
open Perp.Props.MirrorP (AllCE SD SignDirE)
open Perp.Spec.C15 (band inside)
open Perp.Props.SatC15

/-! ## the localized hypothesis and the primed theorem -/

/-- IF the transaction is a ClosePosition, the market it trades on is in the regular regime of the curve -/
def CloseMarketRegular (w : World) (tx : Tx) : Prop :=
  ∀ v l, tx = .engine (.closePosition v l) → ∀ x, w.vamm? v = some x →
    x.cfg.decimals ≤ x.st.quote ∧ x.cfg.decimals ≤ x.st.base ∧ (x.cfg.fluct ≠ 0 → x.st.base ≤ x.st.quote)

theorem closeMarketRegular_of_curveRegular {w : World} (h : Mirror.CurveRegular w) (tx : Tx) :
    CloseMarketRegular w tx := fun v _ _ x hx => h v x hx

/-- `SatC15.partial_core` with the curve hypothesis at the market traded on only -/
theorem partial_core_at (w w' : World) (env : Env) (s : Nat) (f : Funds) (v l : Nat)
    (h : applyTx w env s f (.engine (.closePosition v l)) = .ok w')
    (x y : Vamm.V) (hxv : w.vamm? v = some x) (hyv : w'.vamm? v = some y)
    (hcr : x.cfg.decimals ≤ x.st.quote ∧ x.cfg.decimals ≤ x.st.base ∧ (x.cfg.fluct ≠ 0 → x.st.base ≤ x.st.quote))
    (hf : x.cfg.fluct ≠ 0) (hplr : w.engine.cfg.plr < w.engine.cfg.decimals)
    (hhp : W.hasPos w' v s = true)
    (hrb : y.st.base / y.st.quote + 2 ≤ 2 * y.st.quote) :
    (readPosition w.engine v s).size.toInt * (readPosition w'.engine v s).size.toInt > 0
    ∧ (readPosition w'.engine v s).size.toInt.natAbs ≤ (readPosition w.engine v s).size.toInt.natAbs
    ∧ (readPosition w.engine v s).size.toInt.natAbs - (readPosition w'.engine v s).size.toInt.natAbs
        ≤ (readPosition w.engine v s).size.toInt.natAbs * w.engine.cfg.plr / w.engine.cfg.decimals
    ∧ (readPosition w.engine v s).size.toInt.natAbs * w.engine.cfg.plr / w.engine.cfg.decimals
        - ((readPosition w.engine v s).size.toInt.natAbs - (readPosition w'.engine v s).size.toInt.natAbs)
        ≤ y.st.base / y.st.quote + 2 := by
  obtain ⟨w1, e1, x0, sw, msgs, over, hst, _, hxv0, hnz, pv, pt, hex, hsw, sv, st, hpos, hcfg, _, _, hover, hcase⟩ :=
    close_flow w w' env s f v l h
  rw [hxv] at hxv0
  cases hxv0
  obtain ⟨c1, c2, c3⟩ := hcr
  have c3 := c3 hf
  rcases hcase with ⟨hno, _, x', qo, w2, e3, subs3, hswap, _, _, _, hrep, _, he3, hv', _⟩
      | ⟨hyes, hside, N, x', bo, w2, e3, subs3, hswap, hrep, _, he3, hv', hmsg⟩
  · exfalso
    have hk := EngineMoney.getPosition_key env e1 sw.vamm sw.trader sw.side
    obtain ⟨hp', _⟩ := MirrorP.closePositionReply_eff _ _ _ _ sw hsw _ hrep
    have := hasPos_remove e1 e3 w' _ v s he3 hp' (hk.1.trans sv) (hk.2.trans st)
    rw [this] at hhp
    cases hhp
  · rw [hyv] at hv'
    cases hv'
    -- the quote notional is the vAMM's quote for `|size|·plr/D` base
    obtain ⟨_, _, _, tmp', _, _, _, hc⟩ := MirrorP.closePosition_inv _ _ _ _ _ _ _ hex
    dsimp only at hc
    have hq : ∃ pa, pa = (readPosition w.engine v s).size.value * w.engine.cfg.plr / w.engine.cfg.decimals
        ∧ Vamm.queryOutputAmount x
            (if Integer.gt (readPosition w.engine v s).size Integer.zero then .addToAmm else .removeFromAmm) pa
            = .ok N := by
      rcases hc with ⟨_, h2⟩ | ⟨_, xx, pa, N', over', h2, hcm, hcd, hout, _, _⟩
      · rw [hmsg] at h2
        injection h2 with h2
        injection h2 with h2
        cases h2
      · rw [hmsg] at h2
        have hNN : N = N' := by
          injection h2 with h2
          injection h2 with h2
          injection h2
        subst hNN
        simp only [cmul_ok] at hcm
        obtain ⟨_, rfl⟩ := hcm
        simp only [cdiv_ok] at hcd
        obtain ⟨_, rfl⟩ := hcd
        obtain ⟨x1, hx1, hq1⟩ := MirrorP.q_outputAmount _ _ _ _ _ hout
        rw [hst.vamm? v, hxv] at hx1
        cases hx1
        exact ⟨_, rfl, hq1⟩
    obtain ⟨pa, hpa, hqo⟩ := hq
    -- the swap
    obtain ⟨b, hqi, hur, ho, _⟩ := C17.swapInput_inv _ _ _ _ _ _ _ _ _ hswap
    injection ho with _ _ hbo
    subst hbo
    -- the stored size
    have hk := EngineMoney.getPosition_key env e1 sw.vamm sw.trader sw.side
    obtain ⟨⟨p', hp', pv', pt', psz, _⟩, _⟩ := MirrorP.partialClosePositionReply_eff _ _ _ _ _ sw hsw _ hrep
    dsimp only at hp' pv' pt' psz
    have hread : readPosition w'.engine v s = p' := by
      rw [he3]; exact read_of_store e1 e3 p' v s hp' ((pv'.trans hk.1).trans sv) ((pt'.trans hk.2).trans st)
    have hrd : readPosition e1 sw.vamm sw.trader = readPosition w.engine v s := by
      rw [sv, st]; exact WorldInv.rp_same v s hpos
    rw [MirrorP.getPosition_size, hrd, hside, MirrorP.signedOutput_toInt] at psz
    rw [hread]
    have hv := C19.toInt_natAbs (readPosition w.engine v s).size
    rw [hv]
    have hpalt : pa < (readPosition w.engine v s).size.value := by
      rw [hpa]
      apply Nat.div_lt_of_lt_mul
      rw [Nat.mul_comm w.engine.cfg.decimals]
      exact Nat.mul_lt_mul_of_pos_left hplr (Nat.pos_of_ne_zero hnz)
    unfold Vamm.queryOutputAmount at hqo
    unfold Vamm.queryInputAmount at hqi
    unfold positionToSide at hqi hur psz
    by_cases hg : Integer.gt (readPosition w.engine v s).size Integer.zero = true
    · rw [if_pos hg] at hqo hqi hur psz
      have ha := (MirrorP.gt_zero_iff _).1 hg
      simp only [sideToDirection] at hqi hur psz
      rw [psz]
      obtain ⟨hle, hdev⟩ := C15Requote.long_requote _ _ _ _ _ _ c1 c2 hqo hqi
      obtain ⟨u1, u2, u3⟩ := C17.updateReserve_remove _ _ _ _ _ _ hur
      rw [u1, u3] at hrb ⊢
      have hdev := hdev hrb
      rw [← hpa]
      refine ⟨Int.mul_pos ha (by omega), by omega, by omega, by omega⟩
    · rw [if_neg hg] at hqo hqi hur psz
      have ha : (readPosition w.engine v s).size.toInt < 0 := by
        have : ¬ 0 < (readPosition w.engine v s).size.toInt := fun hh => hg ((MirrorP.gt_zero_iff _).2 hh)
        omega
      simp only [sideToDirection] at hqi hur psz
      rw [psz]
      have hex' := C15Requote.short_requote _ _ _ _ _ _ c1 c3 hqo hqi
      rw [← hpa]
      refine ⟨Int.mul_pos_of_neg_of_neg ha (by omega), by omega, by omega, ?_⟩
      have : (readPosition w.engine v s).size.value
          - ((readPosition w.engine v s).size.toInt + (bo : Int)).natAbs = bo := by omega
      rw [this, hex', Nat.sub_self]
      exact Nat.zero_le _

/-- `SatC15.check_close_within` with the curve hypothesis at the market traded on only -/
theorem check_close_within_at (w w' : World) (env : Env) (s : Nat) (f : Funds) (v l : Nat)
    (h : applyTx w env s f (.engine (.closePosition v l)) = .ok w') (hsd : SignDirE w.engine)
    (hcr : ∀ x, w.vamm? v = some x →
      x.cfg.decimals ≤ x.st.quote ∧ x.cfg.decimals ≤ x.st.base ∧ (x.cfg.fluct ≠ 0 → x.st.base ≤ x.st.quote))
    (hrb : ∀ y, w'.vamm? v = some y → y.st.base / y.st.quote + 2 ≤ 2 * y.st.quote) :
    ∀ tag ∈ Spec.C15.check (okStep w w' env s f (.engine (.closePosition v l))),
        tag ∈ ["partial-close-not-the-configured-fraction[within-requote-rounding]"] := by
  simp only [Spec.C15.check, W.engineMsg, okStep, W.pos, Bool.not_true, Bool.false_eq_true, ↓reduceIte]
  cases hxv : w.vamm? v with
  | none => exact fun tag ht => by cases ht
  | some x =>
    cases hyv : w'.vamm? v with
    | none => exact fun tag ht => by cases ht
    | some y =>
      simp only []
      by_cases hf : x.cfg.fluct = 0
      · have hf' : (x.cfg.fluct == 0) = true := by simp [hf]
        simp only [hf', Bool.true_or, ↓reduceIte]
        exact fun tag ht => by cases ht
      by_cases hp : w.engine.cfg.plr ≥ w.engine.cfg.decimals
      · simp only [hp, decide_true, Bool.or_true, ↓reduceIte]
        exact fun tag ht => by cases ht
      · have hf' : (x.cfg.fluct == 0) = false := by simpa using hf
        simp only [hf', hp, decide_false, Bool.or_false, Bool.false_eq_true, ↓reduceIte]
        have hc' : ¬ x.cfg.fluct = 0 ∧ w.engine.cfg.plr < w.engine.cfg.decimals := ⟨hf, by omega⟩
        cases hb : band x.cfg.decimals x.cfg.fluct x.st.snaps env.height with
        | none => exact fun tag ht => by cases ht
        | some bd =>
          simp only []
          rcases close_core w w' env s f v l h hsd x y hxv hyv hc'.1 hc'.2 bd hb with ⟨hp, hi, _⟩ | ⟨hp, hz, hov⟩
          · simp only [hp, Bool.not_false, ↓reduceIte]
            rw [chk_true _ _ hi]
            exact fun tag ht => by cases ht
          · simp only [hp, Bool.not_true, Bool.false_eq_true, ↓reduceIte]
            obtain ⟨k1, k2, k3, k4⟩ := partial_core_at w w' env s f v l h x y hxv hyv (hcr x hxv) hc'.1 hc'.2 hp (hrb y hyv)
            have hm : y.st.base / y.st.quote ≤ max (x.st.base / x.st.quote) (y.st.base / y.st.quote) :=
              Nat.le_max_right _ _
            have hfin : ∀ (c : Bool) (t : String), ∀ tag ∈ W.chk c t, tag = t := fun c t tag ht => mem_chk ht
            cases hsw : Vamm.swapOutput x env ENGINE (readPosition w.engine v s).direction
                (readPosition w.engine v s).size.value 0 with
            | error e =>
              simp only [List.append_nil]
              intro tag ht
              rw [hfin _ _ tag ht]
              refine List.mem_singleton.2 ?_
              exact if_pos (within_cond _ _ _ _ _ _ k1 k2 k3 k4 hm)
            | ok r =>
              obtain ⟨z, o⟩ := r
              simp only []
              rw [chk_true (!inside x.cfg.decimals bd z.st.quote z.st.base) _ (by rw [hz z o hsw]; rfl), List.append_nil]
              intro tag ht
              rw [hfin _ _ tag ht]
              refine List.mem_singleton.2 ?_
              exact if_pos (within_cond _ _ _ _ _ _ k1 k2 k3 k4 hm)

/-- `SatC15.C15_tags_within` with the curve hypothesis at the market traded on only -/
theorem C15_tags_within_at (w : World) (env : Env) (s : Nat) (f : Funds) (tx : Tx) (hsd : SignDirE w.engine)
    (hcr : CloseMarketRegular w tx) (hrb : PostRateBounded w env s f tx) :
    ∀ tag ∈ Spec.C15.check (modelStep w env s f tx),
      tag ∈ ["partial-close-not-the-configured-fraction[within-requote-rounding]"] := by
  by_cases hcl : ∃ v l, tx = .engine (.closePosition v l)
  · obtain ⟨v, l, rfl⟩ := hcl
    cases hx : applyTx w env s f (.engine (.closePosition v l)) with
    | error e => rw [modelStep_err hx]; exact check_nil_of _ (check_close_err w env s f v l) _
    | ok w' =>
      rw [modelStep_ok hx]
      refine check_close_within_at w w' env s f v l hx hsd (hcr v l rfl) ?_
      intro y hy
      exact hrb v l w' y rfl hx hy
  · intro tag ht
    have h2 := C15_tags w env s f tx hsd tag ht
    have hnil : Spec.C15.check (modelStep w env s f tx) = [] := by
      by_cases ho : ∃ v side m l b, tx = .engine (.openPosition v side m l b)
      · obtain ⟨v, side, m, l, b, rfl⟩ := ho
        cases hx : applyTx w env s f (.engine (.openPosition v side m l b)) with
        | error e => rw [modelStep_err hx]; exact check_open_err w env s f v side m l b
        | ok w' => rw [modelStep_ok hx]; exact check_open_ok w w' env s f v side m l b hx
      · exact check_other _ (by
            intro v side m l b hh
            apply ho
            refine ⟨v, side, m, l, b, ?_⟩
            unfold modelStep at hh
            split at hh <;> exact hh) (by
            intro v l hh
            apply hcl
            refine ⟨v, l, ?_⟩
            unfold modelStep at hh
            split at hh <;> exact hh)
    rw [hnil] at ht
    cases ht

/-- **`SatE.C15_tags_within`, per transaction**: the `[gross]` tag never occurs if the market a ClosePosition
    trades on is regular and the post-trade exchange rate is bounded -/
theorem C15_tags_within_tx (w : World) (env : Env) (s : Nat) (f : Funds) (tx : Tx) (_hwf : WF w)
    (hsd : Mirror.SignDir w.engine) (hcr : CloseMarketRegular w tx) (hrb : SatC15.PostRateBounded w env s f tx) :
    ∀ tag ∈ Spec.C15.check (modelStep w env s f tx),
      tag ∈ ["partial-close-not-the-configured-fraction[within-requote-rounding]"] :=
  C15_tags_within_at w env s f tx hsd hcr hrb

/-! ## `CurveRegularTx` does not suffice for `C15_tags_within`: a kernel-evaluated counterexample -/

namespace C15Witness
open Perp.Props.SatEWitness (D world eng vamm)
open Perp.Props.SatExtra.Witness (close10)
open Perp.Props.CurveTxWitness (f0)
open Perp.Props.CapstoneTx Perp.Props.MonitorTxSound Perp.Props.MonitorSound

/-- a short of 8 raw base units (margin 10, open notional 1) against reserves 1.000000 quote / 8.999929 base
    (price 1/9), fluctuation limit 0.0001 %, partial-close ratio 50 % -/
def dust8 : World :=
  world (eng false (5 * 10^4) (50 * 10^4)
      [⟨10, 100, .removeFromAmm, Integer.newNegative 8, 10, 1, Integer.zero, 1⟩])
    (vamm (1 * D) 8999929 1 1800 (Integer.newNegative 8))

set_option maxRecDepth 100000 in
/-- every invariant and every per-transaction side condition holds (the re-quote, 8, does not exceed the
    position, 8) … -/
theorem dust8_hyps :
    Capstone.AllInv dust8 ∧ SideOKTx dust8 ⟨2, 1000⟩ 100 f0 close10
    ∧ CurveRegularTx dust8 ⟨2, 1000⟩ 100 close10
    ∧ MonitorTx.partialShortTrigger dust8 ⟨2, 1000⟩ 100 10 = true
    ∧ MonitorTx.partialShortRequote dust8 ⟨2, 1000⟩ 100 10 = .ok 8 :=
  ⟨(allInv_iff _).1 (by decide +kernel), (sideTx_iff _ _ _ _ _).1 (by decide +kernel),
   (curveTxB_iff _ _ _ _).1 (by decide +kernel), by decide +kernel, by decide +kernel⟩

set_option maxRecDepth 100000 in
/-- … the post-trade exchange rate is bounded (8 + 2 ≤ 2 · 1000001) … -/
theorem dust8_postRate : SatC15.PostRateBounded dust8 ⟨2, 1000⟩ 100 f0 close10 := by
  intro v l w' y htx happ hy
  have hv : v = 10 := by
    injection htx with h
    injection h with h1 _
    exact h1.symm
  subst hv
  have hok := Mirror.Cex.step_ok dust8 ⟨2, 1000⟩ 100 f0 close10 (by decide +kernel)
  rw [hok] at happ
  injection happ with happ
  subst happ
  have hb : (match (step dust8 ⟨2, 1000⟩ 100 f0 close10).vamm? 10 with
      | some y => decide (y.st.base / y.st.quote + 2 ≤ 2 * y.st.quote)
      | none => true) = true := by decide +kernel
  rw [hy] at hb
  exact of_decide_eq_true hb

set_option maxRecDepth 100000 in
/-- … and the accepted ClosePosition (partial path) closes the whole position — the record ends at size 0 —
    which `Spec.C15.check` reports as `[gross]`: `CurveRegularTx` (with `SignDir`, `PostRateBounded`, every
    invariant and side condition) does NOT imply the conclusion of `C15_tags_within`.  (The invariants still hold
    afterwards, and the tag is one of `Capstone.knownTags`: the capstone is not affected.) -/
theorem c15_gross_under_curveRegularTx :
    (modelStep dust8 ⟨2, 1000⟩ 100 f0 close10).ok = true
    ∧ (step dust8 ⟨2, 1000⟩ 100 f0 close10).engine.positions
        = [⟨10, 100, .removeFromAmm, Integer.zero, 10, 0, Integer.zero, 2⟩]
    ∧ Spec.C15.check (modelStep dust8 ⟨2, 1000⟩ 100 f0 close10)
        = ["partial-close-not-the-configured-fraction[gross]"] := by decide +kernel

/-- the statement of `SatE.C15_tags_within` with `CurveRegularTx` for `Mirror.CurveRegular` is FALSE -/
theorem C15_tags_within_tx_false :
    ¬ (∀ (w : World) (env : Env) (s : Nat) (f : Funds) (tx : Tx), WF w → Mirror.SignDir w.engine →
        CurveRegularTx w env s tx → SatC15.PostRateBounded w env s f tx →
        ∀ tag ∈ Spec.C15.check (modelStep w env s f tx),
          tag ∈ ["partial-close-not-the-configured-fraction[within-requote-rounding]"]) := by
  intro H
  have h := H dust8 ⟨2, 1000⟩ 100 f0 close10 dust8_hyps.1.wf dust8_hyps.1.signDir dust8_hyps.2.2.1 dust8_postRate
    "partial-close-not-the-configured-fraction[gross]" (by rw [c15_gross_under_curveRegularTx.2.2]; exact List.mem_singleton.2 rfl)
  exact absurd h (by decide)

/-- the localized hypothesis of `C15_tags_within_tx` fails there, as it must: the market's price is below 1 -/
theorem dust8_not_closeMarketRegular : ¬ CloseMarketRegular dust8 close10 := by
  intro h
  have h3 := (h 10 0 rfl (vamm (1 * D) 8999929 1 1800 (Integer.newNegative 8)) (by decide)).2.2 (by decide)
  exact absurd h3 (by decide)

end C15Witness

end Perp.Props.CurveTx
