/-
  SatC, part 1 — helpers shared by the refinement theorems of group C (C05, C20, C16):
  the two shapes of `modelStep`, running fire-and-forget collateral messages (frames that include the
  vAMM *list*), a predicate on every vAMM's configuration carried along the dispatcher, and
  `AllConfigOK` (engine + every vAMM within bounds) as an invariant of `step`.
-/
import Perp.Props.ModelStep
import Perp.Props.WorldInv
import Perp.Props.VammGuards
import Perp.Props.MirrorInv

namespace Perp.Props.SatC
open Perp Perp.World Perp.Engine Perp.Spec Perp.Props.ModelStep
open Perp.Props.Dispatch
open Perp.Props.MirrorP (AllCE CE IsColl AllCE_tail AllCE_nil AllCE_cons AllCE_append)

/-! ### the observation record -/

theorem ms_err {w : World} {env : Env} {s : Nat} {f : Funds} {tx : Tx} {e : Err}
    (h : applyTx w env s f tx = .error e) :
    modelStep w env s f tx =
      { pre := w, post := w, env := env, sender := s, funds := f, tx := tx, ok := false, xfers := [],
        residue := residue w.engine } := by
  unfold modelStep; rw [h]

theorem ms_ok {w : World} {env : Env} {s : Nat} {f : Funds} {tx : Tx} {w' : World}
    (h : applyTx w env s f tx = .ok w') :
    modelStep w env s f tx =
      { pre := w, post := w', env := env, sender := s, funds := f, tx := tx, ok := true, xfers := w'.log,
        residue := residue w'.engine } := by
  unfold modelStep; rw [h]

theorem chk_nil (c : Bool) (tag : String) : W.chk c tag = [] ↔ c = true := by
  unfold W.chk; cases c <;> simp

theorem isErr_ok_false {α : Type} {x : Except Err α} {a : α} (h : x = .ok a) (he : WorldInv.isErr x) : False := by
  obtain ⟨e, he⟩ := he; rw [he] at h; cases h

theorem append_eq_nil' {α : Type} {a b : List α} (ha : a = []) (hb : b = []) : a ++ b = [] := by
  rw [ha, hb]; rfl

/-! ### collateral messages leave the engine, the vAMM list, the clock, the registries and the feed alone -/

theorem execMsg_coll_vamms (fuel : Nat) (w w' : World) (s : Nat) (m : Msg) (ev : Ev) (hm : IsColl m)
    (h : execMsg fuel w s m = .ok (w', ev)) : w'.vamms = w.vamms := by
  cases fuel with
  | zero => unfold execMsg at h; cases h
  | succ fuel =>
    unfold execMsg at h
    cases m with
    | vammSwapInput b d x l g => exact absurd hm id
    | vammSwapOutput b d x l => exact absurd hm id
    | vammSettle b => exact absurd hm id
    | vammSetOpen b o => exact absurd hm id
    | tokenTransfer to amt =>
      simp at h
      obtain ⟨g, hg, rfl, _⟩ := h
      rfl
    | tokenTransferFrom owner to amt =>
      try simp only [] at h
      split at h
      · cases h
      simp at h
      obtain ⟨g, hg, rfl, _⟩ := h
      rfl
    | bankSend to amt =>
      simp at h
      obtain ⟨g, hg, rfl, _⟩ := h
      rfl
    | ifWithdraw amt =>
      try simp only [] at h
      split at h
      · cases h
      split at h
      · cases h
      simp at h
      obtain ⟨w1, hs, rfl, _⟩ := h
      exact execSubs_coll_vamms _ _ _ _ _ (by split <;> simp) (by split <;> rfl) hs

/-- what running fire-and-forget collateral messages cannot change -/
def SameCore (w w' : World) : Prop :=
  w'.engine = w.engine ∧ w'.vamms = w.vamms ∧ w'.env = w.env ∧ w'.ifund = w.ifund ∧ w'.feePool = w.feePool
    ∧ w'.feed = w.feed

theorem SameCore.refl (w : World) : SameCore w w := ⟨rfl, rfl, rfl, rfl, rfl, rfl⟩

theorem SameCore.trans {a b c : World} (h1 : SameCore a b) (h2 : SameCore b c) : SameCore a c :=
  ⟨h2.1.trans h1.1, h2.2.1.trans h1.2.1, h2.2.2.1.trans h1.2.2.1, h2.2.2.2.1.trans h1.2.2.2.1,
   h2.2.2.2.2.1.trans h1.2.2.2.2.1, h2.2.2.2.2.2.trans h1.2.2.2.2.2⟩

theorem execMsg_coll_core (fuel : Nat) (w w' : World) (s : Nat) (m : Msg) (ev : Ev) (hm : IsColl m)
    (h : execMsg fuel w s m = .ok (w', ev)) : SameCore w w' := by
  obtain ⟨a1, a2, a3, a4, a5⟩ := (execMsg_engine_frame fuel).1 _ _ _ _ _ h
  exact ⟨a1, execMsg_coll_vamms _ _ _ _ _ _ hm h, a2, a3, a4, a5⟩

/-- a prefix of fire-and-forget collateral messages runs first, changing nothing of the core -/
theorem run_coll_prefix : ∀ (pre : List SubMsg) (fuel : Nat) (w w' : World) (rest : List SubMsg), AllCE pre →
    execSubs fuel w ENGINE (pre ++ rest) = .ok w' →
    ∃ fuel' wm, SameCore w wm ∧ execSubs fuel' wm ENGINE rest = .ok w' := by
  intro pre
  induction pre with
  | nil => intro fuel w w' rest _ h; exact ⟨fuel, w, SameCore.refl w, h⟩
  | cons p pre ih =>
    intro fuel w w' rest ha h
    cases fuel with
    | zero => unfold execSubs at h; cases h
    | succ fuel =>
      obtain ⟨h1, h2⟩ := AllCE_tail ha
      obtain ⟨w1, ev, hx, _, hno⟩ := execSubs_cons_ok fuel w w' ENGINE p (pre ++ rest) h
      have hc := execMsg_coll_core _ _ _ _ _ _ h1.2 hx
      obtain ⟨fuel', wm, hs, hr⟩ := ih fuel w1 w' rest h2 (hno (WorldInv.not_reply_of_err h1.1))
      exact ⟨fuel', wm, SameCore.trans hc hs, hr⟩

theorem run_coll (fuel : Nat) (w w' : World) (subs : List SubMsg) (ha : AllCE subs)
    (h : execSubs fuel w ENGINE subs = .ok w') : SameCore w w' := by
  have h' : execSubs fuel w ENGINE (subs ++ []) = .ok w' := by rw [List.append_nil]; exact h
  obtain ⟨fuel', wm, hs, hr⟩ := run_coll_prefix subs fuel w w' [] ha h'
  rw [WorldInv.execSubs_nil _ _ _ _ hr]
  exact hs

/-! ### a predicate on every vAMM's configuration, along the dispatcher -/

/-- every vAMM of the world (list level, as `Spec.C20.check` folds over it) satisfies `P` -/
def VAll (P : Vamm.Config → Prop) (w : World) : Prop := ∀ p ∈ w.vamms, P p.2.cfg

theorem VAll_of_vamms {P : Vamm.Config → Prop} {w w' : World} (h : w'.vamms = w.vamms) (hv : VAll P w) : VAll P w' := by
  intro p hp; rw [h] at hp; exact hv p hp

theorem VAll_setVamm {P : Vamm.Config → Prop} (w : World) (a : Nat) (v' : Vamm.V) (hv : VAll P w) (hp : P v'.cfg) :
    VAll P (w.setVamm a v') := by
  intro p hpm
  have hpm' : p ∈ w.vamms.map (fun p => if p.1 == a then (a, v') else p) := hpm
  rw [List.mem_map] at hpm'
  obtain ⟨p0, hp0, rfl⟩ := hpm'
  split
  · exact hp
  · exact hv p0 hp0

theorem VAll_get {P : Vamm.Config → Prop} {w : World} {a : Nat} {v : Vamm.V} (hv : VAll P w)
    (h : w.vamm? a = some v) : P v.cfg := hv _ (Mirror.Cex.vamm?_mem w a v h)

/-- no dispatched message (by any contract, replies included) changes the configuration of a vAMM -/
theorem exec_VAll (P : Vamm.Config → Prop) (fuel : Nat) :
    (∀ w s m w' ev, execMsg fuel w s m = .ok (w', ev) → VAll P w → VAll P w')
    ∧ (∀ w c subs w', execSubs fuel w c subs = .ok w' → VAll P w → VAll P w') := by
  induction fuel with
  | zero =>
    constructor
    · intro w s m w' ev h; unfold execMsg at h; cases h
    · intro w c subs w' h; unfold execSubs at h; cases h
  | succ fuel ih =>
    constructor
    · intro w s m w' ev h hv
      cases m with
      | vammSwapInput a d x l g =>
        obtain ⟨v, v', o, hva, hsw, rfl, _⟩ := MirrorP.execMsg_swapInput_inv _ _ _ _ _ _ _ _ _ _ h
        obtain ⟨_, hc, _⟩ := MirrorP.swapInput_net _ _ _ _ _ _ _ _ _ hsw
        exact VAll_setVamm _ _ _ hv (by rw [hc]; exact VAll_get hv hva)
      | vammSwapOutput a d x l =>
        obtain ⟨v, v', o, hva, hsw, rfl, _⟩ := MirrorP.execMsg_swapOutput_inv _ _ _ _ _ _ _ _ _ h
        obtain ⟨_, hc, _⟩ := MirrorP.swapOutput_net _ _ _ _ _ _ _ _ hsw
        exact VAll_setVamm _ _ _ hv (by rw [hc]; exact VAll_get hv hva)
      | vammSettle a =>
        obtain ⟨v, v', pf, hva, hsw, rfl, _⟩ := MirrorP.execMsg_settle_inv _ _ _ _ _ _ h
        obtain ⟨_, _, _, hc⟩ := C01.settle_keep _ _ _ _ _ _ hsw
        exact VAll_setVamm _ _ _ hv (by rw [hc]; exact VAll_get hv hva)
      | vammSetOpen a o =>
        obtain ⟨v, v', hva, hsw, rfl⟩ := MirrorP.execMsg_setOpen_inv _ _ _ _ _ _ _ h
        obtain ⟨_, _, _, hc⟩ := C01.setOpen_keep _ _ _ _ _ hsw
        exact VAll_setVamm _ _ _ hv (by rw [hc]; exact VAll_get hv hva)
      | tokenTransfer to amt =>
        exact VAll_of_vamms (execMsg_coll_vamms _ _ _ _ (.tokenTransfer to amt) _ trivial h) hv
      | tokenTransferFrom owner to amt =>
        exact VAll_of_vamms (execMsg_coll_vamms _ _ _ _ (.tokenTransferFrom owner to amt) _ trivial h) hv
      | bankSend to amt => exact VAll_of_vamms (execMsg_coll_vamms _ _ _ _ (.bankSend to amt) _ trivial h) hv
      | ifWithdraw amt => exact VAll_of_vamms (execMsg_coll_vamms _ _ _ _ (.ifWithdraw amt) _ trivial h) hv
    · intro w c subs w' h hv
      cases subs with
      | nil => rw [WorldInv.execSubs_nil _ _ _ _ h]; exact hv
      | cons sm rest =>
        obtain ⟨w1, ev, hx, hyes, hno⟩ := execSubs_cons_ok fuel w w' c sm rest h
        have h1 := ih.1 _ _ _ _ _ hx hv
        by_cases hr : sm.replyOn = .always ∨ sm.replyOn = .success
        · obtain ⟨_, e2, subs2, w3, _, hs2, hrest⟩ := hyes hr
          have h2 : VAll P { w1 with engine := e2 } := h1
          exact ih.2 _ _ _ _ hrest (ih.2 _ _ _ _ hs2 h2)
        · exact ih.2 _ _ _ _ (hno hr) h1

/-! ### `AllConfigOK`: engine and every vAMM within their configuration bounds -/

/-- **hypothesis of `sat_C20`** (kind (a): invariant of reachable worlds).  The bounds clauses of
    `Spec.C20.check` (`engine-ratio-above-one`, `maintenance-above-initial`, `vamm-ratio-above-one`,
    `vamm-twap-interval-out-of-range`) speak about the *post*-state of every transaction, including those
    that do not touch the configuration at all: they hold after a step exactly when they held before it.
    Instantiation establishes them (`VammGuards.instantiate_configOK`; the engine's instantiate validates
    the same ratios), `allConfigOK_applyTx` / `allConfigOK_step` below prove they are preserved by every
    transaction.  Without it the clause fails trivially: a world whose engine already has `mmr > imr`
    keeps it through any unrelated transaction (`Skel/SatC.lean`, `Wit.C20_configOK_witness`). -/
def AllConfigOK (w : World) : Prop :=
  EngineGuards.ConfigOK w.engine.cfg ∧ VAll VammGuards.ConfigOK w

theorem engine_cfgOK_applyTx (w w' : World) (env : Env) (s : Nat) (f : Funds) (tx : Tx)
    (hc : EngineGuards.ConfigOK w.engine.cfg) (h : applyTx w env s f tx = .ok w') :
    EngineGuards.ConfigOK w'.engine.cfg := by
  by_cases hne : ∃ m, tx = .engine m
  · obtain ⟨m, rfl⟩ := hne
    obtain ⟨w1, e1, subs, a1, _, _, _, _, _, hex, hrun⟩ := WorldInv.applyTx_engine_inv w w' env s f m h
    have h1 : EngineGuards.ConfigOK e1.cfg := by
      by_cases hu : ∃ u, m = .updateConfig u
      · obtain ⟨u, rfl⟩ := hu
        have h' : (updateConfig w1.engine s u).map (fun e' => (e', ([] : List SubMsg))) = .ok (e1, subs) := hex
        obtain ⟨e1', h1, h2⟩ := (EngineGuards.exmap_ok _ _ _).1 h'
        cases h2
        exact (EngineGuards.updateConfig_configOK _ _ _ _ (by rw [a1]; exact hc) h1).1
      · rw [EngineGuards.execute_cfg _ _ _ _ _ _ _ _ (fun u hu' => hu ⟨u, hu'⟩) hex, a1]
        exact hc
    exact WorldInv.execSubs_engine_invariant (fun e => EngineGuards.ConfigOK e.cfg)
      (fun q e e' env' id ev subs' hP hrep => by
        show EngineGuards.ConfigOK e'.cfg
        rw [EngineGuards.replyOk_cfg _ _ _ _ _ _ _ hrep]; exact hP)
      FUEL { w1 with engine := e1 } w' subs hrun h1
  · rw [WorldInv.applyTx_nonengine_frame w w' env s f tx (fun m hm => hne ⟨m, hm⟩) h]
    exact hc

theorem vamm_cfgOK_applyTx (w w' : World) (env : Env) (s : Nat) (f : Funds) (tx : Tx)
    (hv : VAll VammGuards.ConfigOK w) (h : applyTx w env s f tx = .ok w') : VAll VammGuards.ConfigOK w' := by
  have hm : ∀ (w0 : World) m, (execMsg FUEL w0 s m).map (·.1) = .ok w' → w0.vamms = w.vamms →
      VAll VammGuards.ConfigOK w' := by
    intro w0 m h' hl
    rw [exmap_ok] at h'
    obtain ⟨⟨w1, ev⟩, h', rfl⟩ := h'
    exact (exec_VAll _ FUEL).1 _ _ _ _ _ h' (VAll_of_vamms hl hv)
  have hs : ∀ (w0 : World) c subs, execSubs FUEL w0 c subs = .ok w' → w0.vamms = w.vamms →
      VAll VammGuards.ConfigOK w' := by
    intro w0 c subs h' hl
    exact (exec_VAll _ FUEL).2 _ _ _ _ h' (VAll_of_vamms hl hv)
  have hsame : ∀ w0 : World, w0.vamms = w.vamms → VAll VammGuards.ConfigOK w0 := fun w0 h0 => VAll_of_vamms h0 hv
  by_cases hne : ∃ m, tx = .engine m
  · obtain ⟨m, rfl⟩ := hne
    obtain ⟨w1, e1, subs, _, _, a3, _, _, _, _, hrun⟩ := WorldInv.applyTx_engine_inv w w' env s f m h
    exact hs _ _ _ hrun a3
  unfold applyTx at h
  cases tx <;> dsimp only at h
  case engine m => exact absurd ⟨m, rfl⟩ hne
  case vammSwapInput v dir amt lim cgo => exact hm _ _ h rfl
  case vammSwapOutput v dir amt lim => exact hm _ _ h rfl
  case vammSettle v => exact hm _ _ h rfl
  case vammSetOpen v o => exact hm _ _ h rfl
  case vammConfig v u =>
    simp at h
    obtain ⟨x, hx, x', hx', rfl⟩ := h
    have hx0 : ({ w with env := env, log := [] } : World).vamm? v = some x := (MirrorP.vammE_ok _ _ _).1 hx
    have hw0 : VAll VammGuards.ConfigOK ({ w with env := env, log := [] } : World) := hv
    exact VAll_setVamm _ _ _ hw0 (VammGuards.updateConfig_configOK _ _ _ _ (VAll_get hw0 hx0) hx').1
  case vammOwner v n =>
    simp at h
    obtain ⟨x, hx, x', hx', rfl⟩ := h
    have hx0 : ({ w with env := env, log := [] } : World).vamm? v = some x := (MirrorP.vammE_ok _ _ _).1 hx
    have hw0 : VAll VammGuards.ConfigOK ({ w with env := env, log := [] } : World) := hv
    obtain ⟨_, rfl⟩ := VammGuards.updateOwner_inv _ _ _ _ hx'
    have hx1 : VammGuards.ConfigOK x.cfg := VAll_get hw0 hx0
    exact VAll_setVamm _ _ _ hw0 hx1
  case ifAdd v =>
    simp at h
    obtain ⟨_, _, rfl⟩ := h
    exact hsame _ rfl
  case ifRemove v =>
    simp at h
    obtain ⟨_, _, rfl⟩ := h
    exact hsame _ rfl
  case ifShutdown =>
    split at h
    · cases h
    · split at h
      · cases h
      · exact hs _ _ _ h rfl
  case ifWithdraw amt => exact hm _ _ h rfl
  case ifOwner n =>
    simp at h
    obtain ⟨_, _, rfl⟩ := h
    exact hsame _ rfl
  case fpAdd tok =>
    simp at h
    obtain ⟨_, _, rfl⟩ := h
    exact hsame _ rfl
  case fpRemove tok =>
    simp at h
    obtain ⟨_, _, rfl⟩ := h
    exact hsame _ rfl
  case fpSend tok amt to =>
    repeat' split at h
    all_goals first | exact hs _ _ _ h rfl | cases h
  case fpOwner n =>
    simp at h
    obtain ⟨_, _, rfl⟩ := h
    exact hsame _ rfl
  case oracle price ts =>
    split at h
    · injection h with h; subst h; exact hsame _ rfl
    · simp at h
      obtain ⟨_, _, rfl⟩ := h
      exact hsame _ rfl
  case feedOwner n =>
    split at h
    · split at h
      · cases h
      · injection h with h; subst h; exact hsame _ rfl
    · simp at h
      obtain ⟨_, _, rfl⟩ := h
      exact hsame _ rfl
  case tokenApprove amt =>
    repeat' split at h
    all_goals first | (injection h with h; subst h; exact hsame _ rfl) | cases h
  case tokenDecrease amt =>
    repeat' split at h
    all_goals first | (injection h with h; subst h; exact hsame _ rfl) | cases h
  case tokenTransfer to amt =>
    split at h
    · cases h
    · exact hm _ _ h rfl
  case bankSend to amt =>
    split at h
    · cases h
    · exact hm _ _ h rfl

/-- `AllConfigOK` is preserved by every successful transaction -/
theorem allConfigOK_applyTx (w w' : World) (env : Env) (s : Nat) (f : Funds) (tx : Tx)
    (hc : AllConfigOK w) (h : applyTx w env s f tx = .ok w') : AllConfigOK w' :=
  ⟨engine_cfgOK_applyTx w w' env s f tx hc.1 h, vamm_cfgOK_applyTx w w' env s f tx hc.2 h⟩

/-- `AllConfigOK` is an invariant of the transaction system (`step`) -/
theorem allConfigOK_step (w : World) (env : Env) (s : Nat) (f : Funds) (tx : Tx) (hc : AllConfigOK w) :
    AllConfigOK (step w env s f tx) := by
  unfold step
  split
  · rename_i w' h
    exact allConfigOK_applyTx w w' env s f tx hc h
  · exact hc

end Perp.Props.SatC
