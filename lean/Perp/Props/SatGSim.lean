/-
  SatG, part 7 — the simulation relation between the native and the cw20 deployment, and the congruence
  ("ledger extensionality") that makes the per-transaction twin theorems compose along histories.
    * `ExRel`            — two outcomes fail with the same error or succeed with related results;
    * `BalEq`, `move_ext`, `bankSend_ext`, `tokenTransfer_ext` — the bank primitives read a ledger through `balance` only;
    * `LEq` / `WEq`      — worlds equal but for the REPRESENTATION of the balances, the allowances (and the old log);
      `LEq.q` — the engine's queriers cannot tell them apart;
    * `replyOk_np`, `execute_np` — a native engine never dispatches a cw20 `TransferFrom` (so never reads allowances);
    * `ext_exec`         — ledger extensionality of the dispatcher (mutual induction over the fuel);
    * `applyTx_ext`      — … of every engine transaction (same outcome, results `LEq`, SAME transfer log);
    * `Sim`, `Sim.applyTx_nat` — the simulation relation; from a `Sim` pair the native world behaves as `nat wc`;
    * `Sim.step` / `Sim.stepB` — the generic forward / converse step; `sim_step_<flow>` for the ten flows;
    * `src_exec`, `applyTx_src`, `sim_step_eq_pulled` — withdraw / liquidate / payFunding pull nothing from the caller;
    * `Sim.fail`, `sim_fail_*` — failing steps.
-/
import Perp.Props.SatG
import Perp.Props.SatGReduce
import Perp.Props.SatGReverse

namespace Perp.Props.SatGSim
open Perp Perp.World Perp.Engine Perp.Props.LiqTwin Perp.Props.SatGTwin
open Perp.Props.G9Perm (All All_nil All_cons All_append)
open Perp.Props.EngineGuards (Post Post_bind Post_pure Post_ok Post_error Post_bind_pure Post_bind_error)

/-! ### outcomes related up to a relation on the results -/

/-- both fail with the same error, or both succeed with related results -/
def ExRel {α β : Type} (R : α → β → Prop) : Except Err α → Except Err β → Prop
  | .ok a, .ok b => R a b
  | .error e, .error e' => e = e'
  | _, _ => False

theorem ExRel.ok_ok {α β : Type} {R : α → β → Prop} {a : α} {b : β} (h : R a b) :
    ExRel R (.ok a) (.ok b) := h

theorem ExRel.err {α β : Type} {R : α → β → Prop} (e : Err) :
    ExRel R (.error e : Except Err α) (.error e : Except Err β) := rfl

theorem ExRel.refl {α : Type} (x : Except Err α) : ExRel (· = ·) x x := by
  cases x <;> rfl

theorem ExRel.of_eq {α : Type} {x y : Except Err α} (h : x = y) : ExRel (· = ·) x y := h ▸ ExRel.refl x

theorem ExRel.mono {α β : Type} {R S : α → β → Prop} {x : Except Err α} {y : Except Err β}
    (h : ExRel R x y) (hRS : ∀ a b, R a b → S a b) : ExRel S x y := by
  cases x <;> cases y <;> first | exact h | exact hRS _ _ h

theorem ExRel.bind {α β α' β' : Type} {R : α → β → Prop} {S : α' → β' → Prop}
    {x : Except Err α} {y : Except Err β} {f : α → Except Err α'} {g : β → Except Err β'}
    (h : ExRel R x y) (hfg : ∀ a b, R a b → ExRel S (f a) (g b)) : ExRel S (x >>= f) (y >>= g) := by
  cases x <;> cases y
  · exact h
  · exact h.elim
  · exact h.elim
  · exact hfg _ _ h

theorem ExRel.bind_same {α α' β' : Type} {S : α' → β' → Prop}
    (x : Except Err α) {f : α → Except Err α'} {g : α → Except Err β'}
    (hfg : ∀ a, ExRel S (f a) (g a)) : ExRel S (x >>= f) (x >>= g) :=
  ExRel.bind (ExRel.refl x) (fun a _ hab => hab ▸ hfg a)

theorem ExRel.bind_same' {α α' β' : Type} {S : α' → β' → Prop}
    (x : Except Err α) {f : α → Except Err α'} {g : α → Except Err β'}
    (hfg : ∀ a, x = .ok a → ExRel S (f a) (g a)) : ExRel S (x >>= f) (x >>= g) := by
  cases x with
  | error e => exact ExRel.err e
  | ok a => exact hfg a rfl

theorem ExRel.map {α β α' β' : Type} {R : α → β → Prop} {S : α' → β' → Prop}
    {x : Except Err α} {y : Except Err β} {f : α → α'} {g : β → β'}
    (h : ExRel R x y) (hfg : ∀ a b, R a b → S (f a) (g b)) : ExRel S (x.map f) (y.map g) := by
  cases x <;> cases y
  · exact h
  · exact h.elim
  · exact h.elim
  · exact hfg _ _ h

theorem ExRel.ok_left {α β : Type} {R : α → β → Prop} {x : Except Err α} {y : Except Err β} {a : α}
    (h : ExRel R x y) (hx : x = .ok a) : ∃ b, y = .ok b ∧ R a b := by
  subst hx
  cases y
  · exact h.elim
  · exact ⟨_, rfl, h⟩

theorem ExRel.ok_right {α β : Type} {R : α → β → Prop} {x : Except Err α} {y : Except Err β} {b : β}
    (h : ExRel R x y) (hy : y = .ok b) : ∃ a, x = .ok a ∧ R a b := by
  subst hy
  cases x
  · exact h.elim
  · exact ⟨_, rfl, h⟩

theorem ExRel.err_left {α β : Type} {R : α → β → Prop} {x : Except Err α} {y : Except Err β} {e : Err}
    (h : ExRel R x y) (hx : x = .error e) : y = .error e := by
  subst hx
  cases y
  · exact congrArg _ (Eq.symm h)
  · exact h.elim

theorem ExRel.err_right {α β : Type} {R : α → β → Prop} {x : Except Err α} {y : Except Err β} {e : Err}
    (h : ExRel R x y) (hy : y = .error e) : x = .error e := by
  subst hy
  cases x
  · exact congrArg _ h
  · exact h.elim

/-! ### ledgers with the same balance function -/

/-- the two ledgers answer every balance query alike (representation, allowances: free) -/
def BalEq (g h : Ledger) : Prop := ∀ a, g.balance a = h.balance a

theorem BalEq.refl (g : Ledger) : BalEq g g := fun _ => rfl
theorem BalEq.symm {g h : Ledger} (e : BalEq g h) : BalEq h g := fun a => (e a).symm
theorem BalEq.trans {g h k : Ledger} (e : BalEq g h) (f : BalEq h k) : BalEq g k := fun a => (e a).trans (f a)

theorem get_set (l : List (Nat × Nat)) (a v b : Nat) :
    Ledger.get (Ledger.set l a v) b = if b = a then v else Ledger.get l b := by
  by_cases h : b = a
  · subst h; rw [if_pos rfl]; exact Ledger.get_set_self l b v
  · rw [if_neg h]; exact Ledger.get_set_ne l a b v h

/-- `move` reads its ledger through `balance` only -/
theorem move_ext (g h : Ledger) (e : BalEq g h) (src dst amt : Nat) :
    ExRel BalEq (Ledger.move g src dst amt) (Ledger.move h src dst amt) := by
  unfold Ledger.move
  rw [e src]
  by_cases h1 : h.balance src < amt
  · rw [if_pos h1, if_pos h1]; exact ExRel.err _
  · rw [if_neg h1, if_neg h1]
    dsimp only
    have hd : Ledger.balance { g with bal := Ledger.set g.bal src (h.balance src - amt) } dst
        = Ledger.balance { h with bal := Ledger.set h.bal src (h.balance src - amt) } dst := by
      show Ledger.get (Ledger.set g.bal src _) dst = Ledger.get (Ledger.set h.bal src _) dst
      rw [get_set, get_set]
      have := e dst
      unfold Ledger.balance at this
      rw [this]
    rw [hd]
    split
    · exact ExRel.err _
    · refine ExRel.ok_ok (fun a => ?_)
      show Ledger.get (Ledger.set (Ledger.set g.bal src _) dst _) a
        = Ledger.get (Ledger.set (Ledger.set h.bal src _) dst _) a
      rw [get_set, get_set, get_set, get_set]
      have := e a
      unfold Ledger.balance at this
      rw [this]

theorem bankSend_ext (g h : Ledger) (e : BalEq g h) (src dst amt : Nat) :
    ExRel BalEq (Ledger.bankSend g src dst amt) (Ledger.bankSend h src dst amt) := by
  unfold Ledger.bankSend
  split
  · exact ExRel.err _
  · exact move_ext g h e src dst amt

theorem tokenTransfer_ext (g h : Ledger) (e : BalEq g h) (src dst amt : Nat) :
    ExRel BalEq (Ledger.tokenTransfer g src dst amt) (Ledger.tokenTransfer h src dst amt) := by
  unfold Ledger.tokenTransfer
  split
  · exact ExRel.err _
  · exact move_ext g h e src dst amt

/-! ### worlds that differ only in the representation of the ledger -/

/-- everything equal except the ledger, of which only the balance function is the same -/
structure LEq (a b : World) : Prop where
  env : a.env = b.env
  engine : a.engine = b.engine
  vamms : a.vamms = b.vamms
  ifund : a.ifund = b.ifund
  feePool : a.feePool = b.feePool
  feed : a.feed = b.feed
  bal : BalEq a.ledger b.ledger
  log : a.log = b.log

theorem LEq.refl (a : World) : LEq a a := ⟨rfl, rfl, rfl, rfl, rfl, rfl, BalEq.refl _, rfl⟩
theorem LEq.symm {a b : World} (h : LEq a b) : LEq b a :=
  ⟨h.env.symm, h.engine.symm, h.vamms.symm, h.ifund.symm, h.feePool.symm, h.feed.symm, h.bal.symm, h.log.symm⟩
theorem LEq.trans {a b c : World} (h : LEq a b) (k : LEq b c) : LEq a c :=
  ⟨h.env.trans k.env, h.engine.trans k.engine, h.vamms.trans k.vamms, h.ifund.trans k.ifund,
   h.feePool.trans k.feePool, h.feed.trans k.feed, h.bal.trans k.bal, h.log.trans k.log⟩

theorem LEq.vammE {a b : World} (h : LEq a b) (x : Nat) : a.vammE x = b.vammE x := by
  unfold World.vammE World.vamm?
  rw [h.vamms]

theorem LEq.oraclePrice {a b : World} (h : LEq a b) (x : Nat) : a.oraclePrice x = b.oraclePrice x := by
  unfold World.oraclePrice
  rw [h.feed]

theorem LEq.oracleTwap {a b : World} (h : LEq a b) (x i : Nat) : a.oracleTwap x i = b.oracleTwap x i := by
  unfold World.oracleTwap
  rw [h.feed, h.env]

/-- the engine's queriers cannot tell the two worlds apart -/
theorem LEq.q {a b : World} (h : LEq a b) : a.q = b.q := by
  have hv : a.vammE = b.vammE := funext h.vammE
  have ho : a.oraclePrice = b.oraclePrice := funext h.oraclePrice
  have hb : (fun x => (Except.ok (a.ledger.balance x) : Except Err Nat)) = fun x => .ok (b.ledger.balance x) :=
    funext fun x => by rw [h.bal x]
  unfold World.q
  rw [hv, ho, hb, h.engine, h.ifund, h.env]

theorem LEq.setVamm {a b : World} (h : LEq a b) (x : Nat) (v : Vamm.V) : LEq (a.setVamm x v) (b.setVamm x v) := by
  refine ⟨h.env, h.engine, ?_, h.ifund, h.feePool, h.feed, h.bal, h.log⟩
  show a.vamms.map _ = b.vamms.map _
  rw [h.vamms]

theorem LEq.withEngine {a b : World} (h : LEq a b) (e : E) : LEq { a with engine := e } { b with engine := e } :=
  ⟨h.env, rfl, h.vamms, h.ifund, h.feePool, h.feed, h.bal, h.log⟩

theorem LEq.withLedger {a b : World} (h : LEq a b) {g k : Ledger} (e : BalEq g k) (x : Nat × Nat × Nat) :
    LEq { a with ledger := g, log := a.log ++ [x] } { b with ledger := k, log := b.log ++ [x] } :=
  ⟨h.env, h.engine, h.vamms, h.ifund, h.feePool, h.feed, e, by show a.log ++ _ = b.log ++ _; rw [h.log]⟩

/-! ### a native engine never pulls: none of its messages is a cw20 `TransferFrom` -/

/-- the sub-message pulls nothing out of a third party's account -/
def NP (s : SubMsg) : Prop := NoPull s.msg

theorem np_transferMsg (cfg : Config) (r a : Nat) : NP (transferMsg cfg r a) := by
  unfold transferMsg; split <;> exact trivial

theorem np_transferFromMsg (cfg : Config) (o r a : Nat) (hn : cfg.native = true) : NP (transferFromMsg cfg o r a) := by
  unfold transferFromMsg; rw [if_pos hn]; exact trivial

theorem np_ifWithdrawMsg (a : Nat) : NP (ifWithdrawMsg a) := trivial
theorem np_swapIn (v : Nat) (sd : Side) (n l : Nat) (g : Bool) (id : Nat) : NP (swapInputMsg v sd n l g id) := trivial
theorem np_swapOut (v : Nat) (sd : Side) (n l id : Nat) : NP (swapOutputMsg v sd n l id) := trivial
theorem np_settle (v id : Nat) (r : ReplyOn) : NP ⟨.vammSettle v, id, r⟩ := trivial

macro "allnp" : tactic => `(tactic|
  repeat' first
    | exact All_nil
    | assumption
    | exact np_swapIn _ _ _ _ _ _
    | exact np_swapOut _ _ _ _ _
    | exact np_settle _ _ _
    | exact np_ifWithdrawMsg _
    | exact np_transferMsg _ _ _
    | (apply np_transferFromMsg; assumption)
    | (with_reducible apply All_append)
    | (with_reducible apply All_cons)
    | split)

theorem withdraw_np (q : Q) (e : E) (st : State) (r a p : Nat) (x : State × List SubMsg)
    (h : unwrap (withdraw q e st r a p) = .ok x) : All NP x.2 := by
  rw [EngineMoney.unwrap_ok] at h
  obtain ⟨st', msgs⟩ := x
  obtain ⟨bal, _, hm⟩ := EngineMoney.withdraw_spec q e st st' r a p msgs h
  rcases hm with ⟨_, _, _, _, rfl⟩ | ⟨_, _, rfl⟩ <;> allnp

theorem transferFees_np (q : Q) (e : E) (src v N : Nat) (x : List SubMsg × Nat × Nat)
    (h : unwrap (transferFees q e src v N) = .ok x) (hn : e.cfg.native = true) : All NP x.1 := by
  rw [EngineMoney.unwrap_ok] at h
  obtain ⟨msgs, sp, tl⟩ := x
  obtain ⟨_, rfl⟩ := EngineGuards.transferFees_spec q e src v N msgs sp tl h
  allnp

theorem transferToIF_np (q : Q) (e : E) (a : Nat) (m : SubMsg) (h : transferToInsuranceFund q e a = .ok m) :
    NP m := by
  unfold transferToInsuranceFund at h
  obtain ⟨bal, _, h⟩ := (bind_ok_iff _ _ _).1 h
  simp only [pure_ok_iff] at h
  subst h
  exact np_transferMsg _ _ _

macro "np_hyps" : tactic => `(tactic|
  (try (have hw__ := withdraw_np _ _ _ _ _ _ _ ‹unwrap (withdraw _ _ _ _ _ _) = Except.ok _›)
   try (have hf__ := transferFees_np _ _ _ _ _ _ ‹unwrap (transferFees _ _ _ _ _) = Except.ok _› (by assumption))
   try (have ht__ := transferToIF_np _ _ _ _ ‹transferToInsuranceFund _ _ _ = Except.ok _›)))

section replies
variable (q : Q) (e : E) (env : Env)

theorem updatePositionReply_np (hn : e.cfg.native = true) (i o id : Nat) :
    Post (fun r => All NP r.2) (updatePositionReply q e env i o id) := by
  unfold updatePositionReply
  post_walk [(np_hyps; allnp)]

theorem reversePositionReply_np (hn : e.cfg.native = true) (o : Nat) :
    Post (fun r => All NP r.2) (reversePositionReply q e env o) := by
  unfold reversePositionReply
  post_walk [(np_hyps; allnp)]

theorem closePositionReply_np (hn : e.cfg.native = true) (o : Nat) :
    Post (fun r => All NP r.2) (closePositionReply q e env o) := by
  unfold closePositionReply
  post_walk [(np_hyps; allnp)]

theorem partialClosePositionReply_np (hn : e.cfg.native = true) (i o : Nat) :
    Post (fun r => All NP r.2) (partialClosePositionReply q e env i o) := by
  unfold partialClosePositionReply
  post_walk [(np_hyps; allnp)]

theorem liquidateReply_np (o : Nat) :
    Post (fun r => All NP r.2) (liquidateReply q e env o) := by
  unfold liquidateReply realizeBadDebt
  post_walk [(np_hyps; allnp)]

theorem partialLiquidationReply_np (i o : Nat) :
    Post (fun r => All NP r.2) (partialLiquidationReply q e env i o) := by
  unfold partialLiquidationReply
  post_walk [(np_hyps; allnp)]

theorem payFundingReply_np (pf : Integer) (v : Nat) :
    Post (fun r => All NP r.2) (payFundingReply q e env pf v) := by
  unfold payFundingReply
  post_walk [(np_hyps; allnp)]

theorem replyOk_np (hn : e.cfg.native = true) (id : Nat) (ev : Ev) :
    Post (fun r => All NP r.2) (replyOk q e env id ev) := by
  intro r h
  unfold replyOk at h
  split at h
  · split at h
    · exact payFundingReply_np q e env _ _ r h
    · cases h
  · split at h
    · split at h
      · dsimp only at h
        split at h
        · exact updatePositionReply_np q e env hn _ _ _ r h
        split at h
        · exact updatePositionReply_np q e env hn _ _ _ r h
        split at h
        · exact reversePositionReply_np q e env hn _ r h
        split at h
        · exact closePositionReply_np q e env hn _ r h
        split at h
        · exact partialClosePositionReply_np q e env hn _ _ r h
        split at h
        · exact liquidateReply_np q e env _ r h
        · exact partialLiquidationReply_np q e env _ _ r h
      · cases h
    · cases h

end replies

/-! ### … nor does its `execute` half -/

theorem partialLiquidation_np (q : Q) (e : E) (v t l : Nat) :
    Post (fun r => NP r.2) (partialLiquidation q e v t l) := by
  unfold partialLiquidation
  post_walk [exact np_swapOut _ _ _ _ _]

theorem execute_np (q : Q) (e : E) (env : Env) (s : Nat) (f : Funds) (m : ExecMsg) (hn : e.cfg.native = true) :
    Post (fun r => All NP r.2) (execute q e env s f m) := by
  cases m with
  | updateConfig u => exact EngineGuards.Post_exmap (fun _ _ => All_nil)
  | updatePauser p => exact EngineGuards.Post_exmap (fun _ _ => All_nil)
  | addWhitelist a => exact EngineGuards.Post_exmap (fun _ _ => All_nil)
  | removeWhitelist a => exact EngineGuards.Post_exmap (fun _ _ => All_nil)
  | setPause p => exact EngineGuards.Post_exmap (fun _ _ => All_nil)
  | openPosition v sd m l b =>
    show Post _ (openPosition q e env s f v sd m l b)
    unfold openPosition
    post_walk [allnp]
  | closePosition v l =>
    show Post _ (closePosition q e env s v l)
    unfold closePosition internalClosePosition
    post_walk [allnp]
  | liquidate v t l =>
    show Post _ (liquidate q e env s v t l)
    unfold liquidate internalClosePosition
    post_walk [(
      first
        | exact All_cons (np_swapOut _ _ _ _ _) All_nil
        | exact All_cons (partialLiquidation_np _ _ _ _ _ _ ‹partialLiquidation _ _ _ _ _ = Except.ok _›) All_nil)]
  | payFunding v =>
    show Post _ (payFunding q e v)
    unfold payFunding
    post_walk [allnp]
  | depositMargin v a =>
    show Post _ (depositMargin e env s f v a)
    unfold depositMargin
    post_walk [allnp]
  | withdrawMargin v a =>
    show Post _ (withdrawMargin q e env s v a)
    unfold withdrawMargin
    post_walk [(np_hyps; allnp)]

/-! ### ledger extensionality of the dispatcher -/

theorem native_execSubs (fuel : Nat) (w w' : World) (subs : List SubMsg)
    (h : execSubs fuel w ENGINE subs = .ok w') (hn : w.engine.cfg.native = true) :
    w'.engine.cfg.native = true :=
  WorldInv.execSubs_engine_invariant (fun e => e.cfg.native = true)
    (fun q e e' env id ev subs hP hr => by
      have := EngineGuards.replyOk_cfg q e e' env id ev subs hr
      show e'.cfg.native = true
      rw [this]; exact hP) fuel w w' subs h hn

/-- result of `execMsg`: related worlds, the same event -/
def MsgRel (r1 r2 : World × Ev) : Prop := LEq r1.1 r2.1 ∧ r1.2 = r2.2

/-- **Ledger extensionality.**  A native deployment reads its ledger through the balance function only: on two
    worlds that agree on everything but the representation of the balances (and the allowances, which are never
    read), every pull-free message / list of pull-free sub-messages has the same outcome, with results that agree
    again in that sense. -/
theorem ext_exec (fuel : Nat) :
    (∀ (a b : World) (c : Nat) (m : Msg), LEq a b → a.engine.cfg.native = true → NoPull m →
        ExRel MsgRel (execMsg fuel a c m) (execMsg fuel b c m))
    ∧ (∀ (a b : World) (c : Nat) (subs : List SubMsg), LEq a b → a.engine.cfg.native = true → All NP subs →
        ExRel LEq (execSubs fuel a c subs) (execSubs fuel b c subs)) := by
  induction fuel with
  | zero =>
    constructor
    · intro a b c m _ _ _; unfold execMsg; exact ExRel.err _
    · intro a b c subs _ _ _; unfold execSubs; exact ExRel.err _
  | succ fuel ih =>
    constructor
    · intro a b c m h hn hp
      cases m with
      | vammSwapInput x d n l g =>
        unfold execMsg
        dsimp only []
        rw [h.vammE, h.env]
        refine ExRel.bind_same _ fun v => ?_
        refine ExRel.bind_same _ fun r => ?_
        obtain ⟨v', o⟩ := r
        exact ExRel.ok_ok ⟨h.setVamm _ _, rfl⟩
      | vammSwapOutput x d n l =>
        unfold execMsg
        dsimp only []
        rw [h.vammE, h.env]
        refine ExRel.bind_same _ fun v => ?_
        refine ExRel.bind_same _ fun r => ?_
        obtain ⟨v', o⟩ := r
        exact ExRel.ok_ok ⟨h.setVamm _ _, rfl⟩
      | vammSettle x =>
        unfold execMsg
        dsimp only []
        rw [h.vammE, h.env]
        refine ExRel.bind_same _ fun v => ?_
        rw [h.oracleTwap]
        refine ExRel.bind_same _ fun r => ?_
        obtain ⟨v', o⟩ := r
        exact ExRel.ok_ok ⟨h.setVamm _ _, rfl⟩
      | vammSetOpen x o =>
        unfold execMsg
        dsimp only []
        rw [h.vammE, h.env]
        refine ExRel.bind_same _ fun v => ?_
        refine ExRel.bind_same _ fun r => ?_
        exact ExRel.ok_ok ⟨h.setVamm _ _, rfl⟩
      | tokenTransfer to amt =>
        unfold execMsg
        dsimp only []
        refine ExRel.bind (tokenTransfer_ext _ _ h.bal _ _ _) fun g k hgk => ?_
        exact ExRel.ok_ok ⟨h.withLedger hgk _, rfl⟩
      | tokenTransferFrom owner to amt => exact absurd hp (by simp [NoPull])
      | bankSend to amt =>
        unfold execMsg
        dsimp only []
        refine ExRel.bind (bankSend_ext _ _ h.bal _ _ _) fun g k hgk => ?_
        exact ExRel.ok_ok ⟨h.withLedger hgk _, rfl⟩
      | ifWithdraw amt =>
        unfold execMsg
        dsimp only []
        rw [h.engine, h.ifund]
        by_cases h1 : b.engine.cfg.insuranceFund ≠ IFUND
        · simp only [if_pos h1]; exact ExRel.err _
        simp only [if_neg h1]
        by_cases h2 : c ≠ b.ifund.engine
        · simp only [if_pos h2]; exact ExRel.err _
        simp only [if_neg h2]
        refine ExRel.bind (ih.2 a b IFUND _ h hn ?_) fun w1 w2 h12 => ExRel.ok_ok ⟨h12, rfl⟩
        refine All_cons ?_ All_nil
        split <;> exact trivial
    · intro a b c subs h hn hg
      cases subs with
      | nil => unfold execSubs; exact ExRel.ok_ok h
      | cons s rest =>
        have hgs : NoPull s.msg := hg s (List.mem_cons_self ..)
        have hgr : All NP rest := fun m hm => hg m (List.mem_cons_of_mem _ hm)
        have hx := ih.1 a b c s.msg h hn hgs
        have hnb : b.engine.cfg.native = true := by rw [← h.engine]; exact hn
        unfold execSubs
        dsimp only []
        cases hA : execMsg fuel a c s.msg with
        | error ea =>
          have hB := hx.err_left hA
          rw [hB]
          dsimp only []
          by_cases hr : s.replyOn = .always ∨ s.replyOn = .error
          · simp only [if_pos hr]
            by_cases hc : c ≠ ENGINE
            · simp only [if_pos hc]; exact ExRel.err _
            · simp only [if_neg hc]; exact ExRel.err _
          · simp only [if_neg hr]; exact ExRel.err _
        | ok ra =>
          obtain ⟨rb, hB, hab⟩ := hx.ok_left hA
          rw [hB]
          obtain ⟨w1, ev⟩ := ra
          obtain ⟨w1', ev'⟩ := rb
          obtain ⟨h1, hev⟩ := hab
          dsimp only at h1 hev
          subst hev
          dsimp only []
          have hw1 : w1.engine = a.engine := ((Dispatch.execMsg_engine_frame fuel).1 _ _ _ _ _ hA).1
          have hn1 : w1.engine.cfg.native = true := by rw [hw1]; exact hn
          by_cases hr : s.replyOn = .always ∨ s.replyOn = .success
          · simp only [if_pos hr]
            by_cases hc : c ≠ ENGINE
            · simp only [if_pos hc]; exact ExRel.err _
            simp only [if_neg hc]
            have hc : c = ENGINE := Decidable.not_not.mp hc
            subst hc
            have hreq : replyOk w1.q w1.engine w1.env s.id ev = replyOk w1'.q w1'.engine w1'.env s.id ev := by
              rw [h1.q, h1.engine, h1.env]
            rw [hreq]
            cases hre : replyOk w1'.q w1'.engine w1'.env s.id ev with
            | error er => exact ExRel.err _
            | ok r2 =>
              obtain ⟨e2, subs2⟩ := r2
              dsimp only []
              have hre' : replyOk w1'.q w1.engine w1'.env s.id ev = .ok (e2, subs2) := by rw [h1.engine]; exact hre
              have hn2 : e2.cfg.native = true := by
                rw [EngineGuards.replyOk_cfg _ _ _ _ _ _ _ hre']; exact hn1
              have hg2 : All NP subs2 := replyOk_np _ _ _ hn1 _ _ _ hre'
              have h2 := ih.2 { w1 with engine := e2 } { w1' with engine := e2 } ENGINE subs2 (h1.withEngine e2) hn2 hg2
              cases h3 : execSubs fuel { w1 with engine := e2 } ENGINE subs2 with
              | error e3 =>
                rw [h2.err_left h3]
                exact ExRel.err _
              | ok w3 =>
                obtain ⟨w3', h3', h33⟩ := h2.ok_left h3
                rw [h3']
                dsimp only []
                exact ih.2 w3 w3' ENGINE rest h33 (native_execSubs _ _ _ _ h3 hn2) hgr
          · simp only [if_neg hr]
            exact ih.2 w1 w1' c rest h1 hn1 hgr

/-! ### ledger extensionality of engine transactions -/

/-- the two worlds agree on everything except the representation of the balances, the allowances and the
    (ghost) transfer log of the previous transaction -/
structure WEq (a b : World) : Prop where
  engine : a.engine = b.engine
  vamms : a.vamms = b.vamms
  ifund : a.ifund = b.ifund
  feePool : a.feePool = b.feePool
  feed : a.feed = b.feed
  bal : BalEq a.ledger b.ledger

theorem WEq.refl (a : World) : WEq a a := ⟨rfl, rfl, rfl, rfl, rfl, BalEq.refl _⟩
theorem WEq.symm {a b : World} (h : WEq a b) : WEq b a :=
  ⟨h.engine.symm, h.vamms.symm, h.ifund.symm, h.feePool.symm, h.feed.symm, h.bal.symm⟩
theorem WEq.trans {a b c : World} (h : WEq a b) (k : WEq b c) : WEq a c :=
  ⟨h.engine.trans k.engine, h.vamms.trans k.vamms, h.ifund.trans k.ifund,
   h.feePool.trans k.feePool, h.feed.trans k.feed, h.bal.trans k.bal⟩
theorem LEq.weq {a b : World} (h : LEq a b) : WEq a b := ⟨h.engine, h.vamms, h.ifund, h.feePool, h.feed, h.bal⟩

theorem WEq.start {a b : World} (h : WEq a b) (env : Env) :
    LEq { a with env := env, log := [] } { b with env := env, log := [] } :=
  ⟨rfl, h.engine, h.vamms, h.ifund, h.feePool, h.feed, h.bal, rfl⟩

/-- **Ledger extensionality, transaction level**: an engine transaction of a native deployment has the same outcome
    on two worlds that differ only in the representation of the balances / the allowances / the old log; the results
    agree again in that sense and carry the SAME transfer log. -/
theorem applyTx_ext (a b : World) (h : WEq a b) (hn : a.engine.cfg.native = true) (env : Env) (s : Nat) (f : Funds)
    (m : ExecMsg) :
    ExRel LEq (applyTx a env s f (.engine m)) (applyTx b env s f (.engine m)) := by
  have h0 := h.start env
  have hnb : b.engine.cfg.native = true := by rw [← h.engine]; exact hn
  unfold applyTx
  dsimp only []
  have key : ∀ w1 w2 : World, LEq w1 w2 → w1.engine = a.engine →
      ExRel LEq
        (execute w1.q w1.engine env s f m >>= fun x => execSubs FUEL { w1 with engine := x.1 } ENGINE x.2)
        (execute w2.q w2.engine env s f m >>= fun x => execSubs FUEL { w2 with engine := x.1 } ENGINE x.2) := by
    intro w1 w2 h12 he1
    rw [h12.q, h12.engine]
    refine ExRel.bind_same' _ fun r hr => ?_
    obtain ⟨e', subs⟩ := r
    have hn2 : w2.engine.cfg.native = true := by rw [← h12.engine, he1]; exact hn
    by_cases hmu : ∃ u, m = .updateConfig u
    · -- `UpdateConfig` dispatches nothing
      obtain ⟨u, rfl⟩ := hmu
      have hsub : subs = [] := by
        have hr' : (updateConfig w2.engine s u).map (fun e' => (e', ([] : List SubMsg))) = .ok (e', subs) := hr
        obtain ⟨_, _, h2⟩ := (Dispatch.exmap_ok _ _ _).1 hr'
        injection h2 with _ h2
        exact h2.symm
      subst hsub
      show ExRel LEq (execSubs FUEL _ ENGINE []) (execSubs FUEL _ ENGINE [])
      rw [show FUEL = 39 + 1 from rfl, SatGDeposit.execSubs_nil_eq, SatGDeposit.execSubs_nil_eq]
      exact ExRel.ok_ok (h12.withEngine e')
    · have hm : ∀ u, m ≠ .updateConfig u := fun u hu => hmu ⟨u, hu⟩
      have hc : e'.cfg = w2.engine.cfg := EngineGuards.execute_cfg _ _ _ _ _ _ _ _ hm hr
      exact (ext_exec FUEL).2 _ _ ENGINE subs (h12.withEngine e') (by show e'.cfg.native = true; rw [hc]; exact hn2)
        (execute_np _ _ _ _ _ _ hn2 _ hr)
  by_cases hc : f.amount ≠ 0
  · rw [if_pos ⟨hn, hc⟩, if_pos ⟨hnb, hc⟩]
    have hx := (ext_exec FUEL).1 _ _ s (.bankSend ENGINE f.amount) h0 hn trivial
    cases hA : execMsg FUEL ({ a with env := env, log := [] } : World) s (.bankSend ENGINE f.amount) with
    | error e =>
      have hB := hx.err_left hA
      rw [hB]
      exact ExRel.err _
    | ok ra =>
      obtain ⟨rb, hB, hab⟩ := hx.ok_left hA
      have hfr := ((Dispatch.execMsg_engine_frame FUEL).1 _ _ _ _ _ hA).1
      rw [hB]
      exact key ra.1 rb.1 hab.1 hfr
  · rw [if_neg (fun k => hc k.2), if_neg (fun k => hc k.2)]
    exact key _ _ h0 rfl

/-! ### the simulation relation -/

open SatG (nat cw SameButAllow)
open SatGOpenTx (Agree Setup pulledBy)

/-- the two deployments are in step: `Agree` (engine equal up to the `native` flag; vAMMs, fund, pool, feed, clock
    equal; every account's balance equal) plus the invariants both sides keep: the cw20 side IS on cw20 collateral,
    each ledger lists an account at most once, the supply fits `u128` -/
structure Sim (wn wc : World) : Prop where
  agree : Agree wn wc
  keysN : Dispatch.KeysNodup wn.ledger
  keysC : Dispatch.KeysNodup wc.ledger
  flagC : wc.engine.cfg.native = false
  totC : Dispatch.total wc.ledger ≤ U128.MAX

theorem cw_self (w : World) (h : w.engine.cfg.native = false) : cw w = w := by
  unfold cw
  rw [setNative_false_self _ h]

/-- a world and its native twin are in step -/
theorem Sim.start (w : World) (hf : w.engine.cfg.native = false) (hk : Dispatch.KeysNodup w.ledger)
    (ht : Dispatch.total w.ledger ≤ U128.MAX) : Sim (nat w) w :=
  ⟨⟨rfl, rfl, rfl, rfl, rfl, rfl, fun _ => rfl⟩, hk, hk, hf, ht⟩

theorem Sim.nativeN {wn wc : World} (h : Sim wn wc) : wn.engine.cfg.native = true := by
  rw [h.agree.1]; rfl

/-- a `Sim` pair: the native world is the native twin of the cw20 world up to the representation of the ledger -/
theorem Sim.weq {wn wc : World} (h : Sim wn wc) : WEq wn (nat wc) := by
  obtain ⟨h1, h2, h3, h4, h5, _, h7⟩ := h.agree
  exact ⟨h1, h2, h3, h4, h5, h7⟩

/-- **Corollary of ledger extensionality**: from a `Sim` pair the native deployment behaves as the native twin
    `nat wc` of the cw20 world does — so every per-transaction twin theorem can be used with `w := wc`. -/
theorem Sim.applyTx_nat {wn wc : World} (h : Sim wn wc) (env : Env) (s : Nat) (f : Funds) (m : ExecMsg) :
    ExRel LEq (applyTx wn env s f (.engine m)) (applyTx (nat wc) env s f (.engine m)) :=
  applyTx_ext wn (nat wc) h.weq h.nativeN env s f m

theorem agree_of_leq {wn wn1 wc : World} (h : LEq wn wn1) (ha : Agree wn1 wc) : Agree wn wc := by
  obtain ⟨h1, h2, h3, h4, h5, h6, h7⟩ := ha
  exact ⟨h.engine.trans h1, h.vamms.trans h2, h.ifund.trans h3, h.feePool.trans h4, h.feed.trans h5,
    h.env.trans h6, fun a => (h.bal a).trans (h7 a)⟩

/-- an engine transaction other than `UpdateConfig` keeps the collateral kind -/
theorem applyTx_native_false (w w' : World) (env : Env) (s : Nat) (f : Funds) (m : ExecMsg)
    (hm : ∀ u, m ≠ .updateConfig u) (h : applyTx w env s f (.engine m) = .ok w')
    (hn : w.engine.cfg.native = false) : w'.engine.cfg.native = false := by
  obtain ⟨w1, e1, subs, he, _, _, _, _, _, hex, hrun⟩ := WorldInv.applyTx_engine_inv w w' env s f m h
  have hc : e1.cfg = w1.engine.cfg := EngineGuards.execute_cfg _ _ _ _ _ _ _ _ hm hex
  exact native_false_execSubs _ _ _ _ hrun (by show e1.cfg.native = false; rw [hc, he]; exact hn)

/-- **the generic step**: if from the native twin `nat wc` the native run succeeds and agrees with the result of the
    cw20 run, then so does the native run from any `wn` in step with `wc`, and the results are in step again
    (and the native run writes the same transfer log) -/
theorem Sim.step {wn wc wc' wn1 : World} (h : Sim wn wc) (env : Env) (s : Nat) (f : Funds) (m : ExecMsg)
    (hm : ∀ u, m ≠ .updateConfig u)
    (hc : applyTx wc env s ⟨0, false⟩ (.engine m) = .ok wc')
    (hn1 : applyTx (nat wc) env s f (.engine m) = .ok wn1) (hag : Agree wn1 wc') :
    ∃ wn', applyTx wn env s f (.engine m) = .ok wn' ∧ Sim wn' wc' ∧ wn'.log = wn1.log := by
  obtain ⟨wn', hn', hle⟩ := (h.applyTx_nat env s f m).ok_right hn1
  have tN := Dispatch.applyTx_total wn wn' env s f _ h.keysN hn'
  have tC := Dispatch.applyTx_total wc wc' env s _ _ h.keysC hc
  refine ⟨wn', hn', ⟨agree_of_leq hle hag, tN.1, tC.1, ?_, by rw [tC.2]; exact h.totC⟩, hle.log⟩
  exact applyTx_native_false wc wc' env s _ m hm hc h.flagC

/-! ### one step from a `Sim` pair, flow by flow -/

theorem agree_nat (w : World) : Agree (nat w) w := ⟨rfl, rfl, rfl, rfl, rfl, rfl, fun _ => rfl⟩

/-- group 1 (nothing is pulled): from the per-transaction equality -/
theorem sim_step_eq {wn wc wc' : World} (h : Sim wn wc) (env : Env) (s : Nat) (m : ExecMsg)
    (hm : ∀ u, m ≠ .updateConfig u)
    (htw : applyTx (nat wc) env s ⟨0, false⟩ (.engine m) = (applyTx (cw wc) env s ⟨0, false⟩ (.engine m)).map nat)
    (hc : applyTx wc env s ⟨0, false⟩ (.engine m) = .ok wc') :
    ∃ wn', applyTx wn env s ⟨0, false⟩ (.engine m) = .ok wn' ∧ Sim wn' wc' ∧ wn'.log = wc'.log := by
  rw [cw_self wc h.flagC, hc] at htw
  exact h.step (wn1 := nat wc') env s _ m hm hc htw (agree_nat wc')

/-- **WithdrawMargin** -/
theorem sim_step_withdraw {wn wc wc' : World} (h : Sim wn wc) (env : Env) (s v a : Nat)
    (hc : applyTx wc env s ⟨0, false⟩ (.engine (.withdrawMargin v a)) = .ok wc') :
    ∃ wn', applyTx wn env s ⟨0, false⟩ (.engine (.withdrawMargin v a)) = .ok wn' ∧ Sim wn' wc'
      ∧ wn'.log = wc'.log :=
  sim_step_eq h env s _ (fun _ k => by cases k) (SatG.twin_withdraw wc env s v a) hc

/-- **Liquidate** -/
theorem sim_step_liquidate {wn wc wc' : World} (h : Sim wn wc) (env : Env) (s v t l : Nat)
    (hc : applyTx wc env s ⟨0, false⟩ (.engine (.liquidate v t l)) = .ok wc') :
    ∃ wn', applyTx wn env s ⟨0, false⟩ (.engine (.liquidate v t l)) = .ok wn' ∧ Sim wn' wc'
      ∧ wn'.log = wc'.log :=
  sim_step_eq h env s _ (fun _ k => by cases k) (SatG.twin_liquidate wc env s v t l) hc

/-- **PayFunding** -/
theorem sim_step_payFunding {wn wc wc' : World} (h : Sim wn wc) (env : Env) (s v : Nat)
    (hc : applyTx wc env s ⟨0, false⟩ (.engine (.payFunding v)) = .ok wc') :
    ∃ wn', applyTx wn env s ⟨0, false⟩ (.engine (.payFunding v)) = .ok wn' ∧ Sim wn' wc'
      ∧ wn'.log = wc'.log :=
  sim_step_eq h env s _ (fun _ k => by cases k) (SatG.twin_payFunding wc env s v) hc

/-- what a successful cw20 deposit pulled: exactly the deposit (so the allowance covered it) -/
theorem deposit_pulled (wc wc' : World) (env : Env) (s v a : Nat) (hf : wc.engine.cfg.native = false)
    (hc : applyTx wc env s ⟨0, false⟩ (.engine (.depositMargin v a)) = .ok wc') :
    pulledBy wc'.log s = a ∧ a ≤ Ledger.get wc.ledger.allow s := by
  have hc' : applyTx (cwW wc) env s ⟨0, false⟩ (.engine (.depositMargin v a)) = .ok wc' := by
    have : cwW wc = wc := cw_self wc hf
    rw [this]; exact hc
  obtain ⟨g, e', subs, ha, hg, _, rfl⟩ := (SatGDeposit.cw_char wc env s v a wc').1 hc'
  constructor
  · show pulledBy [(s, ENGINE, a)] s = a
    simp [pulledBy]
  · unfold Ledger.tokenTransferFrom at hg
    rw [if_neg ha] at hg
    by_cases hlt : Ledger.get wc.ledger.allow s < a
    · rw [if_pos hlt] at hg; cases hg
    · omega

/-- **DepositMargin**: the native caller attaches the amount the cw20 deployment pulls (the deposit) -/
theorem sim_step_deposit {wn wc wc' : World} (h : Sim wn wc) (env : Env) (s v a : Nat)
    (hc : applyTx wc env s ⟨0, false⟩ (.engine (.depositMargin v a)) = .ok wc') :
    ∃ wn', applyTx wn env s ⟨pulledBy wc'.log s, false⟩ (.engine (.depositMargin v a)) = .ok wn' ∧ Sim wn' wc' := by
  obtain ⟨hp, hal⟩ := deposit_pulled wc wc' env s v a h.flagC hc
  rw [hp]
  have hc' : applyTx (cwW wc) env s ⟨0, false⟩ (.engine (.depositMargin v a)) = .ok wc' := by
    have : cwW wc = wc := cw_self wc h.flagC
    rw [this]; exact hc
  obtain ⟨wn1, hn1, hsame⟩ := (SatGDeposit.deposit_core wc env s v a hal).2 wc' hc'
  obtain ⟨e1, e2, e3, e4, e5, e6, _, e8⟩ := hsame
  have hag : Agree wn1 wc' := ⟨e1, e2, e3, e4, e5, e8, fun x => by unfold Ledger.balance; rw [e6]⟩
  obtain ⟨wn', hn', hs', _⟩ := h.step env s ⟨a, false⟩ _ (fun _ k => by cases k) hc hn1 hag
  exact ⟨wn', hn', hs'⟩

/-- group 2: from part (A) of a per-transaction twin theorem for `w := wc` -/
theorem sim_step_A {wn wc wc' : World} (h : Sim wn wc) (env : Env) (s : Nat) (m : ExecMsg)
    (hm : ∀ u, m ≠ .updateConfig u)
    (hc : applyTx wc env s ⟨0, false⟩ (.engine m) = .ok wc')
    (hA : applyTx (cw wc) env s ⟨0, false⟩ (.engine m) = .ok wc' →
      ∃ wn1, applyTx (nat wc) env s ⟨pulledBy wc'.log s, false⟩ (.engine m) = .ok wn1 ∧ Agree wn1 wc'
        ∧ pulledBy wc'.log s ≤ Ledger.get wc.ledger.allow s) :
    ∃ wn', applyTx wn env s ⟨pulledBy wc'.log s, false⟩ (.engine m) = .ok wn' ∧ Sim wn' wc' := by
  obtain ⟨wn1, hn1, hag, _⟩ := hA (by rw [cw_self wc h.flagC]; exact hc)
  obtain ⟨wn', hn', hs', _⟩ := h.step env s _ m hm hc hn1 hag
  exact ⟨wn', hn', hs'⟩

/-- **OpenPosition, increase path** (flat or same-side position) -/
theorem sim_step_open_increase {wn wc wc' : World} (h : Sim wn wc) (env : Env) (s v : Nat) (side : Side) (m l b : Nat)
    (hinc : (getPosition env wc.engine v s side).size.isZero = true
      ∨ (getPosition env wc.engine v s side).direction = sideToDirection side)
    (hS : Setup wc s)
    (hc : applyTx wc env s ⟨0, false⟩ (.engine (.openPosition v side m l b)) = .ok wc') :
    ∃ wn', applyTx wn env s ⟨pulledBy wc'.log s, false⟩ (.engine (.openPosition v side m l b)) = .ok wn'
      ∧ Sim wn' wc' :=
  sim_step_A h env s _ (fun _ k => by cases k) hc
    (fun hc' => (SatG.twin_open_increase wc env s v side m l b hinc hS h.keysC h.totC).1 wc' hc')

/-- **OpenPosition, reducing order** -/
theorem sim_step_open_reduce {wn wc wc' : World} (h : Sim wn wc) (env : Env) (s v : Nat) (side : Side) (m l b : Nat)
    (hred : SatGReduce.ReduceQ ({ wc with env := env, log := [] } : World).q wc.engine env s v side m l)
    (hS : Setup wc s)
    (hc : applyTx wc env s ⟨0, false⟩ (.engine (.openPosition v side m l b)) = .ok wc') :
    ∃ wn', applyTx wn env s ⟨pulledBy wc'.log s, false⟩ (.engine (.openPosition v side m l b)) = .ok wn'
      ∧ Sim wn' wc' :=
  sim_step_A h env s _ (fun _ k => by cases k) hc
    (fun hc' => (SatGReduce.twin_open_reduce wc env s v side m l b hred hS h.keysC h.totC).1 wc' hc')

/-- **OpenPosition, close-only reversal** -/
theorem sim_step_open_reverse_closeonly {wn wc wc' : World} (h : Sim wn wc) (env : Env) (s v : Nat) (side : Side)
    (m l b : Nat)
    (hrev : SatGReverse.ReverseQ ({ wc with env := env, log := [] } : World).q wc.engine env s v side m l)
    (hco : ∀ out, SatGReverse.RevOut wc env s v side out → SatGReverse.CloseOnlyQ wc.engine m l out)
    (hS : Setup wc s)
    (hc : applyTx wc env s ⟨0, false⟩ (.engine (.openPosition v side m l b)) = .ok wc') :
    ∃ wn', applyTx wn env s ⟨pulledBy wc'.log s, false⟩ (.engine (.openPosition v side m l b)) = .ok wn'
      ∧ Sim wn' wc' :=
  sim_step_A h env s _ (fun _ k => by cases k) hc
    (fun hc' => (SatGReverse.twin_open_reverse_closeonly wc env s v side m l b hrev hco hS h.keysC h.totC).1 wc' hc')

/-- **OpenPosition, re-opening reversal** (under the netting condition) -/
theorem sim_step_open_reverse_reopen {wn wc wc' : World} (h : Sim wn wc) (env : Env) (s v : Nat) (side : Side)
    (m l b : Nat)
    (hrev : SatGReverse.ReverseQ ({ wc with env := env, log := [] } : World).q wc.engine env s v side m l)
    (hre : ∀ out, SatGReverse.RevOut wc env s v side out → SatGReverse.ReopenQ wc.engine m l out)
    (hnet : ∀ out, SatGReverse.RevOut wc env s v side out →
      SatGReverse.NetsOKQ ({ wc with env := env, log := [] } : World).q wc.engine env s v side m l out)
    (hS : Setup wc s)
    (hc : applyTx wc env s ⟨0, false⟩ (.engine (.openPosition v side m l b)) = .ok wc') :
    ∃ wn', applyTx wn env s ⟨pulledBy wc'.log s, false⟩ (.engine (.openPosition v side m l b)) = .ok wn'
      ∧ Sim wn' wc' :=
  sim_step_A h env s _ (fun _ k => by cases k) hc
    (fun hc' => (SatGReverse.twin_open_reverse_reopen wc env s v side m l b hrev hre hnet hS h.keysC h.totC).1 wc' hc')

/-- **ClosePosition, whole close** (no vault shortfall, the fee payable up front) -/
theorem sim_step_close_whole {wn wc wc' : World} (h : Sim wn wc) (env : Env) (s v lim : Nat)
    (hwh : SatGClose.WholeQ ({ wc with env := env, log := [] } : World).q wc.engine s v)
    (hS : Setup wc s)
    (hc : applyTx wc env s ⟨0, false⟩ (.engine (.closePosition v lim)) = .ok wc')
    (hns : wc'.engine.st.prepaid = wc.engine.st.prepaid) (hpay : pulledBy wc'.log s ≤ wc.ledger.balance s) :
    ∃ wn', applyTx wn env s ⟨pulledBy wc'.log s, false⟩ (.engine (.closePosition v lim)) = .ok wn'
      ∧ Sim wn' wc' :=
  sim_step_A h env s _ (fun _ k => by cases k) hc
    (fun hc' => (SatG.twin_close_whole wc env s v lim hwh hS h.keysC h.totC).1 wc' hc' hns hpay)

/-- **ClosePosition, partial close** -/
theorem sim_step_close_partial {wn wc wc' : World} (h : Sim wn wc) (env : Env) (s v lim : Nat)
    (hp : SatGReduce.PartialQ ({ wc with env := env, log := [] } : World).q wc.engine s v)
    (hS : Setup wc s)
    (hc : applyTx wc env s ⟨0, false⟩ (.engine (.closePosition v lim)) = .ok wc') :
    ∃ wn', applyTx wn env s ⟨pulledBy wc'.log s, false⟩ (.engine (.closePosition v lim)) = .ok wn'
      ∧ Sim wn' wc' :=
  sim_step_A h env s _ (fun _ k => by cases k) hc
    (fun hc' => (SatGReduce.twin_close_partial wc env s v lim hp hS h.keysC h.totC).1 wc' hc')

/-! ### what the log of a pull-free run can contain: group 1 pulls nothing from the caller -/

/-- every entry written since `l0` was sent by `c` or by the insurance fund -/
def SrcOK (c : Nat) (l0 l : List (Nat × Nat × Nat)) : Prop := ∀ x ∈ l, x ∈ l0 ∨ x.1 = c ∨ x.1 = IFUND

theorem SrcOK.refl (c : Nat) (l : List (Nat × Nat × Nat)) : SrcOK c l l := fun _ hx => Or.inl hx

theorem SrcOK.trans {c : Nat} {l0 l1 l2 : List (Nat × Nat × Nat)} (h1 : SrcOK c l0 l1) (h2 : SrcOK c l1 l2) :
    SrcOK c l0 l2 := by
  intro x hx
  rcases h2 x hx with h | h
  · exact h1 x h
  · exact Or.inr h

theorem SrcOK.snoc (c : Nat) (l : List (Nat × Nat × Nat)) (to amt : Nat) : SrcOK c l (l ++ [(c, to, amt)]) := by
  intro x hx
  rcases List.mem_append.1 hx with h | h
  · exact Or.inl h
  · rw [List.mem_singleton.1 h]; exact Or.inr (Or.inl rfl)

theorem src_exec (fuel : Nat) :
    (∀ (w : World) (c : Nat) (m : Msg) (w' : World) (ev : Ev), execMsg fuel w c m = .ok (w', ev) →
        w.engine.cfg.native = true → NoPull m → SrcOK c w.log w'.log)
    ∧ (∀ (w : World) (c : Nat) (subs : List SubMsg) (w' : World), execSubs fuel w c subs = .ok w' →
        w.engine.cfg.native = true → All NP subs → SrcOK c w.log w'.log) := by
  induction fuel with
  | zero =>
    constructor
    · intro w c m w' ev h; unfold execMsg at h; cases h
    · intro w c subs w' h; unfold execSubs at h; cases h
  | succ fuel ih =>
    constructor
    · intro w c m w' ev h hn hp
      unfold execMsg at h
      cases m with
      | vammSwapInput a d x l g =>
        simp at h
        obtain ⟨v, _, _, _, _, rfl, _⟩ := h
        exact SrcOK.refl _ _
      | vammSwapOutput a d x l =>
        simp at h
        obtain ⟨v, _, _, _, _, rfl, _⟩ := h
        exact SrcOK.refl _ _
      | vammSettle a =>
        simp at h
        obtain ⟨v, _, _, _, _, rfl, _⟩ := h
        exact SrcOK.refl _ _
      | vammSetOpen a o =>
        simp at h
        obtain ⟨v, _, _, _, rfl, _⟩ := h
        exact SrcOK.refl _ _
      | tokenTransfer to amt =>
        simp at h
        obtain ⟨g, hg, rfl, _⟩ := h
        exact SrcOK.snoc _ _ _ _
      | tokenTransferFrom owner to amt => exact absurd hp (by simp [NoPull])
      | bankSend to amt =>
        simp at h
        obtain ⟨g, hg, rfl, _⟩ := h
        exact SrcOK.snoc _ _ _ _
      | ifWithdraw amt =>
        try simp only [] at h
        split at h
        · cases h
        try simp only [] at h
        split at h
        · cases h
        simp at h
        obtain ⟨w1, hs, rfl, _⟩ := h
        have := ih.2 _ _ _ _ hs hn (All_cons (by first | exact trivial | (split <;> exact trivial)) All_nil)
        intro x hx
        rcases this x hx with h | h | h
        · exact Or.inl h
        · exact Or.inr (Or.inr h)
        · exact Or.inr (Or.inr h)
    · intro w c subs w' h hn hg
      cases subs with
      | nil => rw [WorldInv.execSubs_nil _ _ _ _ h]; exact SrcOK.refl _ _
      | cons s rest =>
        have hgs : NoPull s.msg := hg s (List.mem_cons_self ..)
        have hgr : All NP rest := fun m hm => hg m (List.mem_cons_of_mem _ hm)
        obtain ⟨w1, ev, hx, hyes, hno⟩ := Dispatch.execSubs_cons_ok fuel w w' c s rest h
        have h1 := ih.1 _ _ _ _ _ hx hn hgs
        have hw1 : w1.engine = w.engine := ((Dispatch.execMsg_engine_frame fuel).1 _ _ _ _ _ hx).1
        have hn1 : w1.engine.cfg.native = true := by rw [hw1]; exact hn
        by_cases hr : s.replyOn = .always ∨ s.replyOn = .success
        · obtain ⟨rfl, e2, subs2, w3, hrep, hs2, hrest⟩ := hyes hr
          have hn2 : e2.cfg.native = true := by
            rw [EngineGuards.replyOk_cfg _ _ _ _ _ _ _ hrep]; exact hn1
          have hg2 : All NP subs2 := replyOk_np _ _ _ hn1 _ _ _ hrep
          have h2 := ih.2 _ _ _ _ hs2 hn2 hg2
          have h3 := ih.2 _ _ _ _ hrest (native_execSubs _ _ _ _ hs2 hn2) hgr
          exact (h1.trans h2).trans h3
        · exact h1.trans (ih.2 _ _ _ _ (hno hr) hn1 hgr)

/-- a native engine transaction with nothing attached logs only transfers sent by the engine or the fund -/
theorem applyTx_src (w w' : World) (env : Env) (s : Nat) (m : ExecMsg) (hm : ∀ u, m ≠ .updateConfig u)
    (hn : w.engine.cfg.native = true) (h : applyTx w env s ⟨0, false⟩ (.engine m) = .ok w') :
    ∀ x ∈ w'.log, x.1 = ENGINE ∨ x.1 = IFUND := by
  obtain ⟨Wa, e1, subs, ha, hex, hrun⟩ := (SatGRun.applyTx_engine_iff w env s _ m w').1 h
  have hWa := ha.2 (fun k => k.2 rfl)
  subst hWa
  have hc : e1.cfg = w.engine.cfg := EngineGuards.execute_cfg _ _ _ _ _ _ _ _ hm hex
  have := (src_exec FUEL).2 _ _ _ _ hrun (by show e1.cfg.native = true; rw [hc]; exact hn)
    (execute_np _ _ _ _ _ _ hn _ hex)
  intro x hx
  rcases this x hx with h | h
  · cases h
  · exact h

theorem pulledBy_zero (log : List (Nat × Nat × Nat)) (s : Nat) (h : ∀ x ∈ log, x.1 ≠ s) : pulledBy log s = 0 := by
  unfold pulledBy
  have : log.filter (fun x => x.1 == s) = [] := by
    rw [List.filter_eq_nil_iff]
    intro x hx
    simpa using h x hx
  rw [this]; rfl

/-- group 1, in the uniform form: what the cw20 run pulled from the caller is nothing -/
theorem sim_step_eq_pulled {wn wc wc' : World} (h : Sim wn wc) (env : Env) (s : Nat) (m : ExecMsg)
    (hm : ∀ u, m ≠ .updateConfig u) (hs1 : s ≠ ENGINE) (hs2 : s ≠ IFUND)
    (htw : applyTx (nat wc) env s ⟨0, false⟩ (.engine m) = (applyTx (cw wc) env s ⟨0, false⟩ (.engine m)).map nat)
    (hc : applyTx wc env s ⟨0, false⟩ (.engine m) = .ok wc') :
    pulledBy wc'.log s = 0
      ∧ ∃ wn', applyTx wn env s ⟨pulledBy wc'.log s, false⟩ (.engine m) = .ok wn' ∧ Sim wn' wc' := by
  obtain ⟨wn', hn', hs', hlog⟩ := sim_step_eq h env s m hm htw hc
  have hz : pulledBy wc'.log s = 0 := by
    rw [← hlog]
    refine pulledBy_zero _ _ fun x hx => ?_
    rcases applyTx_src wn wn' env s m hm h.nativeN hn' x hx with k | k <;> rw [k]
    · exact Ne.symm hs1
    · exact Ne.symm hs2
  exact ⟨hz, wn', by rw [hz]; exact hn', hs'⟩

/-! ### failing steps: when the cw20 step fails, so does the native step with nothing attached -/

/-- a failed transaction leaves a `Sim` pair in step (only the clock moves) -/
theorem Sim.fail {wn wc : World} (h : Sim wn wc) (env : Env) :
    Sim { wn with env := env, log := [] } { wc with env := env, log := [] } := by
  obtain ⟨h1, h2, h3, h4, h5, _, h7⟩ := h.agree
  exact ⟨⟨h1, h2, h3, h4, h5, rfl, h7⟩, h.keysN, h.keysC, h.flagC, h.totC⟩

/-- generic: the native twin fails with `X` attached, hence so does every native world in step -/
theorem Sim.step_fail {wn wc : World} (h : Sim wn wc) (env : Env) (s : Nat) (f : Funds) (m : ExecMsg)
    (hB : ∀ wn1, applyTx (nat wc) env s f (.engine m) ≠ .ok wn1) :
    ∃ e, applyTx wn env s f (.engine m) = .error e := by
  cases hn : applyTx (nat wc) env s f (.engine m) with
  | ok wn1 => exact absurd hn (hB wn1)
  | error e => exact ⟨e, (h.applyTx_nat env s f m).err_right hn⟩

/-- group 1 -/
theorem sim_fail_eq {wn wc : World} (h : Sim wn wc) (env : Env) (s : Nat) (m : ExecMsg)
    (htw : applyTx (nat wc) env s ⟨0, false⟩ (.engine m) = (applyTx (cw wc) env s ⟨0, false⟩ (.engine m)).map nat)
    (e : Err) (hc : applyTx wc env s ⟨0, false⟩ (.engine m) = .error e) :
    applyTx wn env s ⟨0, false⟩ (.engine m) = .error e := by
  rw [cw_self wc h.flagC, hc] at htw
  exact (h.applyTx_nat env s _ m).err_right htw

/-- a native deposit with nothing attached always fails (`must_pay`) -/
theorem sim_fail_deposit {wn wc : World} (h : Sim wn wc) (env : Env) (s v a : Nat) :
    ∃ e, applyTx wn env s ⟨0, false⟩ (.engine (.depositMargin v a)) = .error e := by
  cases hn : applyTx wn env s ⟨0, false⟩ (.engine (.depositMargin v a)) with
  | error e => exact ⟨e, rfl⟩
  | ok wn' =>
    obtain ⟨Wa, e1, subs, ha, hex, _⟩ := (SatGRun.applyTx_engine_iff wn env s _ _ wn').1 hn
    have hWa := ha.2 (fun k => k.2 rfl)
    subst hWa
    have hex' : depositMargin wn.engine env s ⟨0, false⟩ v a = .ok (e1, subs) := hex
    have hsp := EngineMoney.depositMargin_spec _ _ _ _ _ _ _ _ hex'
    have h1 := (hsp.2.2.2.1 h.nativeN).2.1
    exact absurd h1.symm hsp.2.2.1

/-- group 2: from part (B) of a per-transaction twin theorem for `w := wc`, at `X = 0` -/
theorem sim_fail_B {wn wc : World} (h : Sim wn wc) (env : Env) (s : Nat) (m : ExecMsg)
    (e : Err) (hc : applyTx wc env s ⟨0, false⟩ (.engine m) = .error e)
    (hB : ∀ X wn1, X ≤ Ledger.get wc.ledger.allow s → applyTx (nat wc) env s ⟨X, false⟩ (.engine m) = .ok wn1 →
      ∃ wc', applyTx (cw wc) env s ⟨0, false⟩ (.engine m) = .ok wc' ∧ pulledBy wc'.log s = X ∧ Agree wn1 wc') :
    ∃ e', applyTx wn env s ⟨0, false⟩ (.engine m) = .error e' := by
  refine h.step_fail env s _ m fun wn1 hn1 => ?_
  obtain ⟨wc', hc', _⟩ := hB 0 wn1 (Nat.zero_le _) hn1
  rw [cw_self wc h.flagC, hc] at hc'
  cases hc'

/-! ### the converse direction of a step -/

/-- **the generic converse step**: if from the native twin `nat wc` a successful native run with `X` attached forces
    the cw20 run to succeed pulling exactly `X` (part (B) of a twin theorem), then the same holds from any `wn` in
    step with `wc`, and the results are in step again -/
theorem Sim.stepB {wn wc wn' : World} (h : Sim wn wc) (env : Env) (s X : Nat) (m : ExecMsg)
    (hm : ∀ u, m ≠ .updateConfig u)
    (hn : applyTx wn env s ⟨X, false⟩ (.engine m) = .ok wn')
    (hB : ∀ wn1, applyTx (nat wc) env s ⟨X, false⟩ (.engine m) = .ok wn1 →
      ∃ wc', applyTx (cw wc) env s ⟨0, false⟩ (.engine m) = .ok wc' ∧ pulledBy wc'.log s = X ∧ Agree wn1 wc') :
    ∃ wc', applyTx wc env s ⟨0, false⟩ (.engine m) = .ok wc' ∧ pulledBy wc'.log s = X ∧ Sim wn' wc' := by
  obtain ⟨wn1, hn1, hle⟩ := (h.applyTx_nat env s _ m).ok_left hn
  obtain ⟨wc', hc', hp, hag⟩ := hB wn1 hn1
  rw [cw_self wc h.flagC] at hc'
  have tN := Dispatch.applyTx_total wn wn' env s _ _ h.keysN hn
  have tC := Dispatch.applyTx_total wc wc' env s _ _ h.keysC hc'
  exact ⟨wc', hc', hp, agree_of_leq hle hag, tN.1, tC.1, applyTx_native_false wc wc' env s _ m hm hc' h.flagC,
    by rw [tC.2]; exact h.totC⟩

end Perp.Props.SatGSim
