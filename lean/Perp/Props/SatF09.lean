/-
  SatF (C09): the model's step satisfies `Spec.C09.check` — every privileged transaction is accepted
  only from the holder of its role, and ownership transfers take effect.
-/
import Perp.Model.World
import Perp.Spec.World
import Perp.Lemmas.Basic
import Perp.Props.ModelStep
import Perp.Props.Dispatch
import Perp.Props.EngineGuards
import Perp.Props.WorldInv
import Perp.Props.VammGuards
import Perp.Props.C18F
import Perp.Props.Mirror.VammSide

namespace Perp.Props.SatF09
open Perp Perp.World Perp.Engine Perp.Spec Perp.Spec.W Perp.Props.ModelStep
open Perp.Props.MirrorP (vammE_ok setVamm_vamm_same execMsg_swapInput_inv execMsg_swapOutput_inv
  execMsg_settle_inv execMsg_setOpen_inv)

/-- a failed transaction satisfies C09 trivially -/
theorem c09_err (w : World) (env : Env) (s : Nat) (f : Funds) (tx : Tx) (xf : List (Nat × Nat × Nat)) (r : Bool) :
    Spec.C09.check { pre := w, post := w, env := env, sender := s, funds := f, tx := tx, ok := false,
                     xfers := xf, residue := r } = [] := by
  unfold Spec.C09.check
  simp only [Bool.not_false, Bool.true_or, chk]
  cases Spec.C09.role _ <;> simp

/-- an administrative engine message (no sub-messages) is exactly its handler applied to the engine's state -/
theorem admin_tx (w w' : World) (env : Env) (s : Nat) (f : Funds) (m : ExecMsg) (g : E → Except Err E)
    (hm : ∀ q e, execute q e env s f m = (g e).map (fun e' => (e', [])))
    (h : applyTx w env s f (.engine m) = .ok w') : g w.engine = .ok w'.engine := by
  obtain ⟨w1, e1, subs, a1, _, _, _, _, _, hex, hrun⟩ := WorldInv.applyTx_engine_inv w w' env s f m h
  rw [hm, Dispatch.exmap_ok] at hex
  obtain ⟨e', he', heq⟩ := hex
  injection heq with h1 h2
  subst h1 h2
  have := WorldInv.execSubs_nil _ _ _ _ hrun
  subst this
  rw [a1] at he'
  exact he'

/-- a top-level vAMM call is one dispatched message -/
theorem msg_tx (w0 w' : World) (s : Nat) (m : Msg) (h : (execMsg FUEL w0 s m).map (·.1) = .ok w') :
    ∃ ev, execMsg FUEL w0 s m = .ok (w', ev) := by
  rw [Dispatch.exmap_ok] at h
  obtain ⟨⟨w1, ev⟩, h1, rfl⟩ := h
  exact ⟨ev, h1⟩

theorem addVamm_role (st st' : Insurance.S) (x v : Nat) (ed vd : Except Err Nat)
    (h : Insurance.addVamm st x v ed vd = .ok st') : x = st.owner := by
  unfold Insurance.addVamm at h
  split at h
  · cases h
  · rename_i hs; simpa using hs

theorem removeVamm_role (st st' : Insurance.S) (x v : Nat)
    (h : Insurance.removeVamm st x v = .ok st') : x = st.owner := by
  unfold Insurance.removeVamm at h
  split at h
  · cases h
  · rename_i hs; simpa using hs

theorem c09_ok (w w' : World) (env : Env) (s : Nat) (f : Funds) (tx : Tx) (xf : List (Nat × Nat × Nat)) (r : Bool)
    (h : applyTx w env s f tx = .ok w') :
    Spec.C09.check { pre := w, post := w', env := env, sender := s, funds := f, tx := tx, ok := true,
                     xfers := xf, residue := r } = [] := by
  cases tx with
  | engine m =>
    cases m with
    | updateConfig u =>
      have h1 := admin_tx w w' env s f _ (fun e => updateConfig e s u) (fun _ _ => rfl) h
      have hs := (EngineGuards.engine_roles w.engine w'.engine s).1 u h1
      simp only [Spec.C09.check, Spec.C09.role, chk]
      cases ho : u.owner with
      | none => simp [hs]
      | some n => simp [hs, EngineGuards.engine_owner_transfer _ _ _ n u ho h1]
    | updatePauser n =>
      have h1 := admin_tx w w' env s f _ (fun e => updatePauser e s n) (fun _ _ => rfl) h
      have hs := (EngineGuards.engine_roles w.engine w'.engine s).2.1 n h1
      simp [Spec.C09.check, Spec.C09.role, chk, hs.1, hs.2]
    | addWhitelist a =>
      have h1 := admin_tx w w' env s f _ (fun e => addWhitelist e s a) (fun _ _ => rfl) h
      have hs := (EngineGuards.engine_roles w.engine w'.engine s).2.2.1 a h1
      simp [Spec.C09.check, Spec.C09.role, chk, hs]
    | removeWhitelist a =>
      have h1 := admin_tx w w' env s f _ (fun e => removeWhitelist e s a) (fun _ _ => rfl) h
      have hs := (EngineGuards.engine_roles w.engine w'.engine s).2.2.2.1 a h1
      simp [Spec.C09.check, Spec.C09.role, chk, hs]
    | setPause p =>
      have h1 := admin_tx w w' env s f _ (fun e => setPause e s p) (fun _ _ => rfl) h
      have hs := (EngineGuards.engine_roles w.engine w'.engine s).2.2.2.2 p h1
      simp [Spec.C09.check, Spec.C09.role, chk, hs.1]
    | openPosition v sd mg l b => simp [Spec.C09.check, Spec.C09.role]
    | closePosition v l => simp [Spec.C09.check, Spec.C09.role]
    | liquidate v t l => simp [Spec.C09.check, Spec.C09.role]
    | payFunding v => simp [Spec.C09.check, Spec.C09.role]
    | depositMargin v a => simp [Spec.C09.check, Spec.C09.role]
    | withdrawMargin v a => simp [Spec.C09.check, Spec.C09.role]
  | vammSwapInput v dir amt lim cgo =>
    obtain ⟨ev, h1⟩ := msg_tx _ _ _ _ h
    obtain ⟨x, x', o, hx, hsw, _, _⟩ := execMsg_swapInput_inv _ _ _ _ _ _ _ _ _ _ h1
    have hx' : w.vamm? v = some x := hx
    have hs := VammGuards.swapInput_role _ _ _ _ _ _ _ _ hsw
    simp [Spec.C09.check, Spec.C09.role, chk, hx', hs]
  | vammSwapOutput v dir amt lim =>
    obtain ⟨ev, h1⟩ := msg_tx _ _ _ _ h
    obtain ⟨x, x', o, hx, hsw, _, _⟩ := execMsg_swapOutput_inv _ _ _ _ _ _ _ _ _ h1
    have hx' : w.vamm? v = some x := hx
    have hs := VammGuards.swapOutput_role _ _ _ _ _ _ _ hsw
    simp [Spec.C09.check, Spec.C09.role, chk, hx', hs]
  | vammSettle v =>
    obtain ⟨ev, h1⟩ := msg_tx _ _ _ _ h
    obtain ⟨x, x', o, hx, hsw, _, _⟩ := execMsg_settle_inv _ _ _ _ _ _ h1
    have hx' : w.vamm? v = some x := hx
    have hs := VammGuards.settleFunding_role _ _ _ _ _ hsw
    simp [Spec.C09.check, Spec.C09.role, chk, hx', hs]
  | vammSetOpen v o =>
    obtain ⟨ev, h1⟩ := msg_tx _ _ _ _ h
    obtain ⟨x, x', hx, hsw, _⟩ := execMsg_setOpen_inv _ _ _ _ _ _ _ h1
    have hx' : w.vamm? v = some x := hx
    have hs := (VammGuards.setOpen_role _ _ _ _ _ hsw).1
    simp only [Spec.C09.check, Spec.C09.role, chk, hx']
    rcases hs with hs | hs <;> simp [hs]
  | vammConfig v u =>
    unfold applyTx at h
    simp only [bind_ok_iff, pure_ok_iff] at h
    obtain ⟨x, hx, x', hu, rfl⟩ := h
    have hx' : w.vamm? v = some x := (vammE_ok _ _ _).1 hx
    have hs := (VammGuards.updateConfig_role _ _ _ _ hu).1
    simp [Spec.C09.check, Spec.C09.role, chk, hx', hs]
  | vammOwner v n =>
    unfold applyTx at h
    simp only [bind_ok_iff, pure_ok_iff] at h
    obtain ⟨x, hx, x', hu, rfl⟩ := h
    have hx0 := (vammE_ok _ _ _).1 hx
    have hx' : w.vamm? v = some x := hx0
    have hs := VammGuards.updateOwner_role _ _ _ _ hu
    have hpost := setVamm_vamm_same _ v x x' hx0
    simp [Spec.C09.check, Spec.C09.role, chk, hx', hs.1, hpost, hs.2.1]
  | ifAdd v =>
    unfold applyTx at h
    simp only [bind_ok_iff, pure_ok_iff] at h
    obtain ⟨x, hx, rfl⟩ := h
    have hs := addVamm_role _ _ _ _ _ _ hx
    simp [Spec.C09.check, Spec.C09.role, chk, hs]
  | ifRemove v =>
    unfold applyTx at h
    simp only [bind_ok_iff, pure_ok_iff] at h
    obtain ⟨x, hx, rfl⟩ := h
    have hs := removeVamm_role _ _ _ _ hx
    simp [Spec.C09.check, Spec.C09.role, chk, hs]
  | ifShutdown =>
    have hs := (EngineGuards.world_roles w w' env s f).2.2 h
    simp only [Spec.C09.check, Spec.C09.role, chk]
    rcases hs with hs | hs <;> simp [hs]
  | ifWithdraw amt =>
    have hs := (EngineGuards.world_roles w w' env s f).1 amt h
    simp [Spec.C09.check, Spec.C09.role, chk, hs]
  | ifOwner n =>
    unfold applyTx at h
    simp only [bind_ok_iff, pure_ok_iff] at h
    obtain ⟨x, hx, rfl⟩ := h
    have hs := EngineGuards.insurance_roles _ _ _ n hx
    simp [Spec.C09.check, Spec.C09.role, chk, hs.1, hs.2.1]
  | fpAdd tok =>
    unfold applyTx at h
    simp only [bind_ok_iff, pure_ok_iff] at h
    obtain ⟨x, hx, rfl⟩ := h
    have hs := (EngineGuards.feepool_roles _ _ _).1 tok hx
    simp [Spec.C09.check, Spec.C09.role, chk, hs]
  | fpRemove tok =>
    unfold applyTx at h
    simp only [bind_ok_iff, pure_ok_iff] at h
    obtain ⟨x, hx, rfl⟩ := h
    have hs := (EngineGuards.feepool_roles _ _ _).2.1 tok hx
    simp [Spec.C09.check, Spec.C09.role, chk, hs]
  | fpSend tok amt to =>
    have hs := (EngineGuards.world_roles w w' env s f).2.1 tok amt to h
    simp [Spec.C09.check, Spec.C09.role, chk, hs]
  | fpOwner n =>
    unfold applyTx at h
    simp only [bind_ok_iff, pure_ok_iff] at h
    obtain ⟨x, hx, rfl⟩ := h
    have hs := (EngineGuards.feepool_roles _ _ _).2.2 n hx
    simp [Spec.C09.check, Spec.C09.role, chk, hs.1, hs.2]
  | oracle price ts =>
    unfold applyTx at h
    dsimp only at h
    cases hf : w.feed with
    | mock m => simp [Spec.C09.check, Spec.C09.role, hf]
    | real fd =>
      rw [hf] at h
      simp only [bind_ok_iff, pure_ok_iff] at h
      obtain ⟨x, hx, rfl⟩ := h
      have hs := C18F.appendPrice_role _ _ _ _ _ _ hx
      simp [Spec.C09.check, Spec.C09.role, chk, hf, hs]
  | feedOwner n =>
    unfold applyTx at h
    dsimp only at h
    cases hf : w.feed with
    | mock m =>
      rw [hf] at h
      dsimp only at h
      split at h
      · cases h
      · rename_i hs
        injection h with h
        subst h
        have hs' : s = m.owner := by simpa using hs
        simp [Spec.C09.check, Spec.C09.role, chk, hf, hs']
    | real fd =>
      rw [hf] at h
      simp only [bind_ok_iff, pure_ok_iff] at h
      obtain ⟨x, hx, rfl⟩ := h
      have hs := C18F.updateOwner_role _ _ _ _ hx
      simp [Spec.C09.check, Spec.C09.role, chk, hf, hs.1, hs.2.1]
  | tokenApprove amt => simp [Spec.C09.check, Spec.C09.role]
  | tokenDecrease amt => simp [Spec.C09.check, Spec.C09.role]
  | tokenTransfer to amt => simp [Spec.C09.check, Spec.C09.role]
  | bankSend to amt => simp [Spec.C09.check, Spec.C09.role]

/-- C09 holds of every model step, with no hypothesis at all -/
theorem c09 (w : World) (env : Env) (s : Nat) (f : Funds) (tx : Tx) :
    Spec.C09.check (modelStep w env s f tx) = [] := by
  unfold modelStep
  cases h : applyTx w env s f tx with
  | ok w' => exact c09_ok w w' env s f tx _ _ h
  | error e => exact c09_err w env s f tx _ _

end Perp.Props.SatF09
