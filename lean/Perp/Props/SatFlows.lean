/-
  SatFlows — the message trees of OpenPosition and ClosePosition transactions of the model, as raw
  handler equations (which swap ran on which vAMM record, which reply handler ran on which engine state,
  what the final engine state / vAMM record is).  Used by SatC11 / SatC15 / SatC17.
-/
import Perp.Props.SatTrace

namespace Perp.Props.SatFlows
open Perp Perp.World Perp.Engine Perp.Spec Perp.Props.ModelStep
open Perp.Props.Dispatch Perp.Props.SatTrace
open Perp.Props.EngineGuards (Post Post_bind Post_pure Post_ok Post_error Post_bind_pure Post_bind_error)
open Perp.Props.MirrorP (AllCE CE IsColl AllCE_tail AllCE_nil execMsg_coll_frame vammE_ok
  execMsg_swapInput_inv execMsg_swapOutput_inv setVamm_vamm_same)

/-! ### sharper inversions of the two `execute` handlers -/

/-- `open_position`: what is put in flight -/
theorem openPosition_inv2 (q : Q) (e : E) (env : Env) (s : Nat) (f : Funds) (v : Nat) (side : Side) (m l b : Nat) :
    Post (fun r => r.1.vammMaps = e.vammMaps ∧ r.1.st = e.st ∧ r.1.whitelist = e.whitelist
      ∧ e.cfg.decimals ≠ 0
      ∧ ∃ pn u, positionNotionalPnl q e (getPosition env e v s side) .spot = .ok (pn, u)
        ∧ r.1.tmpSwap = some ⟨v, s, side, m, l, m * l / e.cfg.decimals, pn, u, Integer.zero, false⟩
        ∧ r.1.sentFunds = some ⟨if e.cfg.native then f.amount else 0, 0⟩)
      (openPosition q e env s f v side m l b) := by
  unfold openPosition
  walk [first | contradiction | (
    have h1 := (cmul_ok _ _ _).1 ‹cmul m l = Except.ok _›
    have h2 := (cdiv_ok _ _ _).1 ‹cdiv _ e.cfg.decimals = Except.ok _›
    obtain ⟨_, rfl⟩ := h1
    obtain ⟨hD, rfl⟩ := h2
    have h3 := EngineGuards.unwrap_ok _ _ ‹unwrap (positionNotionalPnl q e _ PnlOpt.spot) = Except.ok (_, _)›
    exact ⟨rfl, rfl, rfl, hD, _, _, h3, rfl, rfl⟩)]

/-- `close_position`: the whole close is chosen exactly when the vAMM does not report the close as
    over the fluctuation limit, or partial closes are switched off (ratio ≥ 100 %) -/
theorem closePosition_inv2 (q : Q) (e : E) (env : Env) (s v l : Nat) :
    Post (fun r => r.1.vammMaps = e.vammMaps ∧ r.1.st = e.st
      ∧ ∃ over, q.isOverFluct v (if Integer.gt (readPosition e v s).size Integer.zero then .addToAmm else .removeFromAmm)
                  (readPosition e v s).size.value = .ok over
        ∧ (((over = true ∧ e.cfg.plr < e.cfg.decimals) ∧ ∃ N, r.2 = [swapInputMsg (readPosition e v s).vamm
                  (positionToSide (readPosition e v s).size) N 0 true REPLY_PARTIAL_CLOSE])
           ∨ (¬ (over = true ∧ e.cfg.plr < e.cfg.decimals)
               ∧ r.2 = [swapOutputMsg (readPosition e v s).vamm (directionToSide (readPosition e v s).direction)
                      (readPosition e v s).size.value l REPLY_CLOSE])))
      (closePosition q e env s v l) := by
  unfold closePosition internalClosePosition
  walk [(
    refine ⟨rfl, rfl, _, by assumption, ?_⟩
    first
      | exact Or.inl ⟨by assumption, _, rfl⟩
      | exact Or.inr ⟨by assumption, rfl⟩)]


/-! ### the start of an engine transaction, with the transfer log -/

theorem engine_start_log (w w' : World) (env : Env) (s : Nat) (f : Funds) (m : ExecMsg)
    (h : applyTx w env s f (.engine m) = .ok w') :
    ∃ (w1 : World) (e1 : E) (subs : List SubMsg), Start w w1 env ∧ (∀ x ∈ w1.log, x.1 = s)
      ∧ execute w1.q w.engine env s f m = .ok (e1, subs)
      ∧ execSubs FUEL { w1 with engine := e1 } ENGINE subs = .ok w' := by
  unfold applyTx at h
  dsimp only at h
  split at h
  · simp at h
    obtain ⟨w1, hg, e', subs, hex, h⟩ := h
    obtain ⟨⟨w1', ev⟩, hg', rfl⟩ := (exmap_ok _ _ _).1 hg
    obtain ⟨a1, a2, a3, a4, a5⟩ := (execMsg_engine_frame FUEL).1 _ _ _ _ _ hg'
    have a6 := WorldInv.execMsg_bankSend_vamms _ _ _ _ _ _ _ hg'
    have hlog : ∀ x ∈ w1'.log, x.1 = s := by
      have hg'' : execMsg (39 + 1) { w with env := env, log := [] } s (.bankSend ENGINE f.amount) = .ok (w1', ev) := hg'
      unfold execMsg at hg''
      simp at hg''
      obtain ⟨g, _, rfl, _⟩ := hg''
      intro x hx
      simp at hx
      rw [hx]
    rw [a1] at hex
    exact ⟨w1', e', subs, ⟨a1, a2, a6, a3, a4, a5⟩, hlog, hex, h⟩
  · simp at h
    obtain ⟨e', subs, hex, h⟩ := h
    exact ⟨{ w with env := env, log := [] }, e', subs, ⟨rfl, rfl, rfl, rfl, rfl, rfl⟩,
      (by intro x hx; cases hx), hex, h⟩

theorem side_dir (d : Direction) : sideToDirection (directionToSide d) = d := by cases d <;> rfl

/-! ### ClosePosition -/

/-- the message tree of a successful ClosePosition -/
theorem close_flow (w w' : World) (env : Env) (s : Nat) (f : Funds) (v l : Nat)
    (h : applyTx w env s f (.engine (.closePosition v l)) = .ok w') :
    ∃ (w1 : World) (e1 : E) (x : Vamm.V) (sw : TmpSwap) (msgs : List SubMsg) (over : Bool),
      Start w w1 env ∧ (∀ y ∈ w1.log, y.1 = s) ∧ w.vamm? v = some x
      ∧ ¬ (readPosition w.engine v s).size.value = 0
      ∧ (readPosition w.engine v s).vamm = v ∧ (readPosition w.engine v s).trader = s
      ∧ closePosition w1.q w.engine env s v l = .ok (e1, msgs)
      ∧ e1.tmpSwap = some sw ∧ sw.vamm = v ∧ sw.trader = s
      ∧ e1.positions = w.engine.positions ∧ e1.cfg = w.engine.cfg ∧ e1.vammMaps = w.engine.vammMaps
      ∧ e1.st = w.engine.st
      ∧ w1.q.isOverFluct v (if Integer.gt (readPosition w.engine v s).size Integer.zero then .addToAmm else .removeFromAmm)
            (readPosition w.engine v s).size.value = .ok over
      ∧ ((¬ (over = true ∧ w.engine.cfg.plr < w.engine.cfg.decimals)
            ∧ sw.side = directionToSide (readPosition w.engine v s).direction
            ∧ ∃ (x' : Vamm.V) (qo : Nat) (w2 : World) (e3 : E) (subs3 : List SubMsg),
              Vamm.swapOutput x env ENGINE (readPosition w.engine v s).direction (readPosition w.engine v s).size.value l
                  = .ok (x', ⟨false, qo, (readPosition w.engine v s).size.value⟩)
              ∧ w2.ledger = w1.ledger ∧ w2.log = w1.log ∧ w2.ifund = w1.ifund
              ∧ closePositionReply w2.q e1 env qo = .ok (e3, subs3)
              ∧ AllCE subs3 ∧ w'.engine = e3 ∧ w'.vamm? v = some x'
              ∧ w'.log = w1.log ++ subs3.map (fun m => collEntry w.ifund.engine m.msg))
        ∨ ((over = true ∧ w.engine.cfg.plr < w.engine.cfg.decimals)
            ∧ sw.side = positionToSide (readPosition w.engine v s).size
            ∧ ∃ (N : Nat) (x' : Vamm.V) (bo : Nat) (w2 : World) (e3 : E) (subs3 : List SubMsg),
              Vamm.swapInput x env ENGINE (sideToDirection (positionToSide (readPosition w.engine v s).size)) N 0 true
                  = .ok (x', ⟨true, N, bo⟩)
              ∧ partialClosePositionReply w2.q e1 env N bo = .ok (e3, subs3)
              ∧ AllCE subs3 ∧ w'.engine = e3 ∧ w'.vamm? v = some x'
              ∧ msgs = [swapInputMsg v (positionToSide (readPosition w.engine v s).size) N 0 true
                          REPLY_PARTIAL_CLOSE])) := by
  obtain ⟨w1, e1, subs, hst, hlog, hex, hrun⟩ := engine_start_log w w' env s f _ h
  have hex' : closePosition w1.q w.engine env s v l = .ok (e1, subs) := hex
  obtain ⟨hpos, hcfg, hnz, tmp, htmp, tv, tt, _⟩ := MirrorP.closePosition_inv _ _ _ _ _ _ _ hex'
  obtain ⟨hvm, hstt, over, hover, hcase⟩ := closePosition_inv2 _ _ _ _ _ _ _ hex'
  dsimp only at hpos hcfg htmp hvm hstt hcase
  obtain ⟨pv, pt⟩ := MirrorP.read_found w.engine v s hnz
  have hside : (tmp.side = directionToSide (readPosition w.engine v s).direction
        ∧ subs = [swapOutputMsg (readPosition w.engine v s).vamm (directionToSide (readPosition w.engine v s).direction)
                      (readPosition w.engine v s).size.value l REPLY_CLOSE])
      ∨ (tmp.side = positionToSide (readPosition w.engine v s).size
        ∧ ∃ N, subs = [swapInputMsg (readPosition w.engine v s).vamm (positionToSide (readPosition w.engine v s).size)
                        N 0 true REPLY_PARTIAL_CLOSE]) := by
    obtain ⟨_, _, _, tmp', htmp', _, _, hc⟩ := MirrorP.closePosition_inv _ _ _ _ _ _ _ hex'
    dsimp only at htmp' hc
    have : tmp' = tmp := by
      have := htmp'.symm.trans htmp
      injection this
    subst this
    rcases hc with ⟨h1, h2⟩ | ⟨h1, _, _, N, _, h2, _⟩
    · exact Or.inl ⟨h1, h2⟩
    · exact Or.inr ⟨h1, N, h2⟩
  have hxv : ∃ x, w.vamm? v = some x := by
    rcases hside with ⟨_, hm⟩ | ⟨_, N, hm⟩
    · rw [hm, pv] at hrun
      obtain ⟨fuel', w2, ev, e3, subs3, hx, _, _⟩ := execSubs_single _ _ _ _ rfl hrun
      obtain ⟨x, _, _, hx0, _⟩ := execMsg_swapOutput_inv _ _ _ _ _ _ _ _ _ hx
      exact ⟨x, (hst.vamm? v) ▸ hx0⟩
    · rw [hm, pv] at hrun
      obtain ⟨fuel', w2, ev, e3, subs3, hx, _, _⟩ := execSubs_single _ _ _ _ rfl hrun
      obtain ⟨x, _, _, hx0, _⟩ := execMsg_swapInput_inv _ _ _ _ _ _ _ _ _ _ hx
      exact ⟨x, (hst.vamm? v) ▸ hx0⟩
  obtain ⟨x, hxv⟩ := hxv
  refine ⟨w1, e1, x, tmp, subs, over, hst, hlog, hxv, hnz, pv, pt, hex', htmp, tv.trans pv, tt.trans pt, hpos, hcfg,
    hvm, hstt, hover, ?_⟩
  rcases hcase with ⟨hc, N, hm⟩ | ⟨hc, hm⟩
  · right
    have hsd : tmp.side = positionToSide (readPosition w.engine v s).size := by
      rcases hside with ⟨_, hm'⟩ | ⟨h1, _⟩
      · rw [hm] at hm'; injection hm' with hm'; injection hm' with hm' _; cases hm'
      · exact h1
    refine ⟨hc, hsd, ?_⟩
    have hmsg : subs = [swapInputMsg v (positionToSide (readPosition w.engine v s).size) N 0 true
        REPLY_PARTIAL_CLOSE] := by rw [hm, pv]
    rw [hm, pv] at hrun
    obtain ⟨fuel', w2, ev, e3, subs3, hx, hrep, hs2⟩ := execSubs_single _ _ _ _ rfl hrun
    obtain ⟨x0, x', o, hx0, hsw, hw2, rfl⟩ := execMsg_swapInput_inv _ _ _ _ _ _ _ _ _ _ hx
    have hx0' : w1.vamm? v = some x0 := hx0
    rw [hst.vamm? v, hxv] at hx0'
    cases hx0'
    have henv : ({ w1 with engine := e1 } : World).env = env := hst.env
    rw [henv] at hsw
    obtain ⟨bo, _, _, rfl, _⟩ := C17.swapInput_inv _ _ _ _ _ _ _ _ _ hsw
    have he2 : w2.engine = e1 := by rw [hw2]; rfl
    have hv2 : w2.env = env := by rw [hw2]; exact hst.env
    have hvm2 : w2.vamm? v = some x' := by rw [hw2]; exact setVamm_vamm_same _ _ _ _ hx0
    rw [he2, hv2] at hrep
    have hrep' : partialClosePositionReply w2.q e1 env N bo = .ok (e3, subs3) := hrep
    obtain ⟨_, hce⟩ := MirrorP.partialClosePositionReply_eff _ _ _ _ _ tmp htmp _ hrep'
    obtain ⟨c1, c2, _, _, _⟩ := coll_run _ _ _ _ hs2 hce
    refine ⟨N, x', bo, w2, e3, subs3, hsw, hrep', hce, c1, ?_, hmsg⟩
    rw [c2 v]
    exact hvm2
  · left
    have hsd : tmp.side = directionToSide (readPosition w.engine v s).direction := by
      rcases hside with ⟨h1, _⟩ | ⟨_, N, hm'⟩
      · exact h1
      · rw [hm] at hm'; injection hm' with hm'; injection hm' with hm' _; cases hm'
    refine ⟨hc, hsd, ?_⟩
    rw [hm, pv] at hrun
    obtain ⟨fuel', w2, ev, e3, subs3, hx, hrep, hs2⟩ := execSubs_single _ _ _ _ rfl hrun
    obtain ⟨x0, x', o, hx0, hsw, hw2, rfl⟩ := execMsg_swapOutput_inv _ _ _ _ _ _ _ _ _ hx
    have hx0' : w1.vamm? v = some x0 := hx0
    rw [hst.vamm? v, hxv] at hx0'
    cases hx0'
    have henv : ({ w1 with engine := e1 } : World).env = env := hst.env
    rw [henv, side_dir] at hsw
    obtain ⟨qo, _, _, rfl, _⟩ := C17.swapOutput_inv _ _ _ _ _ _ _ _ hsw
    have he2 : w2.engine = e1 := by rw [hw2]; rfl
    have hv2 : w2.env = env := by rw [hw2]; exact hst.env
    have hvm2 : w2.vamm? v = some x' := by rw [hw2]; exact setVamm_vamm_same _ _ _ _ hx0
    have hl2 : w2.ledger = w1.ledger := by rw [hw2]; rfl
    have hg2 : w2.log = w1.log := by rw [hw2]; rfl
    have hi2 : w2.ifund = w1.ifund := by rw [hw2]; rfl
    rw [he2, hv2] at hrep
    have hrep' : closePositionReply w2.q e1 env qo = .ok (e3, subs3) := hrep
    obtain ⟨_, hce⟩ := MirrorP.closePositionReply_eff _ _ _ _ tmp htmp _ hrep'
    obtain ⟨c1, c2, _, c4, _⟩ := coll_run _ _ _ _ hs2 hce
    refine ⟨x', qo, w2, e3, subs3, hsw, hl2, hg2, hi2, hrep', hce, c1, ?_, ?_⟩
    · rw [c2 v]
      exact hvm2
    · rw [c4]
      show w2.log ++ List.map (fun m => collEntry w2.ifund.engine m.msg) subs3 = _
      rw [hg2, hi2, hst.ifund]


/-! ### OpenPosition -/

/-- the message tree of a successful OpenPosition (with the message `open_position` dispatched): increase (stored size zero, or same direction) / reduce
    (one `swap_input` carrying the caller's limit, band enforced), or reversal — size non-zero, opposite direction — (`swap_output` of the whole position without limit, then either the
    position is closed or the remainder is opened by a second `swap_input` without limit) -/
theorem open_flow_msgs (w w' : World) (env : Env) (s : Nat) (f : Funds) (v : Nat) (side : Side) (m l b : Nat)
    (h : applyTx w env s f (.engine (.openPosition v side m l b)) = .ok w') :
    ∃ (w1 : World) (e1 : E) (x : Vamm.V) (sw : TmpSwap) (msgs : List SubMsg),
      Start w w1 env ∧ (∀ y ∈ w1.log, y.1 = s) ∧ w.vamm? v = some x
      ∧ openPosition w1.q w.engine env s f v side m l b = .ok (e1, msgs)
      ∧ e1.tmpSwap = some sw ∧ sw.vamm = v ∧ sw.trader = s ∧ sw.side = side
      ∧ e1.positions = w.engine.positions ∧ e1.cfg = w.engine.cfg
      ∧ ((∃ id, ((id = REPLY_INCREASE ∧ ((getPosition env w.engine v s side).size.isZero = true
                                          ∨ (getPosition env w.engine v s side).direction = sideToDirection side))
                 ∨ (id = REPLY_DECREASE ∧ ¬ (getPosition env w.engine v s side).size.isZero = true
                      ∧ (getPosition env w.engine v s side).direction ≠ sideToDirection side))
            ∧ msgs = [swapInputMsg v side (m * l / w.engine.cfg.decimals) b false id]
            ∧ ∃ (x' : Vamm.V) (bo : Nat) (w2 : World) (e3 : E) (subs3 : List SubMsg),
              Vamm.swapInput x env ENGINE (sideToDirection side) (m * l / w.engine.cfg.decimals) b false
                  = .ok (x', ⟨true, m * l / w.engine.cfg.decimals, bo⟩)
              ∧ updatePositionReply w2.q e1 env (m * l / w.engine.cfg.decimals) bo id = .ok (e3, subs3)
              ∧ AllCE subs3 ∧ w'.engine = e3 ∧ w'.vamm? v = some x')
        ∨ ((¬ (getPosition env w.engine v s side).size.isZero = true
              ∧ (getPosition env w.engine v s side).direction ≠ sideToDirection side)
            ∧ msgs = [swapOutputMsg v (directionToSide (getPosition env w.engine v s side).direction)
                        (getPosition env w.engine v s side).size.value 0 REPLY_REVERSE]
            ∧ ∃ (x1 : Vamm.V) (qo : Nat) (w2 : World) (e3 : E) (subs3 : List SubMsg),
              Vamm.swapOutput x env ENGINE (getPosition env w.engine v s side).direction
                  (getPosition env w.engine v s side).size.value 0
                  = .ok (x1, ⟨false, qo, (getPosition env w.engine v s side).size.value⟩)
              ∧ reversePositionReply w2.q e1 env qo = .ok (e3, subs3)
              ∧ ((e3.tmpSwap = none ∧ AllCE subs3 ∧ w'.engine = e3 ∧ w'.vamm? v = some x1
                    ∧ w'.log = w1.log ++ subs3.map (fun m => collEntry w.ifund.engine m.msg))
                 ∨ (∃ (fm : List SubMsg) (sw' : TmpSwap) (x2 : Vamm.V) (bo2 : Nat) (w4 : World) (e5 : E)
                      (subs5 : List SubMsg),
                      subs3 = fm ++ [swapInputMsg v side sw'.openNotional 0 false REPLY_INCREASE]
                      ∧ AllCE fm ∧ e3.tmpSwap = some sw' ∧ sw'.vamm = v ∧ sw'.trader = s ∧ sw'.side = side
                      ∧ Vamm.swapInput x1 env ENGINE (sideToDirection side) sw'.openNotional 0 false
                          = .ok (x2, ⟨true, sw'.openNotional, bo2⟩)
                      ∧ updatePositionReply w4.q e3 env sw'.openNotional bo2 REPLY_INCREASE = .ok (e5, subs5)
                      ∧ AllCE subs5 ∧ w'.engine = e5 ∧ w'.vamm? v = some x2)))) := by
  obtain ⟨w1, e1, subs, hst, hlog, hex, hrun⟩ := engine_start_log w w' env s f _ h
  have hex' : openPosition w1.q w.engine env s f v side m l b = .ok (e1, subs) := hex
  obtain ⟨hpos, hcfg, tmp, htmp, tv, tt, ts, hcase⟩ := MirrorP.openPosition_inv _ _ _ _ _ _ _ _ _ _ _ hex'
  dsimp only at hpos hcfg htmp hcase
  have hk := EngineMoney.getPosition_key env w.engine v s side
  have hmsgs := EngineGuards.openPosition_msgs _ _ _ _ _ _ _ _ _ _ _ _ hex'
  dsimp only at hmsgs
  rw [hk.1] at hmsgs hcase
  have henv : ({ w1 with engine := e1 } : World).env = env := hst.env
  -- the single swap of an increase / reduce
  have hsingle : ∀ id, (id = REPLY_INCREASE ∨ id = REPLY_DECREASE) →
      subs = [swapInputMsg v side (m * l / w.engine.cfg.decimals) b false id] →
      ∃ (x x' : Vamm.V) (bo : Nat) (w2 : World) (e3 : E) (subs3 : List SubMsg), w.vamm? v = some x ∧
        Vamm.swapInput x env ENGINE (sideToDirection side) (m * l / w.engine.cfg.decimals) b false
            = .ok (x', ⟨true, m * l / w.engine.cfg.decimals, bo⟩)
        ∧ updatePositionReply w2.q e1 env (m * l / w.engine.cfg.decimals) bo id = .ok (e3, subs3)
        ∧ AllCE subs3 ∧ w'.engine = e3 ∧ w'.vamm? v = some x' := by
    intro id hid hm
    rw [hm] at hrun
    obtain ⟨fuel', w2, ev, e3, subs3, hx, hrep, hs2⟩ := execSubs_single _ _ _ _ rfl hrun
    obtain ⟨x0, x', o, hx0, hsw, hw2, rfl⟩ := execMsg_swapInput_inv _ _ _ _ _ _ _ _ _ _ hx
    have hx0' : w.vamm? v = some x0 := (hst.vamm? v) ▸ hx0
    rw [henv] at hsw
    obtain ⟨bo, _, _, rfl, _⟩ := C17.swapInput_inv _ _ _ _ _ _ _ _ _ hsw
    have he2 : w2.engine = e1 := by rw [hw2]; rfl
    have hv2 : w2.env = env := by rw [hw2]; exact hst.env
    have hvm2 : w2.vamm? v = some x' := by rw [hw2]; exact setVamm_vamm_same _ _ _ _ hx0
    rw [he2, hv2] at hrep
    have hrep' : updatePositionReply w2.q e1 env (m * l / w.engine.cfg.decimals) bo id = .ok (e3, subs3) := by
      rcases hid with rfl | rfl <;> exact hrep
    obtain ⟨_, hce⟩ := MirrorP.updatePositionReply_eff _ _ _ _ _ _ tmp htmp _ hrep'
    obtain ⟨c1, c2, _, _, _⟩ := coll_run _ _ _ _ hs2 hce
    exact ⟨x0, x', bo, w2, e3, subs3, hx0', hsw, hrep', hce, c1, by rw [c2 v]; exact hvm2⟩
  rcases hcase with ⟨N, hm, hdir⟩ | ⟨N, hm, hnz, hdir, _⟩ | ⟨hm, hnz, hdir⟩
  · have hm' : subs = [swapInputMsg v side (m * l / w.engine.cfg.decimals) b false REPLY_INCREASE] := by
      rcases hmsgs with h1 | h1 | h1
      · exact h1
      · rw [hm] at h1; injection h1 with h1; injection h1 with _ h1; cases h1
      · rw [hm] at h1; injection h1 with h1; injection h1 with h1; cases h1
    obtain ⟨x, x', bo, w2, e3, subs3, hxv, r⟩ := hsingle _ (Or.inl rfl) hm'
    exact ⟨w1, e1, x, tmp, subs, hst, hlog, hxv, hex', htmp, tv, tt, ts, hpos, hcfg,
      Or.inl ⟨_, Or.inl ⟨rfl, hdir⟩, hm', x', bo, w2, e3, subs3, r⟩⟩
  · have hm' : subs = [swapInputMsg v side (m * l / w.engine.cfg.decimals) b false REPLY_DECREASE] := by
      rcases hmsgs with h1 | h1 | h1
      · rw [hm] at h1; injection h1 with h1; injection h1 with _ h1; cases h1
      · exact h1
      · rw [hm] at h1; injection h1 with h1; injection h1 with h1; cases h1
    obtain ⟨x, x', bo, w2, e3, subs3, hxv, r⟩ := hsingle _ (Or.inr rfl) hm'
    exact ⟨w1, e1, x, tmp, subs, hst, hlog, hxv, hex', htmp, tv, tt, ts, hpos, hcfg,
      Or.inl ⟨_, Or.inr ⟨rfl, hnz, hdir⟩, hm', x', bo, w2, e3, subs3, r⟩⟩
  · have hm0 := hm
    rw [hm] at hrun
    obtain ⟨fuel', w2, ev, e3, subs3, hx, hrep, hs2⟩ := execSubs_single _ _ _ _ rfl hrun
    obtain ⟨x0, x1, o, hx0, hsw, hw2, rfl⟩ := execMsg_swapOutput_inv _ _ _ _ _ _ _ _ _ hx
    have hx0' : w.vamm? v = some x0 := (hst.vamm? v) ▸ hx0
    rw [henv, side_dir] at hsw
    obtain ⟨qo, _, _, rfl, _⟩ := C17.swapOutput_inv _ _ _ _ _ _ _ _ hsw
    have he2 : w2.engine = e1 := by rw [hw2]; rfl
    have hv2 : w2.env = env := by rw [hw2]; exact hst.env
    have hvm2 : w2.vamm? v = some x1 := by rw [hw2]; exact setVamm_vamm_same _ _ _ _ hx0
    have hg2 : w2.log = w1.log := by rw [hw2]; rfl
    have hi2 : w2.ifund = w1.ifund := by rw [hw2]; rfl
    rw [he2, hv2] at hrep
    have hrep' : reversePositionReply w2.q e1 env qo = .ok (e3, subs3) := hrep
    obtain ⟨fm, sp, tl, last, hfm, hmsgs3, hlast, _, _⟩ :=
      EngineMoney.reversePositionReply_fees _ _ _ _ _ _ tmp htmp hrep'
    have hfce : AllCE fm := MirrorP.transferFees_allCE' _ _ _ _ _ _ hfm
    refine ⟨w1, e1, x0, tmp, subs, hst, hlog, hx0', hex', htmp, tv, tt, ts, hpos, hcfg,
      Or.inr ⟨⟨hnz, hdir⟩, hm0, x1, qo, w2, e3, subs3, hsw, hrep', ?_⟩⟩
    rcases hlast with ⟨hnone, _, amt, rfl⟩ | ⟨sw', hs', _, htr, hvm, hsd', _, rfl⟩
    · left
      have hce : AllCE subs3 := by
        rw [hmsgs3]
        exact MirrorP.AllCE_append hfce (MirrorP.AllCE_cons (MirrorP.CE_transferMsg _ _ _) AllCE_nil)
      obtain ⟨c1, c2, _, c4, _⟩ := coll_run _ _ _ _ hs2 hce
      refine ⟨hnone, hce, c1, by rw [c2 v]; exact hvm2, ?_⟩
      rw [c4]
      show w2.log ++ List.map (fun m => collEntry w2.ifund.engine m.msg) subs3 = _
      rw [hg2, hi2, hst.ifund]
    · right
      rw [hmsgs3] at hs2
      obtain ⟨fuel2, wm, hr2, m1, m2, m3, _, _, _, _⟩ := coll_prefix fm _ _ _ _ hs2 hfce
      obtain ⟨fuel3, w4, ev4, e5, subs5, hx4, hrep4, hs4⟩ := execSubs_single _ _ _ _ rfl hr2
      rw [tv, ts] at hx4 hrep4
      obtain ⟨y0, x2, o4, hy0, hsw4, hw4, rfl⟩ := execMsg_swapInput_inv _ _ _ _ _ _ _ _ _ _ hx4
      have hy0' : wm.vamm? v = some x1 := by rw [m2 v]; exact hvm2
      rw [hy0'] at hy0
      cases hy0
      have hm3 : wm.env = env := m3.trans hv2
      rw [hm3] at hsw4
      obtain ⟨bo2, _, _, rfl, _⟩ := C17.swapInput_inv _ _ _ _ _ _ _ _ _ hsw4
      have he4 : w4.engine = e3 := by rw [hw4]; exact m1
      have hv4 : w4.env = env := by rw [hw4]; exact hm3
      have hvm4 : w4.vamm? v = some x2 := by rw [hw4]; exact setVamm_vamm_same _ _ _ _ hy0'
      rw [he4, hv4] at hrep4
      have hrep4' : updatePositionReply w4.q e3 env sw'.openNotional bo2 REPLY_INCREASE = .ok (e5, subs5) := hrep4
      obtain ⟨_, hce5⟩ := MirrorP.updatePositionReply_eff _ _ _ _ _ _ sw' hs' _ hrep4'
      obtain ⟨c1, c2, _, _, _⟩ := coll_run _ _ _ _ hs4 hce5
      refine ⟨fm, sw', x2, bo2, w4, e5, subs5, ?_, hfce, hs', hvm.trans tv, htr.trans tt, hsd'.trans ts, hsw4,
        hrep4', hce5, c1, by rw [c2 v]; exact hvm4⟩
      rw [hmsgs3, tv, ts]

/-- `open_flow_msgs` without the dispatched message -/
theorem open_flow (w w' : World) (env : Env) (s : Nat) (f : Funds) (v : Nat) (side : Side) (m l b : Nat)
    (h : applyTx w env s f (.engine (.openPosition v side m l b)) = .ok w') :
    ∃ (w1 : World) (e1 : E) (x : Vamm.V) (sw : TmpSwap) (msgs : List SubMsg),
      Start w w1 env ∧ (∀ y ∈ w1.log, y.1 = s) ∧ w.vamm? v = some x
      ∧ openPosition w1.q w.engine env s f v side m l b = .ok (e1, msgs)
      ∧ e1.tmpSwap = some sw ∧ sw.vamm = v ∧ sw.trader = s ∧ sw.side = side
      ∧ e1.positions = w.engine.positions ∧ e1.cfg = w.engine.cfg
      ∧ ((∃ id, ((id = REPLY_INCREASE ∧ ((getPosition env w.engine v s side).size.isZero = true
                                          ∨ (getPosition env w.engine v s side).direction = sideToDirection side))
                 ∨ (id = REPLY_DECREASE ∧ ¬ (getPosition env w.engine v s side).size.isZero = true
                      ∧ (getPosition env w.engine v s side).direction ≠ sideToDirection side))
            ∧ ∃ (x' : Vamm.V) (bo : Nat) (w2 : World) (e3 : E) (subs3 : List SubMsg),
              Vamm.swapInput x env ENGINE (sideToDirection side) (m * l / w.engine.cfg.decimals) b false
                  = .ok (x', ⟨true, m * l / w.engine.cfg.decimals, bo⟩)
              ∧ updatePositionReply w2.q e1 env (m * l / w.engine.cfg.decimals) bo id = .ok (e3, subs3)
              ∧ AllCE subs3 ∧ w'.engine = e3 ∧ w'.vamm? v = some x')
        ∨ ((¬ (getPosition env w.engine v s side).size.isZero = true
              ∧ (getPosition env w.engine v s side).direction ≠ sideToDirection side)
            ∧ ∃ (x1 : Vamm.V) (qo : Nat) (w2 : World) (e3 : E) (subs3 : List SubMsg),
              Vamm.swapOutput x env ENGINE (getPosition env w.engine v s side).direction
                  (getPosition env w.engine v s side).size.value 0
                  = .ok (x1, ⟨false, qo, (getPosition env w.engine v s side).size.value⟩)
              ∧ reversePositionReply w2.q e1 env qo = .ok (e3, subs3)
              ∧ ((e3.tmpSwap = none ∧ AllCE subs3 ∧ w'.engine = e3 ∧ w'.vamm? v = some x1
                    ∧ w'.log = w1.log ++ subs3.map (fun m => collEntry w.ifund.engine m.msg))
                 ∨ (∃ (fm : List SubMsg) (sw' : TmpSwap) (x2 : Vamm.V) (bo2 : Nat) (w4 : World) (e5 : E)
                      (subs5 : List SubMsg),
                      subs3 = fm ++ [swapInputMsg v side sw'.openNotional 0 false REPLY_INCREASE]
                      ∧ AllCE fm ∧ e3.tmpSwap = some sw' ∧ sw'.vamm = v ∧ sw'.trader = s ∧ sw'.side = side
                      ∧ Vamm.swapInput x1 env ENGINE (sideToDirection side) sw'.openNotional 0 false
                          = .ok (x2, ⟨true, sw'.openNotional, bo2⟩)
                      ∧ updatePositionReply w4.q e3 env sw'.openNotional bo2 REPLY_INCREASE = .ok (e5, subs5)
                      ∧ AllCE subs5 ∧ w'.engine = e5 ∧ w'.vamm? v = some x2)))) := by
  obtain ⟨w1, e1, x, sw, msgs, h1, h2, h3, h4, h5, h6, h7, h8, h9, h10, hcase⟩ :=
    open_flow_msgs w w' env s f v side m l b h
  refine ⟨w1, e1, x, sw, msgs, h1, h2, h3, h4, h5, h6, h7, h8, h9, h10, ?_⟩
  rcases hcase with ⟨id, hid, _, r⟩ | ⟨hc, _, r⟩
  · exact Or.inl ⟨id, hid, r⟩
  · exact Or.inr ⟨hc, r⟩

end Perp.Props.SatFlows
