/-
  SatD — concrete worlds: the two tags of C07 do occur on the model (the property is false of it, as of the
  implementation), and each extra hypothesis of `sat_C06` / `sat_C07` is needed (the clause named in its doc
  comment fails without it).  Everything is evaluated by the kernel (`decide +kernel`).
-/
import Perp.Props.SatDC07

namespace Perp.Props.SatD.Witness
open Perp Perp.World Perp.Engine Perp.Spec Perp.Props.ModelStep

def D : Nat := 1000000

/-! ### world A: a long of 10 base bought for 100 quote on 10 margin; the market collapsed to price 1
    (equity −80: bad debt) -/

def vA : Vamm.V :=
  { cfg := { owner := 50, marginEngine := ENGINE, insuranceFund := IFUND, pricefeed := FEED, holdingCap := 0,
             oiCap := 0, decimals := D, toll := 0, spread := 0, fluct := 0, twapInterval := 3600,
             fundingPeriod := 3600, fundingBuffer := 1800 },
    st := { isOpen := true, quote := 1000 * D, base := 1000 * D, net := ⟨10 * D, false⟩,
            fundingRate := Integer.zero, nextFunding := 0, snaps := [⟨1000 * D, 1000 * D, 0, 1⟩] } }

def eA (plr trader prepaid : Nat) : E :=
  { cfg := { owner := 60, insuranceFund := IFUND, feePool := FEEPOOL, native := false, decimals := D,
             imr := 100000, mmr := 50000, plr := plr, liqFee := 25000 },
    st := ⟨100 * D, prepaid, false⟩, pauser := 60, whitelist := [],
    positions := [⟨10, trader, .addToAmm, ⟨10 * D, false⟩, 10 * D, 100 * D, Integer.zero, 5⟩], vammMaps := [],
    tmpSwap := none, sentFunds := none, tmpLiq := none }

def wA (plr trader prepaid : Nat) (price : Option Nat) (balE : Nat) : World :=
  { env := ⟨9, 9000⟩, engine := eA plr trader prepaid, vamms := [(10, vA)],
    ifund := { owner := 61, engine := ENGINE, vamms := [10], stored := true },
    feePool := { owner := 62, tokens := [5] },
    feed := .mock { owner := 63, price := price },
    ledger := { bal := [(100, 10000 * D), (ENGINE, balE), (IFUND, 5000 * D)], allow := [] } }

def envA : Env := ⟨10, 10000⟩
def liqTx (t : Nat) : Tx := .engine (.liquidate 10 t 0)

/-! ### world B: a long of 10 base, open notional 120, margin 40, now worth 96, funding debt 12.16
    (equity 3.84, ratio 4 % — between the liquidation fee 2.5 % and maintenance 5 %) -/

def vB : Vamm.V :=
  { vA with st := { vA.st with quote := 9696 * D, snaps := [⟨9696 * D, 1000 * D, 0, 1⟩] } }

def eB (plr trader : Nat) (native : Bool) : E :=
  { cfg := { owner := 60, insuranceFund := IFUND, feePool := FEEPOOL, native := native, decimals := D,
             imr := 100000, mmr := 50000, plr := plr, liqFee := 25000 },
    st := ⟨120 * D, 0, false⟩, pauser := 60, whitelist := [],
    positions := [⟨10, trader, .addToAmm, ⟨10 * D, false⟩, 40 * D, 120 * D, Integer.zero, 5⟩],
    vammMaps := [(10, ⟨0, [⟨1216000, false⟩]⟩)],
    tmpSwap := none, sentFunds := none, tmpLiq := none }

def wB (plr trader : Nat) (native : Bool) (ife balE : Nat) : World :=
  { env := ⟨9, 9000⟩, engine := eB plr trader native, vamms := [(10, vB)],
    ifund := { owner := 61, engine := ife, vamms := [10], stored := true },
    feePool := { owner := 62, tokens := [5] },
    feed := .mock { owner := 63, price := some 9696000 },
    ledger := { bal := [(100, 10000 * D), (ENGINE, balE), (IFUND, 5000 * D)], allow := [] } }

/-! ## C07: the tags occur -/

set_option maxRecDepth 100000 in
/-- known defect: with a partial-liquidation ratio configured (25 %), the deeply under-water position takes
    the partial path, whose reply underflows — the liquidatable position cannot be liquidated -/
theorem C07_witness_partial_path :
    C07.check (modelStep (wA 250000 101 0 (some D) (5000 * D)) envA 110 ⟨0, false⟩ (liqTx 101))
      = ["liquidatable-position-could-not-be-liquidated"] := by decide +kernel

set_option maxRecDepth 100000 in
/-- known defect: the same position with `plr = 0` but an oracle that gives no price — `Liquidate`
    fails in `is_over_spread_limit` -/
theorem C07_witness_oracle_unreadable :
    C07.check (modelStep (wA 0 101 0 none (5000 * D)) envA 110 ⟨0, false⟩ (liqTx 101))
      = ["liquidatable-position-could-not-be-liquidated(oracle-unreadable)"] := by decide +kernel

set_option maxRecDepth 100000 in
/-- the sub-case of `sat_C07` is inhabited: with `plr = 0` and a readable oracle the position IS liquidated
    (bad debt 80.22 drawn from the fund, fee 0.12 paid to the liquidator) -/
theorem C07_live_example :
    (modelStep (wA 0 101 0 (some D) (5000 * D)) envA 110 ⟨0, false⟩ (liqTx 101)).ok = true
    ∧ (modelStep (wA 0 101 0 (some D) (5000 * D)) envA 110 ⟨0, false⟩ (liqTx 101)).xfers
        = [(IFUND, ENGINE, 80222772), (ENGINE, 110, 123762)]
    ∧ C07.check (modelStep (wA 0 101 0 (some D) (5000 * D)) envA 110 ⟨0, false⟩ (liqTx 101)) = []
    ∧ C06.check (modelStep (wA 0 101 0 (some D) (5000 * D)) envA 110 ⟨0, false⟩ (liqTx 101)) = [] := by
  decide +kernel

/-! ### the sub-case is inhabited -/

def okB {α : Type} (e : Except Err α) : Bool := match e with | .ok _ => true | .error _ => false

theorem ex_of_okB {α : Type} {e : Except Err α} (h : okB e = true) : ∃ r, e = .ok r := by
  cases e with
  | ok r => exact ⟨r, rfl⟩
  | error x => cases h

def wLive : World := wA 0 101 0 (some D) (5000 * D)

theorem wLive_vamm (x : Vamm.V) (h : wLive.vamm? 10 = some x) : x = vA := by
  have : wLive.vamm? 10 = some vA := by decide +kernel
  rw [this] at h
  injection h with h
  exact h.symm

theorem wLive_out (out : Nat)
    (h : Vamm.queryOutputAmount vA (readPosition wLive.engine 10 101).direction (readPosition wLive.engine 10 101).size.value = .ok out) :
    out = 9900990 := by
  have : Vamm.queryOutputAmount vA (readPosition wLive.engine 10 101).direction (readPosition wLive.engine 10 101).size.value
      = .ok 9900990 := by decide +kernel
  rw [this] at h
  injection h with h
  exact h.symm

set_option maxRecDepth 100000 in
/-- the sub-case of `sat_C07` is inhabited: world A with `plr = 0` -/
theorem wLive_subCase : LiqSubCase wLive envA ⟨0, false⟩ 10 101 where
  noFunds := fun h => by cases h
  noPrepaid := rfl
  ratioOk := ⟨false, by decide +kernel, fun h => by cases h⟩
  fullPath := fun _ _ => Or.inl rfl
  swapOk := fun x hx => by
    rw [wLive_vamm x hx]
    exact ex_of_okB (by decide +kernel)
  arithOk := fun x out hx ho => by
    rw [wLive_vamm x hx] at ho
    rw [wLive_out out ho]
    refine ⟨by decide +kernel, ?_⟩
    have hd : closeMarginDelta (readPosition wLive.engine 10 101)
        (closeTmp (readPosition wLive.engine 10 101)) 9900990 = .ok ⟨90099010, true⟩ := by decide +kernel
    obtain ⟨rm, hrm⟩ : ∃ rm, calcRemainMargin wLive.engine (readPosition wLive.engine 10 101) ⟨90099010, true⟩
        = .ok rm := ex_of_okB (by decide +kernel)
    exact ⟨_, rm, hd, hrm⟩
  vaultOk := fun x out hx ho => by
    rw [wLive_vamm x hx] at ho
    rw [wLive_out out ho]
    intro E hE
    exfalso
    revert hE
    decide +kernel


set_option maxRecDepth 100000 in
/-- … and so are the hypotheses of `sat_C07` together: they hold of world A, for its `Liquidate` -/
theorem wLive_hyps : WF wLive ∧ TotalBounded wLive ∧ IfeWired wLive
    ∧ ∀ v t l, liqTx 101 = .engine (.liquidate v t l) → LiqSubCase wLive envA ⟨0, false⟩ v t := by
  refine ⟨⟨⟨rfl, rfl, rfl⟩, by decide +kernel, by decide +kernel⟩, by unfold TotalBounded; decide +kernel, rfl, ?_⟩
  intro v t l h
  obtain ⟨rfl, rfl, _⟩ := tx_liq_inj h
  exact wLive_subCase

/-! ## C07: each clause of `LiqSubCase` / hypothesis of `sat_C07` is needed -/

set_option maxRecDepth 100000 in
/-- `noPrepaid`: pre-paid bad debt exactly equal to the bad debt realised (80 222 772) makes
    `realize_bad_debt` dispatch a zero-amount withdrawal, which the token rejects -/
theorem C07_cex_prepaid_equals_bad_debt :
    C07.check (modelStep (wA 0 101 80222772 (some D) (5000 * D)) envA 110 ⟨0, false⟩ (liqTx 101))
      = ["liquidatable-position-could-not-be-liquidated"] := by decide +kernel

set_option maxRecDepth 100000 in
/-- `TotalBounded`: a vault at `u128::MAX` cannot be credited the bad debt -/
theorem C07_cex_total_above_u128 :
    C07.check (modelStep (wA 0 101 0 (some D) U128.MAX) envA 110 ⟨0, false⟩ (liqTx 101))
      = ["liquidatable-position-could-not-be-liquidated"] := by decide +kernel

set_option maxRecDepth 100000 in
/-- `vaultOk`: equity 3.84 > fee 1.2, vault holds 1: the transfer of the remaining margin (2.64) to the
    insurance fund fails -/
theorem C07_cex_vault_short :
    C07.check (modelStep (wB 0 101 false ENGINE (1 * D)) envA 110 ⟨0, false⟩ (liqTx 101))
      = ["liquidatable-position-could-not-be-liquidated"] := by decide +kernel

set_option maxRecDepth 100000 in
/-- `IfeWired`: the fund's beneficiary is not the engine; the empty vault needs the fee from the fund -/
theorem C07_cex_fund_not_wired_to_engine :
    C07.check (modelStep (wB 0 101 false 7 0) envA 110 ⟨0, false⟩ (liqTx 101))
      = ["liquidatable-position-could-not-be-liquidated"] := by decide +kernel

set_option maxRecDepth 100000 in
/-- `noFunds`: native collateral, the liquidator attaches 5 units it does not own -/
theorem C07_cex_funds_attached :
    C07.check (modelStep (wB 0 101 true ENGINE (5000 * D)) envA 110 ⟨5, false⟩ (liqTx 101))
      = ["liquidatable-position-could-not-be-liquidated"] := by decide +kernel

/-! ## C06: each extra hypothesis of `sat_C06` is needed -/

set_option maxRecDepth 100000 in
/-- baseline: world B is fine for C06 on the full and on the partial (25 %) path -/
theorem C06_baseline :
    C06.check (modelStep (wB 0 101 false ENGINE (5000 * D)) envA 110 ⟨0, false⟩ (liqTx 101)) = []
    ∧ C06.check (modelStep (wB 250000 101 false ENGINE (5000 * D)) envA 110 ⟨0, false⟩ (liqTx 101)) = []
    ∧ (modelStep (wB 250000 101 false ENGINE (5000 * D)) envA 110 ⟨0, false⟩ (liqTx 101)).ok = true := by
  decide +kernel

set_option maxRecDepth 100000 in
/-- `ConfigOK` (`plr ≤ decimals`): with `plr = 150 %` the partial liquidation sells 15 base of a 10-base
    long and leaves a 5-base short -/
theorem C06_cex_plr_above_one :
    C06.check (modelStep (wB 1500000 101 false ENGINE (5000 * D)) envA 110 ⟨0, false⟩ (liqTx 101))
      = ["partial-liquidation-size-not-the-fraction", "partial-liquidation-flipped-position"] := by
  decide +kernel

set_option maxRecDepth 100000 in
/-- `Outsider` (`s ≠ IFUND`): the fund itself liquidates — the remaining margin counts as paid to the
    liquidator and the fee as paid to the fund -/
theorem C06_cex_liquidator_is_fund :
    C06.check (modelStep (wB 0 101 false ENGINE (5000 * D)) envA IFUND ⟨0, false⟩ (liqTx 101))
      = ["full-liquidation-fee-not-half-penalty", "full-liquidation-remaining-margin-to-insurance-fund"] := by
  decide +kernel

set_option maxRecDepth 100000 in
/-- `Outsider` (`s ≠ ENGINE`): the engine "liquidates" with native funds attached — the attachment is a
    transfer from the engine to the liquidator -/
theorem C06_cex_liquidator_is_engine :
    C06.check (modelStep (wB 0 101 true ENGINE (5000 * D)) envA ENGINE ⟨5, false⟩ (liqTx 101))
      = ["full-liquidation-fee-not-half-penalty"] := by decide +kernel

set_option maxRecDepth 100000 in
/-- `NoContractPositions` (fund): a position held by the insurance fund is liquidated — the "trader" is paid
    the remaining margin -/
theorem C06_cex_trader_is_fund :
    C06.check (modelStep (wB 0 IFUND false ENGINE (5000 * D)) envA 110 ⟨0, false⟩ (liqTx IFUND))
      = ["liquidated-trader-was-paid"] := by decide +kernel

set_option maxRecDepth 100000 in
/-- `NoContractPositions` (engine): a position held by the engine is liquidated with bad debt — the "trader"
    receives the fund's pay-out -/
theorem C06_cex_trader_is_engine :
    C06.check (modelStep (wA 0 ENGINE 0 (some D) (5000 * D)) envA 110 ⟨0, false⟩ (liqTx ENGINE))
      = ["liquidated-trader-was-paid"] := by decide +kernel

end Perp.Props.SatD.Witness
