/-
  `CurveRegularTx` — the per-transaction replacement of the global side condition `Mirror.CurveRegular`.

  `Mirror.CurveRegular w` asks, of EVERY market of the deployment: both reserves hold one whole unit, and — if
  the market has a fluctuation limit — the spot price is at least 1.  The proofs use the third conjunct at ONE
  place: when `ClosePosition` falls back to a partial close of a SHORT (`MirrorP.noflip_partial`), to bound the
  base amount the vAMM re-quotes for the notional of the fraction.  Everything else (`MirrorP.noflip_reduce`,
  the long half of `noflip_partial`) needs the reserves ≥ one unit only.

  `CurveRegularTx w env s tx` keeps the reserve part for every market and replaces the price part by the fact
  the proof needs, for the transaction at hand, stated over the pre-state (queries on `{ w with env := env }`):

      IF `tx` is `ClosePosition v` by `s`, the stored position is a short, closing it whole would leave the
      band and `plr < decimals` (the engine then swaps the quote notional `N` of `|size|·plr / decimals` base),
      THEN the base amount the vAMM quotes for `N` is at most `|size|`.

  Contents:
    * `UnitReserves`, `PartialShortOK`, `CurveRegularTx`; `curveRegularTx_of_curveRegular`;
    * `exec_step_tx` (the copy of `MirrorP.exec_step` under the weaker hypothesis), `inv_step_tx`, `inv_run_tx`
      — preservation of `Mirror.Inv`;
    * `mirror_invariant_partial_tx`, `inv_along_tx`, `mirror_along_history_tx` — the primed versions of the
      theorems of `Perp/Props/MirrorInv.lean`.
-/
import Perp.Props.MirrorInv

namespace Perp.Props.CurveTx
open Perp Perp.World Perp.Engine
open Perp.Props.Dispatch
open Perp.Props.MirrorP
open Perp.Props.EngineGuards (ConfigOK)

/-! ## 1. the definitions -/

/-- both reserves of every market hold at least one whole unit (lookup-function form) -/
def UnitResF (vm : VM) : Prop :=
  ∀ a x, vm a = some x → x.cfg.decimals ≤ x.st.quote ∧ x.cfg.decimals ≤ x.st.base

/-- both reserves of every market hold at least one whole unit — the first two conjuncts of `Mirror.CurveRegular` -/
def UnitReserves (w : World) : Prop :=
  ∀ a x, w.vamm? a = some x → x.cfg.decimals ≤ x.st.quote ∧ x.cfg.decimals ≤ x.st.base

/-- the partial close of a short does not overshoot, in terms of the engine's queriers `q`, its state `e` and
    the vAMM table `vm` (the form the proofs use; `PartialShortOK` is its instance on the pre-state) -/
def PartialShortQ (q : Q) (e : E) (vm : VM) (s v : Nat) : Prop :=
  ¬ (readPosition e v s).size.value = 0 →
  Integer.gt (readPosition e v s).size Integer.zero = false →
  e.cfg.plr < e.cfg.decimals →
  q.isOverFluct v .removeFromAmm (readPosition e v s).size.value = .ok true →
  ∀ (y pa N : Nat) (x : Vamm.V) (b : Nat),
    cmul (readPosition e v s).size.value e.cfg.plr = .ok y → cdiv y e.cfg.decimals = .ok pa →
    q.outputAmount v .removeFromAmm pa = .ok N →
    vm v = some x → Vamm.queryInputAmount x .addToAmm N = .ok b →
    b ≤ (readPosition e v s).size.value

/-- **if `ClosePosition v` by `s` at block `env` is turned into a partial close of a SHORT** — a position is
    stored under `(v, s)`, its size is not positive, the partial-close ratio is below one, and closing it whole
    would leave the price band at that block — **then the base amount `b` the vAMM re-quotes for the quote
    notional `N` of the fraction `pa = |size|·plr / decimals` does not exceed `|size|`.**
    Stated over the pre-state only (queries on `{ w with env := env }`). -/
def PartialShortOK (w : World) (env : Env) (s v : Nat) : Prop :=
  ¬ (readPosition w.engine v s).size.value = 0 →
  Integer.gt (readPosition w.engine v s).size Integer.zero = false →
  w.engine.cfg.plr < w.engine.cfg.decimals →
  ({ w with env := env } : World).q.isOverFluct v .removeFromAmm (readPosition w.engine v s).size.value = .ok true →
  ∀ (y pa N : Nat) (x : Vamm.V) (b : Nat),
    cmul (readPosition w.engine v s).size.value w.engine.cfg.plr = .ok y → cdiv y w.engine.cfg.decimals = .ok pa →
    ({ w with env := env } : World).q.outputAmount v .removeFromAmm pa = .ok N →
    w.vamm? v = some x → Vamm.queryInputAmount x .addToAmm N = .ok b →
    b ≤ (readPosition w.engine v s).size.value

theorem partialShortOK_iff (w : World) (env : Env) (s v : Nat) :
    PartialShortOK w env s v ↔ PartialShortQ ({ w with env := env } : World).q w.engine w.vamm? s v := Iff.rfl

/-- the transaction-dependent half of the hypothesis: `PartialShortOK` if the transaction is a ClosePosition,
    nothing otherwise -/
def PartialShortTx (w : World) (env : Env) (s : Nat) (tx : Tx) : Prop :=
  match tx with
  | .engine (.closePosition v _) => PartialShortOK w env s v
  | _ => True

/-- **the per-transaction curve hypothesis**: reserves of every market hold at least one whole unit; and IF this
    transaction is a ClosePosition by `s` that the engine turns into a partial close of a SHORT, the base amount
    the vAMM re-quotes for the fraction's notional does not exceed the position's size -/
def CurveRegularTx (w : World) (env : Env) (s : Nat) (tx : Tx) : Prop :=
  UnitReserves w ∧ PartialShortTx w env s tx

theorem CurveRegularTx.unit {w : World} {env : Env} {s : Nat} {tx : Tx} (h : CurveRegularTx w env s tx) :
    UnitReserves w := h.1

theorem CurveRegularTx.close {w : World} {env : Env} {s v l : Nat}
    (h : CurveRegularTx w env s (.engine (.closePosition v l))) : PartialShortOK w env s v := h.2

/-- for a transaction that is not a ClosePosition the hypothesis is `UnitReserves` -/
theorem curveRegularTx_of_unit {w : World} {env : Env} {s : Nat} {tx : Tx} (hu : UnitReserves w)
    (hne : ∀ v l, tx ≠ .engine (.closePosition v l)) : CurveRegularTx w env s tx := by
  refine ⟨hu, ?_⟩
  unfold PartialShortTx
  split
  · rename_i v l
    exact absurd rfl (hne v l)
  · trivial

theorem unitReserves_of_curveRegular {w : World} (h : Mirror.CurveRegular w) : UnitReserves w :=
  fun a x hx => ⟨(h a x hx).1, (h a x hx).2.1⟩

theorem positionToSide_short {size : Integer} (h : Integer.gt size Integer.zero = false) :
    sideToDirection (positionToSide size) = .addToAmm := by
  unfold positionToSide
  rw [h]
  rfl

theorem positionToSide_long {size : Integer} (h : Integer.gt size Integer.zero = true) :
    sideToDirection (positionToSide size) = .removeFromAmm := by
  unfold positionToSide
  rw [h]
  rfl

/-- the old, global hypothesis implies the partial-close fact for every market, sender and block -/
theorem partialShortOK_of_curveRegular {w : World} (h : Mirror.CurveRegular w) (env : Env) (s v : Nat) :
    PartialShortOK w env s v := by
  intro _ hgt hplr hover y pa N x b hy hpa hout hx hb
  have hCR : CurveRegF ({ w with env := env } : World).vamm? := h
  have hg : ¬ (Integer.gt (readPosition w.engine v s).size Integer.zero = true) := by rw [hgt]; exact Bool.false_ne_true
  have := noflip_partial ({ w with env := env } : World) (readPosition w.engine v s).size _ _ y pa N v hCR hy hpa hplr
    (by rw [if_neg hg]; exact hout) (by rw [if_neg hg]; exact hover) x b hx
  rw [positionToSide_short hgt] at this
  exact this hb

/-- **the old hypothesis implies the new one**, for every block, sender and transaction -/
theorem curveRegularTx_of_curveRegular {w : World} {env : Env} {s : Nat} {tx : Tx}
    (h : Mirror.CurveRegular w) : CurveRegularTx w env s tx := by
  refine ⟨unitReserves_of_curveRegular h, ?_⟩
  unfold PartialShortTx
  split
  · exact partialShortOK_of_curveRegular h env s _
  · trivial

/-! ## 2. the curve lemmas at the engine's call sites, under the weaker hypothesis -/

/-- `MirrorP.noflip_reduce` needs the reserves ≥ one unit only -/
theorem noflip_reduce_tx (w : World) (P : Position) (side : Side) (N pn v : Nat)
    (hU : UnitResF w.vamm?) (hne : P.direction ≠ sideToDirection side)
    (hout : w.q.outputAmount v P.direction P.size.value = .ok pn) (hgt : pn > N) :
    ∀ x b, w.vamm? v = some x → Vamm.queryInputAmount x (sideToDirection side) N = .ok b → b ≤ P.size.value := by
  obtain ⟨x0, hx0, hq0⟩ := q_outputAmount _ _ _ _ _ hout
  intro x b hx hb
  rw [hx0] at hx
  cases hx
  obtain ⟨c1, c2⟩ := hU v x0 hx0
  cases hd : P.direction with
  | addToAmm =>
    rw [hd] at hq0 hne
    cases side with
    | buy => exact absurd rfl hne
    | sell => exact CurveNoFlip.reduce_long_no_flip _ _ _ _ _ _ _ c1 c2 hq0 hgt hb
  | removeFromAmm =>
    rw [hd] at hq0 hne
    cases side with
    | sell => exact absurd rfl hne
    | buy => exact CurveNoFlip.reduce_short_no_flip _ _ _ _ _ _ _ c1 c2 hq0 hgt hb

/-- `MirrorP.noflip_partial`: the long half needs the reserves ≥ one unit only; the short half is the hypothesis -/
theorem noflip_partial_tx (w : World) (size : Integer) (plr D y pa N v : Nat)
    (hU : UnitResF w.vamm?) (hy : cmul size.value plr = .ok y) (hpa : cdiv y D = .ok pa) (hplr : plr < D)
    (hout : w.q.outputAmount v (if Integer.gt size Integer.zero then .addToAmm else .removeFromAmm) pa = .ok N)
    (hS : Integer.gt size Integer.zero = false →
      ∀ x b, w.vamm? v = some x → Vamm.queryInputAmount x .addToAmm N = .ok b → b ≤ size.value) :
    ∀ x b, w.vamm? v = some x → Vamm.queryInputAmount x (sideToDirection (positionToSide size)) N = .ok b →
      b ≤ size.value := by
  cases hg : Integer.gt size Integer.zero with
  | false =>
    intro x b hx hb
    rw [positionToSide_short hg] at hb
    exact hS hg x b hx hb
  | true =>
    obtain ⟨x0, hx0, hq0⟩ := q_outputAmount _ _ _ _ _ hout
    simp only [cmul_ok] at hy
    obtain ⟨_, rfl⟩ := hy
    simp only [cdiv_ok] at hpa
    obtain ⟨hD, rfl⟩ := hpa
    have hle : size.value * plr / D ≤ size.value := by
      apply Nat.div_le_of_le_mul
      rw [Nat.mul_comm D]
      exact Nat.mul_le_mul_left _ (Nat.le_of_lt hplr)
    intro x b hx hb
    rw [hx0] at hx
    cases hx
    obtain ⟨c1, c2⟩ := hU v x0 hx0
    rw [positionToSide_long hg] at hb
    rw [if_pos hg] at hq0
    exact Nat.le_trans (CurveNoFlip.partial_long_no_overshoot _ _ _ _ _ _ c1 c2 hq0 hb) hle

/-! ## 3. every `execute` starts a well-formed flow -/

/-- `MirrorP.exec_step` under the weaker hypothesis: reserves ≥ one unit, and the partial-close fact for the
    ClosePosition at hand -/
theorem exec_step_tx (w : World) (env : Env) (s : Nat) (f : Funds) (m : ExecMsg) (e1 : E) (subs : List SubMsg)
    (hB : BaseI w.engine w.vamm?) (hU : UnitResF w.vamm?)
    (hP : ∀ v l, m = .closePosition v l → PartialShortQ w.q w.engine w.vamm? s v)
    (h : execute w.q w.engine env s f m = .ok (e1, subs)) : FI e1 w.vamm? subs := by
  have hadm : ∀ e', WorldInv.Frame w.engine e' → e'.cfg = w.engine.cfg → FI e' w.vamm? [] := fun e' hf hc =>
    Or.inl ⟨AllCE_nil, base_congr hB hf.1 (by rw [hc]; exact hB.2.2.2.1)⟩
  cases m with
  | updateConfig u =>
    have h' : (updateConfig w.engine s u).map (fun e' => (e', ([] : List SubMsg))) = .ok (e1, subs) := h
    obtain ⟨e1', h1, h2⟩ := (EngineGuards.exmap_ok _ _ _).1 h'
    cases h2
    have hf := WorldInv.updateConfig_frame _ _ _ _ h1
    exact Or.inl ⟨AllCE_nil, base_congr hB hf.1 (EngineGuards.updateConfig_configOK _ _ _ _ hB.2.2.2.1 h1).1⟩
  | updatePauser p =>
    have h' : (updatePauser w.engine s p).map (fun e' => (e', ([] : List SubMsg))) = .ok (e1, subs) := h
    obtain ⟨e1', h1, h2⟩ := (EngineGuards.exmap_ok _ _ _).1 h'
    cases h2
    exact hadm _ (WorldInv.updatePauser_frame _ _ _ _ h1) (EngineGuards.updatePauser_cfg _ _ _ _ h1)
  | addWhitelist a =>
    have h' : (addWhitelist w.engine s a).map (fun e' => (e', ([] : List SubMsg))) = .ok (e1, subs) := h
    obtain ⟨e1', h1, h2⟩ := (EngineGuards.exmap_ok _ _ _).1 h'
    cases h2
    exact hadm _ (WorldInv.addWhitelist_frame _ _ _ _ h1) (EngineGuards.addWhitelist_cfg _ _ _ _ h1)
  | removeWhitelist a =>
    have h' : (removeWhitelist w.engine s a).map (fun e' => (e', ([] : List SubMsg))) = .ok (e1, subs) := h
    obtain ⟨e1', h1, h2⟩ := (EngineGuards.exmap_ok _ _ _).1 h'
    cases h2
    exact hadm _ (WorldInv.removeWhitelist_frame _ _ _ _ h1) (EngineGuards.removeWhitelist_cfg _ _ _ _ h1)
  | setPause p =>
    have h' : (setPause w.engine s p).map (fun e' => (e', ([] : List SubMsg))) = .ok (e1, subs) := h
    obtain ⟨e1', h1, h2⟩ := (EngineGuards.exmap_ok _ _ _).1 h'
    cases h2
    exact hadm _ (WorldInv.setPause_frame _ _ _ _ h1) (EngineGuards.setPause_cfg _ _ _ _ h1)
  | openPosition v side mg l b =>
    have h' : openPosition w.q w.engine env s f v side mg l b = .ok (e1, subs) := h
    obtain ⟨hpos, hcfg, tmp, htmp, tv, tt, ts, hcase⟩ := openPosition_inv _ _ _ _ _ _ _ _ _ _ _ h'
    have hpos' : e1.positions = w.engine.positions := hpos
    have hB1 : BaseI e1 w.vamm? := base_congr hB hpos' (by rw [show e1.cfg = w.engine.cfg from hcfg]; exact hB.2.2.2.1)
    have hrp : readPosition e1 tmp.vamm tmp.trader = readPosition w.engine v s := by
      rw [tv, tt]; exact WorldInv.rp_same v s hpos'
    have hgd : gdir e1 tmp.vamm tmp.trader tmp.side = gdir w.engine v s side := by
      unfold gdir; rw [hrp, ts]
    have hk := EngineMoney.getPosition_key env w.engine v s side
    rcases hcase with ⟨N, hm, hdir⟩ | ⟨N, hm, _, hdir, pn, u, hpnl, hgt⟩ | ⟨hm, _, hdir⟩
    · refine Or.inr ⟨[], _, hm, AllCE_nil, hB1, Or.inr ⟨tmp, htmp, Or.inl ⟨N, b, ?_, ?_⟩⟩⟩
      · rw [tv, ts]
      · rcases hdir with hz | hdir
        · left
          rw [hrp, ← getPosition_size env w.engine v s side]
          exact (C19.isZero_iff _).1 hz
        · right
          rw [hgd, ts, ← getPosition_direction env]; exact hdir
    · rw [hk.1] at hm
      refine Or.inr ⟨[], _, hm, AllCE_nil, hB1, Or.inr ⟨tmp, htmp, Or.inr (Or.inl ⟨N, b, ?_, ?_, ?_⟩)⟩⟩
      · rw [tv, ts]
      · rw [hgd, ts, ← getPosition_direction env]; exact hdir
      · unfold NoFlip
        rw [hrp, tv, ts, ← getPosition_size env w.engine v s side]
        have hout := pnl_spot_pos _ _ _ _ _ _ hpnl hgt
        rw [hk.1] at hout
        exact noflip_reduce_tx w _ side N pn v hU hdir hout hgt
    · rw [hk.1] at hm
      have hdir' : gdir w.engine v s side ≠ sideToDirection side := by
        rw [← getPosition_direction env]; exact hdir
      rw [getPosition_direction, gdir_ne hdir', getPosition_size] at hm
      refine Or.inr ⟨[], _, hm, AllCE_nil, hB1, Or.inr ⟨tmp, htmp,
        Or.inr (Or.inr (Or.inr (Or.inl ⟨0, REPLY_REVERSE, Or.inl rfl, ?_⟩)))⟩⟩
      rw [hrp, tv]
  | closePosition v l =>
    have h' : closePosition w.q w.engine env s v l = .ok (e1, subs) := h
    obtain ⟨hpos, hcfg, hnz, tmp, htmp, tv, tt, hcase⟩ := closePosition_inv _ _ _ _ _ _ _ h'
    have hpos' : e1.positions = w.engine.positions := hpos
    have hB1 : BaseI e1 w.vamm? := base_congr hB hpos' (by rw [show e1.cfg = w.engine.cfg from hcfg]; exact hB.2.2.2.1)
    obtain ⟨pv, pt⟩ := read_found w.engine v s hnz
    have tv' : tmp.vamm = v := tv.trans pv
    have tt' : tmp.trader = s := tt.trans pt
    have hrp : readPosition e1 tmp.vamm tmp.trader = readPosition w.engine v s := by
      rw [tv', tt']; exact WorldInv.rp_same v s hpos'
    rcases hcase with ⟨_, hm⟩ | ⟨tside, y, pa, N, over, hm, hcm, hcd, hout, hover, ho, hplr⟩
    · rw [pv] at hm
      refine Or.inr ⟨[], _, hm, AllCE_nil, hB1, Or.inr ⟨tmp, htmp,
        Or.inr (Or.inr (Or.inr (Or.inl ⟨l, REPLY_CLOSE, Or.inr (Or.inl rfl), ?_⟩)))⟩⟩
      rw [hrp, tv']
    · rw [pv] at hm
      rw [ho] at hover
      refine Or.inr ⟨[], _, hm, AllCE_nil, hB1, Or.inr ⟨tmp, htmp, Or.inr (Or.inr (Or.inl ⟨N, ?_, ?_, ?_⟩))⟩⟩
      · rw [tv', tside]
      · rw [hrp, tside]
      · unfold NoFlip
        rw [hrp, tv', tside]
        refine noflip_partial_tx w _ _ _ _ _ _ v hU hcm hcd hplr hout (fun hg x b hx hb => ?_)
        have hg' : ¬ (Integer.gt (readPosition w.engine v s).size Integer.zero = true) := by
          rw [hg]; exact Bool.false_ne_true
        rw [if_neg hg'] at hout hover
        exact hP v l rfl hnz hg hplr hover y pa N x b hcm hcd hout hx hb
  | liquidate v t l =>
    have h' : liquidate w.q w.engine env s v t l = .ok (e1, subs) := h
    obtain ⟨hpos, hcfg, hnz, tmp, htmp, tv, tt, hcase⟩ := liquidate_inv _ _ _ _ _ _ _ _ h'
    have hpos' : e1.positions = w.engine.positions := hpos
    have hB1 : BaseI e1 w.vamm? := base_congr hB hpos' (by rw [show e1.cfg = w.engine.cfg from hcfg]; exact hB.2.2.2.1)
    obtain ⟨pv, pt⟩ := read_found w.engine v t hnz
    have tv' : tmp.vamm = v := tv.trans pv
    have tt' : tmp.trader = t := tt.trans pt
    have hrp : readPosition e1 tmp.vamm tmp.trader = readPosition w.engine v t := by
      rw [tv', tt']; exact WorldInv.rp_same v t hpos'
    rcases hcase with hm | ⟨ps, pl, hm, hps⟩
    · rw [pv] at hm
      refine Or.inr ⟨[], _, hm, AllCE_nil, hB1, Or.inr ⟨tmp, htmp,
        Or.inr (Or.inr (Or.inr (Or.inl ⟨l, REPLY_LIQUIDATION, Or.inr (Or.inr rfl), ?_⟩)))⟩⟩
      rw [hrp, tv']
    · refine Or.inr ⟨[], _, hm, AllCE_nil, hB1, Or.inr ⟨tmp, htmp,
        Or.inr (Or.inr (Or.inr (Or.inr ⟨ps, pl, ?_, ?_⟩)))⟩⟩
      · rw [hrp, tv']
      · rw [hrp]
        rw [EngineMoney.unwrap_ok] at hps
        obtain ⟨y, hy, hps⟩ := EngineMoney.bind_ok hps
        simp only [cmul_ok] at hy
        obtain ⟨_, rfl⟩ := hy
        simp only [cdiv_ok] at hps
        obtain ⟨hD, rfl⟩ := hps
        apply Nat.div_le_of_le_mul
        rw [Nat.mul_comm w.engine.cfg.decimals]
        exact Nat.mul_le_mul_left _ hB.2.2.2.1.2.2.1
  | payFunding v =>
    have h' : payFunding w.q w.engine v = .ok (e1, subs) := h
    obtain ⟨h1, h2⟩ := WorldInv.payFunding_frame _ _ _ _ h'
    dsimp only at h1 h2
    subst h1 h2
    exact Or.inr ⟨[], _, rfl, AllCE_nil, hB, Or.inl ⟨v, rfl⟩⟩
  | depositMargin v a =>
    have h' : depositMargin w.engine env s f v a = .ok (e1, subs) := h
    obtain ⟨⟨p', hpos, hv, ht, hsz, hd⟩, hcfg, hce⟩ := depositMargin_inv _ _ _ _ _ _ _ h'
    exact Or.inl ⟨hce, base_same_size hB hpos hcfg hv ht hsz hd⟩
  | withdrawMargin v a =>
    have h' : withdrawMargin w.q w.engine env s v a = .ok (e1, subs) := h
    obtain ⟨⟨p', hpos, hv, ht, hsz, hd⟩, hcfg, hce⟩ := withdrawMargin_inv _ _ _ _ _ _ _ h'
    exact Or.inl ⟨hce, base_same_size hB hpos hcfg hv ht hsz hd⟩

/-! ## 4. transactions -/

/-- the world in which `execute` runs (funds attached, clock set, log emptied) answers the two vAMM queries
    the hypothesis reads like the pre-state at the transaction's block -/
theorem start_queries {w w1 : World} {env : Env} (he : w1.env = env) (hv : w1.vamms = w.vamms) :
    w1.q.isOverFluct = ({ w with env := env } : World).q.isOverFluct
    ∧ w1.q.outputAmount = ({ w with env := env } : World).q.outputAmount := by
  have hvE : ∀ v, w1.vammE v = World.vammE ({ w with env := env } : World) v := by
    intro v
    unfold World.vammE World.vamm?
    rw [hv]
  constructor
  · funext v d a
    show (do let x ← w1.vammE v; Vamm.queryIsOverFluctuationLimit x w1.env d a)
      = (do let x ← World.vammE ({ w with env := env } : World) v; Vamm.queryIsOverFluctuationLimit x env d a)
    rw [hvE, he]
  · funext v d a
    show (do let x ← w1.vammE v; Vamm.queryOutputAmount x d a)
      = (do let x ← World.vammE ({ w with env := env } : World) v; Vamm.queryOutputAmount x d a)
    rw [hvE]

/-- the hypothesis on the pre-state, in the world in which `execute` runs -/
theorem partialShortQ_start {w w1 : World} {env : Env} {s v : Nat} (he : w1.env = env) (hv : w1.vamms = w.vamms)
    (h : PartialShortOK w env s v) : PartialShortQ w1.q w.engine w1.vamm? s v := by
  obtain ⟨q1, q2⟩ := start_queries (w := w) he hv
  have := (partialShortOK_iff w env s v).1 h
  unfold PartialShortQ at this ⊢
  rw [vamm?_of_vamms hv, q1, q2]
  exact this

/-- the partial path of `close_position` under the weaker hypothesis: the base amount re-quoted for the
    notional `N` of the swap the engine issues is at most the position's size -/
theorem close_noflip_tx (w1 : World) (e : E) (env : Env) (s v l : Nat) (e1 : E) (subs : List SubMsg)
    (hU : UnitResF w1.vamm?) (hP : PartialShortQ w1.q e w1.vamm? s v)
    (hex : closePosition w1.q e env s v l = .ok (e1, subs)) (N : Nat)
    (hm : subs = [swapInputMsg (readPosition e v s).vamm (positionToSide (readPosition e v s).size) N 0 true
                    REPLY_PARTIAL_CLOSE]) :
    ∀ x b, w1.vamm? v = some x →
      Vamm.queryInputAmount x (sideToDirection (positionToSide (readPosition e v s).size)) N = .ok b →
      b ≤ (readPosition e v s).size.value := by
  obtain ⟨_, _, hnz, tmp, _, _, _, hc⟩ := closePosition_inv _ _ _ _ _ _ _ hex
  dsimp only at hc
  rcases hc with ⟨_, h2⟩ | ⟨_, y, pa, N', over, h2, hcm, hcd, hout, hover, ho, hplr⟩
  · exfalso
    rw [hm] at h2
    injection h2 with h2
    injection h2 with h2
    cases h2
  · rw [hm] at h2
    have hNN : N = N' := by
      injection h2 with h2
      injection h2 with h2
      injection h2
    subst hNN
    rw [ho] at hover
    refine noflip_partial_tx w1 _ _ _ _ _ _ v hU hcm hcd hplr hout (fun hg x b hx hb => ?_)
    have hg' : ¬ (Integer.gt (readPosition e v s).size Integer.zero = true) := by
      rw [hg]; exact Bool.false_ne_true
    rw [if_neg hg'] at hout hover
    exact hP hnz hg hplr hover y pa N x b hcm hcd hout hx hb

/-- **preservation of the mirror invariant under the per-transaction hypothesis**: every successful transaction
    by an account other than the engine's own address, which does not re-wire a vAMM, preserves `MirrorP.Inv` -/
theorem inv_step_tx (w w' : World) (env : Env) (s : Nat) (f : Funds) (tx : Tx)
    (hI : MirrorP.Inv w) (hs : s ≠ ENGINE) (hnr : NotRewireP tx) (hCR : CurveRegularTx w env s tx)
    (h : applyTx w env s f tx = .ok w') : MirrorP.Inv w' := by
  refine ⟨?_, WorldInv.noResidue_step w w' env s f tx hI.2 h⟩
  by_cases hne : ∃ m, tx = .engine m
  · obtain ⟨m, rfl⟩ := hne
    obtain ⟨w1, e1, subs, a1, a2, a3, _, _, _, hex, hrun⟩ := WorldInv.applyTx_engine_inv w w' env s f m h
    have hv : w1.vamm? = w.vamm? := vamm?_of_vamms a3
    have hB1 : BaseI w1.engine w1.vamm? := by rw [a1, hv]; exact hI.1
    have hU1 : UnitResF w1.vamm? := by rw [hv]; exact hCR.1
    have hP1 : ∀ v l, m = .closePosition v l → PartialShortQ w1.q w1.engine w1.vamm? s v := by
      intro v l hm
      subst hm
      rw [a1]
      exact partialShortQ_start a2 a3 hCR.close
    have hF := exec_step_tx w1 env s f m e1 subs hB1 hU1 hP1 hex
    exact flow_run' FUEL { w1 with engine := e1 } w' subs hrun hF
  · have he := WorldInv.applyTx_nonengine_frame w w' env s f tx (fun m hm => hne ⟨m, hm⟩) h
    exact base_WK hI.1 he (applyTx_WK w w' env s f tx (fun m hm => hne ⟨m, hm⟩) hs hnr h)

/-- `MirrorP.inv_run` under the per-transaction hypothesis (a failed transaction changes nothing the
    invariant reads) -/
theorem inv_run_P (w : World) (env : Env) (s : Nat) (f : Funds) (tx : Tx)
    (hI : MirrorP.Inv w) (hs : s ≠ ENGINE) (hnr : NotRewireP tx) (hCR : CurveRegularTx w env s tx) :
    MirrorP.Inv (step w env s f tx) := by
  unfold step
  split
  · rename_i w' h
    exact inv_step_tx w w' env s f tx hI hs hnr hCR h
  · exact inv_failed w env hI

/-- **the primed preservation theorem of the mirror invariant** (`Mirror.Inv`, `Mirror.NotRewire`) -/
theorem inv_run_tx (w : World) (env : Env) (s : Nat) (f : Funds) (tx : Tx)
    (hI : Mirror.Inv w) (hs : s ≠ ENGINE) (hnr : Mirror.NotRewire tx) (hCR : CurveRegularTx w env s tx) :
    Mirror.Inv (step w env s f tx) :=
  inv_run_P w env s f tx hI hs ((Mirror.notRewire_iff tx).1 hnr) hCR

/-- the old preservation theorem is a corollary -/
theorem inv_run_of_curveRegular (w : World) (env : Env) (s : Nat) (f : Funds) (tx : Tx)
    (hI : Mirror.Inv w) (hs : s ≠ ENGINE) (hnr : Mirror.NotRewire tx) (hCR : Mirror.CurveRegular w) :
    Mirror.Inv (step w env s f tx) :=
  inv_run_tx w env s f tx hI hs hnr (curveRegularTx_of_curveRegular hCR)

/-! ## 5. the theorems of `Perp/Props/MirrorInv.lean`, primed -/

/-- `Mirror.mirror_invariant_partial2` with the per-transaction hypothesis -/
theorem mirror_invariant_partial_tx :
    ∃ Inv : World → Prop,
      (∀ w, Mirror.Init w → Mirror.NoZeroVamm w → Inv w)
      ∧ (∀ w, Inv w → Mirror.MirrorOK w ∧ Mirror.SignDir w.engine ∧ WorldInv.NoResidue w.engine)
      ∧ (∀ w w' env s f tx, Inv w → Mirror.UserSender w s → Mirror.NotRewire tx → CurveRegularTx w env s tx →
            applyTx w env s f tx = .ok w' → Inv w') := by
  refine ⟨Mirror.Inv, Mirror.init_inv, fun w h => ⟨h.1.1, h.1.2.1, h.2⟩, ?_⟩
  intro w w' env s f tx hI hs hnr hcr h
  exact inv_step_tx w w' env s f tx hI hs.1 ((Mirror.notRewire_iff tx).1 hnr) hcr h

theorem inv_along_tx (txs : List (Env × Nat × Funds × Tx)) : ∀ (w0 : World), Mirror.Inv w0 →
    (∀ (pre : List (Env × Nat × Funds × Tx)) (t : Env × Nat × Funds × Tx) (post : List (Env × Nat × Funds × Tx)),
        txs = pre ++ t :: post →
        let w := pre.foldl (fun w t => step w t.1 t.2.1 t.2.2.1 t.2.2.2) w0
        Mirror.UserSender w t.2.1 ∧ Mirror.NotRewire t.2.2.2 ∧ CurveRegularTx w t.1 t.2.1 t.2.2.2) →
    Mirror.Inv (txs.foldl (fun w t => step w t.1 t.2.1 t.2.2.1 t.2.2.2) w0) := by
  induction txs with
  | nil => intro w0 hI _; exact hI
  | cons t txs ih =>
    intro w0 hI hside
    rw [List.foldl_cons]
    obtain ⟨h1, h2, h3⟩ := hside [] t txs rfl
    refine ih _ (inv_run_tx w0 t.1 t.2.1 t.2.2.1 t.2.2.2 hI h1.1 h2 h3) ?_
    intro pre t' post h
    exact hside (t :: pre) t' post (by rw [h]; rfl)

/-- `Mirror.mirror_along_history2` with the per-transaction hypothesis -/
theorem mirror_along_history_tx (w0 : World) (h0 : Mirror.Init w0) (hz : Mirror.NoZeroVamm w0)
    (txs : List (Env × Nat × Funds × Tx))
    (hside : ∀ (pre : List (Env × Nat × Funds × Tx)) (t : Env × Nat × Funds × Tx) (post : List (Env × Nat × Funds × Tx)),
        txs = pre ++ t :: post →
        let w := pre.foldl (fun w t => step w t.1 t.2.1 t.2.2.1 t.2.2.2) w0
        Mirror.UserSender w t.2.1 ∧ Mirror.NotRewire t.2.2.2 ∧ CurveRegularTx w t.1 t.2.1 t.2.2.2) :
    Mirror.MirrorOK (txs.foldl (fun w t => step w t.1 t.2.1 t.2.2.1 t.2.2.2) w0) :=
  (inv_along_tx txs w0 (Mirror.init_inv w0 h0 hz) hside).1.1

end Perp.Props.CurveTx
