/-
  SatD — C06: a successful `Liquidate` of the model satisfies every clause of `Spec.C06.check`.
-/
import Perp.Props.SatDBase
import Perp.Props.C01
import Perp.Props.C17

namespace Perp.Props.SatD
open Perp Perp.World Perp.Engine Perp.Spec Perp.Spec.W
open Perp.Props.EngineGuards (Post ConfigOK)
open Perp.Props.Dispatch
open Perp.Props.MirrorP (AllCE)
open Perp.Props.C19
open Perp.Props.ModelStep

/-- transfers into the engine that do not start at the engine (attached funds, insurance-fund payouts) -/
def Neutral (l : List (Nat × Nat × Nat)) : Prop := ∀ x ∈ l, x.1 ≠ ENGINE ∧ x.2.1 = ENGINE

theorem Neutral_nil : Neutral [] := fun x hx => by cases hx

theorem flow_neutral {l : List (Nat × Nat × Nat)} (h : Neutral l) (to : Nat) : flow l ENGINE to = 0 :=
  flow_zero_of_src l ENGINE to (fun x hx => (h x hx).1)

theorem inflow_neutral {l : List (Nat × Nat × Nat)} (h : Neutral l) (to : Nat) (hto : to ≠ ENGINE) :
    inflow l to = 0 :=
  inflow_zero_of_to l to (fun x hx hh => hto (hh ▸ (h x hx).2))

theorem liqRatio_eq (P : World) (v t : Nat) (r0 ratio : Integer) (over : Bool)
    (h0 : queryMarginRatio P.q P.engine v t = .ok r0) (h1 : P.q.isOverSpread v = .ok over)
    (h2 : over = true → ∃ ro d, marginRatioByOption P.q P.engine v t .oracle = .ok ro
            ∧ Integer.checkedSub ro r0 = .ok d ∧ ratio = if Integer.gt d Integer.zero then ro else r0)
    (h3 : over = false → ratio = r0) : liqRatio P v t = some ratio.toInt := by
  unfold liqRatio exInt
  rw [h0]
  simp only []
  rw [h1]
  cases over with
  | false => simp only []; rw [h3 rfl]
  | true =>
    obtain ⟨ro, d, hro, hd, hr⟩ := h2 rfl
    simp only []
    rw [hro]
    simp only []
    have e1 := (checkedSub_ok _ _ _ hd).1
    have e2 := MirrorP.gt_zero_iff d
    subst hr
    by_cases hg : Integer.gt d Integer.zero = true
    · rw [if_pos hg, if_pos (by have := e2.1 hg; omega)]
    · rw [if_neg hg, if_neg (by intro hh; exact hg (e2.2 (by omega)))]

theorem insufficient_le (ratio : Integer) (mmr : Nat) (h : requireInsufficientMargin ratio mmr = .ok ()) :
    ratio.toInt ≤ (mmr : Int) := by
  unfold requireInsufficientMargin at h
  split at h
  · cases h
  · rename_i hc
    have := cmp_gt_iff ratio (Integer.newPositive mmr)
    rw [toInt_newPositive] at this
    by_cases hh : ratio.toInt ≤ (mmr : Int)
    · exact hh
    · exfalso
      apply hc
      unfold Integer.gt
      rw [this.2 (by omega)]
      rfl

theorem any_erase (ps : List Position) (v t : Nat) :
    (erasePosition ps v t).any (fun p => p.vamm == v && p.trader == t) = false := by
  unfold erasePosition
  rw [List.any_filter]
  induction ps with
  | nil => rfl
  | cons a ps ih =>
    rw [List.any_cons, ih]
    cases (a.vamm == v && a.trader == t) <;> rfl

/-- the quote reserve moves by exactly the quote amount the swap reports -/
theorem swapOutput_quote (x x' : Vamm.V) (env : Env) (s : Nat) (dir : Direction) (amt lim qa : Nat)
    (h : Vamm.swapOutput x env s dir amt lim = .ok (x', ⟨false, qa, amt⟩)) :
    ((x'.st.quote : Int) - (x.st.quote : Int)).natAbs = qa ∧ Vamm.queryOutputAmount x dir amt = .ok qa := by
  obtain ⟨q, hq, hu, ho, _⟩ := C17.swapOutput_inv _ _ _ _ _ _ _ _ h
  injection ho with _ h2 _
  subst h2
  refine ⟨?_, hq⟩
  cases dir with
  | addToAmm =>
    obtain ⟨_, hle, hq', _⟩ := C01.ur_rem _ _ _ _ _ _ hu
    rw [hq']; omega
  | removeFromAmm =>
    obtain ⟨_, hq', _⟩ := C01.ur_add _ _ _ _ _ _ hu
    rw [hq']; omega

theorem gp_close (env : Env) (e e1 : E) (v t : Nat) (hpos : e1.positions = e.positions)
    (hnz : ¬ (readPosition e v t).size.value = 0) :
    ∃ b, getPosition env e1 (readPosition e v t).vamm (readPosition e v t).trader
          (directionToSide (readPosition e v t).direction) = { readPosition e v t with block := b } := by
  obtain ⟨pv, pt⟩ := MirrorP.read_found e v t hnz
  have hr : readPosition e1 (readPosition e v t).vamm (readPosition e v t).trader = readPosition e v t := by
    rw [pv, pt]; exact WorldInv.rp_same v t hpos
  unfold getPosition
  simp only [hr]
  split
  · exact ⟨env.height, by rw [MirrorP.side_dir]⟩
  · exact ⟨(readPosition e v t).block, rfl⟩

theorem vamm?_congr {w w1 : World} (h : w1.vamms = w.vamms) : w1.vamm? = w.vamm? := by
  funext a; unfold vamm?; rw [h]

theorem ifw_neutral (ife a : Nat) (h : ife = ENGINE) : Neutral [(IFUND, ife, a)] := by
  intro x hx
  simp only [List.mem_singleton] at hx
  subst hx
  exact ⟨(by decide : IFUND ≠ ENGINE), h⟩

theorem chk_true (c : Bool) (tag : String) (h : c = true) : chk c tag = [] := by
  unfold chk; rw [h]; rfl

/-- pnl of a whole close as the property defines it -/
def pnlOf (p : Position) (out : Nat) : Int :=
  match p.direction with
  | .addToAmm => (out : Int) - p.notional
  | .removeFromAmm => (p.notional : Int) - out

theorem closeMarginDelta_toInt (p : Position) (out : Nat) (d : Integer)
    (h : closeMarginDelta p (closeTmp p) out = .ok d) : d.toInt = pnlOf p out := by
  unfold closeMarginDelta at h
  unfold pnlOf
  cases hd : p.direction <;> rw [hd] at h <;> simp only [] at h
  · have := (sub_ok _ _ _ h).1
    rw [toInt_newPositive, toInt_newPositive] at this
    exact this
  · have := (sub_ok _ _ _ h).1
    rw [toInt_newPositive, toInt_newPositive] at this
    exact this


/-- what the property calls the remaining margin of a full liquidation -/
def remainingOf (equity : Int) (fee : Nat) : Int :=
  if equity ≤ 0 then 0 else if equity ≥ fee then equity - fee else 0

theorem remaining_calc (E : Int) (fee rmm margin' : Nat) (hge : 0 ≤ E → (rmm : Int) = E) (hlt : E < 0 → rmm = 0)
    (hmb : if fee > rmm then margin' = 0 else margin' = rmm - fee) : (margin' : Int) = remainingOf E fee := by
  unfold remainingOf
  by_cases hE : 0 ≤ E
  · have := hge hE
    split at hmb <;> subst hmb <;> (repeat' split) <;> omega
  · have := hlt (by omega)
    split at hmb <;> subst hmb <;> (repeat' split) <;> omega

theorem fundingOwed_eq (w : World) (e1 : E) (p : Position) (hvm : e1.vammMaps = w.engine.vammMaps)
    (hc : e1.cfg = w.engine.cfg) : EngineMoney.fundingOwed e1 p = W.fundingOwed w p := by
  unfold EngineMoney.fundingOwed W.fundingOwed EngineMoney.trunc W.trunc latestCum
  rw [G9Restr.readVammMap_same hvm, hc]

/-- the facts about a successful `Liquidate` that `Spec.C06.check` evaluates -/
theorem liq_facts (w w' : World) (env : Env) (s : Nat) (f : Funds) (v t lim : Nat)
    (h : applyTx w env s f (.engine (.liquidate v t lim)) = .ok w') :
    let P : World := { w with env := env }
    let p := readPosition w.engine v t
    let D := w.engine.cfg.decimals
    ∃ (r : Int) (x x' : Vamm.V) (out : Nat) (N0 N1 N3 : List (Nat × Nat × Nat)),
      liqRatio P v t = some r ∧ r ≤ (w.engine.cfg.mmr : Int)
      ∧ ¬ p.size.value = 0 ∧ w.engine.cfg.insuranceFund = IFUND
      ∧ w.vamm? v = some x ∧ w'.vamm? v = some x' ∧ ((x'.st.quote : Int) - (x.st.quote : Int)).natAbs = out
      ∧ (∀ y ∈ N0, y.1 = s ∧ y.2.1 = ENGINE) ∧ Neutral N1 ∧ Neutral N3
      ∧ ((hasPos w' v t = false
          ∧ ∃ margin' : Nat,
            w'.log = N0 ++ N1 ++ (if margin' ≠ 0 then [(ENGINE, w.engine.cfg.insuranceFund, margin')] else [])
                      ++ N3 ++ [(ENGINE, s, out * w.engine.cfg.liqFee / D / 2)]
            ∧ (margin' : Int) = remainingOf ((p.margin : Int) + pnlOf p out - W.fundingOwed w p)
                                  (out * w.engine.cfg.liqFee / D / 2))
        ∨ (hasPos w' v t = true
          ∧ (readPosition w'.engine v t).size.toInt
              = (if p.size.toInt < 0 then p.size.toInt + ((p.size.value * w.engine.cfg.plr / D : Nat) : Int)
                 else p.size.toInt - ((p.size.value * w.engine.cfg.plr / D : Nat) : Int))
          ∧ (out * w.engine.cfg.liqFee / D / 2 = 0 → w'.log = N0)
          ∧ (out * w.engine.cfg.liqFee / D / 2 ≠ 0 →
              w'.log = N0 ++ [(ENGINE, w.engine.cfg.insuranceFund, out * w.engine.cfg.liqFee / D / 2)]
                        ++ N3 ++ [(ENGINE, s, out * w.engine.cfg.liqFee / D / 2)]))) := by
  intro P p D
  obtain ⟨w1, e1, subs, hsame, hlog1, hex, hrun⟩ := applyTx_engine_inv' w w' env s f _ h
  have hex' : liquidate w1.q w1.engine env s v t lim = .ok (e1, subs) := hex
  have he1 : w1.engine = w.engine := hsame.1
  obtain ⟨r0, over, ratio, hq0, hos, hov, hnov, hrv, hins, hnz, hpos, hc1, hvm1, hst1, hsf1, hliq1, hcase⟩ :=
    liquidate_guard _ _ _ _ _ _ _ _ hex'
  have hq : w1.q = { P.q with balance := fun a => .ok (w1.ledger.balance a) } := q_of_same _ _ hsame
  rw [he1] at hq0 hov hins hnz hpos hc1 hvm1 hst1 hsf1 hcase
  rw [hq] at hq0 hos hov
  have hpos : e1.positions = w.engine.positions := hpos
  have hc1 : e1.cfg = w.engine.cfg := hc1
  have hvm1 : e1.vammMaps = w.engine.vammMaps := hvm1
  have hliq1 : e1.tmpLiq = some s := hliq1
  have hr := liqRatio_eq P v t r0 ratio over hq0 hos hov hnov
  have hle := insufficient_le _ _ hins
  have hifd : w.engine.cfg.insuranceFund = IFUND := by
    have h1 := (EngineGuards.requireVamm_ok _ _ hrv).1
    rw [hq] at h1
    have h1' : P.q.isVamm v = .ok true := h1
    by_cases hc : w.engine.cfg.insuranceFund = IFUND
    · exact hc
    · exfalso
      have h2 : P.q.isVamm v = .error (.guard 95) := by
        show (if w.engine.cfg.insuranceFund = IFUND then _ else _) = _
        rw [if_neg hc]
      rw [h2] at h1'
      cases h1'
  obtain ⟨pv, pt⟩ := MirrorP.read_found w.engine v t hnz
  rcases hcase with ⟨hfull, htmp, hsubs⟩ | hpart
  · -- full liquidation
    have hsubs' : subs = _ := hsubs
    rw [hsubs'] at hrun
    obtain ⟨x, x', qa, e2, subs2, hvx, hsw, hrep, hs2⟩ := liq_run _ _ _ _ _ _ _ hrun
    have hrep' : liquidateReply _ e1 _ qa = .ok (e2, subs2) := hrep
    have hspec := EngineMoney.liquidateReply_spec _ _ _ _ _ _ _ _ htmp hliq1 hrep'
    dsimp only [closeTmp] at hspec
    obtain ⟨delta, rm, margin', badDebt, st1, m1, pre, st2, m3, hdl, hrm, hmb, hT, hwd, hmsgs, _, _, _, _⟩ := hspec
    obtain ⟨b, hgp⟩ := gp_close w1.env w.engine e1 v t hpos hnz
    rw [hgp] at hdl hrm
    have hdl' : closeMarginDelta p (closeTmp p) qa = .ok delta := hdl
    have hrm' : calcRemainMargin e1 p delta = .ok rm := hrm
    have hd := closeMarginDelta_toInt p qa delta hdl'
    have hcs := EngineMoney.calcRemainMargin_spec e1 p delta rm hrm'
    rw [fundingOwed_eq w e1 p hvm1 hc1, hd] at hcs
    obtain ⟨hpos2, hce⟩ := MirrorP.liquidateReply_eff _ _ _ _ _ htmp _ hrep'
    obtain ⟨hs3, hlog3, hifw⟩ := run_CE subs2 39 _ w' hce hs2
    have hpos2' : e2.positions = erasePosition e1.positions v t := by
      have h0 : e2.positions = (removePosition e1 (getPosition w1.env e1 p.vamm p.trader (directionToSide p.direction))).positions := hpos2
      rw [h0, hgp]
      show erasePosition e1.positions p.vamm p.trader = _
      rw [pv, pt]
    have hlog3' : w'.log = w1.log ++ subs2.flatMap (fun m => xferOf w1.ifund.engine m.msg) := hlog3
    have hifw' : ∀ m ∈ subs2, ∀ a, m.msg = .ifWithdraw a → w1.ifund.engine = ENGINE :=
      fun m hm a ha => (hifw m hm a ha).2
    have hwe : w'.engine = e2 := hs3.1
    have hwv : w'.vamms = ({ w1 with engine := e1 }.setVamm p.vamm x').vamms := hs3.2.1
    have hvx' : w.vamm? v = some x := by
      have : w.vamm? = ({ w1 with engine := e1 } : World).vamm? :=
        (vamm?_congr (w := w) (w1 := { w1 with engine := e1 }) hsame.2.1).symm
      rw [this, ← pv]; exact hvx
    have hvx2 : w'.vamm? v = some x' := by
      rw [vamm?_congr hwv, ← pv]
      exact MirrorP.setVamm_vamm_same _ _ _ _ hvx
    obtain ⟨hqm, _⟩ := swapOutput_quote _ _ _ _ _ _ _ _ hsw
    have hm1 : m1 = [] ∨ ∃ a, m1 = [ifWithdrawMsg a] := by
      by_cases hb : badDebt ≠ 0
      · rw [if_pos hb] at hT
        have := EngineMoney.realizeBadDebt_msgs e1.st badDebt
        rw [← hT] at this; exact this
      · rw [if_neg hb] at hT
        injection hT with _ h2
        injection h2 with h2 _
        exact Or.inl h2
    obtain ⟨bal, _, hm3⟩ := EngineMoney.withdraw_spec _ _ _ _ _ _ _ _ hwd
    have hfee : qa * e1.cfg.liqFee / e1.cfg.decimals / 2 = qa * w.engine.cfg.liqFee / D / 2 := by rw [hc1]
    have hm3' : ∃ pre3, m3 = pre3 ++ [transferMsg e1.cfg s (qa * w.engine.cfg.liqFee / D / 2)]
        ∧ (pre3 = [] ∨ ∃ a, pre3 = [ifWithdrawMsg a]) := by
      rw [hfee] at hm3
      rcases hm3 with ⟨_, _, _, _, hm3⟩ | ⟨_, _, hm3⟩
      · exact ⟨[ifWithdrawMsg _], hm3, Or.inr ⟨_, rfl⟩⟩
      · exact ⟨[], hm3, Or.inl rfl⟩
    obtain ⟨pre3, hm3e, hpre3⟩ := hm3'
    have hneu : ∀ l : List SubMsg, (l = [] ∨ ∃ a, l = [ifWithdrawMsg a]) → (∀ m ∈ l, m ∈ subs2) →
        Neutral (l.flatMap (fun m => xferOf w1.ifund.engine m.msg)) := by
      intro l hl hsub
      rcases hl with rfl | ⟨a, rfl⟩
      · exact Neutral_nil
      · exact ifw_neutral _ _ (hifw' _ (hsub _ (List.mem_singleton.2 rfl)) a rfl)
    have hN1 := hneu m1 hm1 (fun m hm => by rw [hmsgs]; simp [hm])
    have hN3 := hneu pre3 hpre3 (fun m hm => by rw [hmsgs, hm3e]; simp [hm])
    refine ⟨ratio.toInt, x, x', qa, w1.log, _, _, hr, hle, hnz, hifd, hvx', hvx2, hqm,
      hlog1, hN1, hN3, Or.inl ⟨?_, margin', ?_, ?_⟩⟩
    · unfold hasPos
      rw [hwe, hpos2']
      exact any_erase _ _ _
    · rw [hlog3', hmsgs, hm3e]
      simp only [List.flatMap_append, List.append_assoc]
      have e1' : List.flatMap (fun m => xferOf w1.ifund.engine m.msg)
            (if margin' ≠ 0 then [transferMsg e1.cfg e1.cfg.insuranceFund margin'] else [])
          = (if margin' ≠ 0 then [(ENGINE, w.engine.cfg.insuranceFund, margin')] else []) := by
        split
        · simp only [List.flatMap_cons, List.flatMap_nil, List.append_nil, xferOf_transferMsg]
          rw [hc1]
        · rfl
      have e2' : List.flatMap (fun m => xferOf w1.ifund.engine m.msg)
            [transferMsg e1.cfg s (qa * w.engine.cfg.liqFee / D / 2)]
          = [(ENGINE, s, qa * w.engine.cfg.liqFee / D / 2)] := by
        simp only [List.flatMap_cons, List.flatMap_nil, List.append_nil, xferOf_transferMsg]
      rw [e1', e2']
    · rw [hfee] at hmb
      obtain ⟨_, _, hge, hlt⟩ := hcs
      apply remaining_calc _ _ rm.margin
      · intro hE; rw [(hge (by omega)).1]; omega
      · intro hE; exact (hlt (by omega)).1
      · split at hmb
        · rename_i hc; rw [if_pos hc]; exact hmb.1
        · rename_i hc; rw [if_neg hc]; exact hmb.1
  · -- partial liquidation
    obtain ⟨hcond, tmp, ps, pl, htmp, tv, tt, hsubs, hD, hps⟩ := hpart
    have hsubs' : subs = _ := hsubs
    rw [hsubs'] at hrun
    obtain ⟨x, x', qa, e2, subs2, hvx, hsw, hrep, hs2⟩ := liq_run _ _ _ _ _ _ _ hrun
    have hrep' : partialLiquidationReply _ e1 _ ps qa = .ok (e2, subs2) := hrep
    have tv' : tmp.vamm = v := tv.trans pv
    have tt' : tmp.trader = t := tt.trans pt
    obtain ⟨hsz, hf0, hf1, _, _, _, _⟩ := EngineMoney.partialLiquidationReply_spec _ _ _ _ _ _ _ _ _ htmp hliq1 hrep'
    rw [MirrorP.getPosition_size, tv', tt', WorldInv.rp_same v t hpos, hps] at hsz
    obtain ⟨⟨p', hpos2, hpv, hpt, _, _⟩, hce⟩ := MirrorP.partialLiquidationReply_eff _ _ _ _ _ _ htmp _ hrep'
    have hk := EngineMoney.getPosition_key w1.env e1 tmp.vamm tmp.trader tmp.side
    obtain ⟨hs3, hlog3, hifw⟩ := run_CE subs2 39 _ w' hce hs2
    have hlog3' : w'.log = w1.log ++ subs2.flatMap (fun m => xferOf w1.ifund.engine m.msg) := hlog3
    have hifw' : ∀ m ∈ subs2, ∀ a, m.msg = .ifWithdraw a → w1.ifund.engine = ENGINE :=
      fun m hm a ha => (hifw m hm a ha).2
    have hwe : w'.engine = e2 := hs3.1
    have hwv : w'.vamms = ({ w1 with engine := e1 }.setVamm v x').vamms := hs3.2.1
    have hvx' : w.vamm? v = some x := by
      have : w.vamm? = ({ w1 with engine := e1 } : World).vamm? :=
        (vamm?_congr (w := w) (w1 := { w1 with engine := e1 }) hsame.2.1).symm
      rw [this]; exact hvx
    have hvx2 : w'.vamm? v = some x' := by
      rw [vamm?_congr hwv]
      exact MirrorP.setVamm_vamm_same _ _ _ _ hvx
    obtain ⟨hqm, _⟩ := swapOutput_quote _ _ _ _ _ _ _ _ hsw
    have hfee : qa * e1.cfg.liqFee / e1.cfg.decimals / 2 = qa * w.engine.cfg.liqFee / D / 2 := by rw [hc1]
    rw [hfee] at hf0 hf1
    refine ⟨ratio.toInt, x, x', qa, w1.log, [],
      (if qa * w.engine.cfg.liqFee / D / 2 = 0 then [] else
        (subs2.drop 1).dropLast.flatMap (fun m => xferOf w1.ifund.engine m.msg)),
      hr, hle, hnz, hifd, hvx', hvx2, hqm, hlog1, Neutral_nil, ?_, Or.inr ⟨?_, ?_, ?_, ?_⟩⟩
    · split
      · exact Neutral_nil
      · rename_i hfz
        obtain ⟨st2, m3, hwd, hmsgs⟩ := hf1 hfz
        obtain ⟨bal, _, hm3⟩ := EngineMoney.withdraw_spec _ _ _ _ _ _ _ _ hwd
        rcases hm3 with ⟨_, _, _, _, hm3⟩ | ⟨_, _, hm3⟩
        · subst hm3
          rw [hmsgs]
          simp only [List.drop_succ_cons, List.drop_zero, List.dropLast_cons_cons, List.dropLast_singleton,
            List.flatMap_cons, List.flatMap_nil, List.append_nil, xferOf_ifWithdrawMsg]
          exact ifw_neutral _ _ (hifw' _ (by rw [hmsgs]; exact List.mem_cons_of_mem _ List.mem_cons_self) _ rfl)
        · subst hm3
          rw [hmsgs]
          simp only [List.drop_succ_cons, List.drop_zero, List.dropLast_singleton, List.flatMap_nil]
          exact Neutral_nil
    · unfold hasPos
      rw [hwe]
      have h0 : e2.positions = (storePosition e1 p').positions := hpos2
      rw [h0]
      show (p' :: _).any _ = true
      rw [List.any_cons, hpv, hpt, hk.1, hk.2, tv', tt']
      simp
    · rw [hwe]; exact hsz
    · intro hfz
      rw [hlog3', hf0 hfz]
      simp
    · intro hfz
      obtain ⟨st2, m3, hwd, hmsgs⟩ := hf1 hfz
      obtain ⟨bal, _, hm3⟩ := EngineMoney.withdraw_spec _ _ _ _ _ _ _ _ hwd
      rw [hlog3', if_neg hfz, hmsgs]
      rcases hm3 with ⟨_, _, _, _, hm3⟩ | ⟨_, _, hm3⟩
      · subst hm3
        simp only [List.drop_succ_cons, List.drop_zero, List.dropLast_cons_cons, List.dropLast_singleton,
            List.flatMap_cons, List.flatMap_nil, List.append_nil, xferOf_ifWithdrawMsg, xferOf_transferMsg,
            List.append_assoc, List.cons_append, List.nil_append, hc1]
      · subst hm3
        simp only [List.drop_succ_cons, List.drop_zero, List.dropLast_singleton,
            List.flatMap_cons, List.flatMap_nil, List.append_nil, xferOf_transferMsg,
            List.append_assoc, List.cons_append, List.nil_append, hc1]

theorem chk_eq_nil (c : Bool) (tag : String) : chk c tag = [] ↔ c = true := by
  unfold chk; cases c <;> simp

theorem pliq_clauses (a b : Int) (n i : Nat) (hna : a.natAbs = n) (hnz : ¬ n = 0) (hi : i ≤ n)
    (hsz : b = if a < 0 then a + i else a - i) : b.natAbs = n - i ∧ (a * b > 0 ∨ b = 0) := by
  refine ⟨by split at hsz <;> omega, ?_⟩
  by_cases hb0 : b = 0
  · exact Or.inr hb0
  · left
    split at hsz
    · exact Int.mul_pos_of_neg_of_neg (by omega) (by omega)
    · exact Int.mul_pos (by omega) (by omega)

/-- the observation of a successful model `Liquidate` -/
def liqStep (w w' : World) (env : Env) (s : Nat) (f : Funds) (v t lim : Nat) (res : Bool) : Step :=
  { pre := w, post := w', env := env, sender := s, funds := f, tx := .engine (.liquidate v t lim),
    ok := true, xfers := w'.log, residue := res }

theorem c06_check (w w' : World) (env : Env) (s : Nat) (f : Funds) (v t lim : Nat) (res : Bool)
    (hplr : w.engine.cfg.plr ≤ w.engine.cfg.decimals)
    (hs : s ≠ ENGINE ∧ s ≠ IFUND)
    (ht : ¬ (readPosition w.engine v t).size.value = 0 → t ≠ ENGINE ∧ t ≠ IFUND)
    (h : applyTx w env s f (.engine (.liquidate v t lim)) = .ok w') :
    C06.check (liqStep w w' env s f v t lim res) = [] := by
  obtain ⟨r, x, x', out, N0, N1, N3, hr, hle, hnz, hifd, hvx, hvx', hout, hN0, hN1, hN3, hcase⟩ :=
    liq_facts w w' env s f v t lim h
  obtain ⟨htE, htI⟩ := ht hnz
  have hN0' : Neutral N0 := fun y hy => ⟨by rw [(hN0 y hy).1]; exact hs.1, (hN0 y hy).2⟩
  have hqm : quoteMoved (liqStep w w' env s f v t lim res) v = out := by
    unfold quoteMoved quoteOf liqStep
    simp only [hvx, hvx']
    exact hout
  simp only [liqStep] at hqm
  have hSI : s ≠ IFUND := hs.2
  have hEI : ENGINE ≠ IFUND := by decide
  unfold C06.check
  simp only [engineMsg, liqStep, Bool.not_true, Bool.false_eq_true, if_false, preAt, ifd, pos, hqm, hr, hifd]
  rcases hcase with ⟨hhp, margin', hlog, hmg⟩ | ⟨hhp, hsz, hl0, hl1⟩
  · have hM2f : flow (if margin' ≠ 0 then [(ENGINE, w.engine.cfg.insuranceFund, margin')] else []) ENGINE s = 0 := by
      split
      · rw [flow_cons, flow_nil, if_neg (fun hh => hSI (hh.2.symm.trans hifd))]; rfl
      · rfl
    have hM2i : inflow (if margin' ≠ 0 then [(ENGINE, w.engine.cfg.insuranceFund, margin')] else []) IFUND = margin' := by
      split
      · rw [inflow_cons, inflow_nil, if_pos hifd]; simp
      · rename_i hz
        have : margin' = 0 := Decidable.not_not.mp hz
        rw [this]; rfl
    have hM2t : t ≠ IFUND → inflow (if margin' ≠ 0 then [(ENGINE, w.engine.cfg.insuranceFund, margin')] else []) t = 0 := by
      intro hti
      split
      · rw [inflow_cons, inflow_nil, if_neg (fun hh => hti (hh.symm.trans hifd))]; rfl
      · rfl
    have hF : flow w'.log ENGINE s = ((out * w.engine.cfg.liqFee / w.engine.cfg.decimals / 2 : Nat) : Int) := by
      rw [hlog]
      simp only [flow_append, flow_neutral hN0', flow_neutral hN1, flow_neutral hN3, hM2f, flow_cons, flow_nil]
      simp
    have hI : inflow w'.log IFUND = (margin' : Int) := by
      rw [hlog]
      simp only [inflow_append, inflow_neutral hN0' _ hEI.symm, inflow_neutral hN1 _ hEI.symm,
        inflow_neutral hN3 _ hEI.symm, hM2i, inflow_cons, inflow_nil]
      rw [if_neg hSI]; simp
    have hT : t ≠ s → inflow w'.log t = 0 := by
      intro hts
      rw [hlog]
      simp only [inflow_append, inflow_neutral hN0' _ htE, inflow_neutral hN1 _ htE,
        inflow_neutral hN3 _ htE, hM2t htI, inflow_cons, inflow_nil]
      rw [if_neg (fun hh => hts hh.symm)]; rfl
    rw [hhp]
    simp only [Bool.not_false, if_true, List.append_eq_nil_iff, chk_eq_nil, hF, hI]
    refine ⟨decide_eq_true hle, ⟨by simp, ?_⟩, ?_⟩
    · rw [hmg]
      unfold remainingOf pnlOf
      cases hd : (readPosition w.engine v t).direction <;> simp only [] <;> simp
    · by_cases hts : t = s
      · simp [hts]
      · simp [hT hts]
  · have hna := toInt_natAbs (readPosition w.engine v t).size
    have hi : (readPosition w.engine v t).size.value * w.engine.cfg.plr / w.engine.cfg.decimals
        ≤ (readPosition w.engine v t).size.value := by
      apply Nat.div_le_of_le_mul
      rw [Nat.mul_comm w.engine.cfg.decimals]
      exact Nat.mul_le_mul_left _ hplr
    have hF : flow w'.log ENGINE s = ((out * w.engine.cfg.liqFee / w.engine.cfg.decimals / 2 : Nat) : Int)
        ∧ inflow w'.log IFUND = ((out * w.engine.cfg.liqFee / w.engine.cfg.decimals / 2 : Nat) : Int)
        ∧ (t ≠ s → inflow w'.log t = 0) := by
      by_cases hfz : out * w.engine.cfg.liqFee / w.engine.cfg.decimals / 2 = 0
      · rw [hl0 hfz, hfz]
        exact ⟨flow_neutral hN0' _, inflow_neutral hN0' _ hEI.symm, fun _ => inflow_neutral hN0' _ htE⟩
      · rw [hl1 hfz, hifd]
        refine ⟨?_, ?_, fun hts => ?_⟩
        · simp only [flow_append, flow_neutral hN0', flow_neutral hN3, flow_cons, flow_nil]
          rw [if_neg (fun hh => hSI hh.2.symm)]; simp
        · simp only [inflow_append, inflow_neutral hN0' _ hEI.symm, inflow_neutral hN3 _ hEI.symm, inflow_cons, inflow_nil]
          rw [if_neg hSI]; simp
        · simp only [inflow_append, inflow_neutral hN0' _ htE, inflow_neutral hN3 _ htE, inflow_cons, inflow_nil]
          rw [if_neg (fun hh => htI hh.symm), if_neg (fun hh => hts hh.symm)]; rfl
    rw [hhp]
    simp only [Bool.not_true, Bool.false_eq_true, if_false, List.append_eq_nil_iff, chk_eq_nil, hF.1, hF.2.1]
    obtain ⟨c1, c2⟩ := pliq_clauses _ _ _ _ hna hnz hi hsz
    refine ⟨decide_eq_true hle, ⟨⟨⟨?_, ?_⟩, by simp⟩, by simp⟩, ?_⟩
    · rw [hna, beq_iff_eq]; exact c1
    · rcases c2 with c2 | c2
      · simp [c2]
      · simp [c2]
    · by_cases hts : t = s
      · simp [hts]
      · simp [hF.2.2 hts]
/-! ### hypotheses of `sat_C06` -/

/-- (b) the liquidator is neither the engine nor the insurance fund (two components of
    `ModelStep.UserSender`).  Needed by the clauses that count what the liquidator / the fund received
    (`full-liquidation-fee-not-half-penalty`, `full-liquidation-remaining-margin-to-insurance-fund`,
    `partial-liquidation-liquidator-share`, `partial-liquidation-insurance-share`): a liquidator that
    *is* the fund sees the fund's share counted as its own and vice versa
    (`Witness.C06_cex_liquidator_is_fund`); for a liquidator that *is* the engine the attachment of native
    funds is itself a transfer from the engine to the liquidator (`Witness.C06_cex_liquidator_is_engine`).
    (That the engine's configured fund is the fund contract — `Wired.ifd` — need not be assumed: a
    `Liquidate` cannot succeed otherwise, `require_vamm` queries the fund.) -/
def Outsider (s : Nat) : Prop := s ≠ ENGINE ∧ s ≠ IFUND

/-- (a) invariant of reachable worlds: the engine and the insurance fund hold no position (a position is
    only ever created for the sender of an `OpenPosition`); preserved by `step` for every `Outsider` sender:
    `noContractPositions_step`.  Needed by `liquidated-trader-was-paid`: a liquidated "trader" that is the
    fund receives the remaining margin, one that is the engine receives the fund's bad-debt pay-out
    (`Witness.C06_cex_trader_is_fund`, `Witness.C06_cex_trader_is_engine`). -/
def NoContractPositions (w : World) : Prop :=
  ∀ v, readPosition w.engine v ENGINE = Position.default ∧ readPosition w.engine v IFUND = Position.default

theorem Outsider_of_user {w : World} {s : Nat} (h : UserSender w s) : Outsider s := ⟨h.1, h.2.1⟩

/-- a `Liquidate` that succeeds names a trader with a non-empty position -/
theorem liquidate_ok_size (w w' : World) (env : Env) (s : Nat) (f : Funds) (v t lim : Nat)
    (h : applyTx w env s f (.engine (.liquidate v t lim)) = .ok w') : ¬ (readPosition w.engine v t).size.value = 0 := by
  obtain ⟨_, _, _, _, _, _, _, _, _, hnz, _⟩ := liq_facts w w' env s f v t lim h
  exact hnz

theorem noContractPositions_step (w : World) (env : Env) (s : Nat) (f : Funds) (tx : Tx)
    (hinv : WorldInv.NoResidue w.engine) (hN : NoContractPositions w) (hs : Outsider s) :
    NoContractPositions (step w env s f tx) := by
  unfold step
  split
  · rename_i w' h
    have key : ∀ v c, (c = ENGINE ∨ c = IFUND) → readPosition w.engine v c = Position.default →
        readPosition w'.engine v c = Position.default := by
      intro v c hc hd
      rw [WorldInv.others_untouched w w' env s f tx hinv h v c ?_]
      · exact hd
      · rintro (hcs | ⟨v', l, htx⟩)
        · rcases hc with hc | hc
          · exact hs.1 (hcs.symm.trans hc)
          · exact hs.2 (hcs.symm.trans hc)
        · subst htx
          have hnz := liquidate_ok_size w w' env s f v' c l h
          have : readPosition w.engine v' c = Position.default := by
            rcases hc with hc | hc <;> subst hc
            · exact (hN v').1
            · exact (hN v').2
          rw [this] at hnz
          exact hnz rfl
    intro v
    exact ⟨key v ENGINE (Or.inl rfl) (hN v).1, key v IFUND (Or.inr rfl) (hN v).2⟩
  · exact hN

/-- `ConfigOK` (C20) is an invariant of `step` -/
theorem configOK_step (w : World) (env : Env) (s : Nat) (f : Funds) (tx : Tx)
    (hc : ConfigOK w.engine.cfg) : ConfigOK (step w env s f tx).engine.cfg := by
  unfold step
  split
  · rename_i w' h
    by_cases hne : ∃ m, tx = .engine m
    · obtain ⟨m, rfl⟩ := hne
      obtain ⟨w1, e1, subs, a1, _, _, _, _, _, hex, hrun⟩ := WorldInv.applyTx_engine_inv w w' env s f m h
      have h1 : ConfigOK e1.cfg := by
        by_cases hu : ∃ u, m = .updateConfig u
        · obtain ⟨u, rfl⟩ := hu
          have h' : (updateConfig w1.engine s u).map (fun e' => (e', ([] : List SubMsg))) = .ok (e1, subs) := hex
          obtain ⟨e1', h1, h2⟩ := (EngineGuards.exmap_ok _ _ _).1 h'
          cases h2
          exact (EngineGuards.updateConfig_configOK _ _ _ _ (a1 ▸ hc) h1).1
        · rw [EngineGuards.execute_cfg _ _ _ _ _ _ _ _ (fun u hm => hu ⟨u, hm⟩) hex, a1]; exact hc
      exact WorldInv.execSubs_engine_invariant (fun e => ConfigOK e.cfg)
        (fun q e e' env' id ev subs' hP hrep => by rw [EngineGuards.replyOk_cfg _ _ _ _ _ _ _ hrep]; exact hP)
        FUEL { w1 with engine := e1 } w' subs hrun h1
    · rw [WorldInv.applyTx_nonengine_frame w w' env s f tx (fun m hm => hne ⟨m, hm⟩) h]; exact hc
  · exact hc

/-- C06 for every transaction of the model -/
theorem sat_C06_core (w : World) (env : Env) (s : Nat) (f : Funds) (tx : Tx)
    (hcfg : ConfigOK w.engine.cfg) (hncp : NoContractPositions w) (hs : Outsider s) :
    Spec.C06.check (modelStep w env s f tx) = [] := by
  unfold modelStep
  cases h : applyTx w env s f tx with
  | error e =>
    simp only []
    unfold C06.check engineMsg
    cases tx <;> simp only []
    rename_i m
    cases m <;> simp
  | ok w' =>
    simp only []
    cases tx
    case engine m =>
      cases m
      case liquidate v t lim =>
        refine c06_check w w' env s f v t lim _ hcfg.2.2.1 hs ?_ h
        intro hnz
        constructor
        · intro ht; subst ht; rw [(hncp v).1] at hnz; exact hnz rfl
        · intro ht; subst ht; rw [(hncp v).2] at hnz; exact hnz rfl
      all_goals (unfold C06.check engineMsg; simp only [])
    all_goals (unfold C06.check engineMsg; simp only [])

end Perp.Props.SatD
