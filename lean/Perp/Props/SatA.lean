/-
  SatA — the model's step satisfies Spec.C01, C02, C03, C08, C10, C18 (see Perp/Props/ModelStep.lean).
  Target shape of every theorem:   Spec.Cxx.check (modelStep w env s f tx) = []

  All six are proved, for every world, block, sender, funds and transaction.  C08 and C10 need `WF w` only.
  The others need, besides `WF w`, the hypotheses listed at each theorem; every one of them is a named
  definition (in `Perp/Props/SatA/*.lean`) whose doc comment says which clause needs it, and is either an
  invariant of reachable worlds with its preservation theorem, or a deployment / clock side condition:

    hypothesis            kind   defined in            preserved by `step`              needed (witness)
    VammKeysNodup w       (a)    SatA/C01W.lean        vammKeysNodup_step               Cex.c01_dup_witness
    Mirror.Inv w          (a)    MirrorInv.lean        MirrorP.inv_run                  (C02 itself)
    SnapInvW w            (a)    SatA/C18W.lean        snapInvW_step                    Cex.c18_inv_witness
    TradersAreUsers w     (a)    SatA/C03W.lean        tradersAreUsers_step             liquidation of a pool-held position
    ClockMono w env       (c)    SatA/C18W.lean        —                                Cex.c18_clock_witness
    WiredPools w          (b)    SatA/C03W.lean        — (⇐ ModelStep.Wired)            Cex.c03_ife_witness (ife)
    SenderNotEngine s     (b)    SatA/C02W.lean        — (⇐ ModelStep.UserSender)       Cex.c02_sender_witness
    Mirror.CurveRegular w (b)    MirrorInv.lean        —                                premise of MirrorP.inv_step
    NotRewireOrNodup w tx (b/a)  SatA/C02W.lean        — (⇐ Mirror.NotRewire tx)        premise of MirrorP.inv_step

  No clause of the six checks is false for the model under these hypotheses.
-/
import Perp.Model.World
import Perp.Spec.World
import Perp.Lemmas.Basic
import Perp.Props.ModelStep
import Perp.Props.Dispatch
import Perp.Props.EngineGuards
import Perp.Props.EngineMoney
import Perp.Props.WorldInv
import Perp.Props.CurveNoFlip
import Perp.Props.C01
import Perp.Props.C15
import Perp.Props.C17
import Perp.Props.C18
import Perp.Props.VammGuards
import Perp.Props.G9Restr
import Perp.Props.G9Perm
import Perp.Props.WorldMore
import Perp.Props.MirrorInv
import Perp.Props.SatA.Common
import Perp.Props.SatA.C10
import Perp.Props.SatA.VammLift
import Perp.Props.SatA.C01W
import Perp.Props.SatA.C18W
import Perp.Props.SatA.C03W
import Perp.Props.SatA.C02W
import Perp.Props.SatA.Witness

namespace Perp.Props.SatA
open Perp Perp.World Perp.Engine Perp.Spec Perp.Props.ModelStep

/-! ### C01 — every transaction is a conservative step for every vAMM -/

/-- Every change of a vAMM record inside a transaction is an accepted `Vamm.apply` call; `C01.apply_step` is
    lifted along the dispatcher (`VammLift.applyTx_VI`), `stepOk` being reflexive and transitive
    (`stepOk_trans`: several swaps may hit one vAMM).  Extra hypothesis: one record per vAMM address. -/
theorem sat_C01 (w : World) (env : Env) (s : Nat) (f : Funds) (tx : Tx) (_hwf : WF w)
    (hn : VammKeysNodup w) :
    Spec.C01.check (modelStep w env s f tx) = [] :=
  c01_sat w env s f tx hn

/-! ### C02 — positions mirror the vAMM's net position -/

/-- From `MirrorP.inv_step` (a failed transaction has post = pre).  `Mirror.Inv` contains `NoResidue`; the rest
    of `WF` is not used. -/
theorem sat_C02 (w : World) (env : Env) (s : Nat) (f : Funds) (tx : Tx) (_hwf : WF w)
    (hI : Mirror.Inv w) (hs : SenderNotEngine s) (hcr : Mirror.CurveRegular w) (hnr : NotRewireOrNodup w tx) :
    Spec.C02.check (modelStep w env s f tx) = [] :=
  c02_sat w env s f tx hI hs hcr hnr

/-- the same under the standard side conditions of `ModelStep` / `Mirror` -/
theorem sat_C02' (w : World) (env : Env) (s : Nat) (f : Funds) (tx : Tx) (hwf : WF w)
    (hI : Mirror.Inv w) (hs : UserSender w s) (hcr : Mirror.CurveRegular w) (hnr : Mirror.NotRewire tx) :
    Spec.C02.check (modelStep w env s f tx) = [] :=
  sat_C02 w env s f tx hwf hI (senderNotEngine_of_user hs) hcr (Or.inl hnr)

/-! ### C03 — collateral conserved, permitted recipients only -/

theorem sat_C03 (w : World) (env : Env) (s : Nat) (f : Funds) (tx : Tx) (hwf : WF w)
    (hwp : WiredPools w) (ht : TradersAreUsers w) :
    Spec.C03.check (modelStep w env s f tx) = [] := by
  rcases except_cases (applyTx w env s f tx) with ⟨e, h⟩ | ⟨w', h⟩
  · rw [modelStep_err h]
    unfold Spec.C03.check
    rw [chk_nil (by simp), chk_nil (by simp [Spec.W.bal])]
    cases tx <;> try rfl
    rename_i m
    cases m <;> rfl
  · rw [modelStep_ok h]
    unfold Spec.C03.check
    -- first sentence: the total
    have h1 : Spec.W.total w = Spec.W.total w' := by
      rw [total_cast, total_cast, (Dispatch.applyTx_total w w' env s f tx hwf.balNodup h).2]
    -- second sentence: everybody outside the permitted set
    have h2 := others_balance w w' env s f tx hwf hwp h
    rw [chk_nil (by simpa using h1)]
    rw [chk_nil]
    · -- third sentence: the liquidated trader
      cases tx <;> try rfl
      rename_i m
      cases m <;> try rfl
      rename_i v t l
      apply chk_nil
      by_cases hts : t = s
      · simp [hts]
      · have := liquidated_balance w w' env s f v t l hwf hwp ht hts h
        simp [Spec.W.bal, this]
    · rw [List.all_eq_true]
      intro a _
      by_cases hp : a ∈ permL w s tx
      · have e : Spec.C03.permitted
            { pre := w, post := w', env := env, sender := s, funds := f, tx := tx, ok := true,
              xfers := w'.log, residue := residue w'.engine } = permL w s tx := by
          cases tx <;> rfl
        have : (Spec.C03.permitted
            { pre := w, post := w', env := env, sender := s, funds := f, tx := tx, ok := true,
              xfers := w'.log, residue := residue w'.engine }).contains a = true := by
          rw [e]; simpa using hp
        rw [this, Bool.or_true]
      · simp [Spec.W.bal, h2 a hp]

/-- the same for a correctly wired deployment -/
theorem sat_C03' (w : World) (env : Env) (s : Nat) (f : Funds) (tx : Tx) (hwf : WF w)
    (hw : Wired w) (ht : TradersAreUsers w) :
    Spec.C03.check (modelStep w env s f tx) = [] :=
  sat_C03 w env s f tx hwf (wiredPools_of_wired hw) ht

/-! ### C08 — all-or-nothing, no in-flight residue -/

theorem sameWorld_refl (w : World) : Spec.W.sameWorld w w = true := by
  simp [Spec.W.sameWorld, Spec.W.sameEngineData]

theorem residue_false {e : E} (h : WorldInv.NoResidue e) : residue e = false := by
  obtain ⟨h1, h2, h3⟩ := h
  simp [residue, h1, h2, h3]

theorem sat_C08 (w : World) (env : Env) (s : Nat) (f : Funds) (tx : Tx) (hwf : WF w) :
    Spec.C08.check (modelStep w env s f tx) = [] := by
  rcases except_cases (applyTx w env s f tx) with ⟨e, h⟩ | ⟨w', h⟩
  · rw [modelStep_err h]
    have := residue_false (e := w.engine) hwf.noResidue
    simp [Spec.C08.check, Spec.W.chk, this, sameWorld_refl]
  · rw [modelStep_ok h]
    have := residue_false (WorldInv.noResidue_step w w' env s f tx hwf.noResidue h)
    simp [Spec.C08.check, Spec.W.chk, this]

/-! ### C10 — one account's transaction never alters another trader's position -/

/-- `Spec.C10.check` compares the filtered LISTS of stored records, so `WorldInv.others_untouched` (stated on
    `readPosition`) is re-done on `List.filter` in `SatA/C10.lean` (`C10.others_touchedL`). -/
theorem sat_C10 (w : World) (env : Env) (s : Nat) (f : Funds) (tx : Tx) (hwf : WF w) :
    Spec.C10.check (modelStep w env s f tx) = [] := by
  rcases except_cases (applyTx w env s f tx) with ⟨e, h⟩ | ⟨w', h⟩
  · rw [modelStep_err h]
    simp [Spec.C10.check, Spec.W.chk]
  · rw [modelStep_ok h]
    have := C10.others_touchedL w w' env s f tx hwf.noResidue h
    apply chk_nil
    exact beq_iff_eq.2 this.symm

/-! ### C18 — snapshot discipline of every vAMM after every transaction -/

/-- `C18.apply_snapInv` lifted along the dispatcher.  Extra hypotheses: the discipline held at the previous
    block (invariant) and the chain clock is monotone. -/
theorem sat_C18 (w : World) (env : Env) (s : Nat) (f : Funds) (tx : Tx) (_hwf : WF w)
    (hs : SnapInvW w) (hc : ClockMono w env) :
    Spec.C18.check (modelStep w env s f tx) = [] :=
  c18_sat w env s f tx hs hc

end Perp.Props.SatA
