/-
  Non-vacuity and sharpness of the per-transaction curve hypothesis `CurveTx.CurveRegularTx`
  (all evaluated by the kernel, through the monitors of `Perp/Spec/MonitorTx.lean` and their `…_iff` theorems).

  (a) `lowReg` — a market with a band at spot price 1/9 (`base > quote`, `fluct ≠ 0`) holding a normally sized
      short: `Mirror.CurveRegular` FAILS (so `Capstone.SideOK` fails for every transaction), `CurveRegularTx`
      HOLDS for an ordinary OpenPosition and for the ClosePosition — which the engine does turn into a partial
      close (the trigger of `PartialShortOK` fires, the hypothesis is not vacuously true), is accepted, and
      leaves a short: `Mirror.Inv` still holds, as `CurveTx.inv_run_tx` says.
  (b) `SatExtra.Witness.lowPrice` — a dust short (6 raw units) on a market at price 1/9: `CurveRegularTx` FAILS
      for the ClosePosition (exactly its partial-close conjunct: the re-quote is 8 > 6), every other hypothesis
      of `CurveTx.inv_run_tx` holds, and the step BREAKS `Mirror.SignDir` (the position flips to +2 and keeps
      direction `removeFromAmm`): the hypothesis cannot be dropped.
  (c) `d0 → d1 → d2 → d3` — a DEPLOYMENT (`Capstone.Deployed d0`) of such a low-priced market, two sells and a
      ClosePosition that takes the partial path: `SideOKTx` holds at each step, so `d2`, `d3` are `ReachableTx`
      and `CapstoneTx.reachable_sat_tx` applies to the partial close; `Capstone.SideOK` fails at EVERY step of
      this history (the old capstone says nothing about it).
-/
import Perp.Props.MonitorTxSound
import Perp.Props.SatExtra

namespace Perp.Props.CurveTxWitness
open Perp Perp.World Perp.Engine Perp.Spec Perp.Props.ModelStep
open Perp.Props.SatEWitness (D world eng vamm)
open Perp.Props.SatExtra.Witness (lowPrice close10)
open Perp.Props.CurveTx Perp.Props.CapstoneTx Perp.Props.MonitorTxSound Perp.Props.MonitorSound

def f0 : Funds := ⟨0, false⟩

/-! ## (a) a low-priced market with a band, a normally sized short -/

/-- reserves 1000 quote / 9000 base (spot price 1/9), fluctuation limit 0.1 %, partial-close ratio 50 %;
    user 100 holds a short of 90 base (open notional 10, margin 20) -/
def lowReg : World :=
  world (eng false (5 * 10^4) (50 * 10^4)
      [⟨10, 100, .removeFromAmm, Integer.newNegative (90 * D), 20 * D, 10 * D, Integer.zero, 1⟩])
    (vamm (1000 * D) (9000 * D) (10^3) 1800 (Integer.newNegative (90 * D)))

/-- an ordinary order: sell 0.5 of notional -/
def openS : Tx := .engine (.openPosition 10 .sell (1 * D / 2) (1 * D) 0)

/-- the global hypothesis fails on `lowReg` … -/
theorem lowReg_not_curveRegular : ¬ Mirror.CurveRegular lowReg :=
  fun h => absurd ((curveB_iff lowReg).2 h) (by decide +kernel)

/-- … hence so does `Capstone.SideOK`, for every block, sender, funds and transaction -/
theorem lowReg_not_sideOK (env : Env) (s : Nat) (f : Funds) (tx : Tx) : ¬ Capstone.SideOK lowReg env s f tx :=
  fun h => lowReg_not_curveRegular h.curve

set_option maxRecDepth 100000 in
/-- the per-transaction hypothesis holds for the ordinary order and for the ClosePosition -/
theorem lowReg_curveRegularTx :
    CurveRegularTx lowReg ⟨2, 1000⟩ 100 openS ∧ CurveRegularTx lowReg ⟨2, 1000⟩ 100 close10 :=
  ⟨(curveTxB_iff _ _ _ _).1 (by decide +kernel), (curveTxB_iff _ _ _ _).1 (by decide +kernel)⟩

set_option maxRecDepth 100000 in
/-- all the per-transaction side conditions hold for both, and `lowReg` satisfies every invariant -/
theorem lowReg_sideOKTx :
    SideOKTx lowReg ⟨2, 1000⟩ 100 f0 openS ∧ SideOKTx lowReg ⟨2, 1000⟩ 100 f0 close10 ∧ Capstone.AllInv lowReg :=
  ⟨(sideTx_iff _ _ _ _ _).1 (by decide +kernel), (sideTx_iff _ _ _ _ _).1 (by decide +kernel),
   (allInv_iff _).1 (by decide +kernel)⟩

set_option maxRecDepth 100000 in
/-- the hypothesis is not vacuously true on the ClosePosition: the engine DOES take the partial path of a short
    (the trigger fires; the vAMM re-quotes 45.000003 base for the notional of the 45 base to close, at most the
    90 base held); the transaction is accepted and leaves a short of 44.999997; both orders are accepted -/
theorem lowReg_partial_path :
    MonitorTx.partialShortTrigger lowReg ⟨2, 1000⟩ 100 10 = true
    ∧ MonitorTx.partialShortRequote lowReg ⟨2, 1000⟩ 100 10 = .ok 45000003
    ∧ (modelStep lowReg ⟨2, 1000⟩ 100 f0 close10).ok = true
    ∧ (step lowReg ⟨2, 1000⟩ 100 f0 close10).engine.positions
        = [⟨10, 100, .removeFromAmm, Integer.newNegative 44999997, 19949495, 5025379, Integer.zero, 2⟩]
    ∧ (modelStep lowReg ⟨2, 1000⟩ 100 f0 openS).ok = true := by decide +kernel

/-- the invariants survive the partial close: an instance of `CapstoneTx.allInv_step_tx` with every hypothesis
    discharged (the old `Capstone.allInv_step` does not apply: `lowReg_not_sideOK`) -/
theorem lowReg_allInv_after : Capstone.AllInv (step lowReg ⟨2, 1000⟩ 100 f0 close10) :=
  allInv_step_tx lowReg_sideOKTx.2.2 lowReg_sideOKTx.2.1

/-- … and so does the capstone's conclusion for that step -/
theorem lowReg_sat :
    ∀ pc ∈ Spec.allChecks (modelStep lowReg ⟨2, 1000⟩ 100 f0 close10), ∀ tag ∈ pc.2, tag ∈ Capstone.knownTags :=
  allInv_sat_tx lowReg_sideOKTx.2.2 lowReg_sideOKTx.2.1

/-! ## (b) a dust short: the hypothesis fails and `SignDir` breaks -/

set_option maxRecDepth 100000 in
/-- on `lowPrice` (a short of 6 raw units at price 1/9) the per-transaction hypothesis FAILS for the
    ClosePosition — and only its partial-close conjunct does: the reserves hold a whole unit, the trigger fires,
    the re-quote is 8 > 6.  (For any transaction that is not that ClosePosition it holds.) -/
theorem lowPrice_not_curveRegularTx :
    ¬ CurveRegularTx lowPrice ⟨2, 1000⟩ 100 close10
    ∧ UnitReserves lowPrice
    ∧ ¬ PartialShortOK lowPrice ⟨2, 1000⟩ 100 10
    ∧ MonitorTx.partialShortTrigger lowPrice ⟨2, 1000⟩ 100 10 = true
    ∧ MonitorTx.partialShortRequote lowPrice ⟨2, 1000⟩ 100 10 = .ok 8
    ∧ CurveRegularTx lowPrice ⟨2, 1000⟩ 100 (.engine (.openPosition 10 .sell 1 D 0)) := by
  refine ⟨fun h => absurd ((curveTxB_iff _ _ _ _).2 h) (by decide +kernel),
    (unitReservesB_iff _).1 (by decide +kernel),
    fun h => absurd ((partialShortB_iff _ _ _ _).2 h) (by decide +kernel),
    by decide +kernel, by decide +kernel, (curveTxB_iff _ _ _ _).1 (by decide +kernel)⟩

set_option maxRecDepth 100000 in
/-- every OTHER hypothesis of `CurveTx.inv_run_tx` holds there (indeed every invariant, and every other side
    condition: the monitor's only complaint is the partial-close conjunct) … -/
theorem lowPrice_other_hyps :
    Mirror.Inv lowPrice ∧ (100 : Nat) ≠ ENGINE ∧ Mirror.NotRewire close10 ∧ Capstone.AllInv lowPrice
    ∧ MonitorTx.sideFailsTx lowPrice ⟨2, 1000⟩ 100 f0 close10 = ["curveTx:partialShort"] :=
  ⟨(mirrorB_iff _).1 (by decide +kernel), by decide, trivial, (allInv_iff _).1 (by decide +kernel), by decide +kernel⟩

set_option maxRecDepth 100000 in
/-- … and the step BREAKS the sign/direction agreement: the accepted partial close flips the position from −6 to
    +2 while it keeps direction `removeFromAmm` -/
theorem lowPrice_breaks_signDir :
    (modelStep lowPrice ⟨2, 1000⟩ 100 f0 close10).ok = true
    ∧ (step lowPrice ⟨2, 1000⟩ 100 f0 close10).engine.positions
        = [⟨10, 100, .removeFromAmm, Integer.newPositive 2, 30, 33, Integer.zero, 2⟩]
    ∧ ¬ Mirror.SignDir (step lowPrice ⟨2, 1000⟩ 100 f0 close10).engine
    ∧ ¬ Mirror.Inv (step lowPrice ⟨2, 1000⟩ 100 f0 close10) := by
  have hsd : ¬ Mirror.SignDir (step lowPrice ⟨2, 1000⟩ 100 f0 close10).engine :=
    fun h => absurd ((signDirB_iff _).2 h) (by decide +kernel)
  exact ⟨by decide +kernel, by decide +kernel, hsd, fun h => hsd h.1.2.1⟩

/-- **sharpness**: the curve hypothesis of `CurveTx.inv_run_tx` cannot be dropped, nor weakened to
    `UnitReserves` -/
theorem inv_run_needs_partialShort :
    ¬ (∀ (w : World) (env : Env) (s : Nat) (f : Funds) (tx : Tx),
        Mirror.Inv w → s ≠ ENGINE → Mirror.NotRewire tx → UnitReserves w → Mirror.Inv (step w env s f tx)) :=
  fun H => lowPrice_breaks_signDir.2.2.2
    (H lowPrice ⟨2, 1000⟩ 100 f0 close10 lowPrice_other_hyps.1 lowPrice_other_hyps.2.1 trivial
      lowPrice_not_curveRegularTx.2.1)

/-! ## (c) a deployment of a low-priced market: a history the old capstone does not cover -/

/-- a fresh deployment: reserves 1000 quote / 9000 base (price 1/9), fluctuation limit 0.1 %, ratio 50 % -/
def d0 : World := world (eng false (5 * 10^4) (50 * 10^4) []) (vamm (1000 * D) (9000 * D) (10^3) 1800 Integer.zero)

/-- sell 0.4 of notional (moves the price by less than the band) -/
def sell1 : Tx := .engine (.openPosition 10 .sell (4 * D / 10) (1 * D) 0)

def d1 : World := step d0 ⟨2, 1000⟩ 100 f0 sell1
def d2 : World := step d1 ⟨3, 2000⟩ 100 f0 sell1
def d3 : World := step d2 ⟨4, 3000⟩ 100 f0 close10

theorem d0_deployed : Capstone.Deployed d0 := (deployed_iff d0).1 (by decide +kernel)

set_option maxRecDepth 100000 in
/-- the per-transaction side conditions hold at each of the three steps -/
theorem d_sideOKTx :
    SideOKTx d0 ⟨2, 1000⟩ 100 f0 sell1 ∧ SideOKTx d1 ⟨3, 2000⟩ 100 f0 sell1 ∧ SideOKTx d2 ⟨4, 3000⟩ 100 f0 close10 :=
  ⟨(sideTx_iff _ _ _ _ _).1 (by decide +kernel), (sideTx_iff _ _ _ _ _).1 (by decide +kernel),
   (sideTx_iff _ _ _ _ _).1 (by decide +kernel)⟩

set_option maxRecDepth 100000 in
/-- the old side conditions fail at EVERY step (for every transaction): the market's price is below 1 -/
theorem d_not_sideOK (env : Env) (s : Nat) (f : Funds) (tx : Tx) :
    ¬ Capstone.SideOK d0 env s f tx ∧ ¬ Capstone.SideOK d1 env s f tx ∧ ¬ Capstone.SideOK d2 env s f tx :=
  ⟨fun h => absurd ((curveB_iff d0).2 h.curve) (by decide +kernel),
   fun h => absurd ((curveB_iff d1).2 h.curve) (by decide +kernel),
   fun h => absurd ((curveB_iff d2).2 h.curve) (by decide +kernel)⟩

theorem d1_reachable : ReachableTx d1 := ReachableTx.step (ReachableTx.init d0_deployed) d_sideOKTx.1
theorem d2_reachable : ReachableTx d2 := ReachableTx.step d1_reachable d_sideOKTx.2.1
theorem d3_reachable : ReachableTx d3 := ReachableTx.step d2_reachable d_sideOKTx.2.2

set_option maxRecDepth 100000 in
/-- all three transactions are accepted; the ClosePosition takes the partial path of a short (closing the 7.2
    base whole would leave the 0.1 % band): the trigger fires, the re-quote 3.602891 is at most 7.205766, the
    stored short shrinks to 3.602875 -/
theorem d_history :
    (modelStep d0 ⟨2, 1000⟩ 100 f0 sell1).ok = true ∧ (modelStep d1 ⟨3, 2000⟩ 100 f0 sell1).ok = true
    ∧ (modelStep d2 ⟨4, 3000⟩ 100 f0 close10).ok = true
    ∧ MonitorTx.partialShortTrigger d2 ⟨4, 3000⟩ 100 10 = true
    ∧ MonitorTx.partialShortRequote d2 ⟨4, 3000⟩ 100 10 = .ok 3602891
    ∧ d2.engine.positions = [⟨10, 100, .removeFromAmm, Integer.newNegative 7205766, 800000, 800000, Integer.zero, 3⟩]
    ∧ d3.engine.positions = [⟨10, 100, .removeFromAmm, Integer.newNegative 3602875, 800000, 400159, Integer.zero, 4⟩] := by
  decide +kernel

/-- **an instance of `reachable_sat_tx` with every hypothesis discharged**, on a step outside the domain of
    `Capstone.reachable_sat` -/
theorem d2_instance :
    ∀ pc ∈ Spec.allChecks (modelStep d2 ⟨4, 3000⟩ 100 f0 close10), ∀ tag ∈ pc.2, tag ∈ Capstone.knownTags :=
  reachable_sat_tx d2 d2_reachable _ _ _ _ d_sideOKTx.2.2

/-- the invariants hold after the partial close (`reachable_allInv_tx`) -/
theorem d3_allInv : Capstone.AllInv d3 := reachable_allInv_tx d3_reachable

end Perp.Props.CurveTxWitness
