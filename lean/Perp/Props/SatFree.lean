/-
  C12 (fee-free operations) and C04 (insurance-fund clause) for `DepositMargin`, `WithdrawMargin`,
  `PayFunding`, `Liquidate`: no log entry touches the fee pool; a margin withdrawal draws on the
  insurance fund exactly what it books as pre-paid bad debt.
-/
import Perp.Props.SatClose
import Perp.Props.G9Perm

namespace Perp.Props.SatFree
open Perp Perp.World Perp.Engine
open Perp.Props.TxLog Perp.Props.TxMoney Perp.Props.TxFlow
open Perp.Props.MirrorP (AllCE IsColl CE)
open Perp.Props.G9Perm (MP All ends)
open Perp.Props.EngineGuards (Post)

theorem tot_zero (P : Xf → Bool) (L : List Xf) (h : ∀ x ∈ L, P x = false) : tot P L = 0 := by
  induction L with
  | nil => rfl
  | cons x L ih =>
    rw [tot_cons, h x (List.mem_cons_self), ih (fun y hy => h y (List.mem_cons_of_mem _ hy))]
    rfl

/-- no entry of the log touches the fee pool -/
def NoFP (L : List Xf) : Prop := toFP L = 0 ∧ frFP L = 0

theorem NoFP_of_Is {L : List Xf} {c d : Int} {n : Nat} (h : Is L 0 0 c d n) : NoFP L := ⟨h.1, h.2.1⟩

theorem NoFP_append {A B : List Xf} (h1 : NoFP A) (h2 : NoFP B) : NoFP (A ++ B) := by
  unfold NoFP toFP frFP at *
  rw [tot_append, tot_append, h1.1, h1.2, h2.1, h2.2]
  exact ⟨rfl, rfl⟩

theorem NoFP_all (L : List Xf) (h : ∀ x ∈ L, x.1 ≠ FEEPOOL ∧ x.2.1 ≠ FEEPOOL) : NoFP L := by
  constructor
  · apply tot_zero
    intro x hx
    simpa using (h x hx).2
  · apply tot_zero
    intro x hx
    simpa using (h x hx).1

/-- the entry of a collateral message keeps away from the fee pool when its endpoints do -/
theorem xf_ends (m : Msg) (hm : IsColl m) (he : ∀ a ∈ ends m, a ≠ FEEPOOL) :
    (xf m).1 ≠ FEEPOOL ∧ (xf m).2.1 ≠ FEEPOOL := by
  cases m with
  | vammSwapInput a d x l g => cases hm
  | vammSwapOutput a d x l => cases hm
  | vammSettle a => cases hm
  | vammSetOpen a o => cases hm
  | tokenTransfer to n => exact ⟨(by decide : ENGINE ≠ FEEPOOL), he to (by simp [ends])⟩
  | bankSend to n => exact ⟨(by decide : ENGINE ≠ FEEPOOL), he to (by simp [ends])⟩
  | tokenTransferFrom o to n => exact ⟨he o (by simp [ends]), he to (by simp [ends])⟩
  | ifWithdraw n => exact ⟨(by decide : IFUND ≠ FEEPOOL), (by decide : ENGINE ≠ FEEPOOL)⟩

theorem NoFP_of_mp (msgs : List SubMsg) (hce : AllCE msgs) (hmp : All (MP (fun a => a ≠ FEEPOOL)) msgs) :
    NoFP (ents msgs) := by
  apply NoFP_all
  intro x hx
  unfold ents at hx
  rw [List.mem_map] at hx
  obtain ⟨m, hm, rfl⟩ := hx
  exact xf_ends m.msg (hce m hm).2 (hmp m hm)

theorem NoFP_funds (n : Bool) (s : Nat) (f : Funds) (hs : Outside s) : NoFP (fundsLog n s f) :=
  NoFP_of_Is (Is_funds n s f hs)

/-! ### deposit, withdraw -/

theorem depositMargin_st (e : E) (env : Env) (s : Nat) (f : Funds) (v a : Nat) :
    Post (fun r => r.1.st = e.st) (depositMargin e env s f v a) := by
  unfold depositMargin
  post_walk [rfl]

theorem deposit_facts (w w' : World) (env : Env) (s : Nat) (f : Funds) (v a : Nat) (hs : Outside s)
    (h : applyTx w env s f (.engine (.depositMargin v a)) = .ok w') :
    Is w'.log 0 0 0 0 0 ∧ w'.engine.st.prepaid = w.engine.st.prepaid := by
  obtain ⟨w1, e1, subs, he, henv, hv, hi, hlog, _, hex, hrun⟩ := tx_decomp w w' env s f _ h
  have hex' : depositMargin w1.engine env s f v a = .ok (e1, subs) := hex
  have hst := (depositMargin_st _ _ _ _ _ _) _ hex'
  obtain ⟨_, _, _, hn, hc⟩ := EngineMoney.depositMargin_spec _ _ _ _ _ _ _ _ hex'
  have hIfu := Is_funds w.engine.cfg.native s f hs
  rw [← hlog] at hIfu
  have hce : AllCE subs := ((MirrorP.depositMargin_inv _ _ _ _ _ _) _ hex').2.2
  obtain ⟨hsame, hlogW⟩ := run_CE_all subs FUEL _ w' hce hrun
  refine ⟨?_, ?_⟩
  · rw [hlogW]
    show Is (w1.log ++ ents subs) _ _ _ _ _
    have : Is (ents subs) 0 0 0 0 0 := by
      cases hnat : w1.engine.cfg.native
      · rw [hc hnat, ents_single, xf_transferFromMsg, hnat]
        exact Is_plain _ _ _ hs.2.2 (by decide) hs.2.1 (by decide)
      · rw [(hn hnat).1]
        exact Is_nil
    exact Is_cast (Is_append hIfu this) rfl rfl rfl rfl rfl
  · rw [hsame.engine]
    show e1.st.prepaid = _
    rw [hst, he]

theorem withdraw_facts (w w' : World) (env : Env) (s : Nat) (f : Funds) (v a : Nat) (hs : Outside s)
    (h : applyTx w env s f (.engine (.withdrawMargin v a)) = .ok w') :
    ∃ sf : Nat, Is w'.log 0 0 0 sf 0 ∧ w'.engine.st.prepaid = w.engine.st.prepaid + sf := by
  obtain ⟨w1, e1, subs, he, henv, hv, hi, hlog, _, hex, hrun⟩ := tx_decomp w w' env s f _ h
  have hex' : withdrawMargin w1.q w1.engine env s v a = .ok (e1, subs) := hex
  obtain ⟨rm, fc, st1, _, _, _, _, hwd, _, _⟩ := EngineMoney.withdrawMargin_spec _ _ _ _ _ _ _ _ hex'
  obtain ⟨sf, hpp, hm⟩ := withdraw_shape _ _ _ _ _ _ _ _ hwd
  have hst : e1.st = st1 := by
    unfold withdrawMargin at hex'
    peel hex' as u0, h0
    peel hex' as u1, h1
    peel hex' as u2, h2
    simp only [] at hex'
    peel hex' as rm', hrm'
    split at hex'
    · cases hex'
    peel hex' as fc', hfc'
    peel hex' as d', hd'
    split at hex'
    · cases hex'
    peel hex' as x, hw
    rw [EngineMoney.unwrap_ok, hwd] at hw
    cases hw
    simp only [pure_ok_iff] at hex'
    injection hex' with h1 h2
    rw [← h1]
  have hIfu := Is_funds w.engine.cfg.native s f hs
  rw [← hlog] at hIfu
  have hce : AllCE subs := ((MirrorP.withdrawMargin_inv _ _ _ _ _ _) _ hex').2.2
  obtain ⟨hsame, hlogW⟩ := run_CE_all subs FUEL _ w' hce hrun
  refine ⟨sf, ?_, ?_⟩
  · rw [hlogW, hm]
    exact Is_cast (Is_append hIfu (Is_wd _ _ _ _ hs)) rfl rfl rfl (by omega) rfl
  · rw [hsame.engine]
    show e1.st.prepaid = _
    rw [hst, hpp, he]

/-! ### funding, liquidation -/

theorem A_engine : (fun a => a ≠ FEEPOOL) ENGINE_ADDR := by decide
theorem A_ifund : (fun a => a ≠ FEEPOOL) IFUND := by decide

theorem payFunding_facts (w w' : World) (env : Env) (s : Nat) (f : Funds) (v : Nat)
    (hp : PoolsWired w) (hs : Outside s)
    (h : applyTx w env s f (.engine (.payFunding v)) = .ok w') : NoFP w'.log := by
  obtain ⟨w1, e1, subs, he, henv, hv, hi, hlog, _, hex, hrun⟩ := tx_decomp w w' env s f _ h
  have hex' : payFunding w1.q w1.engine v = .ok (e1, subs) := hex
  obtain ⟨rfl, rfl⟩ := (WorldInv.payFunding_frame _ _ _) _ hex'
  obtain ⟨f1, w2, ev, e2, subs2, hx, hr, hrun2⟩ := swap_reply FUEL _ w' _ rfl hrun
  have hx' : execMsg f1 { w1 with engine := w1.engine } ENGINE (.vammSettle v) = .ok (w2, ev) := hx
  obtain ⟨x, x', pf, _, _, rfl, rfl⟩ := MirrorP.execMsg_settle_inv _ _ _ _ _ _ hx'
  have h' : payFundingReply (({ w1 with engine := w1.engine } : World).setVamm v x').q w1.engine w1.env pf v
      = .ok (e2, subs2) := hr
  have hce : AllCE subs2 := ((MirrorP.payFundingReply_eff _ _ _ _ _) _ h').2
  have hmp := (G9Perm.payFundingReply_mp (fun a => a ≠ FEEPOOL) A_engine A_ifund _ _ _ _ _
    (by rw [he, hp.1]; decide)) _ h'
  obtain ⟨hsame, hlogW⟩ := run_CE_all subs2 f1 _ w' hce hrun2
  rw [hlogW]
  show NoFP (w1.log ++ ents subs2)
  rw [hlog]
  exact NoFP_append (NoFP_funds _ _ _ hs) (NoFP_of_mp _ hce hmp)

theorem liquidate_facts (w w' : World) (env : Env) (s : Nat) (f : Funds) (v t lim : Nat)
    (hp : PoolsWired w) (hs : Outside s)
    (h : applyTx w env s f (.engine (.liquidate v t lim)) = .ok w') : NoFP w'.log := by
  obtain ⟨w1, e1, subs, he, henv, hv, hi, hlog, _, hex, hrun⟩ := tx_decomp w w' env s f _ h
  have hex' : liquidate w1.q w1.engine env s v t lim = .ok (e1, subs) := hex
  obtain ⟨_, ⟨tmp, htmp, _⟩, _, hliq, _⟩ := (WorldInv.liquidate_frame _ _ _ _ _ _ _) _ hex'
  obtain ⟨_, hcfg, _, _, _, _, _, hshape⟩ := (MirrorP.liquidate_inv _ _ _ _ _ _ _) _ hex'
  simp only [] at htmp hliq hcfg hshape
  have hsw : ({ w1 with engine := e1 } : World).engine.tmpSwap = some tmp := htmp
  have hl : ∀ l, e1.tmpLiq = some l → l ≠ FEEPOOL := by
    intro l hh
    rw [hliq] at hh
    cases hh
    exact hs.2.2
  have hif : e1.cfg.insuranceFund ≠ FEEPOOL := by rw [hcfg, he, hp.1]; decide
  rcases hshape with rfl | ⟨ps, pl, rfl, _⟩
  · obtain ⟨f1, w2, ev, e2, subs2, hx, hr, hrun2⟩ := swap_reply FUEL _ w' _ rfl hrun
    have hx' : execMsg f1 { w1 with engine := e1 } ENGINE
        (.vammSwapOutput (readPosition w1.engine v t).vamm
          (sideToDirection (directionToSide (readPosition w1.engine v t).direction))
          (readPosition w1.engine v t).size.value lim) = .ok (w2, ev) := hx
    obtain ⟨x, x', qq, _, rfl, _, rfl, _, _⟩ := swapOut_exec _ _ _ _ _ _ _ _ hx'
    have h' : liquidateReply (({ w1 with engine := e1 } : World).setVamm _ x').q e1 w1.env qq = .ok (e2, subs2) := hr
    have hce : AllCE subs2 := ((MirrorP.liquidateReply_eff _ _ _ _ tmp hsw) _ h').2
    have hmp := (G9Perm.liquidateReply_mp (fun a => a ≠ FEEPOOL) A_engine A_ifund _ _ _ _ hl hif) _ h'
    obtain ⟨hsame, hlogW⟩ := run_CE_all subs2 f1 _ w' hce hrun2
    rw [hlogW]
    show NoFP (w1.log ++ ents subs2)
    rw [hlog]
    exact NoFP_append (NoFP_funds _ _ _ hs) (NoFP_of_mp _ hce hmp)
  · obtain ⟨f1, w2, ev, e2, subs2, hx, hr, hrun2⟩ := swap_reply FUEL _ w' _ rfl hrun
    have hx' : execMsg f1 { w1 with engine := e1 } ENGINE
        (.vammSwapOutput v (sideToDirection (directionToSide (readPosition w1.engine v t).direction)) ps pl)
        = .ok (w2, ev) := hx
    obtain ⟨x, x', qq, _, rfl, _, rfl, _, _⟩ := swapOut_exec _ _ _ _ _ _ _ _ hx'
    have h' : partialLiquidationReply (({ w1 with engine := e1 } : World).setVamm _ x').q e1 w1.env ps qq
        = .ok (e2, subs2) := hr
    have hce : AllCE subs2 := ((MirrorP.partialLiquidationReply_eff _ _ _ _ _ tmp hsw) _ h').2
    have hmp := (G9Perm.partialLiquidationReply_mp (fun a => a ≠ FEEPOOL) A_engine A_ifund _ _ _ _ _ hl hif) _ h'
    obtain ⟨hsame, hlogW⟩ := run_CE_all subs2 f1 _ w' hce hrun2
    rw [hlogW]
    show NoFP (w1.log ++ ents subs2)
    rw [hlog]
    exact NoFP_append (NoFP_funds _ _ _ hs) (NoFP_of_mp _ hce hmp)

end Perp.Props.SatFree
