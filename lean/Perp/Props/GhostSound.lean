/-
  GhostSound — the ghost reserve snapshots of `Perp/Spec/Ghost.lean` on the model.

  * `next_tracks_swapIn / swapOut / other / rejected`: when the ghost history equals the stored one before a model step, it
    equals the stored one after it.  `run_tracks`: along any sequence of model operations the ghost history started at the
    first state is the stored history of the last.
  * `bandCheck_quiet_swapIn / swapOut`: the clause is quiet on every swap the model accepts (and trivially on everything it
    rejects): it can only fire on code that differs from the model.
  * `Witness`: kernel-evaluated — a state whose STORED history was re-centred (seed C15-aa) while the ghost history was not:
    `bandCheck` on the stored history is quiet, on the ghost history it fires.
-/
import Perp.Spec.Ghost
import Perp.Props.C15Band

namespace Perp.Props.GhostSound
open Perp Perp.Vamm Perp.Spec Perp.Spec.Ghost Perp.Props.C15B

@[simp] theorem withSnaps_self (v : V) : withSnaps v v.st.snaps = v := by
  cases v; rfl

theorem next_rejected (g : List Snapshot) (pre post : V) (env : Env) (op : GOp) :
    next g pre post env false op = g := by
  simp [next]

theorem next_tracks_swapIn (pre post : V) (env : Env) (snd : Nat) (dir : Direction) (amt lim : Nat) (cgo : Bool)
    (o : SwapOut) (h : swapInput pre env snd dir amt lim cgo = .ok (post, o)) (obs : V) :
    next pre.st.snaps pre obs env true (.swapIn snd dir amt lim cgo) = post.st.snaps := by
  simp [next, h]

theorem next_tracks_swapOut (pre post : V) (env : Env) (snd : Nat) (dir : Direction) (amt lim : Nat)
    (o : SwapOut) (h : swapOutput pre env snd dir amt lim = .ok (post, o)) (obs : V) :
    next pre.st.snaps pre obs env true (.swapOut snd dir amt lim) = post.st.snaps := by
  simp [next, h]

theorem next_tracks_other (pre post : V) (env : Env) (ok : Bool) (hrej : ok = false → post = pre) :
    next pre.st.snaps pre post env ok .other = post.st.snaps := by
  cases ok with
  | false => simp [next, hrej rfl]
  | true =>
    simp only [next, Bool.not_true, Bool.false_eq_true, if_false]
    split
    · rename_i hh; exact (eq_of_beq hh).symm
    · rfl

/-- one model operation of the vAMM stream, with its result -/
inductive MStep (env : Env) : V → GOp → Bool → V → Prop where
  | swapInOk (pre post snd dir amt lim cgo o) (h : swapInput pre env snd dir amt lim cgo = .ok (post, o)) :
      MStep env pre (.swapIn snd dir amt lim cgo) true post
  | swapOutOk (pre post snd dir amt lim o) (h : swapOutput pre env snd dir amt lim = .ok (post, o)) :
      MStep env pre (.swapOut snd dir amt lim) true post
  | rejected (pre op) : MStep env pre op false pre
  | other (pre post) : MStep env pre .other true post

theorem next_tracks (env : Env) (pre post : V) (op : GOp) (ok : Bool) (h : MStep env pre op ok post) :
    next pre.st.snaps pre post env ok op = post.st.snaps := by
  cases h with
  | swapInOk _ _ _ _ _ _ _ h => exact next_tracks_swapIn _ _ _ _ _ _ _ _ _ h _
  | swapOutOk _ _ _ _ _ _ h => exact next_tracks_swapOut _ _ _ _ _ _ _ _ h _
  | rejected => exact next_rejected _ _ _ _ _
  | other => exact next_tracks_other _ _ _ true (by intro h; cases h)

/-- a history of model operations, each in its own block environment -/
inductive MRun : V → List (Env × GOp × Bool × V) → V → Prop where
  | nil (v) : MRun v [] v
  | cons (v env op ok w rest z) (h : MStep env v op ok w) (t : MRun w rest z) : MRun v ((env, op, ok, w) :: rest) z

/-- the ghost history folded along the observations -/
def foldGhost (g : List Snapshot) (v : V) : List (Env × GOp × Bool × V) → List Snapshot
  | [] => g
  | (env, op, ok, w) :: rest => foldGhost (next g v w env ok op) w rest

theorem run_tracks (v z : V) (obs : List (Env × GOp × Bool × V)) (h : MRun v obs z) :
    foldGhost v.st.snaps v obs = z.st.snaps := by
  induction h with
  | nil => rfl
  | cons v env op ok w rest z hs _ ih =>
    simp only [foldGhost]
    rw [next_tracks env v w op ok hs]
    exact ih

theorem bandCheck_quiet_swapIn (pre post : V) (env : Env) (snd : Nat) (dir : Direction) (amt lim : Nat) (cgo : Bool)
    (o : SwapOut) (h : swapInput pre env snd dir amt lim cgo = .ok (post, o)) :
    bandCheck pre.cfg.decimals pre.st.snaps pre post env true (.swapIn snd dir amt lim cgo) = [] := by
  unfold bandCheck
  by_cases hf : pre.cfg.fluct = 0
  · simp [hf]
  · have hf' : (pre.cfg.fluct == 0) = false := by simpa using hf
    simp only [hf', GOp.isSwap, Bool.not_true, Bool.or_false, Bool.false_eq_true, if_false]
    cases hb : C15.band pre.cfg.decimals pre.cfg.fluct pre.st.snaps env.height with
    | none => rfl
    | some bd =>
      obtain ⟨ba, hu⟩ := swapInput_ok _ _ _ _ _ _ _ _ _ h
      obtain ⟨hc, hq, hbb⟩ := updateReserve_ok _ _ _ _ _ _ _ hu
      obtain ⟨_, hin, hpost⟩ := checkFluctuation_band _ _ _ _ _ _ hf bd hb hc
      cases cgo with
      | true => simp [chk, hin]
      | false =>
        have := hpost rfl
        rw [← hq, ← hbb] at this
        simp [chk, hin, this]

theorem bandCheck_quiet_swapOut (pre post : V) (env : Env) (snd : Nat) (dir : Direction) (amt lim : Nat)
    (o : SwapOut) (h : swapOutput pre env snd dir amt lim = .ok (post, o)) :
    bandCheck pre.cfg.decimals pre.st.snaps pre post env true (.swapOut snd dir amt lim) = [] := by
  unfold bandCheck
  by_cases hf : pre.cfg.fluct = 0
  · simp [hf]
  · have hf' : (pre.cfg.fluct == 0) = false := by simpa using hf
    simp only [hf', GOp.isSwap, Bool.not_true, Bool.or_false, Bool.false_eq_true, if_false]
    cases hb : C15.band pre.cfg.decimals pre.cfg.fluct pre.st.snaps env.height with
    | none => rfl
    | some bd =>
      have hin := swapOutput_started_inside _ _ _ _ _ _ _ o hf bd hb h
      simp [chk, hin]

/-- the clause is quiet on every step of the model -/
theorem bandCheck_quiet (env : Env) (pre post : V) (op : GOp) (ok : Bool) (h : MStep env pre op ok post) :
    bandCheck pre.cfg.decimals pre.st.snaps pre post env ok op = [] := by
  cases h with
  | swapInOk _ _ _ _ _ _ _ h => exact bandCheck_quiet_swapIn _ _ _ _ _ _ _ _ _ h
  | swapOutOk _ _ _ _ _ _ h => exact bandCheck_quiet_swapOut _ _ _ _ _ _ _ _ h
  | rejected => simp [bandCheck]
  | other => simp [bandCheck, GOp.isSwap]

namespace Witness

def cfgW : Config := { (default : Config) with decimals := 1000000, fluct := 10000, marginEngine := 7 }
/-- block 11; the reserves moved from 1000 : 100 (end of block 10) to 1100 : 91 inside block 11 -/
def storedRecentred : List Snapshot := [⟨1100000000, 91000000, 50, 10⟩]   -- what the C15-aa defect leaves: block 10's snapshot overwritten
def ghostW : List Snapshot := [⟨1000000000, 100000000, 50, 10⟩]           -- what the model wrote at the end of block 10
def preW : V := { cfg := cfgW, st := { (default : State) with isOpen := true, quote := 1100000000, base := 91000000, snaps := storedRecentred } }
def envW : Env := ⟨11, 60⟩
def opW : GOp := .swapOut 7 .addToAmm 1000000 0

/-- judged against the stored (re-centred) history the accepted swap is fine … -/
example : (bandCheck 1000000 preW.st.snaps preW preW envW true opW).length = 0 := by decide
/-- … judged against the ghost history it started outside the band: the clause is not vacuous -/
example : (bandCheck 1000000 ghostW preW preW envW true opW).length = 1 := by decide
/-- and the ghost history does not follow a stored history that changed without the model's step accepting the swap:
    on an operation the model (run on the ghost) rejects, it falls back to the observation -/
example : next ghostW preW preW envW false opW = ghostW := by decide

end Witness

end Perp.Props.GhostSound
