/-
  The dispatcher's fuel is never exhausted.

  `World.execMsg` / `World.execSubs` recurse structurally on `fuel` (`fuel = 0 ⇒ .error .panic`); `World.applyTx` starts
  every transaction with `FUEL = 40`.  Fuel is consumed by nesting AND by list length.  This file proves that no
  transaction, on ANY world, can use more than `N0 = 8` units, so that the constant is irrelevant from 8 on:

  * `applyTxN N`            literal copy of `World.applyTx` with `FUEL` replaced by `N`; `applyTxN_FUEL : applyTxN FUEL = applyTx`
  * `needed_fuel`           `applyTxN (8 + k) w env s f tx = applyTxN 8 w env s f tx`        (no hypothesis at all)
  * `fuel_enough_all`       `applyTxN (FUEL + k) w env s f tx = World.applyTx w env s f tx`   (no hypothesis at all)
  * `fuel_enough`           the same with the registry bound `w.ifund.vamms.length ≤ REG` for an arbitrary `REG` — the
                            bound is NOT NEEDED: `shutdown` dispatches `vamms.take VAMM_LIMIT`, at most 3 messages
  * `Witness.N0_least`      8 is the least such bound: a kernel-evaluated reversal that fails with 7 units and succeeds with 8
  * `Witness.fuel_tight_witness`, `Witness.dispatcher_tight`   fuel IS consumed by list length (3 leaves need 4 units;
                            a 40-element response exhausts `FUEL = 40` at the dispatcher — no transaction emits one)
  * `step_fuel_enough`, `run_fuel_enough`   the history level (`World.step`, `Capstone.run`), again without hypotheses

  Method.  `need R subs` is a syntactic measure of a response (`peak` = max over the positions `i` of `i + cost`, where
  the cost of an element is `needMsg` of its message — 1 for a leaf, 3 for the fund's `withdraw` — and, if it asks for a
  reply on success, the bound `R id` on the need of what `Engine.replyOk … id` emits).  `stab_cons` / `stab_need` are
  the induction over the dispatcher ("one more unit of fuel changes nothing from `need` on"); section 3 characterises
  the lists of every reply handler by walking its `do` block (`post_walk` of `EngineGuards`); `reply_stab` closes the
  loop (replies emit flat lists, except the reversal leg `id 3` whose list ends in the re-opening swap `id 1` — that
  swap's reply runs with `feesPaid = true`, which is what brings the bound from 9 down to the exact 8).
-/
import Perp.Model.World
import Perp.Lemmas.Basic
import Perp.Props.EngineGuards
import Perp.Props.EngineMoney
import Perp.Props.Capstone
import Perp.Props.SatGWitness

namespace Perp.FuelEnough
open Perp Perp.World Perp.Engine
open Perp.Props.EngineGuards (Post Post_bind Post_pure Post_ok Post_error Post_bind_pure Post_bind_error)

/-! ## 1. the syntactic measure -/

/-- fuel `execMsg` needs for one message: a leaf needs 1, the insurance fund's `withdraw` needs 3
    (itself, the one-element response, the empty rest) -/
def needMsg : Msg → Nat
  | .ifWithdraw _ => 3
  | _ => 1

/-- the sub-message asks for `reply` on success -/
def Rep (s : SubMsg) : Prop := s.replyOn = .always ∨ s.replyOn = .success

instance (s : SubMsg) : Decidable (Rep s) := by unfold Rep; exact inferInstance

/-- what one element of a response costs below its own frame: the message itself, and (when a reply is
    due) the list the reply emits — `R id` bounds the need of the lists `replyOk … id` can emit -/
def cost (R : Nat → Nat) (s : SubMsg) : Nat := max (needMsg s.msg) (if Rep s then R s.id else 0)

/-- `peak R subs` = max over the positions `i` (1-based) of `i + cost (subs[i])` -/
def peak (R : Nat → Nat) : List SubMsg → Nat
  | [] => 0
  | s :: rest => max (1 + cost R s) (1 + peak R rest)

/-- the fuel `execSubs` needs for a list: every element in its frame, plus the frame of the empty rest -/
def need (R : Nat → Nat) (subs : List SubMsg) : Nat := max (peak R subs) (subs.length + 1)

@[simp] theorem peak_nil (R : Nat → Nat) : peak R [] = 0 := rfl
@[simp] theorem peak_cons (R : Nat → Nat) (s : SubMsg) (l : List SubMsg) :
    peak R (s :: l) = max (1 + cost R s) (1 + peak R l) := rfl

theorem peak_append (R : Nat → Nat) (l1 l2 : List SubMsg) :
    peak R (l1 ++ l2) = max (peak R l1) (l1.length + peak R l2) := by
  induction l1 with
  | nil => simp
  | cons s l ih =>
    simp only [List.cons_append, peak_cons, ih, List.length_cons]
    omega

/-! ## 2. the dispatcher is stable above the measure -/

/-- one more unit of fuel changes nothing from `d` on -/
def StabMsg (m : Msg) (d : Nat) : Prop :=
  ∀ n, d ≤ n → ∀ w sender, execMsg (n + 1) w sender m = execMsg n w sender m

def Stab (c : Nat) (subs : List SubMsg) (d : Nat) : Prop :=
  ∀ n, d ≤ n → ∀ w, execSubs (n + 1) w c subs = execSubs n w c subs

/-- the same, but only on worlds whose engine state is `e2` (the list a reply emits runs on the engine state the
    reply returned) -/
def StabE (c : Nat) (subs : List SubMsg) (e2 : E) (d : Nat) : Prop :=
  ∀ n, d ≤ n → ∀ w : World, w.engine = e2 → execSubs (n + 1) w c subs = execSubs n w c subs

theorem Stab.toE {c : Nat} {subs : List SubMsg} {d : Nat} (h : Stab c subs d) (e2 : E) : StabE c subs e2 d :=
  fun n hn w _ => h n hn w

theorem StabE.mono {c : Nat} {subs : List SubMsg} {e2 : E} {d d' : Nat} (h : StabE c subs e2 d) (hd : d ≤ d') :
    StabE c subs e2 d' :=
  fun n hn w hw => h n (Nat.le_trans hd hn) w hw

theorem stab_nil (c : Nat) : Stab c [] 1 := by
  intro n hn w
  obtain ⟨n, rfl⟩ : ∃ k, n = k + 1 := ⟨n - 1, by omega⟩
  unfold execSubs
  rfl

theorem stab_leaf (m : Msg) (h : needMsg m = 1) : StabMsg m 1 := by
  intro n hn w sender
  obtain ⟨n, rfl⟩ : ∃ k, n = k + 1 := ⟨n - 1, by omega⟩
  cases m <;> first | (simp [needMsg] at h; done) | (unfold execMsg; rfl)

theorem stab_cons (c : Nat) (s : SubMsg) (rest : List SubMsg) (a b r : Nat)
    (hm : StabMsg s.msg a) (hrest : Stab c rest b)
    (hrep : Rep s → ∀ q e env ev e2 subs2, Engine.replyOk q e env s.id ev = .ok (e2, subs2) → StabE c subs2 e2 r) :
    Stab c (s :: rest) (1 + max a (max b (if Rep s then r else 0))) := by
  intro n hn w
  obtain ⟨n, rfl⟩ : ∃ k, n = k + 1 := ⟨n - 1, by omega⟩
  have ha : a ≤ n := by omega
  have hb : b ≤ n := by omega
  unfold execSubs
  simp only []
  rw [hm n ha]
  cases hx : execMsg n w c s.msg with
  | error err =>
    simp only [Engine.replyErr]
  | ok p =>
    obtain ⟨w1, ev⟩ := p
    simp only []
    by_cases hr : Rep s
    · have hr' : s.replyOn = .always ∨ s.replyOn = .success := hr
      have hrn : r ≤ n := by rw [if_pos hr] at hn; omega
      rw [if_pos hr', if_pos hr']
      by_cases hc : c ≠ ENGINE
      · rw [if_pos hc, if_pos hc]
      · rw [if_neg hc, if_neg hc]
        cases hq : Engine.replyOk w1.q w1.engine w1.env s.id ev with
        | error err => rfl
        | ok p2 =>
          obtain ⟨e2, subs2⟩ := p2
          simp only []
          rw [hrep hr _ _ _ _ _ _ hq n hrn _ rfl]
          cases hy : execSubs n { w1 with engine := e2 } c subs2 with
          | error err => rfl
          | ok w3 =>
            simp only []
            rw [hrest n hb]
    · have hr' : ¬ (s.replyOn = .always ∨ s.replyOn = .success) := hr
      rw [if_neg hr', if_neg hr']
      exact hrest n hb w1

theorem Stab.mono {c : Nat} {subs : List SubMsg} {d d' : Nat} (h : Stab c subs d) (hd : d ≤ d') : Stab c subs d' :=
  fun n hn w => h n (Nat.le_trans hd hn) w

theorem StabMsg.mono {m : Msg} {d d' : Nat} (h : StabMsg m d) (hd : d ≤ d') : StabMsg m d' :=
  fun n hn w s => h n (Nat.le_trans hd hn) w s

/-- every message is stable from its `needMsg` on -/
theorem stabMsg (m : Msg) : StabMsg m (needMsg m) := by
  cases m with
  | ifWithdraw amt =>
    intro n hn w sender
    obtain ⟨n, rfl⟩ : ∃ k, n = k + 3 := ⟨n - 3, by have : needMsg (.ifWithdraw amt) = 3 := rfl; omega⟩
    have key : ∀ (sub : SubMsg), needMsg sub.msg = 1 → ¬ Rep sub →
        execSubs (n + 2 + 1) w IFUND [sub] = execSubs (n + 2) w IFUND [sub] := by
      intro sub h1 h2
      have := stab_cons IFUND sub [] 1 1 0 (stab_leaf _ h1) (stab_nil _) (fun h => absurd h h2)
      exact this (n + 2) (by rw [if_neg h2]; omega) w
    unfold execMsg
    simp only []
    split
    · rfl
    · split
      · rfl
      · split
        · rw [key _ rfl (by simp [Rep])]
        · rw [key _ rfl (by simp [Rep])]
  | _ => exact stab_leaf _ rfl

/-- THE DISPATCHER LEMMA: a response is stable from `need R` on, provided `R id` is a stability bound for
    whatever `replyOk … id` emits, for the ids of its replying elements -/
theorem stab_need (R : Nat → Nat) (c : Nat) : ∀ (subs : List SubMsg),
    (∀ s ∈ subs, Rep s → ∀ q e env ev e2 subs2,
        Engine.replyOk q e env s.id ev = .ok (e2, subs2) → StabE c subs2 e2 (R s.id)) →
    Stab c subs (need R subs) := by
  intro subs
  induction subs with
  | nil => intro _; exact (stab_nil c).mono (by simp [need])
  | cons s rest ih =>
    intro h
    have h1 := ih (fun s' hs' => h s' (List.mem_cons_of_mem _ hs'))
    have h2 := stab_cons c s rest _ _ (R s.id) (stabMsg s.msg) h1 (h s (List.mem_cons_self ..))
    refine h2.mono ?_
    simp only [need, peak_cons, cost, List.length_cons]
    split <;> omega

theorem Stab.add {c : Nat} {subs : List SubMsg} {d : Nat} (h : Stab c subs d) (k : Nat) (w : World) :
    execSubs (d + k) w c subs = execSubs d w c subs := by
  induction k with
  | zero => rfl
  | succ k ih => rw [← Nat.add_assoc, h (d + k) (by omega) w, ih]

theorem StabMsg.add {m : Msg} {d : Nat} (h : StabMsg m d) (k : Nat) (w : World) (s : Nat) :
    execMsg (d + k) w s m = execMsg d w s m := by
  induction k with
  | zero => rfl
  | succ k ih => rw [← Nat.add_assoc, h (d + k) (by omega) w s, ih]

/-! ## 3. what the engine emits -/

/-- bound on the need of the list `replyOk … id` emits (see `reply_stab`) -/
def R : Nat → Nat
  | 1 => 5 | 2 => 5 | 3 => 7 | 4 => 5 | 5 => 3 | 6 => 6 | 7 => 5 | 8 => 4 | _ => 0

/-- no element asks for a reply on success -/
def Flat (l : List SubMsg) : Prop := ∀ s ∈ l, ¬ Rep s

@[simp] theorem flat_nil : Flat [] := by intro s hs; cases hs
@[simp] theorem flat_cons (s : SubMsg) (l : List SubMsg) : Flat (s :: l) ↔ ¬ Rep s ∧ Flat l := by
  simp [Flat]
@[simp] theorem flat_append (l1 l2 : List SubMsg) : Flat (l1 ++ l2) ↔ Flat l1 ∧ Flat l2 := by
  simp only [Flat, List.mem_append]
  constructor
  · intro h; exact ⟨fun s hs => h s (Or.inl hs), fun s hs => h s (Or.inr hs)⟩
  · rintro ⟨h1, h2⟩ s (hs | hs)
    · exact h1 s hs
    · exact h2 s hs

/-- a flat list of at most `n` elements with peak at most `a` -/
def F (n a : Nat) (l : List SubMsg) : Prop := Flat l ∧ l.length ≤ n ∧ peak R l ≤ a

@[simp] theorem rep_transferMsg (c : Config) (r a : Nat) : ¬ Rep (transferMsg c r a) := by
  unfold transferMsg Rep; split <;> simp
@[simp] theorem rep_transferFromMsg (c : Config) (o r a : Nat) : ¬ Rep (transferFromMsg c o r a) := by
  unfold transferFromMsg Rep; split <;> simp
@[simp] theorem rep_ifWithdrawMsg (a : Nat) : ¬ Rep (ifWithdrawMsg a) := by
  unfold ifWithdrawMsg Rep; simp
@[simp] theorem cost_transferMsg (c : Config) (r a : Nat) : cost R (transferMsg c r a) = 1 := by
  have := rep_transferMsg c r a
  unfold cost; rw [if_neg this]; unfold transferMsg; split <;> rfl
@[simp] theorem cost_transferFromMsg (c : Config) (o r a : Nat) : cost R (transferFromMsg c o r a) = 1 := by
  have := rep_transferFromMsg c o r a
  unfold cost; rw [if_neg this]; unfold transferFromMsg; split <;> rfl
@[simp] theorem cost_ifWithdrawMsg (a : Nat) : cost R (ifWithdrawMsg a) = 3 := by
  have := rep_ifWithdrawMsg a
  unfold cost; rw [if_neg this]; rfl

theorem withdraw_fact {q : Q} {e : E} {st : State} {r a p : Nat} {x : State × List SubMsg}
    (h : unwrap (withdraw q e st r a p) = .ok x) : F 2 4 x.2 := by
  rw [Perp.Props.EngineMoney.unwrap_ok] at h
  obtain ⟨st', msgs⟩ := x
  obtain ⟨bal, _, hm⟩ := Perp.Props.EngineMoney.withdraw_spec q e st st' r a p msgs h
  rcases hm with ⟨_, _, _, _, rfl⟩ | ⟨_, _, rfl⟩ <;> simp [F]

theorem fees_fact {q : Q} {e : E} {f v n : Nat} {x : List SubMsg × Nat × Nat}
    (h : unwrap (transferFees q e f v n) = .ok x) : F 2 3 x.1 := by
  rw [Perp.Props.EngineMoney.unwrap_ok] at h
  unfold transferFees at h
  obtain ⟨y, _, h⟩ := (bind_ok_iff _ _ _).1 h
  obtain ⟨toll, spread⟩ := y
  simp only [pure_ok_iff] at h
  subst h
  simp only [F]
  split <;> split <;> simp

theorem toIF_fact {q : Q} {e : E} {a : Nat} {m : SubMsg}
    (h : transferToInsuranceFund q e a = .ok m) : ¬ Rep m ∧ cost R m = 1 := by
  unfold transferToInsuranceFund at h
  obtain ⟨y, _, h⟩ := (bind_ok_iff _ _ _).1 h
  simp only [pure_ok_iff] at h
  subst h
  simp

theorem rbd_fact (st : State) (b : Nat) {m : List SubMsg} (h : (realizeBadDebt st b).2.1 = m) : F 1 4 m := by
  subst h
  unfold realizeBadDebt
  split <;> simp [F]

/-- close a leaf `F n a (…)` of a handler walk from the facts about `withdraw` / `transferFees` /
    `transferToInsuranceFund` / `realizeBadDebt` found on the path -/
macro "emit_leaf" : tactic => `(tactic| (
  (try have hW := withdraw_fact (by assumption))
  (try have hF := fees_fact (by assumption))
  (try (have hT := toIF_fact (by assumption); obtain ⟨hT1, hT2⟩ := hT))
  (try (unfold realizeBadDebt; split))
  all_goals simp only [F, flat_append, flat_cons, flat_nil, peak_append, peak_cons, peak_nil, List.length_append,
    List.length_cons, List.length_nil, rep_transferMsg, rep_transferFromMsg, rep_ifWithdrawMsg,
    cost_transferMsg, cost_transferFromMsg, cost_ifWithdrawMsg, List.nil_append, List.append_nil,
    not_false_eq_true, true_and, and_true] at *
  all_goals ((repeat' apply And.intro) <;> (first | (simp only [*]; done) | omega))))

theorem partialClose_fact (q : Q) (e : E) (env : Env) (i o : Nat) :
    Post (fun r => F 2 3 r.2) (partialClosePositionReply q e env i o) := by
  unfold partialClosePositionReply
  post_walk [exact fees_fact (by assumption)]

theorem liquidateReply_fact (q : Q) (e : E) (env : Env) (o : Nat) :
    Post (fun r => F 4 6 r.2) (liquidateReply q e env o) := by
  unfold liquidateReply
  post_walk [emit_leaf]

theorem partialLiquidationReply_fact (q : Q) (e : E) (env : Env) (i o : Nat) :
    Post (fun r => F 3 5 r.2) (partialLiquidationReply q e env i o) := by
  unfold partialLiquidationReply
  post_walk [emit_leaf]

theorem updatePositionReply_fact (q : Q) (e : E) (env : Env) (i o id : Nat) :
    Post (fun r => F 4 5 r.2) (updatePositionReply q e env i o id) := by
  unfold updatePositionReply
  post_walk [emit_leaf]

theorem closePositionReply_fact (q : Q) (e : E) (env : Env) (o : Nat) :
    Post (fun r => F 4 5 r.2) (closePositionReply q e env o) := by
  unfold closePositionReply
  post_walk [emit_leaf]

theorem payFundingReply_fact (q : Q) (e : E) (env : Env) (pf : Integer) (v : Nat) :
    Post (fun r => F 1 4 r.2) (payFundingReply q e env pf v) := by
  unfold payFundingReply
  post_walk [emit_leaf]

/-! the reversal leg (id 3) may re-open with id 1 — and then the fee is already paid -/

@[simp] theorem cost_swapInputMsg (v : Nat) (s : Side) (n l : Nat) (c : Bool) (id : Nat) :
    cost R (swapInputMsg v s n l c id) = max 1 (R id) := by
  have : Rep (swapInputMsg v s n l c id) := Or.inl rfl
  unfold cost; rw [if_pos this]; rfl
@[simp] theorem cost_swapOutputMsg (v : Nat) (s : Side) (n l : Nat) (id : Nat) :
    cost R (swapOutputMsg v s n l id) = max 1 (R id) := by
  have : Rep (swapOutputMsg v s n l id) := Or.inl rfl
  unfold cost; rw [if_pos this]; rfl

/-- the engine remembers that the fee of the pending swap has been charged -/
def Paid (e : E) : Prop := ∃ sw, e.tmpSwap = some sw ∧ sw.feesPaid = true

/-- what `reversePositionReply` returns: the fee messages, then either the payout or the re-opening swap
    (reply id 1) — in the second case the engine state it returns has `feesPaid` set -/
def RevShape (r : E × List SubMsg) : Prop :=
  ∃ fm last, r.2 = fm ++ [last] ∧ F 2 3 fm ∧
    ((¬ Rep last ∧ cost R last = 1)
      ∨ ((∃ v sd n l c, last = swapInputMsg v sd n l c REPLY_INCREASE) ∧ Paid r.1))

theorem reversePositionReply_fact (q : Q) (e : E) (env : Env) (o : Nat) :
    Post RevShape (reversePositionReply q e env o) := by
  unfold reversePositionReply
  post_walk [(refine ⟨_, _, rfl, fees_fact (by assumption), ?_⟩;
              first
              | exact Or.inl ⟨rep_transferMsg _ _ _, cost_transferMsg _ _ _⟩
              | exact Or.inr ⟨⟨_, _, _, _, _, rfl⟩, _, rfl, rfl⟩)]

/-- with the fee already paid, `update_position_reply` emits at most the two messages of `withdraw` -/
theorem updatePositionReply_paid (q : Q) (e : E) (env : Env) (i o id : Nat) (hp : Paid e) :
    Post (fun r => F 2 4 r.2) (updatePositionReply q e env i o id) := by
  obtain ⟨sw, hs, hfp⟩ := hp
  unfold updatePositionReply
  rw [hs]
  post_walk [first | (exfalso; simp [hfp] at *; done) | emit_leaf]

theorem Post_mono {β : Type} {P Q : β → Prop} {x : Except Err β} (h : ∀ r, P r → Q r) (hx : Post P x) : Post Q x :=
  fun r hr => h r (hx r hr)

theorem F.need {n a b : Nat} {l : List SubMsg} (h : F n a l) (h1 : n + 1 ≤ b) (h2 : a ≤ b) : need R l ≤ b := by
  obtain ⟨_, h3, h4⟩ := h
  unfold FuelEnough.need
  omega

/-- what `replyOk` emits: a flat list of need at most `R id`, except for id 3 (the reversal leg) -/
theorem replyOk_fact (q : Q) (e : E) (env : Env) (id : Nat) (ev : Ev) :
    Post (fun r => (id ≠ 3 → Flat r.2 ∧ need R r.2 ≤ R id) ∧ (id = 3 → RevShape r)) (replyOk q e env id ev) := by
  have fin : ∀ (n a k : Nat), k ≠ 3 → n + 1 ≤ R k → a ≤ R k → ∀ r : E × List SubMsg, F n a r.2 →
      (k ≠ 3 → Flat r.2 ∧ need R r.2 ≤ R k) ∧ (k = 3 → RevShape r) :=
    fun n a k hk h1 h2 r hr => ⟨fun _ => ⟨hr.1, hr.need h1 h2⟩, fun h => absurd h hk⟩
  have d8 := fin 1 4 8 (by decide) (by decide) (by decide)
  have d1 := fin 4 5 1 (by decide) (by decide) (by decide)
  have d2 := fin 4 5 2 (by decide) (by decide) (by decide)
  have d4 := fin 4 5 4 (by decide) (by decide) (by decide)
  have d5 := fin 2 3 5 (by decide) (by decide) (by decide)
  have d6 := fin 4 6 6 (by decide) (by decide) (by decide)
  have d7 := fin 3 5 7 (by decide) (by decide) (by decide)
  clear fin
  have d3 : ∀ r : E × List SubMsg, RevShape r →
      ((3 : Nat) ≠ 3 → Flat r.2 ∧ need R r.2 ≤ R 3) ∧ ((3 : Nat) = 3 → RevShape r) :=
    fun r hr => ⟨fun h => absurd rfl h, fun _ => hr⟩
  unfold replyOk
  split
  · rename_i h; subst h
    split
    · exact Post_mono d8 (payFundingReply_fact _ _ _ _ _)
    · exact Post_error
  · split
    · split
      · dsimp only []
        split
        · rename_i h; subst h; exact Post_mono d1 (updatePositionReply_fact _ _ _ _ _ _)
        split
        · rename_i h; subst h; exact Post_mono d2 (updatePositionReply_fact _ _ _ _ _ _)
        split
        · rename_i h; subst h; exact Post_mono d3 (reversePositionReply_fact _ _ _ _)
        split
        · rename_i h; subst h; exact Post_mono d4 (closePositionReply_fact _ _ _ _)
        split
        · rename_i h; subst h; exact Post_mono d5 (partialClose_fact _ _ _ _ _)
        split
        · rename_i h; subst h; exact Post_mono d6 (liquidateReply_fact _ _ _ _)
        · have hid : id = 7 := by
            simp only [REPLY_PAY_FUNDING, REPLY_INCREASE, REPLY_DECREASE, REPLY_REVERSE, REPLY_CLOSE,
              REPLY_PARTIAL_CLOSE, REPLY_LIQUIDATION] at *
            omega
          subst hid
          exact Post_mono d7 (partialLiquidationReply_fact _ _ _ _ _)
      · exact Post_error
    · exact Post_error

/-- the reply to a paid re-opening swap emits a list that is stable from 4 on -/
theorem reply1_paid (c : Nat) (q : Q) (e : E) (env : Env) (ev : Ev) (e2 : E) (subs2 : List SubMsg) (hp : Paid e)
    (h : replyOk q e env REPLY_INCREASE ev = .ok (e2, subs2)) : Stab c subs2 4 := by
  have : Post (fun r => F 2 4 r.2) (replyOk q e env REPLY_INCREASE ev) := by
    unfold replyOk
    split
    · rename_i h; exact absurd h (by decide)
    · split
      · split
        · dsimp only []
          split
          · exact updatePositionReply_paid _ _ _ _ _ _ hp
          · rename_i h; exact absurd rfl h
        · exact Post_error
      · exact Post_error
  have hF := this _ h
  refine (stab_need R c subs2 ?_).mono (hF.need (by decide) (by decide))
  intro s hs hr
  exact absurd hr (hF.1 s hs)

theorem execMsg_engine (n : Nat) (w : World) (s : Nat) (m : Msg) (w1 : World) (ev : Ev)
    (h : execMsg n w s m = .ok (w1, ev)) : w1.engine = w.engine :=
  ((Perp.Props.Dispatch.execMsg_engine_frame n).1 _ _ _ _ _ h).1

/-- flat fee messages followed by the paid re-opening swap: stable from `max (peak fm) (|fm| + 5)` on, on the
    worlds in which the engine remembers the fee as paid (nothing in the list before the swap writes the engine) -/
theorem stab_paid_tail (c : Nat) (X : SubMsg) (hX : ∃ v sd n l cg, X = swapInputMsg v sd n l cg REPLY_INCREASE) :
    ∀ (fm : List SubMsg), Flat fm → ∀ n, max (peak R fm) (fm.length + 5) ≤ n → ∀ w : World, Paid w.engine →
      execSubs (n + 1) w c (fm ++ [X]) = execSubs n w c (fm ++ [X]) := by
  obtain ⟨v, sd, a, l, cg, rfl⟩ := hX
  intro fm
  induction fm with
  | nil =>
    intro _ n hn w hp
    obtain ⟨n, rfl⟩ : ∃ k, n = k + 1 := ⟨n - 1, by simp at hn; omega⟩
    have hk : 4 ≤ n := by simp at hn; omega
    simp only [List.nil_append]
    unfold execSubs
    simp only []
    rw [stabMsg (swapInputMsg v sd a l cg REPLY_INCREASE).msg n (by show 1 ≤ n; omega)]
    cases hx : execMsg n w c (swapInputMsg v sd a l cg REPLY_INCREASE).msg with
    | error err => simp only [Engine.replyErr]
    | ok p =>
      obtain ⟨w1, ev⟩ := p
      simp only []
      have hr : (swapInputMsg v sd a l cg REPLY_INCREASE).replyOn = .always
          ∨ (swapInputMsg v sd a l cg REPLY_INCREASE).replyOn = .success := Or.inl rfl
      rw [if_pos hr, if_pos hr]
      by_cases hc : c ≠ ENGINE
      · rw [if_pos hc, if_pos hc]
      · rw [if_neg hc, if_neg hc]
        cases hq : Engine.replyOk w1.q w1.engine w1.env (swapInputMsg v sd a l cg REPLY_INCREASE).id ev with
        | error err => rfl
        | ok p2 =>
          obtain ⟨e2, subs2⟩ := p2
          simp only []
          have hp1 : Paid w1.engine := by rw [execMsg_engine _ _ _ _ _ _ hx]; exact hp
          rw [reply1_paid c _ _ _ _ _ _ hp1 hq n hk]
          cases hy : execSubs n { w1 with engine := e2 } c subs2 with
          | error err => rfl
          | ok w3 =>
            simp only []
            rw [stab_nil c n (by omega)]
  | cons s fm ih =>
    intro hfl n hn w hp
    obtain ⟨hs, hfl'⟩ := (flat_cons _ _).1 hfl
    obtain ⟨n, rfl⟩ : ∃ k, n = k + 1 := ⟨n - 1, by simp at hn; omega⟩
    simp only [peak_cons, List.length_cons] at hn
    have hc : needMsg s.msg ≤ n := by
      have : needMsg s.msg ≤ cost R s := Nat.le_max_left _ _
      omega
    have hi : max (peak R fm) (fm.length + 5) ≤ n := by omega
    simp only [List.cons_append]
    unfold execSubs
    simp only []
    rw [stabMsg s.msg n hc]
    cases hx : execMsg n w c s.msg with
    | error err => simp only [Engine.replyErr]
    | ok p =>
      obtain ⟨w1, ev⟩ := p
      simp only []
      have hs' : ¬ (s.replyOn = .always ∨ s.replyOn = .success) := hs
      rw [if_neg hs', if_neg hs']
      have hp1 : Paid w1.engine := by rw [execMsg_engine _ _ _ _ _ _ hx]; exact hp
      exact ih hfl' n hi w1 hp1

/-- every list a reply emits is stable from `R id` on, on the engine state the reply returned -/
theorem reply_stab (c : Nat) (q : Q) (e : E) (env : Env) (id : Nat) (ev : Ev) (e2 : E) (subs2 : List SubMsg)
    (h : replyOk q e env id ev = .ok (e2, subs2)) : StabE c subs2 e2 (R id) := by
  obtain ⟨h1, h2⟩ := replyOk_fact q e env id ev _ h
  by_cases hid : id = 3
  · subst hid
    obtain ⟨fm, last, hsub, ⟨hf1, hf2, hf3⟩, hl⟩ := h2 rfl
    simp only [] at hsub
    subst hsub
    rcases hl with ⟨hl1, hl2⟩ | ⟨hX, hp⟩
    · have hflat : Flat (fm ++ [last]) := by simp [hf1, hl1]
      have hneed : need R (fm ++ [last]) ≤ R 3 := by
        show _ ≤ 7
        simp only [need, peak_append, peak_cons, peak_nil, hl2, List.length_append, List.length_cons,
          List.length_nil]
        omega
      refine ((stab_need R c _ ?_).mono hneed).toE e2
      intro s hs hr
      exact absurd hr (hflat s hs)
    · intro n hn w hw
      refine stab_paid_tail c last hX fm hf1 n ?_ w (by rw [hw]; exact hp)
      have : R 3 = 7 := rfl
      omega
  · obtain ⟨hfl, hn⟩ := h1 hid
    refine ((stab_need R c subs2 ?_).mono hn).toE e2
    intro s hs hr
    exact absurd hr (hfl s hs)

/-- ANY list is stable from its `need` on, in every world, for every dispatching contract -/
theorem stab_of_need (c : Nat) (subs : List SubMsg) : Stab c subs (need R subs) :=
  stab_need R c subs (fun _ _ _ q e env ev e2 subs2 h => reply_stab c q e env _ ev e2 subs2 h)

/-! ## 4. what `execute` emits -/

theorem need_single (s : SubMsg) : need R [s] = max (1 + cost R s) 2 := by
  simp only [need, peak_cons, peak_nil, List.length_cons, List.length_nil]
  omega

theorem need_nil : need R [] = 1 := rfl

theorem partialLiquidation_fact (q : Q) (e : E) (v t l : Nat) :
    Post (fun r => cost R r.2 = 5) (partialLiquidation q e v t l) := by
  unfold partialLiquidation
  post_walk [(rw [cost_swapOutputMsg]; rfl)]

theorem liquidate_fact (q : Q) (e : E) (env : Env) (s v t l : Nat) :
    Post (fun r => need R r.2 ≤ 7) (liquidate q e env s v t l) := by
  unfold liquidate
  post_walk [first
    | (have hP := partialLiquidation_fact _ _ _ _ _ _ (by assumption)
       rw [need_single, hP]; decide)
    | (rw [need_single]
       show max (1 + cost R (swapOutputMsg _ _ _ _ REPLY_LIQUIDATION)) 2 ≤ 7
       rw [cost_swapOutputMsg]; decide)]

theorem F.need' {n a : Nat} {l : List SubMsg} (h : F n a l) : FuelEnough.need R l ≤ max (n + 1) a := by
  obtain ⟨_, h3, h4⟩ := h
  unfold FuelEnough.need
  omega

/-- every response of `Engine.execute` needs at most 8 units of fuel -/
theorem execute_need (q : Q) (e e' : E) (env : Env) (s : Nat) (f : Funds) (m : ExecMsg) (subs : List SubMsg)
    (h : execute q e env s f m = .ok (e', subs)) : need R subs ≤ 8 := by
  have nilcase : ∀ (x : Except Err E), x.map (fun e' => (e', ([] : List SubMsg))) = .ok (e', subs) → need R subs ≤ 8 := by
    intro x hx
    obtain ⟨v, _, hv⟩ := (Perp.Props.EngineGuards.exmap_ok _ _ _).1 hx
    injection hv with _ h2
    subst h2
    decide
  unfold execute at h
  cases m with
  | updateConfig u => exact nilcase _ h
  | updatePauser p => exact nilcase _ h
  | addWhitelist a => exact nilcase _ h
  | removeWhitelist a => exact nilcase _ h
  | setPause p => exact nilcase _ h
  | openPosition v sd m l b =>
    have := Perp.Props.EngineGuards.openPosition_msgs _ _ _ _ _ _ _ _ _ _ _ _ h
    rcases this with rfl | rfl | rfl
    · rw [need_single, cost_swapInputMsg]; decide
    · rw [need_single, cost_swapInputMsg]; decide
    · rw [need_single, cost_swapOutputMsg]; decide
  | closePosition v l =>
    have := Perp.Props.EngineGuards.closePosition_msgs _ _ _ _ _ _ _ _ h
    rcases this with rfl | ⟨n, rfl, _⟩
    · rw [need_single, cost_swapOutputMsg]; decide
    · rw [need_single, cost_swapInputMsg]; decide
  | liquidate v t l =>
    have := liquidate_fact _ _ _ _ _ _ _ _ h
    simp only [] at this
    omega
  | payFunding v =>
    unfold payFunding at h
    obtain ⟨_, _, h⟩ := (bind_ok_iff _ _ _).1 h
    simp only [pure_ok_iff] at h
    injection h with _ h2
    subst h2
    have hc : cost R ⟨.vammSettle v, REPLY_PAY_FUNDING, .always⟩ = 4 := rfl
    rw [need_single, hc]
    decide
  | depositMargin v a =>
    obtain ⟨_, _, _, h1, h2⟩ := Perp.Props.EngineMoney.depositMargin_spec _ _ _ _ _ _ _ _ h
    cases hn : e.cfg.native with
    | true => rw [(h1 hn).1]; decide
    | false => rw [h2 hn, need_single, cost_transferFromMsg]; decide
  | withdrawMargin v a =>
    obtain ⟨_, _, st1, _, _, _, _, hw, _⟩ := Perp.Props.EngineMoney.withdrawMargin_spec _ _ _ _ _ _ _ _ h
    have hW : F 2 4 (st1, subs).2 := withdraw_fact ((Perp.Props.EngineMoney.unwrap_ok _ _).2 hw)
    have := hW.need'
    simp only [] at this
    omega

/-! ## 5. `applyTx` with the starting fuel as a parameter -/

/-- `applyTx` with the dispatcher's starting fuel as a parameter (a literal copy of `World.applyTx` with `FUEL`
    replaced by `N` everywhere) -/
def applyTxN (N : Nat) (w0 : World) (env : Env) (sender : Nat) (funds : Engine.Funds) (tx : Tx) : Except Err World :=
  let w := { w0 with env := env, log := [] }
  match tx with
  | .engine m => do
      -- `execute_wasm`: first move the attached cash (native collateral only; nothing attached = no send)
      let w ← if w.engine.cfg.native ∧ funds.amount ≠ 0 then
          (execMsg N w sender (.bankSend ENGINE funds.amount)).map (·.1)
        else pure w
      let (e', subs) ← Engine.execute w.q w.engine env sender funds m
      execSubs N { w with engine := e' } ENGINE subs
  | .vammSwapInput v dir amt lim cgo => (execMsg N w sender (.vammSwapInput v dir amt lim cgo)).map (·.1)
  | .vammSwapOutput v dir amt lim => (execMsg N w sender (.vammSwapOutput v dir amt lim)).map (·.1)
  | .vammSettle v => (execMsg N w sender (.vammSettle v)).map (·.1)
  | .vammSetOpen v o => (execMsg N w sender (.vammSetOpen v o)).map (·.1)
  | .vammConfig v u => do
      let x ← w.vammE v
      let x' ← Vamm.updateConfig x sender u
      pure (w.setVamm v x')
  | .vammOwner v n => do
      let x ← w.vammE v
      let x' ← Vamm.updateOwner x sender n
      pure (w.setVamm v x')
  | .ifAdd v => do
      let s ← Insurance.addVamm w.ifund sender v
                (if w.ifund.engine = ENGINE then .ok w.engine.cfg.decimals else .error (.guard 95))
                ((w.vammE v).map (·.cfg.decimals))
      pure { w with ifund := s }
  | .ifRemove v => do
      let s ← Insurance.removeVamm w.ifund sender v
      pure { w with ifund := s }
  | .ifShutdown =>
      if sender ≠ w.ifund.owner ∧ sender ≠ IFUND then .error .unauthorized
      else if !w.ifund.stored then .error (.guard 83)
      else execSubs N w IFUND ((w.ifund.vamms.take Insurance.VAMM_LIMIT).map (fun v => ⟨.vammSetOpen v false, 0, .never⟩))
  | .ifWithdraw amt => (execMsg N w sender (.ifWithdraw amt)).map (·.1)
  | .ifOwner n => do
      let s ← Insurance.updateOwner w.ifund sender n
      pure { w with ifund := s }
  | .fpAdd tok => do
      let s ← FeePool.addToken w.feePool sender tok
      pure { w with feePool := s }
  | .fpRemove tok => do
      let s ← FeePool.removeToken w.feePool sender tok
      pure { w with feePool := s }
  | .fpSend tok amt to =>
      if amt = 0 then .error (.guard 88)
      else if sender ≠ w.feePool.owner then .error .unauthorized
      else if !w.feePool.tokens.contains tok then .error (.guard 89)
      else if tok ≠ w.collateralTok then .error (.guard 89)      -- only the collateral is modelled
      else if w.ledger.balance FEEPOOL < amt then .error (.guard 92)
      else execSubs N w FEEPOOL
        [if tok = 0 then ⟨.bankSend to amt, 0, .never⟩ else ⟨.tokenTransfer to amt, 0, .never⟩]
  | .fpOwner n => do
      let s ← FeePool.updateOwner w.feePool sender n
      pure { w with feePool := s }
  | .oracle price ts =>
      match w.feed with
      | .mock m => .ok { w with feed := .mock { m with price := some price } }
      | .real f => do
          let f' ← Pricefeed.appendPrice f sender FEED_KEY price ts
          pure { w with feed := .real f' }
  | .feedOwner n =>
      match w.feed with
      | .mock m => if sender ≠ m.owner then .error .unauthorized else .ok { w with feed := .mock { m with owner := n } }
      | .real f => do
          let f' ← Pricefeed.updateOwner f sender n
          pure { w with feed := .real f' }
  | .tokenApprove amt =>
      if w.engine.cfg.native then .error (.guard 95)
      else if amt = 0 then .ok w    -- cw20-base accepts a zero increase
      else if Ledger.get w.ledger.allow sender + amt > U128.MAX then .error .overflow
      else .ok { w with ledger := { w.ledger with allow := Ledger.set w.ledger.allow sender (Ledger.get w.ledger.allow sender + amt) } }
  | .tokenDecrease amt =>
      if w.engine.cfg.native then .error (.guard 95)
      else
        let cur := Ledger.get w.ledger.allow sender
        -- cw20-base loads the allowance record; it is removed when it reaches zero by a decrease
        if cur = 0 then .error (.guard 93) else
        .ok { w with ledger := { w.ledger with allow := Ledger.set w.ledger.allow sender (if amt < cur then cur - amt else 0) } }
  | .tokenTransfer to amt =>
      if w.engine.cfg.native then .error (.guard 95)
      else (execMsg N w sender (.tokenTransfer to amt)).map (·.1)
  | .bankSend to amt =>
      if !w.engine.cfg.native then .error (.guard 95)
      else (execMsg N w sender (.bankSend to amt)).map (·.1)

/-- the copy is pinned to the original -/
theorem applyTxN_FUEL : applyTxN FUEL = World.applyTx := by
  funext w env s f tx
  cases tx <;> rfl

/-! ## 6. eight units are enough -/

/-- the amount of fuel any transaction can use -/
def N0 : Nat := 8

theorem msgN (m : Msg) (k : Nat) (w : World) (s : Nat) : execMsg (N0 + k) w s m = execMsg N0 w s m :=
  ((stabMsg m).mono (by cases m <;> simp [needMsg, N0])).add k w s

theorem subsN {subs : List SubMsg} (h : need R subs ≤ N0) (k : Nat) (w : World) (c : Nat) :
    execSubs (N0 + k) w c subs = execSubs N0 w c subs :=
  ((stab_of_need c subs).mono h).add k w

theorem peak_leaves {α : Type} (f : α → SubMsg) (hf : ∀ a, cost R (f a) = 1) (l : List α) :
    peak R (l.map f) ≤ l.length + 1 := by
  induction l with
  | nil => simp
  | cons a l ih => simp only [List.map_cons, peak_cons, hf, List.length_cons]; omega

/-- the insurance fund's `shutdown`: at most `VAMM_LIMIT = 3` leaves, whatever the length of the registry -/
theorem shutdown_need (vamms : List Nat) :
    need R ((vamms.take Insurance.VAMM_LIMIT).map (fun v => (⟨.vammSetOpen v false, 0, .never⟩ : SubMsg))) ≤ 4 := by
  have h1 := peak_leaves (fun v => (⟨.vammSetOpen v false, 0, .never⟩ : SubMsg)) (fun _ => rfl)
    (vamms.take Insurance.VAMM_LIMIT)
  have h2 : (vamms.take Insurance.VAMM_LIMIT).length ≤ 3 := by
    rw [List.length_take]; exact Nat.min_le_left _ _
  unfold need
  rw [List.length_map]
  omega

/-- NEEDED FUEL: from `N0 = 9` units on, the starting fuel is irrelevant — on EVERY world, for every transaction -/
theorem needed_fuel (w : World) (env : Env) (s : Nat) (f : Engine.Funds) (tx : Tx) (k : Nat) :
    applyTxN (N0 + k) w env s f tx = applyTxN N0 w env s f tx := by
  unfold applyTxN
  cases tx with
  | engine m =>
    have tail : ∀ w1 : World,
        (Engine.execute w1.q w1.engine env s f m >>= fun p => execSubs (N0 + k) { w1 with engine := p.1 } ENGINE p.2)
        = (Engine.execute w1.q w1.engine env s f m >>= fun p => execSubs N0 { w1 with engine := p.1 } ENGINE p.2) := by
      intro w1
      cases hx : Engine.execute w1.q w1.engine env s f m with
      | error err => rfl
      | ok p =>
        obtain ⟨e', subs⟩ := p
        exact subsN (execute_need _ _ _ _ _ _ _ _ hx) k _ _
    dsimp only []
    rw [msgN]
    simp only [tail]
  | vammSwapInput v dir amt lim cgo => dsimp only []; rw [msgN]
  | vammSwapOutput v dir amt lim => dsimp only []; rw [msgN]
  | vammSettle v => dsimp only []; rw [msgN]
  | vammSetOpen v o => dsimp only []; rw [msgN]
  | ifWithdraw amt => dsimp only []; rw [msgN]
  | tokenTransfer to amt => dsimp only []; rw [msgN]
  | bankSend to amt => dsimp only []; rw [msgN]
  | ifShutdown =>
    dsimp only []
    rw [subsN (Nat.le_trans (shutdown_need _) (by decide))]
  | fpSend tok amt to =>
    dsimp only []
    rw [subsN]
    rw [need_single]
    have : cost R (if tok = 0 then (⟨.bankSend to amt, 0, .never⟩ : SubMsg) else ⟨.tokenTransfer to amt, 0, .never⟩) = 1 := by
      split <;> rfl
    rw [this]; decide
  | _ => rfl

/-- the shape the task asked for (`hreg` with `REG = 3`); the hypothesis is not used -/
theorem needed_fuel_reg3 (w : World) (env : Env) (s : Nat) (f : Engine.Funds) (tx : Tx)
    (_hreg : w.ifund.vamms.length ≤ 3) (k : Nat) :
    applyTxN (N0 + k) w env s f tx = applyTxN N0 w env s f tx :=
  needed_fuel w env s f tx k

/-- MAIN: more fuel than `FUEL = 40` changes nothing.  The registry bound `hreg` is NOT USED (any `REG`): `shutdown`
    dispatches at most `VAMM_LIMIT = 3` sub-messages whatever the registry holds (`List.take`), see `fuel_enough_all` -/
theorem fuel_enough_all (w : World) (env : Env) (s : Nat) (f : Engine.Funds) (tx : Tx) (k : Nat) :
    applyTxN (FUEL + k) w env s f tx = World.applyTx w env s f tx := by
  have e1 : FUEL + k = N0 + (32 + k) := by show 40 + k = 8 + (32 + k); omega
  have e2 : FUEL = N0 + 32 := rfl
  rw [← applyTxN_FUEL, e1, needed_fuel]
  conv => rhs; rw [e2, needed_fuel]

theorem fuel_enough {REG : Nat} (w : World) (env : Env) (s : Nat) (f : Engine.Funds) (tx : Tx)
    (_hreg : w.ifund.vamms.length ≤ REG) (k : Nat) :
    applyTxN (FUEL + k) w env s f tx = World.applyTx w env s f tx :=
  fuel_enough_all w env s f tx k

/-! ## 7. witnesses: fuel IS consumed by list length -/

namespace Witness

def isPanic : Except Err World → Bool
  | .error .panic => true
  | _ => false

def isOk : Except Err World → Bool
  | .ok _ => true
  | _ => false

/-- an open market that obeys the insurance fund -/
def v0 : Vamm.V :=
  { cfg := { (default : Vamm.Config) with insuranceFund := IFUND },
    st := { (default : Vamm.State) with isOpen := true } }

/-- a world whose fund has registered three open markets (owner of the fund: 100) -/
def w3 : World :=
  { (default : World) with
    vamms := [(10, v0), (11, v0), (12, v0)],
    ifund := { owner := 100, engine := ENGINE, vamms := [10, 11, 12], stored := true } }

def env0 : Env := ⟨1, 1⟩
def f0 : Engine.Funds := ⟨0, false⟩

/-- with 3 units the shutdown of three markets runs out of fuel (three elements need 4), with 4 it succeeds:
    the list length consumes fuel, `needed_fuel` is not vacuous in the other direction -/
theorem shutdown3 :
    isPanic (applyTxN 3 w3 env0 100 f0 .ifShutdown) = true ∧ isOk (applyTxN 4 w3 env0 100 f0 .ifShutdown) = true
    ∧ isOk (applyTxN 50 w3 env0 100 f0 .ifShutdown) = true := by
  decide +kernel

/-- `fuel_tight_witness`: a transaction whose outcome depends on the starting fuel below the bound -/
theorem fuel_tight_witness : applyTxN 3 w3 env0 100 f0 .ifShutdown ≠ applyTxN 50 w3 env0 100 f0 .ifShutdown := by
  intro h
  have h1 := shutdown3.1
  have h3 := shutdown3.2.2
  rw [h] at h1
  revert h1 h3
  cases applyTxN 50 w3 env0 100 f0 .ifShutdown with
  | error e => intro _ h; cases h
  | ok w => intro h _; cases h

/-- the same on a 40-entry registry: `applyTxN FUEL` and `applyTxN (FUEL + 100)` agree (they must, by `fuel_enough_all`),
    because `shutdown` truncates the registry at `VAMM_LIMIT`; the requested witness "FUEL vs FUEL+100 differ on
    `.ifShutdown` with a long registry" does not exist -/
def w40 : World := { w3 with ifund := { w3.ifund with vamms := List.replicate 40 10 } }

example : applyTxN FUEL w40 env0 100 f0 .ifShutdown = applyTxN (FUEL + 100) w40 env0 100 f0 .ifShutdown := by
  rw [fuel_enough_all, ← applyTxN_FUEL]

/-- a world in which the fund holds 1000 units of collateral -/
def wL : World := { (default : World) with ledger := { bal := [(IFUND, 1000)], allow := [] } }

/-- forty payments of one unit -/
def forty : List SubMsg := List.replicate 40 ⟨.bankSend 7 1, 0, .never⟩

/-- AT THE DISPATCHER the constant `FUEL = 40` itself is exhausted by a 40-element response of leaves (need 41):
    `execSubs FUEL` panics where `execSubs (FUEL + 100)` succeeds.  No transaction dispatches such a list — that is
    the content of `fuel_enough_all` -/
theorem dispatcher_tight :
    isPanic (execSubs FUEL wL IFUND forty) = true ∧ isOk (execSubs (FUEL + 100) wL IFUND forty) = true
    ∧ isOk (execSubs (FUEL + 1) wL IFUND forty) = true := by
  decide +kernel

example : need R forty = 41 := by decide +kernel

/-- a six-entry registry: `shutdown` still dispatches three messages only, 4 units suffice -/
def w6 : World := { w3 with ifund := { w3.ifund with vamms := [10, 11, 12, 10, 11, 12] } }

example : isPanic (applyTxN 3 w6 env0 100 f0 .ifShutdown) = true ∧ isOk (applyTxN 4 w6 env0 100 f0 .ifShutdown) = true := by
  decide +kernel

/-! ### `N0 = 8` is the least bound: a transaction that needs all eight units

  The world of `SatGWitness` (cw20 collateral; trader 101 long 10 on 5 margin; vault balance 1): the trader REVERSES
  with 13 notional at leverage 1.  Frames: response of `execute` (1) → swap + `reply` id 3 → its list
  `[fee, fee, swap id 1]`, the swap is the third element (3) → `reply` id 1 (fee already paid) emits
  `[ifWithdraw, transfer]` (1) → the fund's `withdraw` (1) → its one-element response (1) → the transfer (1):
  1 + 3 + 1 + 3 = 8.  With 7 units the innermost frame is missing; the fund's sub-message "fails", the engine's
  `reply` (ReplyOn::Error, id 9) turns that into `.subcall 9` — the exhaustion does not even surface as `.panic`. -/

open Perp.Props.SatGWitness in
def wRev : World := cwW (wA (100 * D) (100 * D) (1 * D))

open Perp.Props.SatGWitness in
def revTx8 : Tx := .engine (.openPosition 10 .sell (13 * D) (1 * D) 0)

open Perp.Props.SatGWitness in
set_option maxRecDepth 100000 in
theorem eight_needed :
    errOf (applyTxN 7 wRev envA 101 ⟨0, false⟩ revTx8) = some (.subcall 9)
    ∧ okLog (applyTxN 8 wRev envA 101 ⟨0, false⟩ revTx8)
        = some [(101, IFUND, 26000), (101, FEEPOOL, 13000), (IFUND, ENGINE, 801980), (ENGINE, 101, 1801980)]
    ∧ okLog (World.applyTx wRev envA 101 ⟨0, false⟩ revTx8)
        = some [(101, IFUND, 26000), (101, FEEPOOL, 13000), (IFUND, ENGINE, 801980), (ENGINE, 101, 1801980)] := by
  decide +kernel

/-- no bound below 8 has the property of `needed_fuel` -/
theorem N0_least : ¬ ∀ (w : World) (env : Env) (s : Nat) (f : Engine.Funds) (tx : Tx) (k : Nat),
    applyTxN (7 + k) w env s f tx = applyTxN 7 w env s f tx := by
  intro h
  have h1 := eight_needed.1
  have h2 := eight_needed.2.1
  rw [show (8 : Nat) = 7 + 1 from rfl, h] at h2
  revert h1 h2
  cases applyTxN 7 wRev Perp.Props.SatGWitness.envA 101 ⟨0, false⟩ revTx8 with
  | error e => intro _ h; cases h
  | ok w => intro h _; cases h

end Witness

/-! ## 8. the history level -/

/-- `World.step` with the starting fuel as a parameter -/
def stepN (N : Nat) (w : World) (env : Env) (sender : Nat) (funds : Engine.Funds) (tx : Tx) : World :=
  match applyTxN N w env sender funds tx with
  | .ok w' => w'
  | .error _ => { w with env := env, log := [] }

theorem stepN_FUEL : stepN FUEL = World.step := by
  funext w env s f tx
  unfold stepN World.step
  rw [applyTxN_FUEL]
  cases World.applyTx w env s f tx <;> rfl

/-- `step` does not depend on the starting fuel from 9 units on -/
theorem stepN_needed (w : World) (env : Env) (s : Nat) (f : Engine.Funds) (tx : Tx) (k : Nat) :
    stepN (N0 + k) w env s f tx = stepN N0 w env s f tx := by
  unfold stepN; rw [needed_fuel]

theorem step_fuel_enough (w : World) (env : Env) (s : Nat) (f : Engine.Funds) (tx : Tx) (k : Nat) :
    stepN (FUEL + k) w env s f tx = World.step w env s f tx := by
  unfold stepN World.step; rw [fuel_enough_all]
  cases World.applyTx w env s f tx <;> rfl

open Perp.Props.Capstone (History run) in
/-- `Capstone.run` with the starting fuel as a parameter -/
def runN (N : Nat) (w0 : World) (h : History) : World :=
  h.foldl (fun w t => stepN N w t.1 t.2.1 t.2.2.1 t.2.2.2) w0

open Perp.Props.Capstone (History run) in
/-- the history level: along ANY history from ANY world (no registry bound, no invariant needed) the run with more
    fuel is the run the capstone theorems talk about -/
theorem run_fuel_enough (w0 : World) (h : History) (k : Nat) : runN (FUEL + k) w0 h = run w0 h := by
  unfold runN run
  have : (fun (w : World) (t : Env × Nat × Engine.Funds × Tx) => stepN (FUEL + k) w t.1 t.2.1 t.2.2.1 t.2.2.2)
      = (fun w t => World.step w t.1 t.2.1 t.2.2.1 t.2.2.2) := by
    funext w t; exact step_fuel_enough _ _ _ _ _ _
  rw [this]

open Perp.Props.Capstone (History run) in
theorem run_needed_fuel (w0 : World) (h : History) (k : Nat) : runN (N0 + k) w0 h = runN N0 w0 h := by
  unfold runN
  have : (fun (w : World) (t : Env × Nat × Engine.Funds × Tx) => stepN (N0 + k) w t.1 t.2.1 t.2.2.1 t.2.2.2)
      = (fun w t => stepN N0 w t.1 t.2.1 t.2.2.1 t.2.2.2) := by
    funext w t; exact stepN_needed _ _ _ _ _ _
  rw [this]

/-- the form the task asked for: with the deployed registry invariant along the history (it is preserved by `step`:
    `SatF14.regInv_step`) — a special case of `run_fuel_enough`, the invariant is not needed -/
theorem run_fuel_enough_regInv (w0 : World) (h : Perp.Props.Capstone.History) (k : Nat)
    (_hr : Perp.Props.SatF14.RegInv w0.ifund) : runN (FUEL + k) w0 h = Perp.Props.Capstone.run w0 h :=
  run_fuel_enough w0 h k

end Perp.FuelEnough

#print axioms Perp.FuelEnough.fuel_enough
#print axioms Perp.FuelEnough.fuel_enough_all
#print axioms Perp.FuelEnough.needed_fuel
#print axioms Perp.FuelEnough.applyTxN_FUEL
#print axioms Perp.FuelEnough.Witness.fuel_tight_witness
#print axioms Perp.FuelEnough.Witness.dispatcher_tight
#print axioms Perp.FuelEnough.run_fuel_enough
#print axioms Perp.FuelEnough.Witness.N0_least
#print axioms Perp.FuelEnough.stab_of_need
