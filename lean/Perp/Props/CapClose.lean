/-
  CapClose — the three entries of `Spec.allChecks` that had no refinement theorem:
  * `C09.checkLive`, `C16.checkLive` judge REJECTED calls by the implementation's error text; a model step
    carries the empty text, in which no needle occurs (`hasSub_empty`), so both are `[]` on every model step;
  * `C11.checkClose` — a position that remains after a successful ClosePosition has its funding checkpoint at
    the cumulative premium fraction of the pre-state.  Proved for every world, block, sender, funds and
    message, with NO hypothesis: a whole close removes the record (`closePositionReply_eff`), the partial
    close stores `rm.latest = latestCum e p.vamm` (`EngineMoney.partialClose_no_bad_debt`,
    `calcRemainMargin_spec`) and `close_position` leaves the engine's per-vAMM maps untouched.
-/
import Perp.Model.World
import Perp.Spec.World
import Perp.Lemmas.Basic
import Perp.Props.ModelStep
import Perp.Props.EngineMoney
import Perp.Props.Mirror.Walk
import Perp.Props.SatFlows

namespace Perp.Props.CapClose
open Perp Perp.World Perp.Engine Perp.Spec Perp.Props.ModelStep

/-! ### the error-text clauses -/

/-- no needle occurs in the empty error text -/
theorem hasSub_empty (needle : String) : hasSub "" needle = false := by
  unfold hasSub String.splitOn
  split
  · rfl
  · rw [String.splitOnAux.eq_1]
    have : String.Pos.Raw.atEnd "" 0 = true := by
      simp [String.Pos.Raw.atEnd]
    rw [if_pos this]
    simp

/-- a model step carries no error text -/
theorem modelStep_err_empty (w : World) (env : Env) (s : Nat) (f : Funds) (tx : Tx) :
    (modelStep w env s f tx).err = "" := by
  unfold modelStep
  split <;> rfl

theorem sat_C09_live (w : World) (env : Env) (s : Nat) (f : Funds) (tx : Tx) :
    Spec.C09.checkLive (modelStep w env s f tx) = [] := by
  unfold Spec.C09.checkLive
  rw [modelStep_err_empty, hasSub_empty, hasSub_empty]
  simp

theorem sat_C16_live (w : World) (env : Env) (s : Nat) (f : Funds) (tx : Tx) :
    Spec.C16.checkLive (modelStep w env s f tx) = [] := by
  unfold Spec.C16.checkLive
  rw [modelStep_err_empty, hasSub_empty]
  simp

/-! ### C11, per-position clause on ClosePosition -/

theorem any_erase (ps : List Position) (v t : Nat) :
    (erasePosition ps v t).any (fun p => p.vamm == v && p.trader == t) = false := by
  unfold erasePosition
  rw [List.any_eq_false]
  intro p hp
  have := (List.mem_filter.1 hp).2
  intro hc
  rw [hc] at this
  cases this

theorem latestCum_congr (e e' : E) (v : Nat) (h : e'.vammMaps = e.vammMaps) : latestCum e' v = latestCum e v := by
  unfold latestCum readVammMap
  rw [h]

/-- the successful ClosePosition, as far as the caller's record is concerned: either no record under the
    caller's key remains, or the stored record's checkpoint is the cumulative fraction of the pre-state -/
theorem close_checkpoint (w w' : World) (env : Env) (s : Nat) (f : Funds) (v l : Nat)
    (h : applyTx w env s f (.engine (.closePosition v l)) = .ok w') :
    (w'.engine.positions.any (fun p => p.vamm == v && p.trader == s) = false)
    ∨ (readPosition w'.engine v s).chk = latestCum w.engine v := by
  obtain ⟨w1, e1, x, sw, msgs, over, hst, _, _, _, _, _, _, htmp, hsv, hstr, hpos, _, hvm, _, _, hcase⟩ :=
    SatFlows.close_flow w w' env s f v l h
  rcases hcase with ⟨_, _, x', qo, w2, e3, subs3, _, _, _, _, hrep, _, heng, _, _⟩
      | ⟨_, _, N, x', bo, w2, e3, subs3, _, hrep, _, heng, _, _⟩
  · left
    have hp := (MirrorP.closePositionReply_eff w2.q e1 env qo sw htmp _ hrep).1
    have hk := EngineMoney.getPosition_key env e1 sw.vamm sw.trader sw.side
    rw [heng, hp]
    show (erasePosition e1.positions _ _).any _ = false
    rw [hk.1, hk.2, hsv, hstr]
    exact any_erase _ _ _
  · right
    obtain ⟨realized, rm, _, hrm, _, _, hchk, _⟩ :=
      EngineMoney.partialClose_no_bad_debt w2.q e1 e3 env N bo subs3 sw htmp hrep
    have hk := EngineMoney.getPosition_key env e1 sw.vamm sw.trader sw.side
    have hl := (EngineMoney.calcRemainMargin_spec e1 _ realized rm hrm).2.1
    rw [heng, ← hsv, ← hstr, hchk, hl, hk.1]
    exact latestCum_congr _ _ _ hvm

theorem sat_C11_close (w : World) (env : Env) (s : Nat) (f : Funds) (tx : Tx) :
    Spec.C11.checkClose (modelStep w env s f tx) = [] := by
  unfold modelStep
  cases happ : applyTx w env s f tx with
  | error e => rfl
  | ok w' =>
    cases tx with
    | engine m =>
      cases m with
      | closePosition v l =>
        rcases close_checkpoint w w' env s f v l happ with hno | hc
        · simp [Spec.C11.checkClose, Spec.W.engineMsg, Spec.W.hasPos, hno]
        · simp only [Spec.C11.checkClose, Spec.W.engineMsg, Spec.W.pos, hc, beq_self_eq_true, Spec.W.chk,
            Bool.not_true, Bool.false_eq_true, if_true, ite_self]
      | _ => rfl
    | _ => rfl

end Perp.Props.CapClose
