/-
  G9 helpers (C16): which handlers write the per-vAMM restriction marker.
-/
import Perp.Model.World
import Perp.Lemmas.Basic
import Perp.Props.Dispatch
import Perp.Props.EngineGuards
import Perp.Props.EngineMoney
import Perp.Props.WorldInv

namespace Perp.Props.G9Restr
open Perp Perp.World Perp.Engine
open Perp.Props.Dispatch Perp.Props.EngineMoney Perp.Props.WorldInv
open Perp.Props.EngineGuards (Post Post_error Post_exmap)

/-! ### storage -/

theorem find_filter_ne (l : List (Nat × VammMap)) (v v' : Nat) (h : v' ≠ v) :
    (l.filter (fun p => p.1 != v)).find? (fun p => p.1 == v') = l.find? (fun p => p.1 == v') := by
  induction l with
  | nil => rfl
  | cons a l ih =>
    simp only [List.filter_cons]
    by_cases ha : a.1 = v
    · have h1 : (a.1 != v) = false := by simp [ha]
      have h2 : (a.1 == v') = false := by
        simp only [beq_eq_false_iff_ne, ne_eq]
        intro hh; exact h (hh.symm.trans ha)
      rw [h1, List.find?_cons, h2]
      exact ih
    · have h1 : (a.1 != v) = true := by simp [ha]
      rw [h1]
      simp only [if_true]
      rw [List.find?_cons, List.find?_cons, ih]

theorem readVammMap_store_ne (e : E) (v v' : Nat) (m : VammMap) (h : v' ≠ v) :
    readVammMap (storeVammMap e v m) v' = readVammMap e v' := by
  unfold readVammMap storeVammMap
  simp only []
  rw [List.find?_cons]
  have : (v == v') = false := by
    simp only [beq_eq_false_iff_ne, ne_eq]
    exact fun hh => h hh.symm
  rw [this, find_filter_ne _ _ _ h]

theorem readVammMap_store (e : E) (v v' : Nat) (m : VammMap) :
    readVammMap (storeVammMap e v m) v' = if v' = v then m else readVammMap e v' := by
  by_cases h : v' = v
  · subst h
    rw [if_pos rfl]
    exact readVammMap_store_same e v' m
  · rw [if_neg h]
    exact readVammMap_store_ne e v v' m h

theorem readVammMap_same {e e' : E} (h : e'.vammMaps = e.vammMaps) (v : Nat) :
    readVammMap e' v = readVammMap e v := by
  unfold readVammMap; rw [h]

/-- `enterRestrictionMode` touches only the addressed vAMM's record -/
theorem enter_ne (e : E) (v h v' : Nat) (hne : v' ≠ v) :
    readVammMap (enterRestrictionMode e v h) v' = readVammMap e v' := by
  unfold enterRestrictionMode
  exact readVammMap_store_ne _ _ _ _ hne

/-- `appendCum` keeps the restriction marker of every vAMM -/
theorem appendCum_restr (e e1 : E) (v : Nat) (pf : Integer) (h : appendCum e v pf = .ok e1) :
    ∀ v', (readVammMap e1 v').lastRestriction = (readVammMap e v').lastRestriction := by
  have : Post (fun r => ∀ v', (readVammMap r v').lastRestriction = (readVammMap e v').lastRestriction)
      (appendCum e v pf) := by
    unfold appendCum
    post_walk [(
      intro v'
      rw [readVammMap_store]
      split
      · rename_i hv; subst hv; rfl
      · rfl)]
  exact this _ h

/-! ### reply handlers that never touch the vAMM map -/

set_option maxHeartbeats 800000 in
theorem updatePositionReply_vm (q : Q) (e : E) (env : Env) (i o id : Nat) :
    Post (fun r => r.1.vammMaps = e.vammMaps) (updatePositionReply q e env i o id) := by
  unfold updatePositionReply
  post_walk [rfl]

theorem reversePositionReply_vm (q : Q) (e : E) (env : Env) (o : Nat) :
    Post (fun r => r.1.vammMaps = e.vammMaps) (reversePositionReply q e env o) := by
  unfold reversePositionReply
  post_walk [rfl]

theorem closePositionReply_vm (q : Q) (e : E) (env : Env) (o : Nat) :
    Post (fun r => r.1.vammMaps = e.vammMaps) (closePositionReply q e env o) := by
  unfold closePositionReply
  post_walk [rfl]

theorem partialClosePositionReply_vm (q : Q) (e : E) (env : Env) (i o : Nat) :
    Post (fun r => r.1.vammMaps = e.vammMaps) (partialClosePositionReply q e env i o) := by
  unfold partialClosePositionReply
  post_walk [rfl]

theorem payFundingReply_restr (q : Q) (e : E) (env : Env) (pf : Integer) (v : Nat) :
    Post (fun r => ∀ v', (readVammMap r.1 v').lastRestriction = (readVammMap e v').lastRestriction)
      (payFundingReply q e env pf v) := by
  unfold payFundingReply
  post_walk [(exact appendCum_restr _ _ _ _ ‹appendCum _ _ _ = Except.ok _›)]

/-- replies other than the two liquidation replies keep every marker -/
theorem replyOk_restr (q : Q) (e e' : E) (env : Env) (id : Nat) (ev : Ev) (subs : List SubMsg)
    (h : replyOk q e env id ev = .ok (e', subs)) (h6 : id ≠ REPLY_LIQUIDATION) (h7 : id ≠ REPLY_PARTIAL_LIQUIDATION) :
    ∀ v, (readVammMap e' v).lastRestriction = (readVammMap e v).lastRestriction := by
  have hvm : ∀ {x : E × List SubMsg}, x.1.vammMaps = e.vammMaps →
      ∀ v, (readVammMap x.1 v).lastRestriction = (readVammMap e v).lastRestriction :=
    fun hx v => by rw [readVammMap_same hx]
  rcases replyOk_id q e env id ev _ h with ⟨rfl, pf, v, rfl⟩ | ⟨hid, o, rfl⟩
  · have h' : payFundingReply q e env pf v = .ok (e', subs) := h
    exact payFundingReply_restr _ _ _ _ _ _ h'
  · rcases hid with rfl | rfl | rfl | rfl | rfl | rfl | rfl
    · have h' : updatePositionReply q e env _ _ REPLY_INCREASE = .ok (e', subs) := h
      exact hvm (updatePositionReply_vm _ _ _ _ _ _ _ h')
    · have h' : updatePositionReply q e env _ _ REPLY_DECREASE = .ok (e', subs) := h
      exact hvm (updatePositionReply_vm _ _ _ _ _ _ _ h')
    · have h' : reversePositionReply q e env _ = .ok (e', subs) := h
      exact hvm (reversePositionReply_vm _ _ _ _ _ h')
    · have h' : closePositionReply q e env _ = .ok (e', subs) := h
      exact hvm (closePositionReply_vm _ _ _ _ _ h')
    · have h' : partialClosePositionReply q e env _ _ = .ok (e', subs) := h
      exact hvm (partialClosePositionReply_vm _ _ _ _ _ _ h')
    · exact absurd rfl h6
    · exact absurd rfl h7

/-! ### the liquidation replies -/

theorem liquidateReply_restr_others (q : Q) (e : E) (env : Env) (o : Nat) (sw : TmpSwap) (hs : e.tmpSwap = some sw) :
    Post (fun r => ∀ v, v ≠ sw.vamm → readVammMap r.1 v = readVammMap e v) (liquidateReply q e env o) := by
  unfold liquidateReply
  rw [hs]
  post_walk [(intro v hv; rw [enter_ne _ _ _ _ hv]; rfl)]

theorem partialLiquidationReply_restr_others (q : Q) (e : E) (env : Env) (i o : Nat) (sw : TmpSwap)
    (hs : e.tmpSwap = some sw) :
    Post (fun r => ∀ v, v ≠ sw.vamm → readVammMap r.1 v = readVammMap e v) (partialLiquidationReply q e env i o) := by
  unfold partialLiquidationReply
  rw [hs]
  post_walk [(intro v hv; rw [enter_ne _ _ _ _ hv]; rfl)]

theorem liquidation_reply (q : Q) (e e' : E) (env : Env) (id : Nat) (ev : Ev) (subs : List SubMsg) (sw : TmpSwap)
    (hs : e.tmpSwap = some sw) (hid : id = REPLY_LIQUIDATION ∨ id = REPLY_PARTIAL_LIQUIDATION)
    (h : replyOk q e env id ev = .ok (e', subs)) :
    (readVammMap e' sw.vamm).lastRestriction = env.height
    ∧ (∀ v, v ≠ sw.vamm → readVammMap e' v = readVammMap e v)
    ∧ e'.tmpLiq = none := by
  rcases replyOk_id q e env id ev _ h with ⟨rfl, pf, v, rfl⟩ | ⟨_, o, rfl⟩
  · rcases hid with hid | hid <;> cases hid
  · rcases hid with rfl | rfl
    · have h' : liquidateReply q e env _ = .ok (e', subs) := h
      exact ⟨EngineGuards.liquidateReply_restricts _ _ _ _ _ _ _ hs h',
        liquidateReply_restr_others _ _ _ _ _ hs _ h', (liquidateReply_res _ _ _ _ _ h').2.2.1⟩
    · have h' : partialLiquidationReply q e env _ _ = .ok (e', subs) := h
      exact ⟨EngineGuards.partialLiquidationReply_restricts _ _ _ _ _ _ _ _ hs h',
        partialLiquidationReply_restr_others _ _ _ _ _ _ hs _ h', (partialLiquidationReply_res _ _ _ _ _ _ h').2.2.1⟩

/-! ### the liquidation replies need a liquidator record -/

theorem liquidateReply_needs_liq (q : Q) (e : E) (env : Env) (o : Nat) (r : E × List SubMsg)
    (hl : e.tmpLiq = none) (h : liquidateReply q e env o = .ok r) : False := by
  unfold liquidateReply at h
  rw [hl] at h
  cases hs : e.tmpSwap with
  | none => rw [hs] at h; simp [bind, Except.bind] at h
  | some sw => rw [hs] at h; simp [bind, Except.bind, pure, Except.pure] at h

theorem partialLiquidationReply_needs_liq (q : Q) (e : E) (env : Env) (i o : Nat) (r : E × List SubMsg)
    (hl : e.tmpLiq = none) (h : partialLiquidationReply q e env i o = .ok r) : False := by
  unfold partialLiquidationReply at h
  rw [hl] at h
  cases hs : e.tmpSwap with
  | none => rw [hs] at h; simp [bind, Except.bind] at h
  | some sw => rw [hs] at h; simp [bind, Except.bind, pure, Except.pure] at h

/-- without a liquidator record no liquidation reply succeeds, and no other reply creates one -/
theorem replyOk_noLiq (q : Q) (e e' : E) (env : Env) (id : Nat) (ev : Ev) (subs : List SubMsg)
    (hl : e.tmpLiq = none) (h : replyOk q e env id ev = .ok (e', subs)) :
    id ≠ REPLY_LIQUIDATION ∧ id ≠ REPLY_PARTIAL_LIQUIDATION ∧ e'.tmpLiq = none := by
  rcases replyOk_id q e env id ev _ h with ⟨rfl, pf, v, rfl⟩ | ⟨hid, o, rfl⟩
  · have h' : payFundingReply q e env pf v = .ok (e', subs) := h
    exact ⟨by decide, by decide, ((payFundingReply_res _ _ _ _ _ _ h').2.2.1).trans hl⟩
  · rcases hid with rfl | rfl | rfl | rfl | rfl | rfl | rfl
    · have h' : updatePositionReply q e env _ _ REPLY_INCREASE = .ok (e', subs) := h
      exact ⟨by decide, by decide, ((updatePositionReply_res _ _ _ _ _ _ _ h').2.2.1).trans hl⟩
    · have h' : updatePositionReply q e env _ _ REPLY_DECREASE = .ok (e', subs) := h
      exact ⟨by decide, by decide, ((updatePositionReply_res _ _ _ _ _ _ _ h').2.2.1).trans hl⟩
    · have h' : reversePositionReply q e env _ = .ok (e', subs) := h
      exact ⟨by decide, by decide, ((reversePositionReply_res _ _ _ _ _ h').1).trans hl⟩
    · have h' : closePositionReply q e env _ = .ok (e', subs) := h
      exact ⟨by decide, by decide, ((closePositionReply_res _ _ _ _ _ h').2.2.1).trans hl⟩
    · have h' : partialClosePositionReply q e env _ _ = .ok (e', subs) := h
      exact ⟨by decide, by decide, ((partialClosePositionReply_res _ _ _ _ _ _ h').2.2.1).trans hl⟩
    · have h' : liquidateReply q e env _ = .ok (e', subs) := h
      exact (liquidateReply_needs_liq _ _ _ _ _ hl h').elim
    · have h' : partialLiquidationReply q e env _ _ = .ok (e', subs) := h
      exact (partialLiquidationReply_needs_liq _ _ _ _ _ _ hl h').elim

/-- running sub-messages of the engine while no liquidator is recorded keeps every marker -/
theorem execSubs_noLiq (fuel : Nat) (w w' : World) (subs : List SubMsg)
    (h : execSubs fuel w ENGINE subs = .ok w') (hl : w.engine.tmpLiq = none) :
    w'.engine.tmpLiq = none
    ∧ ∀ v, (readVammMap w'.engine v).lastRestriction = (readVammMap w.engine v).lastRestriction := by
  exact execSubs_engine_invariant
    (fun e => e.tmpLiq = none ∧ ∀ v, (readVammMap e v).lastRestriction = (readVammMap w.engine v).lastRestriction)
    (by
      intro q e e' env id ev subs' hP hrep
      obtain ⟨h6, h7, hl'⟩ := replyOk_noLiq q e e' env id ev subs' hP.1 hrep
      refine ⟨hl', fun v => ?_⟩
      rw [replyOk_restr q e e' env id ev subs' hrep h6 h7 v]
      exact hP.2 v)
    fuel w w' subs h ⟨hl, fun _ => rfl⟩

/-! ### execute -/

theorem partialLiquidation_vm (q : Q) (e : E) (v t l : Nat) :
    Post (fun r => r.1.vammMaps = e.vammMaps ∧ ∃ tmp, r.1.tmpSwap = some tmp ∧ tmp.vamm = (readPosition e v t).vamm)
      (partialLiquidation q e v t l) := by
  unfold partialLiquidation
  post_walk [exact ⟨rfl, _, rfl, rfl⟩]

theorem readPosition_vamm (e : E) (v t : Nat) (h : ¬ (readPosition e v t).size.value = 0) :
    (readPosition e v t).vamm = v := by
  rcases readPosition_key e v t with hk | hk
  · exact hk.1
  · rw [hk] at h; exact absurd rfl h

theorem liquidate_vm (q : Q) (e : E) (env : Env) (s v t l : Nat) :
    Post (fun r => r.1.vammMaps = e.vammMaps ∧ ∃ tmp, r.1.tmpSwap = some tmp ∧ tmp.vamm = v)
      (liquidate q e env s v t l) := by
  unfold liquidate internalClosePosition
  post_walk [(
    have ht := readPosition_vamm _ _ _ ‹¬ (readPosition _ _ _).size.value = 0›
    first
      | exact ⟨rfl, _, rfl, ht⟩
      | (have hp := partialLiquidation_vm _ _ _ _ _ _ ‹partialLiquidation _ _ _ _ _ = Except.ok _›
         obtain ⟨h1, tmp, h2, h3⟩ := hp
         exact ⟨h1, tmp, h2, h3.trans ht⟩))]

theorem updateConfig_vm (e : E) (s : Nat) (u : ConfigUpdate) :
    Post (fun r => r.vammMaps = e.vammMaps) (updateConfig e s u) := by
  unfold updateConfig
  post_walk [rfl]

theorem updatePauser_vm (e : E) (s n : Nat) : Post (fun r => r.vammMaps = e.vammMaps) (updatePauser e s n) := by
  unfold updatePauser
  post_walk [rfl]

theorem addWhitelist_vm (e : E) (s n : Nat) : Post (fun r => r.vammMaps = e.vammMaps) (addWhitelist e s n) := by
  unfold addWhitelist
  post_walk [rfl]

theorem removeWhitelist_vm (e : E) (s n : Nat) : Post (fun r => r.vammMaps = e.vammMaps) (removeWhitelist e s n) := by
  unfold removeWhitelist
  post_walk [rfl]

theorem setPause_vm (e : E) (s : Nat) (p : Bool) : Post (fun r => r.vammMaps = e.vammMaps) (setPause e s p) := by
  unfold setPause
  post_walk [rfl]

theorem openPosition_vm (q : Q) (e : E) (env : Env) (s : Nat) (f : Funds) (v : Nat) (side : Side) (m l b : Nat) :
    Post (fun r => r.1.vammMaps = e.vammMaps) (openPosition q e env s f v side m l b) := by
  unfold openPosition
  post_walk [rfl]

theorem closePosition_vm (q : Q) (e : E) (env : Env) (s v l : Nat) :
    Post (fun r => r.1.vammMaps = e.vammMaps) (closePosition q e env s v l) := by
  unfold closePosition internalClosePosition
  post_walk [rfl]

theorem depositMargin_vm (e : E) (env : Env) (s : Nat) (f : Funds) (v a : Nat) :
    Post (fun r => r.1.vammMaps = e.vammMaps) (depositMargin e env s f v a) := by
  unfold depositMargin
  post_walk [rfl]

theorem withdrawMargin_vm (q : Q) (e : E) (env : Env) (s v a : Nat) :
    Post (fun r => r.1.vammMaps = e.vammMaps) (withdrawMargin q e env s v a) := by
  unfold withdrawMargin
  post_walk [rfl]

/-- no `execute` handler writes the vAMM map -/
theorem execute_vm (q : Q) (e e' : E) (env : Env) (s : Nat) (f : Funds) (m : ExecMsg) (subs : List SubMsg)
    (h : execute q e env s f m = .ok (e', subs)) : e'.vammMaps = e.vammMaps := by
  have : Post (fun r => r.1.vammMaps = e.vammMaps) (execute q e env s f m) := by
    unfold execute
    cases m with
    | updateConfig u => exact Post_exmap (updateConfig_vm _ _ _)
    | updatePauser p => exact Post_exmap (updatePauser_vm _ _ _)
    | addWhitelist a => exact Post_exmap (addWhitelist_vm _ _ _)
    | removeWhitelist a => exact Post_exmap (removeWhitelist_vm _ _ _)
    | setPause p => exact Post_exmap (setPause_vm _ _ _)
    | openPosition v sd m l b => exact openPosition_vm _ _ _ _ _ _ _ _ _ _
    | closePosition v l => exact closePosition_vm _ _ _ _ _ _
    | liquidate v t l => exact fun r hr => (liquidate_vm _ _ _ _ _ _ _ r hr).1
    | payFunding v => exact fun r hr => congrArg E.vammMaps (payFunding_frame _ _ _ r hr).1
    | depositMargin v a => exact depositMargin_vm _ _ _ _ _ _
    | withdrawMargin v a => exact withdrawMargin_vm _ _ _ _ _ _
  exact this _ h

/-- only `liquidate` records a liquidator -/
theorem execute_tmpLiq (q : Q) (e e' : E) (env : Env) (s : Nat) (f : Funds) (m : ExecMsg) (subs : List SubMsg)
    (hnl : ∀ v t l, m ≠ .liquidate v t l)
    (h : execute q e env s f m = .ok (e', subs)) : e'.tmpLiq = e.tmpLiq := by
  unfold execute at h
  cases m with
  | updateConfig u =>
    obtain ⟨e1', h1, h2⟩ := (EngineGuards.exmap_ok _ _ _).1 h
    cases h2
    exact (updateConfig_frame _ _ _ _ h1).2.2.2
  | updatePauser p =>
    obtain ⟨e1', h1, h2⟩ := (EngineGuards.exmap_ok _ _ _).1 h
    cases h2
    exact (updatePauser_frame _ _ _ _ h1).2.2.2
  | addWhitelist a =>
    obtain ⟨e1', h1, h2⟩ := (EngineGuards.exmap_ok _ _ _).1 h
    cases h2
    exact (addWhitelist_frame _ _ _ _ h1).2.2.2
  | removeWhitelist a =>
    obtain ⟨e1', h1, h2⟩ := (EngineGuards.exmap_ok _ _ _).1 h
    cases h2
    exact (removeWhitelist_frame _ _ _ _ h1).2.2.2
  | setPause p =>
    obtain ⟨e1', h1, h2⟩ := (EngineGuards.exmap_ok _ _ _).1 h
    cases h2
    exact (setPause_frame _ _ _ _ h1).2.2.2
  | openPosition v sd mg l b => exact (openPosition_frame _ _ _ _ _ _ _ _ _ _ _ h).2.2
  | closePosition v l => exact (closePosition_frame _ _ _ _ _ _ _ h).2.2.2
  | liquidate v t l => exact absurd rfl (hnl v t l)
  | payFunding v => exact congrArg E.tmpLiq (payFunding_frame _ _ _ _ h).1
  | depositMargin v a => exact (depositMargin_frame _ _ _ _ _ _ _ h).2.2.2.1
  | withdrawMargin v a => exact (withdrawMargin_frame _ _ _ _ _ _ _ h).2.2.2.1

end Perp.Props.G9Restr
