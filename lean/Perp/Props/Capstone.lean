/-
  Capstone — the refinement layer (`Perp/Props/Sat{A,B,C,D,E,F}.lean`) closed under reachability.

  * `AllInv w`      every invariant (kind (a)) that some `sat_*` theorem assumes, as one bundle;
  * `Deployed w`    a fresh deployment; `deployed_allInv : Deployed w → AllInv w`;
  * `PresOK` / `SideOK`  the per-step side conditions (kinds (b), (c)): `PresOK` is the part the PRESERVATION of
                    `AllInv` needs, `SideOK` adds what only the `sat_*` theorems need;
  * `allInv_step`   `AllInv` is preserved by `step` under `SideOK` (indeed under `PresOK`);
  * `Reachable`     deployments closed under `step` with `SideOK`; `reachable_allInv`;
  * `reachable_sat` THE CAPSTONE: on a reachable world, under `SideOK`, every tag of every entry of
                    `Spec.allChecks (modelStep …)` is one of `knownTags` (the defects the model mirrors);
  * `reachable_clean` the fifteen properties without a known defect are `[]` (record `CleanChecks`);
  * `history_sat`   the same along any history folded with `step` from a deployment.

  Helper files (build order): Perp/Props/CapLedger.lean (`WF` is an invariant: the allowance list keeps one
  entry per owner), Perp/Props/CapClose.lean (the three entries of `allChecks` that had no refinement theorem).
-/
import Perp.Model.World
import Perp.Spec.World
import Perp.Lemmas.Basic
import Perp.Props.ModelStep
import Perp.Props.MirrorInv
import Perp.Props.SatA
import Perp.Props.SatB
import Perp.Props.SatC
import Perp.Props.SatD
import Perp.Props.SatE
import Perp.Props.SatF
import Perp.Props.CapLedger
import Perp.Props.CapClose

namespace Perp.Props.Capstone
open Perp Perp.World Perp.Engine Perp.Spec Perp.Props.ModelStep

/-! ## 1. the invariants -/

/-- every invariant of kind (a) used by some refinement theorem.  Each is preserved by `step`
    (`allInv_step`) and established by deployment (`deployed_allInv`). -/
structure AllInv (w : World) : Prop where
  /-- `ModelStep.WF` — base hypothesis of every `sat_*` theorem; read by `sat_C03` (`balNodup`), `sat_C08`,
      `sat_C10`, `sat_C07` (`noResidue`).  Preserved: `CapLedger.wf_step`. -/
  wf : WF w
  /-- one record per vAMM address — `sat_C01` (and `sat_C02` on a re-wiring step).  Preserved:
      `SatA.vammKeysNodup_step`. -/
  vammKeys : SatA.VammKeysNodup w
  /-- the mirror invariant (Σ sizes = net, `SignDir`, one record per (vAMM, trader), engine `ConfigOK`,
      no vAMM at address 0, no residue) — `sat_C02`; its conjunct `SignDir` — `sat_C15` / `C15_tags`,
      `sat_C17`, `sat_C20`; its conjunct `NoZeroVamm` — `sat_C11`.  Preserved: `MirrorP.inv_run` (needs sender ≠ ENGINE, `NotRewire`, `CurveRegular`). -/
  mirror : Mirror.Inv w
  /-- positions are held by user accounts — `sat_C03`.  Preserved: `SatA.tradersAreUsers_step` (needs
      `WF`, `UserSender`). -/
  traders : SatA.TradersAreUsers w
  /-- snapshot discipline of every vAMM at the world's block — `sat_C18`.  Preserved: `SatA.snapInvW_step`
      (needs `ClockMono`). -/
  snap : SatA.SnapInvW w
  /-- every stored margin fits `u128` — `sat_C05`.  Preserved: `SatC.marginRep_step`. -/
  marginRep : SatC.MarginRep w.engine
  /-- engine and vAMM configurations within bounds — `sat_C20`; the engine half — `sat_C06`.  Preserved:
      `SatC.allConfigOK_step`. -/
  config : SatC.AllConfigOK w
  /-- engine and insurance fund hold no position — `sat_C06`.  Preserved: `SatD.noContractPositions_step`
      (needs `NoResidue`, sender ∉ {ENGINE, IFUND}). -/
  noContract : SatD.NoContractPositions w
  /-- total collateral fits `u128` — `sat_C07` (the clean sub-case only).  Preserved:
      `SatD.totalBounded_step` (needs `balNodup`). -/
  total : SatD.TotalBounded w
  /-- registry shape of the insurance fund — `sat_C14` / `tags_C14`.  Preserved: `SatF.regInv_step`. -/
  registry : SatF14.RegInv w.ifund
  /-- funding buffer = half the funding period on every vAMM — `sat_C11` / `C11_tags`.  Preserved:
      `SatBuffer.bufferHalf_step`. -/
  buffer : SatC11.BufferHalf w

theorem AllInv.signDir {w : World} (h : AllInv w) : Mirror.SignDir w.engine := h.mirror.1.2.1

/-! ## 2. a fresh deployment -/

/-- a freshly deployed protocol (vAMM facts are stated on the stored list, so that they are decidable on
    concrete worlds) -/
structure Deployed (w : World) : Prop where
  /-- no position yet — `Mirror.Inv` (via `Mirror.Init`), `TradersAreUsers`, `MarginRep`,
      `NoContractPositions` -/
  noPositions : w.engine.positions = []
  /-- no in-flight record — `WF`, `Mirror.Inv` -/
  noResidue : WorldInv.NoResidue w.engine
  /-- configuration within bounds (both instantiate handlers validate it) — `AllConfigOK`, `Mirror.Inv` -/
  config : SatC.AllConfigOK w
  /-- one record per vAMM address — `VammKeysNodup`, `Mirror.Init` -/
  vammKeys : SatA.VammKeysNodup w
  /-- no vAMM at address 0, the engine's "no record" sentinel — `Mirror.NoZeroVamm` -/
  noZeroVamm : ∀ p ∈ w.vamms, p.1 ≠ 0
  /-- every vAMM starts with net position 0 — `Mirror.Init` -/
  flat : ∀ p ∈ w.vamms, p.2.st.net.toInt = 0
  /-- every vAMM's snapshot list is well formed at the deployment block (`C18.instantiate_snapInv`) — `SnapInvW` -/
  snaps : SatA.SnapInvW w
  /-- funding buffer = half the period (`VammGuards.instantiate_buffer`) — `BufferHalf` -/
  buffer : ∀ p ∈ w.vamms, p.2.cfg.fundingBuffer = p.2.cfg.fundingPeriod / 2
  /-- the fund's registry has no duplicates, at most three entries, and is stored if non-empty — `RegInv` -/
  registry : SatF14.RegInv w.ifund
  /-- one ledger entry per account — `WF.balNodup` -/
  balNodup : (w.ledger.bal.map (·.1)).Nodup
  /-- one allowance entry per owner — `WF.allowNodup` -/
  allowNodup : (w.ledger.allow.map (·.1)).Nodup
  /-- the collateral in existence fits `u128` — `TotalBounded` -/
  total : SatD.TotalBounded w

theorem deployed_allInv {w : World} (h : Deployed w) : AllInv w where
  wf := ⟨h.noResidue, h.balNodup, h.allowNodup⟩
  vammKeys := h.vammKeys
  mirror := by
    refine Mirror.init_inv w ⟨h.noPositions, h.noResidue, h.config.1, h.vammKeys, ?_⟩ ?_
    · intro a x hx
      exact h.flat _ (Mirror.Cex.vamm?_mem w a x hx)
    · cases hz : w.vamm? 0 with
      | none => exact hz
      | some x => exact absurd rfl (h.noZeroVamm _ (Mirror.Cex.vamm?_mem w 0 x hz))
  traders := by
    intro p hp; rw [h.noPositions] at hp; cases hp
  snap := h.snaps
  marginRep := by
    intro p hp; rw [h.noPositions] at hp; cases hp
  config := h.config
  noContract := by
    intro v
    unfold readPosition
    rw [h.noPositions]
    exact ⟨rfl, rfl⟩
  total := h.total
  registry := h.registry
  buffer := by
    intro a x hx
    exact h.buffer _ (Mirror.Cex.vamm?_mem w a x hx)

/-! ## 3. the per-step side conditions -/

/-- the side conditions the PRESERVATION of `AllInv` needs (all of kind (b)/(c): outside the properties'
    quantifiers) -/
structure PresOK (w : World) (env : Env) (s : Nat) (tx : Tx) : Prop where
  /-- the sender is a user account, not a contract of the deployment.  Preservation: `MirrorP.inv_run`
      (`s ≠ ENGINE`), `SatA.tradersAreUsers_step` (stated with the whole bundle),
      `SatD.noContractPositions_step` (`s ≠ ENGINE`, `s ≠ IFUND`).  Refinement: `sat_C02` (`s ≠ ENGINE`),
      `sat_C04`, `sat_C12` (`s ∉ {ENGINE, IFUND, FEEPOOL}`), `sat_C05` (whole bundle), `sat_C06`
      (`s ∉ {ENGINE, IFUND}`), `sat_C11` (with `wired`). -/
  user : UserSender w s
  /-- owners do not re-wire a vAMM to another margin engine.  Preservation of `Mirror.Inv` only
      (`MirrorP.inv_run`); no `sat_*` theorem needs it once `VammKeysNodup` is known. -/
  notRewire : Mirror.NotRewire tx
  /-- every curve is in its regular regime.  Preservation of `Mirror.Inv`; refinement: `sat_C02`, `sat_C20`. -/
  curve : Mirror.CurveRegular w
  /-- the chain clock does not run backwards.  Preservation of `SnapInvW`; refinement: `sat_C18`. -/
  clock : SatA.ClockMono w env

/-- all per-step side conditions: those of `PresOK` plus the ones only refinement theorems need -/
structure SideOK (w : World) (env : Env) (s : Nat) (f : Funds) (tx : Tx) : Prop extends PresOK w env s tx where
  /-- the engine's pools are the deployment's fund and fee pool, the fund pays the engine (three of the four
      fields of `ModelStep.Wired`; the fourth, on the vAMMs, is needed by nobody) — `sat_C03` (all three),
      `sat_C04`, `sat_C12` (`ifd`, `fp`), `sat_C11` (`SenderOutside`, with `user`), `sat_C07` (`ife`). -/
  wired : SatA.WiredPools w
  /-- the sender is not address 0, the engine's "no record" sentinel — `sat_C05`. -/
  nonZero : SatC.NonZeroSender s
  /- (The former field `noFunds : SatC11.NoFundsAttached w f tx` — no native coins attached to PayFunding — is
     gone: `Spec.C11.check` tolerates attached coins, `SatEWitness.c11_funds_attached_ok`.  No field depends on
     the attached funds `f` any more; the parameter stays so that the statements keep their shape.) -/

/-! ## 4. preservation -/

theorem allInv_step_pres {w : World} {env : Env} {s : Nat} {f : Funds} {tx : Tx}
    (h : AllInv w) (hs : PresOK w env s tx) : AllInv (step w env s f tx) where
  wf := CapLedger.wf_step w env s f tx h.wf
  vammKeys := SatA.vammKeysNodup_step w env s f tx h.vammKeys
  mirror := MirrorP.inv_run w env s f tx h.mirror hs.user.1 ((Mirror.notRewire_iff tx).1 hs.notRewire) hs.curve
  traders := SatA.tradersAreUsers_step w env s f tx h.wf hs.user h.traders
  snap := SatA.snapInvW_step w env s f tx h.snap hs.clock
  marginRep := SatC.marginRep_step w env s f tx h.marginRep
  config := SatC.allConfigOK_step w env s f tx h.config
  noContract := SatD.noContractPositions_step w env s f tx h.wf.noResidue h.noContract (SatD.Outsider_of_user hs.user)
  total := SatD.totalBounded_step w env s f tx h.wf.balNodup h.total
  registry := SatF.regInv_step w env s f tx h.registry
  buffer := SatBuffer.bufferHalf_step w env s f tx h.buffer

theorem allInv_step {w : World} {env : Env} {s : Nat} {f : Funds} {tx : Tx}
    (h : AllInv w) (hs : SideOK w env s f tx) : AllInv (step w env s f tx) :=
  allInv_step_pres h hs.toPresOK

/-! ## 5. reachability -/

/-- worlds reachable from a deployment by transactions that satisfy the side conditions (failed
    transactions included: `step` then only moves the clock) -/
inductive Reachable : World → Prop
  | init {w : World} : Deployed w → Reachable w
  | step {w : World} {env : Env} {s : Nat} {f : Funds} {tx : Tx} :
      Reachable w → SideOK w env s f tx → Reachable (World.step w env s f tx)

theorem reachable_allInv {w : World} (h : Reachable w) : AllInv w := by
  induction h with
  | init hd => exact deployed_allInv hd
  | step _ hs ih => exact allInv_step ih hs

/-! ## 6. the capstone -/

/-- the tags the model is known to be able to produce on reachable worlds — the defects it mirrors -/
def knownTags : List String :=
  ["liquidatable-position-could-not-be-liquidated",
   "liquidatable-position-could-not-be-liquidated(oracle-unreadable)",
   "shutdown-by-owner-failed[some-vamm-already-closed]",
   "partial-close-not-the-configured-fraction[within-requote-rounding]",
   "partial-close-not-the-configured-fraction[gross]"]

/-- the properties without a known defect: their checks are empty -/
structure CleanChecks (st : Step) : Prop where
  c01 : Spec.C01.check st = []
  c02 : Spec.C02.check st = []
  c03 : Spec.C03.check st = []
  c04 : Spec.C04.check st = []
  c05 : Spec.C05.check st = []
  c06 : Spec.C06.check st = []
  c08 : Spec.C08.check st = []
  c09 : Spec.C09.check st = []
  c10 : Spec.C10.check st = []
  c12 : Spec.C12.check st = []
  c16 : Spec.C16.check st = []
  c17 : Spec.C17.check st = []
  c18 : Spec.C18.check st = []
  c20 : Spec.C20.check st = []
  c09live : Spec.C09.checkLive st = []
  c16live : Spec.C16.checkLive st = []
  c11close : Spec.C11.checkClose st = []

/-- the fourteen clean properties (and the three extra entries of `allChecks`) from the invariants and the
    side conditions EXCEPT the precondition of C11 -/
theorem allInv_clean_core {w : World} (hI : AllInv w) {env : Env} {s : Nat} (f : Funds) {tx : Tx}
    (hp : PresOK w env s tx) (hw : SatA.WiredPools w) (h0 : SatC.NonZeroSender s) :
    CleanChecks (modelStep w env s f tx) where
  c01 := SatA.sat_C01 w env s f tx hI.wf hI.vammKeys
  c02 := SatA.sat_C02 w env s f tx hI.wf hI.mirror hp.user.1 hp.curve (Or.inr hI.vammKeys)
  c03 := SatA.sat_C03 w env s f tx hI.wf hw hI.traders
  c04 := SatB.sat_C04 w env s f tx hI.wf ⟨hw.ifd, hw.fp⟩ (SatB.outside_of_user hp.user)
  c05 := SatC.sat_C05 w env s f tx hI.wf hI.marginRep hp.user h0
  c06 := SatD.sat_C06' w env s f tx hI.wf hI.config.1 hI.noContract hp.user
  c08 := SatA.sat_C08 w env s f tx hI.wf
  c09 := SatF.sat_C09 w env s f tx hI.wf
  c10 := SatA.sat_C10 w env s f tx hI.wf
  c12 := SatB.sat_C12 w env s f tx hI.wf ⟨hw.ifd, hw.fp⟩ (SatB.outside_of_user hp.user)
  c16 := SatC.sat_C16 w env s f tx hI.wf
  c17 := SatE.sat_C17 w env s f tx hI.wf hI.signDir
  c18 := SatA.sat_C18 w env s f tx hI.wf hI.snap hp.clock
  c20 := SatC.sat_C20 w env s f tx hI.wf hI.config hI.signDir hp.curve
  c09live := CapClose.sat_C09_live w env s f tx
  c16live := CapClose.sat_C16_live w env s f tx
  c11close := CapClose.sat_C11_close w env s f tx

theorem senderOutside {w : World} {s : Nat} (hw : SatA.WiredPools w) (hu : UserSender w s) :
    SatC11.SenderOutside w s :=
  ⟨hu.1, by rw [hw.ifd]; exact hu.2.1, by rw [hw.fp]; exact hu.2.2.1⟩

theorem AllInv.noZeroVamm {w : World} (h : AllInv w) : Mirror.NoZeroVamm w := h.mirror.1.2.2.2.2

/-- C11 under its precondition (no coins attached to PayFunding; a maintenance margin ratio of 0 is allowed) -/
theorem allInv_C11 {w : World} (hI : AllInv w) {env : Env} {s : Nat} {f : Funds} {tx : Tx}
    (hs : SideOK w env s f tx) : Spec.C11.check (modelStep w env s f tx) = [] :=
  SatE.sat_C11 w env s f tx hI.wf hI.buffer (senderOutside hs.wired hs.user) hI.noZeroVamm

/-- assembling `allChecks`: a bound on the tags of each of the 21 entries bounds the tags of the list -/
theorem allChecks_sub (st : Step) (L : List String) (hc : CleanChecks st)
    (h07 : ∀ t ∈ Spec.C07.check st, t ∈ L) (h11 : ∀ t ∈ Spec.C11.check st, t ∈ L)
    (h14 : ∀ t ∈ Spec.C14.check st, t ∈ L) (h15 : ∀ t ∈ Spec.C15.check st, t ∈ L) :
    ∀ pc ∈ Spec.allChecks st, ∀ tag ∈ pc.2, tag ∈ L := by
  intro pc hpc tag htag
  unfold Spec.allChecks at hpc
  simp only [List.mem_cons, List.not_mem_nil, or_false] at hpc
  rcases hpc with rfl | rfl | rfl | rfl | rfl | rfl | rfl | rfl | rfl | rfl | rfl | rfl | rfl | rfl | rfl | rfl
    | rfl | rfl | rfl | rfl | rfl
  · rw [show ("C01", Spec.C01.check st).2 = Spec.C01.check st from rfl, hc.c01] at htag; cases htag
  · rw [show ("C02", Spec.C02.check st).2 = Spec.C02.check st from rfl, hc.c02] at htag; cases htag
  · rw [show ("C03", Spec.C03.check st).2 = Spec.C03.check st from rfl, hc.c03] at htag; cases htag
  · rw [show ("C04", Spec.C04.check st).2 = Spec.C04.check st from rfl, hc.c04] at htag; cases htag
  · rw [show ("C05", Spec.C05.check st).2 = Spec.C05.check st from rfl, hc.c05] at htag; cases htag
  · rw [show ("C06", Spec.C06.check st).2 = Spec.C06.check st from rfl, hc.c06] at htag; cases htag
  · exact h07 tag htag
  · rw [show ("C08", Spec.C08.check st).2 = Spec.C08.check st from rfl, hc.c08] at htag; cases htag
  · rw [show ("C09", Spec.C09.check st).2 = Spec.C09.check st from rfl, hc.c09] at htag; cases htag
  · rw [show ("C10", Spec.C10.check st).2 = Spec.C10.check st from rfl, hc.c10] at htag; cases htag
  · exact h11 tag htag
  · rw [show ("C12", Spec.C12.check st).2 = Spec.C12.check st from rfl, hc.c12] at htag; cases htag
  · exact h14 tag htag
  · exact h15 tag htag
  · rw [show ("C16", Spec.C16.check st).2 = Spec.C16.check st from rfl, hc.c16] at htag; cases htag
  · rw [show ("C17", Spec.C17.check st).2 = Spec.C17.check st from rfl, hc.c17] at htag; cases htag
  · rw [show ("C18", Spec.C18.check st).2 = Spec.C18.check st from rfl, hc.c18] at htag; cases htag
  · rw [show ("C20", Spec.C20.check st).2 = Spec.C20.check st from rfl, hc.c20] at htag; cases htag
  · rw [show ("C09", Spec.C09.checkLive st).2 = Spec.C09.checkLive st from rfl, hc.c09live] at htag; cases htag
  · rw [show ("C16", Spec.C16.checkLive st).2 = Spec.C16.checkLive st from rfl, hc.c16live] at htag; cases htag
  · rw [show ("C11", Spec.C11.checkClose st).2 = Spec.C11.checkClose st from rfl, hc.c11close] at htag; cases htag

theorem mem_of_sub {L K : List String} (h : ∀ t ∈ L, t ∈ K) {c : List String} (hc : ∀ t ∈ c, t ∈ L) :
    ∀ t ∈ c, t ∈ K := fun t ht => h t (hc t ht)

/-- the capstone from the invariants -/
theorem allInv_sat {w : World} (hI : AllInv w) {env : Env} {s : Nat} {f : Funds} {tx : Tx}
    (hs : SideOK w env s f tx) :
    ∀ pc ∈ Spec.allChecks (modelStep w env s f tx), ∀ tag ∈ pc.2, tag ∈ knownTags := by
  refine allChecks_sub _ _ (allInv_clean_core hI f hs.toPresOK hs.wired hs.nonZero) ?_ ?_ ?_ ?_
  · exact mem_of_sub (by decide) (SatD.sat_C07_general w env s f tx)
  · rw [allInv_C11 hI hs]; intro t ht; cases ht
  · exact mem_of_sub (by decide) (SatF.tags_C14 w env s f tx hI.wf hI.registry)
  · exact mem_of_sub (by decide) (SatE.C15_tags w env s f tx hI.wf hI.signDir)

/-- **THE CAPSTONE.**  On every world reachable from a deployment, for every transaction satisfying the
    side conditions, whatever any check of `Spec.allChecks` reports on the model's step is one of the five
    known tags: the two liveness tags of C07, the shutdown finding of C14, the two partial-close tags of C15. -/
theorem reachable_sat (w : World) (hr : Reachable w) (env : Env) (s : Nat) (f : Funds) (tx : Tx)
    (hs : SideOK w env s f tx) :
    ∀ pc ∈ Spec.allChecks (modelStep w env s f tx), ∀ tag ∈ pc.2, tag ∈ knownTags :=
  allInv_sat (reachable_allInv hr) hs

/-- the clean corollary: C01, C02, C03, C04, C05, C06, C08, C09, C10, C12, C16, C17, C18, C20, and the
    three extra entries `C09.checkLive`, `C16.checkLive`, `C11.checkClose` -/
theorem reachable_clean (w : World) (hr : Reachable w) (env : Env) (s : Nat) (f : Funds) (tx : Tx)
    (hs : SideOK w env s f tx) : CleanChecks (modelStep w env s f tx) :=
  allInv_clean_core (reachable_allInv hr) f hs.toPresOK hs.wired hs.nonZero

/-- C11 is clean too (it has no precondition of its own any more: attached coins are tolerated) -/
theorem reachable_C11 (w : World) (hr : Reachable w) (env : Env) (s : Nat) (f : Funds) (tx : Tx)
    (hs : SideOK w env s f tx) : Spec.C11.check (modelStep w env s f tx) = [] :=
  allInv_C11 (reachable_allInv hr) hs

/-! the fourteen properties one by one -/

section
variable (w : World) (hr : Reachable w) (env : Env) (s : Nat) (f : Funds) (tx : Tx) (hs : SideOK w env s f tx)
include hr hs

theorem reachable_C01 : Spec.C01.check (modelStep w env s f tx) = [] := (reachable_clean w hr env s f tx hs).c01
theorem reachable_C02 : Spec.C02.check (modelStep w env s f tx) = [] := (reachable_clean w hr env s f tx hs).c02
theorem reachable_C03 : Spec.C03.check (modelStep w env s f tx) = [] := (reachable_clean w hr env s f tx hs).c03
theorem reachable_C04 : Spec.C04.check (modelStep w env s f tx) = [] := (reachable_clean w hr env s f tx hs).c04
theorem reachable_C05 : Spec.C05.check (modelStep w env s f tx) = [] := (reachable_clean w hr env s f tx hs).c05
theorem reachable_C06 : Spec.C06.check (modelStep w env s f tx) = [] := (reachable_clean w hr env s f tx hs).c06
theorem reachable_C08 : Spec.C08.check (modelStep w env s f tx) = [] := (reachable_clean w hr env s f tx hs).c08
theorem reachable_C09 : Spec.C09.check (modelStep w env s f tx) = [] := (reachable_clean w hr env s f tx hs).c09
theorem reachable_C10 : Spec.C10.check (modelStep w env s f tx) = [] := (reachable_clean w hr env s f tx hs).c10
theorem reachable_C12 : Spec.C12.check (modelStep w env s f tx) = [] := (reachable_clean w hr env s f tx hs).c12
theorem reachable_C16 : Spec.C16.check (modelStep w env s f tx) = [] := (reachable_clean w hr env s f tx hs).c16
theorem reachable_C17 : Spec.C17.check (modelStep w env s f tx) = [] := (reachable_clean w hr env s f tx hs).c17
theorem reachable_C18 : Spec.C18.check (modelStep w env s f tx) = [] := (reachable_clean w hr env s f tx hs).c18
theorem reachable_C20 : Spec.C20.check (modelStep w env s f tx) = [] := (reachable_clean w hr env s f tx hs).c20

/-! the three properties with a known defect, in the sub-case in which the model is clean -/

/-- C07 under the sub-case `SatD.LiqSubCase` -/
theorem reachable_C07 (hsub : ∀ v t l, tx = .engine (.liquidate v t l) → SatD.LiqSubCase w env f v t) :
    Spec.C07.check (modelStep w env s f tx) = [] :=
  SatD.sat_C07 w env s f tx (reachable_allInv hr).wf (reachable_allInv hr).total hs.wired.ife hsub

omit hs in
/-- C14 when the shutdown is attempted with every registered vAMM still open -/
theorem reachable_C14 (hpre : SatF.ShutdownPre w tx) : Spec.C14.check (modelStep w env s f tx) = [] :=
  SatF.sat_C14 w env s f tx (reachable_allInv hr).wf (reachable_allInv hr).registry hpre

omit hs in
/-- C15 when the transaction is not a ClosePosition on the partial-close path -/
theorem reachable_C15 (hnp : SatC15.NoPartialClose w env s tx) : Spec.C15.check (modelStep w env s f tx) = [] :=
  SatE.sat_C15 w env s f tx (reachable_allInv hr).wf (reachable_allInv hr).signDir hnp

end


/-! ### a weaker notion of reachability

  The history only has to satisfy the PRESERVATION conditions (`PresOK`): transactions sent with a zero
  maintenance ratio configured, with coins attached to PayFunding, by account 0, or under a re-configured
  pool address may occur in the past; the remaining fields of `SideOK` are needed at the judged step only. -/

inductive ReachableP : World → Prop
  | init {w : World} : Deployed w → ReachableP w
  | step {w : World} {env : Env} {s : Nat} {f : Funds} {tx : Tx} :
      ReachableP w → PresOK w env s tx → ReachableP (World.step w env s f tx)

theorem reachableP_of_reachable {w : World} (h : Reachable w) : ReachableP w := by
  induction h with
  | init hd => exact ReachableP.init hd
  | step _ hs ih => exact ReachableP.step ih hs.toPresOK

theorem reachableP_allInv {w : World} (h : ReachableP w) : AllInv w := by
  induction h with
  | init hd => exact deployed_allInv hd
  | step _ hs ih => exact allInv_step_pres ih hs

/-- the capstone for the weaker reachability -/
theorem reachableP_sat (w : World) (hr : ReachableP w) (env : Env) (s : Nat) (f : Funds) (tx : Tx)
    (hs : SideOK w env s f tx) :
    ∀ pc ∈ Spec.allChecks (modelStep w env s f tx), ∀ tag ∈ pc.2, tag ∈ knownTags :=
  allInv_sat (reachableP_allInv hr) hs

/-! ## 7. histories -/

/-- a history: block, sender, attached funds, message of each transaction -/
abbrev History := List (Env × Nat × Funds × Tx)

/-- the world after a history (failed transactions only move the clock) -/
def run (w0 : World) (h : History) : World := h.foldl (fun w t => step w t.1 t.2.1 t.2.2.1 t.2.2.2) w0

/-- the side conditions hold at each step of the history -/
def SideAlong (w0 : World) (txs : History) : Prop :=
  ∀ (pre : History) (t : Env × Nat × Funds × Tx) (post : History), txs = pre ++ t :: post →
    SideOK (run w0 pre) t.1 t.2.1 t.2.2.1 t.2.2.2

theorem reachable_run (txs : History) : ∀ (w0 : World), Reachable w0 → SideAlong w0 txs → Reachable (run w0 txs) := by
  induction txs with
  | nil => intro w0 h _; exact h
  | cons t txs ih =>
    intro w0 h hside
    show Reachable (run (step w0 t.1 t.2.1 t.2.2.1 t.2.2.2) txs)
    refine ih _ (Reachable.step h (hside [] t txs rfl)) ?_
    intro pre t' post e
    exact hside (t :: pre) t' post (by rw [e]; rfl)

theorem sideAlong_prefix {w0 : World} {pre post : History} (h : SideAlong w0 (pre ++ post)) : SideAlong w0 pre := by
  intro p t q e
  exact h p t (q ++ post) (by rw [e]; simp)

/-- every world along a history from a deployment is reachable … -/
theorem history_reachable (w0 : World) (h0 : Deployed w0) (txs : History) (hside : SideAlong w0 txs)
    (pre post : History) (e : txs = pre ++ post) : Reachable (run w0 pre) :=
  reachable_run pre w0 (Reachable.init h0) (sideAlong_prefix (e ▸ hside))

/-- … so satisfies every invariant … -/
theorem history_allInv (w0 : World) (h0 : Deployed w0) (txs : History) (hside : SideAlong w0 txs) :
    AllInv (run w0 txs) :=
  reachable_allInv (history_reachable w0 h0 txs hside txs [] (by simp))

/-- **… and along any history from a deployment, with the side conditions at each step, every tag any check
    reports on any of its transactions is one of the known tags** (shape of `Mirror.mirror_along_history2`;
    `SideAlong` and `run` are spelled out) -/
theorem history_sat (w0 : World) (h0 : Deployed w0) (txs : List (Env × Nat × Funds × Tx))
    (hside : ∀ (pre : List (Env × Nat × Funds × Tx)) (t : Env × Nat × Funds × Tx) (post : List (Env × Nat × Funds × Tx)),
        txs = pre ++ t :: post →
        let w := pre.foldl (fun w t => step w t.1 t.2.1 t.2.2.1 t.2.2.2) w0
        SideOK w t.1 t.2.1 t.2.2.1 t.2.2.2) :
    ∀ (pre : List (Env × Nat × Funds × Tx)) (t : Env × Nat × Funds × Tx) (post : List (Env × Nat × Funds × Tx)),
      txs = pre ++ t :: post →
      let w := pre.foldl (fun w t => step w t.1 t.2.1 t.2.2.1 t.2.2.2) w0
      ∀ pc ∈ Spec.allChecks (modelStep w t.1 t.2.1 t.2.2.1 t.2.2.2), ∀ tag ∈ pc.2, tag ∈ knownTags := by
  intro pre t post e
  exact reachable_sat _ (history_reachable w0 h0 txs hside pre (t :: post) e) _ _ _ _ (hside pre t post e)

/-- the clean properties along a history -/
theorem history_clean (w0 : World) (h0 : Deployed w0) (txs : History) (hside : SideAlong w0 txs)
    (pre : History) (t : Env × Nat × Funds × Tx) (post : History) (e : txs = pre ++ t :: post) :
    CleanChecks (modelStep (run w0 pre) t.1 t.2.1 t.2.2.1 t.2.2.2)
    ∧ Spec.C11.check (modelStep (run w0 pre) t.1 t.2.1 t.2.2.1 t.2.2.2) = [] :=
  ⟨reachable_clean _ (history_reachable w0 h0 txs hside pre (t :: post) e) _ _ _ _ (hside pre t post e),
   reachable_C11 _ (history_reachable w0 h0 txs hside pre (t :: post) e) _ _ _ _ (hside pre t post e)⟩

/-! ## 8. the hypotheses are satisfiable: a concrete deployment and a concrete history -/

namespace Witness
open Perp.Props.SatEWitness (a0 a1 a2 D)

/-- `UserSender` from list-level facts -/
theorem userSender_of {w : World} {s : Nat} (h1 : s ≠ ENGINE ∧ s ≠ IFUND ∧ s ≠ FEEPOOL ∧ s ≠ FEED ∧ s ≠ TOKEN)
    (h2 : ∀ p ∈ w.vamms, s ≠ p.1) : UserSender w s :=
  ⟨h1.1, h1.2.1, h1.2.2.1, h1.2.2.2.1, h1.2.2.2.2, fun a x hx => h2 _ (Mirror.Cex.vamm?_mem w a x hx)⟩

/-- `SatEWitness.a0` (cw20 collateral, one open registered vAMM at address 10 with reserves 10000 / 1000,
    user 100 funded) is a deployment -/
theorem a0_deployed : Deployed a0 where
  noPositions := rfl
  noResidue := ⟨rfl, rfl, rfl⟩
  config := SatC.Wit.allConfigOKB_sound _ (by decide)
  vammKeys := by unfold SatA.VammKeysNodup; decide
  noZeroVamm := by decide
  flat := by decide
  snaps := by unfold SatA.SnapInvW; decide
  buffer := by decide
  registry := ⟨by decide, by decide, fun _ => rfl⟩
  balNodup := by decide
  allowNodup := by decide
  total := by unfold SatD.TotalBounded; decide

def open1 : Tx := .engine (.openPosition 10 .buy (60 * D) (10 * D) 0)
def open2 : Tx := .engine (.openPosition 10 .sell (60 * D) (10 * D) 0)

/-- the first transaction of the history `a0 → a1 → a2` satisfies the side conditions -/
theorem side0 : SideOK a0 ⟨2, 1000⟩ 100 ⟨0, false⟩ open1 where
  user := userSender_of (by decide) (by decide)
  notRewire := trivial
  curve := Mirror.Cex.curveB_sound _ (by decide)
  clock := by unfold SatA.ClockMono; decide
  wired := ⟨rfl, rfl, rfl⟩
  nonZero := by unfold SatC.NonZeroSender; decide

set_option maxRecDepth 100000 in
/-- … and so does the second -/
theorem side1 : SideOK a1 ⟨3, 2000⟩ 100 ⟨0, false⟩ open2 where
  user := userSender_of (by decide) (by decide +kernel)
  notRewire := trivial
  curve := Mirror.Cex.curveB_sound _ (by decide +kernel)
  clock := by unfold SatA.ClockMono; decide +kernel
  wired := ⟨by decide +kernel, by decide +kernel, by decide +kernel⟩
  nonZero := by unfold SatC.NonZeroSender; decide

/-- `a1` (a 10x long is open) and `a2` (closed again by an opposite order) are reachable -/
theorem a1_reachable : Reachable a1 := Reachable.step (Reachable.init a0_deployed) side0
theorem a2_reachable : Reachable a2 := Reachable.step a1_reachable side1


def open3 : Tx := .engine (.openPosition 10 .sell (60 * D) (10 * D) 1)

set_option maxRecDepth 100000 in
/-- the third transaction of `SatEWitness.c17_witness` (rejected by the caller's limit) satisfies the side
    conditions in `a2` … -/
theorem side2 : SideOK a2 ⟨4, 3000⟩ 100 ⟨0, false⟩ open3 where
  user := userSender_of (by decide) (by decide +kernel)
  notRewire := trivial
  curve := Mirror.Cex.curveB_sound _ (by decide +kernel)
  clock := by unfold SatA.ClockMono; decide +kernel
  wired := ⟨by decide +kernel, by decide +kernel, by decide +kernel⟩
  nonZero := by unfold SatC.NonZeroSender; decide

/-- … so the capstone applies to it: an instance of `reachable_sat` with every hypothesis discharged -/
theorem a2_instance :
    ∀ pc ∈ Spec.allChecks (modelStep a2 ⟨4, 3000⟩ 100 ⟨0, false⟩ open3), ∀ tag ∈ pc.2, tag ∈ knownTags :=
  reachable_sat a2 a2_reachable _ _ _ _ side2

end Witness

end Perp.Props.Capstone
