/-
  SatRoles — refinement theorem for the clause of `Spec.extraChecks5`:

  * `C09.checkFrame`  the holder of every role (engine owner, pauser, insurance-fund owner, fee-pool owner, price-feed
                      owner, every vAMM's owner) and every delegation address (the engine's fund and pool, every vAMM's
                      engine / fund / feed, the fund's engine) is the same before and after EVERY transaction, except a
                      SUCCESSFUL transfer / update-config that names exactly that field.

    Model side.  `RolesEq w w'` ("no role field moved") is a preorder.  The dispatcher keeps it
    (`exec_roles`, mutual induction over the fuel): a sub-call writes one vAMM's `st` (never its `cfg`), the ledger or the
    log; a reply writes the engine through `Engine.replyOk`, which keeps `cfg` and `pauser`.  `Engine.execute` keeps
    `cfg` except `updateConfig` (which writes exactly the fields its message names, `updateConfig_roles`) and `pauser`
    except `updatePauser`.  The non-engine transactions write one record each.  `setVamm a v'` rewrites every entry with
    key `a`, `vamm?` reads the first: the pair is a lens on the FIRST entry, so shadowed duplicates
    never show (`Frame.setVamm`) and NO hypothesis on the vAMM table is needed.

    Result.  `sat_C09_frame`, `sat_extra5`: for every world, block, sender, funds and transaction — no hypothesis.
  * `Witness.*`: the clause is not trivially empty (a moved pauser / a moved vAMM owner is reported), and the permitted
    transfer passes (evaluated by the kernel).
  * `run_pauser`, `run_engine_owner`, …: along a history the holder is the initial one unless the history contains a
    transfer of that role.
-/
import Perp.Model.World
import Perp.Spec.World
import Perp.Spec.Roles
import Perp.Lemmas.Basic
import Perp.Props.ModelStep
import Perp.Props.Dispatch
import Perp.Props.EngineGuards
import Perp.Props.VammGuards
import Perp.Props.WorldInv
import Perp.Props.Mirror.VammSide
import Perp.Props.Capstone
import Perp.Props.SatGWitness

namespace Perp.Props.SatRoles
open Perp Perp.World Perp.Spec Perp.Spec.W Perp.Props.ModelStep
open Perp.Props.Dispatch
open Perp.Props.EngineGuards (Post Post_bind Post_pure Post_ok Post_error Post_bind_pure Post_bind_error Post_exmap)

/-! ## 1. the engine's handlers: who writes `cfg.owner`, `cfg.insuranceFund`, `cfg.feePool`, `pauser` -/

section EngineSide
open Perp.Engine

/-- one field-update step of the engine's `update_config` that keeps the three addresses -/
def EKeep (c w : Config) : Prop :=
  w.owner = c.owner ∧ w.insuranceFund = c.insuranceFund ∧ w.feePool = c.feePool

theorem EKeep.refl (c : Config) : EKeep c c := ⟨rfl, rfl, rfl⟩
theorem EKeep.trans {a b c : Config} (h1 : EKeep a b) (h2 : EKeep b c) : EKeep a c :=
  ⟨h2.1.trans h1.1, h2.2.1.trans h1.2.1, h2.2.2.trans h1.2.2⟩

/-- an accepted `update_config` writes exactly the address fields its message names; the pauser stays -/
theorem updateConfig_roles (e e' : E) (s : Nat) (u : ConfigUpdate) (h : updateConfig e s u = .ok e') :
    e'.pauser = e.pauser ∧ e'.cfg.owner = u.owner.getD e.cfg.owner
      ∧ e'.cfg.insuranceFund = u.insuranceFund.getD e.cfg.insuranceFund
      ∧ e'.cfg.feePool = u.feePool.getD e.cfg.feePool := by
  unfold updateConfig at h
  split at h
  · cases h
  extract_lets c0 c1 c2 c3 j3 j2 j1 j0 at h
  have e3 : c3.owner = u.owner.getD e.cfg.owner ∧ c3.insuranceFund = u.insuranceFund.getD e.cfg.insuranceFund
      ∧ c3.feePool = u.feePool.getD e.cfg.feePool := by
    simp only [c3, c2, c1, c0]
    cases u.owner <;> cases u.insuranceFund <;> cases u.feePool <;> exact ⟨rfl, rfl, rfl⟩
  clear_value c3
  have p3 : ∀ c w, j3 c = .ok w → w.pauser = e.pauser ∧ EKeep c w.cfg := by
    intro c w hw
    simp [j3] at hw
    subst hw
    exact ⟨rfl, EKeep.refl _⟩
  clear_value j3
  have p2 : ∀ c w, j2 c = .ok w → w.pauser = e.pauser ∧ EKeep c w.cfg := by
    intro c w hw
    simp only [j2] at hw
    split at hw <;> simp at hw
    · have := p3 _ _ hw.2
      exact ⟨this.1, EKeep.trans ⟨rfl, rfl, rfl⟩ this.2⟩
    · exact p3 _ _ hw
  clear_value j2
  have p1 : ∀ c w, j1 c = .ok w → w.pauser = e.pauser ∧ EKeep c w.cfg := by
    intro c w hw
    simp only [j1] at hw
    split at hw <;> simp at hw
    · have := p2 _ _ hw.2
      exact ⟨this.1, EKeep.trans ⟨rfl, rfl, rfl⟩ this.2⟩
    · exact p2 _ _ hw
  clear_value j1
  have p0 : ∀ c w, j0 c = .ok w → w.pauser = e.pauser ∧ EKeep c w.cfg := by
    intro c w hw
    simp only [j0] at hw
    split at hw <;> simp at hw
    · have := p1 _ _ hw.2.2
      exact ⟨this.1, EKeep.trans ⟨rfl, rfl, rfl⟩ this.2⟩
    · exact p1 _ _ hw
  clear_value j0
  have fin : ∀ c, EKeep c3 c → (e'.pauser = e.pauser ∧ EKeep c e'.cfg) →
      e'.pauser = e.pauser ∧ e'.cfg.owner = u.owner.getD e.cfg.owner
      ∧ e'.cfg.insuranceFund = u.insuranceFund.getD e.cfg.insuranceFund
      ∧ e'.cfg.feePool = u.feePool.getD e.cfg.feePool := by
    intro c k1 k2
    have k := EKeep.trans k1 k2.2
    exact ⟨k2.1, k.1.trans e3.1, k.2.1.trans e3.2.1, k.2.2.trans e3.2.2⟩
  split at h <;> simp at h
  · have hp := p0 _ _ h.2.2
    exact fin _ ⟨rfl, rfl, rfl⟩ hp
  · exact fin _ (EKeep.refl _) (p0 _ _ h)

/-! ### the pauser through every handler -/

theorem partialLiquidation_pauser (q : Q) (e : E) (v t l : Nat) :
    Post (fun r => r.1.pauser = e.pauser) (partialLiquidation q e v t l) := by
  unfold partialLiquidation
  post_walk [rfl]

theorem openPosition_pauser (q : Q) (e : E) (env : Env) (s : Nat) (f : Funds) (v : Nat) (side : Side) (m l b : Nat) :
    Post (fun r => r.1.pauser = e.pauser) (openPosition q e env s f v side m l b) := by
  unfold openPosition
  post_walk [rfl]

theorem closePosition_pauser (q : Q) (e : E) (env : Env) (s v l : Nat) :
    Post (fun r => r.1.pauser = e.pauser) (closePosition q e env s v l) := by
  unfold closePosition
  post_walk [rfl]

theorem liquidate_pauser (q : Q) (e : E) (env : Env) (s v t l : Nat) :
    Post (fun r => r.1.pauser = e.pauser) (liquidate q e env s v t l) := by
  unfold liquidate
  post_walk [first | rfl | (rename_i hpl; have hc := partialLiquidation_pauser _ _ _ _ _ _ hpl; exact hc)]

theorem payFunding_pauser (q : Q) (e : E) (v : Nat) :
    Post (fun r => r.1.pauser = e.pauser) (payFunding q e v) := by
  unfold payFunding
  post_walk [rfl]

theorem depositMargin_pauser (e : E) (env : Env) (s : Nat) (f : Funds) (v a : Nat) :
    Post (fun r => r.1.pauser = e.pauser) (depositMargin e env s f v a) := by
  unfold depositMargin
  post_walk [rfl]

theorem withdrawMargin_pauser (q : Q) (e : E) (env : Env) (s v a : Nat) :
    Post (fun r => r.1.pauser = e.pauser) (withdrawMargin q e env s v a) := by
  unfold withdrawMargin
  post_walk [rfl]

theorem addWhitelist_pauser (e : E) (s n : Nat) : Post (fun r => r.pauser = e.pauser) (addWhitelist e s n) := by
  unfold addWhitelist
  post_walk [rfl]

theorem removeWhitelist_pauser (e : E) (s n : Nat) : Post (fun r => r.pauser = e.pauser) (removeWhitelist e s n) := by
  unfold removeWhitelist
  post_walk [rfl]

theorem setPause_pauser (e : E) (s : Nat) (p : Bool) : Post (fun r => r.pauser = e.pauser) (setPause e s p) := by
  unfold setPause
  post_walk [rfl]

/-- no entry point but `update_pauser` moves the pauser -/
theorem execute_pauser (q : Q) (e e' : E) (env : Env) (s : Nat) (f : Funds) (m : ExecMsg) (msgs : List SubMsg)
    (hm : ∀ n, m ≠ .updatePauser n) (h : execute q e env s f m = .ok (e', msgs)) : e'.pauser = e.pauser := by
  have : Post (fun r => r.1.pauser = e.pauser) (execute q e env s f m) := by
    unfold execute
    cases m with
    | updateConfig u => exact Post_exmap (fun v hv => (updateConfig_roles _ _ _ _ hv).1)
    | updatePauser p => exact absurd rfl (hm p)
    | addWhitelist a => exact Post_exmap (addWhitelist_pauser _ _ _)
    | removeWhitelist a => exact Post_exmap (removeWhitelist_pauser _ _ _)
    | setPause p => exact Post_exmap (setPause_pauser _ _ _)
    | openPosition v sd m l b => exact openPosition_pauser _ _ _ _ _ _ _ _ _ _
    | closePosition v l => exact closePosition_pauser _ _ _ _ _ _
    | liquidate v t l => exact liquidate_pauser _ _ _ _ _ _ _
    | payFunding v => exact payFunding_pauser _ _ _
    | depositMargin v a => exact depositMargin_pauser _ _ _ _ _ _
    | withdrawMargin v a => exact withdrawMargin_pauser _ _ _ _ _ _
  exact this _ h

theorem appendCum_pauser (e e1 : E) (v : Nat) (pf : Integer) (h : appendCum e v pf = .ok e1) : e1.pauser = e.pauser := by
  have : Post (fun r => r.pauser = e.pauser) (appendCum e v pf) := by
    unfold appendCum
    post_walk [rfl]
  exact this _ h

theorem updatePositionReply_pauser (q : Q) (e : E) (env : Env) (i o id : Nat) :
    Post (fun r => r.1.pauser = e.pauser) (updatePositionReply q e env i o id) := by
  unfold updatePositionReply
  post_walk [rfl]

theorem reversePositionReply_pauser (q : Q) (e : E) (env : Env) (o : Nat) :
    Post (fun r => r.1.pauser = e.pauser) (reversePositionReply q e env o) := by
  unfold reversePositionReply
  post_walk [rfl]

theorem closePositionReply_pauser (q : Q) (e : E) (env : Env) (o : Nat) :
    Post (fun r => r.1.pauser = e.pauser) (closePositionReply q e env o) := by
  unfold closePositionReply
  post_walk [rfl]

theorem partialClosePositionReply_pauser (q : Q) (e : E) (env : Env) (i o : Nat) :
    Post (fun r => r.1.pauser = e.pauser) (partialClosePositionReply q e env i o) := by
  unfold partialClosePositionReply
  post_walk [rfl]

theorem liquidateReply_pauser (q : Q) (e : E) (env : Env) (o : Nat) :
    Post (fun r => r.1.pauser = e.pauser) (liquidateReply q e env o) := by
  unfold liquidateReply
  post_walk [rfl]

theorem partialLiquidationReply_pauser (q : Q) (e : E) (env : Env) (i o : Nat) :
    Post (fun r => r.1.pauser = e.pauser) (partialLiquidationReply q e env i o) := by
  unfold partialLiquidationReply
  post_walk [rfl]

theorem payFundingReply_pauser (q : Q) (e : E) (env : Env) (pf : Integer) (v : Nat) :
    Post (fun r => r.1.pauser = e.pauser) (payFundingReply q e env pf v) := by
  unfold payFundingReply
  post_walk [(exact appendCum_pauser _ _ _ _ (by assumption))]

/-- no reply moves the pauser -/
theorem replyOk_pauser (q : Q) (e e' : E) (env : Env) (id : Nat) (ev : Ev) (msgs : List SubMsg)
    (h : replyOk q e env id ev = .ok (e', msgs)) : e'.pauser = e.pauser := by
  have : Post (fun r => r.1.pauser = e.pauser) (replyOk q e env id ev) := by
    unfold replyOk
    repeat' split
    all_goals try dsimp only []
    all_goals first
      | (with_reducible exact Post_error)
      | (with_reducible exact payFundingReply_pauser _ _ _ _ _)
      | (with_reducible exact updatePositionReply_pauser _ _ _ _ _ _)
      | (with_reducible exact reversePositionReply_pauser _ _ _ _)
      | (with_reducible exact closePositionReply_pauser _ _ _ _)
      | (with_reducible exact partialClosePositionReply_pauser _ _ _ _ _)
      | (with_reducible exact liquidateReply_pauser _ _ _ _)
      | (with_reducible exact partialLiquidationReply_pauser _ _ _ _ _)
  exact this _ h

end EngineSide

/-! ## 2. the vAMM's handlers: who writes `cfg.owner`, `cfg.marginEngine`, `cfg.insuranceFund`, `cfg.pricefeed` -/

section VammSide
open Perp.Vamm

/-- one step of the vAMM's `update_config` after the engine / fund fields were applied -/
def VK (pf : Option Nat) (c w : Config) : Prop :=
  w.owner = c.owner ∧ w.marginEngine = c.marginEngine ∧ w.insuranceFund = c.insuranceFund
    ∧ (pf = none → w.pricefeed = c.pricefeed)

theorem VK.refl (pf : Option Nat) (c : Config) : VK pf c c := ⟨rfl, rfl, rfl, fun _ => rfl⟩
theorem VK.trans {pf : Option Nat} {a b c : Config} (h1 : VK pf a b) (h2 : VK pf b c) : VK pf a c :=
  ⟨h2.1.trans h1.1, h2.2.1.trans h1.2.1, h2.2.2.1.trans h1.2.2.1, fun h => (h2.2.2.2 h).trans (h1.2.2.2 h)⟩

/-- an accepted vAMM `update_config` keeps the owner and writes exactly the address fields its message names -/
theorem vamm_updateConfig_roles (v v' : V) (s : Nat) (u : ConfigUpdate) (h : updateConfig v s u = .ok v') :
    v'.cfg.owner = v.cfg.owner
    ∧ (u.marginEngine = none → v'.cfg.marginEngine = v.cfg.marginEngine)
    ∧ (u.insuranceFund = none → v'.cfg.insuranceFund = v.cfg.insuranceFund)
    ∧ (u.pricefeed = none → v'.cfg.pricefeed = v.cfg.pricefeed) := by
  unfold updateConfig at h
  split at h
  · simp at h
  · extract_lets c0 c1 c2 c3 c4 j3 j2 j1 j0 at h
    have e4 : c4.owner = v.cfg.owner ∧ (u.marginEngine = none → c4.marginEngine = v.cfg.marginEngine)
        ∧ (u.insuranceFund = none → c4.insuranceFund = v.cfg.insuranceFund) ∧ c4.pricefeed = v.cfg.pricefeed := by
      simp only [c4, c3, c2, c1, c0]
      cases u.holdingCap <;> cases u.oiCap <;> cases u.marginEngine <;> cases u.insuranceFund <;>
        (refine ⟨rfl, ?_, ?_, rfl⟩ <;> intro hb <;> first | rfl | cases hb)
    clear_value c4
    have p3 : ∀ c w, j3 c = .ok w → w.cfg = c := by
      intro c w hw
      simp [j3] at hw
      subst hw
      rfl
    clear_value j3
    have p2 : ∀ c w, j2 c = .ok w → VK u.pricefeed c w.cfg := by
      intro c w hw
      simp only [j2] at hw
      revert hw
      cases u.pricefeed <;> cases u.twapInterval <;> intro hw <;> simp only [] at hw <;>
        (try split at hw) <;> (try simp at hw) <;>
        (have := p3 _ _ hw; rw [this];
         refine ⟨rfl, rfl, rfl, ?_⟩; intro hb; first | rfl | cases hb)
    clear_value j2
    have p1 : ∀ c w, j1 c = .ok w → VK u.pricefeed c w.cfg := by
      intro c w hw
      simp only [j1] at hw
      split at hw <;> simp at hw
      · have hp := p2 _ _ hw.2
        exact VK.trans ⟨rfl, rfl, rfl, fun _ => rfl⟩ hp
      · exact p2 _ _ hw
    clear_value j1
    have p0 : ∀ c w, j0 c = .ok w → VK u.pricefeed c w.cfg := by
      intro c w hw
      simp only [j0] at hw
      split at hw <;> simp at hw
      · have hp := p1 _ _ hw.2
        exact VK.trans ⟨rfl, rfl, rfl, fun _ => rfl⟩ hp
      · exact p1 _ _ hw
    clear_value j0
    have fin : ∀ c, VK u.pricefeed c4 c → VK u.pricefeed c v'.cfg →
        v'.cfg.owner = v.cfg.owner
        ∧ (u.marginEngine = none → v'.cfg.marginEngine = v.cfg.marginEngine)
        ∧ (u.insuranceFund = none → v'.cfg.insuranceFund = v.cfg.insuranceFund)
        ∧ (u.pricefeed = none → v'.cfg.pricefeed = v.cfg.pricefeed) := by
      intro c k1 k2
      have k := VK.trans k1 k2
      exact ⟨k.1.trans e4.1, fun hb => k.2.1.trans (e4.2.1 hb), fun hb => k.2.2.1.trans (e4.2.2.1 hb),
        fun hb => (k.2.2.2 hb).trans e4.2.2.2⟩
    split at h <;> simp at h
    · have hp := p0 _ _ h.2
      exact fin _ ⟨rfl, rfl, rfl, fun _ => rfl⟩ hp
    · exact fin _ (VK.refl _ _) (p0 _ _ h)

theorem swapInput_cfg (v : V) (env : Env) (s : Nat) (d : Direction) (a l : Nat) (g : Bool) (r : V × SwapOut)
    (h : swapInput v env s d a l g = .ok r) : r.1.cfg = v.cfg := by
  obtain ⟨_, _, qa, ba, hu⟩ := VammGuards.swapInput_guards _ _ _ _ _ _ _ _ h
  exact VammGuards.updateReserve_cfg _ _ _ _ _ _ _ hu

theorem swapOutput_cfg (v : V) (env : Env) (s : Nat) (d : Direction) (a l : Nat) (r : V × SwapOut)
    (h : swapOutput v env s d a l = .ok r) : r.1.cfg = v.cfg := by
  obtain ⟨_, _, d', qa, ba, hu⟩ := VammGuards.swapOutput_guards _ _ _ _ _ _ _ h
  exact VammGuards.updateReserve_cfg _ _ _ _ _ _ _ hu

theorem settleFunding_cfg (v : V) (env : Env) (s : Nat) (o : Except Err Nat) (r : V × Integer)
    (h : settleFunding v env s o = .ok r) : r.1.cfg = v.cfg := by
  obtain ⟨_, _, _, _, _, _, _, _, _, _, _, _, _, _, _, _, _, hc, _⟩ := VammGuards.settleFunding_inv _ _ _ _ _ h
  exact hc

theorem setOpen_cfg (v v' : V) (env : Env) (s : Nat) (o : Bool) (h : setOpen v env s o = .ok v') : v'.cfg = v.cfg :=
  (VammGuards.setOpen_inv _ _ _ _ _ h).2.2.2

end VammSide

/-! ## 3. the frame relation on worlds -/

open Perp.Props.MirrorP (vammE_ok setVamm_vamm_same execMsg_swapInput_inv execMsg_swapOutput_inv
  execMsg_settle_inv execMsg_setOpen_inv)

/-- which role / delegation fields a transaction may move (the `…May` functions of the specification, as a record) -/
structure Perm where
  eo : Bool
  pa : Bool
  ef : Bool
  ep : Bool
  fo : Bool
  po : Bool
  fd : Bool
  vm : Nat → Bool × Bool × Bool × Bool

/-- nothing may move -/
def Perm.none : Perm := ⟨false, false, false, false, false, false, false, fun _ => (false, false, false, false)⟩

/-- what the specification lets a SUCCESSFUL `tx` move -/
def permOf (tx : Tx) : Perm :=
  ⟨C09.engineOwnerMay tx, C09.pauserMay tx, C09.engineFundMay tx, C09.enginePoolMay tx, C09.fundOwnerMay tx,
   C09.poolOwnerMay tx, C09.feedOwnerMay tx, C09.vammMay tx⟩

/-- every role / delegation field of `w'` is the one of `w`, unless `p` lets it move; every vAMM of `w` is still there.
    (Looked up through `vamm?`, like the specification: shadowed duplicates of a key are invisible.) -/
structure Frame (p : Perm) (w w' : World) : Prop where
  eo : w'.engine.cfg.owner = w.engine.cfg.owner ∨ p.eo = true
  pa : w'.engine.pauser = w.engine.pauser ∨ p.pa = true
  ef : w'.engine.cfg.insuranceFund = w.engine.cfg.insuranceFund ∨ p.ef = true
  ep : w'.engine.cfg.feePool = w.engine.cfg.feePool ∨ p.ep = true
  fo : w'.ifund.owner = w.ifund.owner ∨ p.fo = true
  fe : w'.ifund.engine = w.ifund.engine
  po : w'.feePool.owner = w.feePool.owner ∨ p.po = true
  fd : C09.feedOwnerOf w' = C09.feedOwnerOf w ∨ p.fd = true
  vm : ∀ a x, w.vamm? a = some x → ∃ y, w'.vamm? a = some y
        ∧ (y.cfg.owner = x.cfg.owner ∨ (p.vm a).1 = true)
        ∧ (y.cfg.marginEngine = x.cfg.marginEngine ∨ (p.vm a).2.1 = true)
        ∧ (y.cfg.insuranceFund = x.cfg.insuranceFund ∨ (p.vm a).2.2.1 = true)
        ∧ (y.cfg.pricefeed = x.cfg.pricefeed ∨ (p.vm a).2.2.2 = true)

/-- "no role field moved" -/
abbrev RolesEq (w w' : World) : Prop := Frame Perm.none w w'

theorem or_trans' {α : Type} {a b c : α} {P : Prop} (h1 : b = a ∨ P) (h2 : c = b ∨ P) : c = a ∨ P := by
  rcases h2 with h2 | h2
  · rcases h1 with h1 | h1
    · exact Or.inl (h2.trans h1)
    · exact Or.inr h1
  · exact Or.inr h2

theorem Frame.refl (p : Perm) (w : World) : Frame p w w :=
  ⟨Or.inl rfl, Or.inl rfl, Or.inl rfl, Or.inl rfl, Or.inl rfl, rfl, Or.inl rfl, Or.inl rfl,
   fun _ x hx => ⟨x, hx, Or.inl rfl, Or.inl rfl, Or.inl rfl, Or.inl rfl⟩⟩

theorem Frame.trans {p : Perm} {a b c : World} (h1 : Frame p a b) (h2 : Frame p b c) : Frame p a c := by
  refine ⟨or_trans' h1.eo h2.eo, or_trans' h1.pa h2.pa, or_trans' h1.ef h2.ef, or_trans' h1.ep h2.ep,
    or_trans' h1.fo h2.fo, h2.fe.trans h1.fe, or_trans' h1.po h2.po, or_trans' h1.fd h2.fd, ?_⟩
  intro k x hx
  obtain ⟨y, hy, y1, y2, y3, y4⟩ := h1.vm k x hx
  obtain ⟨z, hz, z1, z2, z3, z4⟩ := h2.vm k y hy
  exact ⟨z, hz, or_trans' y1 z1, or_trans' y2 z2, or_trans' y3 z3, or_trans' y4 z4⟩

theorem or_weaken {A : Prop} {b : Bool} (h : A ∨ false = true) : A ∨ b = true := by
  rcases h with h | h
  · exact Or.inl h
  · cases h

/-- what did not move may be allowed to -/
theorem Frame.weaken {w w' : World} (h : RolesEq w w') (p : Perm) : Frame p w w' := by
  refine ⟨or_weaken h.eo, or_weaken h.pa, or_weaken h.ef, or_weaken h.ep, or_weaken h.fo, h.fe, or_weaken h.po,
    or_weaken h.fd, ?_⟩
  intro k x hx
  obtain ⟨y, hy, y1, y2, y3, y4⟩ := h.vm k x hx
  exact ⟨y, hy, or_weaken y1, or_weaken y2, or_weaken y3, or_weaken y4⟩

/-- the transaction's start (`applyTx` sets the block and empties the transfer log) moves nothing -/
theorem Frame.of_start {p : Perm} {w0 w' : World} {env : Env} {l : List (Nat × Nat × Nat)}
    (h : Frame p { w0 with env := env, log := l } w') : Frame p w0 w' :=
  ⟨h.eo, h.pa, h.ef, h.ep, h.fo, h.fe, h.po, h.fd, h.vm⟩

/-- the engine's record written, its four role fields as before -/
theorem Frame.engine (p : Perm) (w : World) (e2 : Engine.E)
    (h1 : e2.cfg.owner = w.engine.cfg.owner ∨ p.eo = true) (h2 : e2.pauser = w.engine.pauser ∨ p.pa = true)
    (h3 : e2.cfg.insuranceFund = w.engine.cfg.insuranceFund ∨ p.ef = true)
    (h4 : e2.cfg.feePool = w.engine.cfg.feePool ∨ p.ep = true) :
    Frame p w { w with engine := e2 } :=
  ⟨h1, h2, h3, h4, Or.inl rfl, rfl, Or.inl rfl, Or.inl rfl,
   fun _ x hx => ⟨x, hx, Or.inl rfl, Or.inl rfl, Or.inl rfl, Or.inl rfl⟩⟩

/-- the ledger and the log written -/
theorem Frame.ledger (p : Perm) (w : World) (g : Ledger) (l : List (Nat × Nat × Nat)) :
    Frame p w { w with ledger := g, log := l } :=
  ⟨Or.inl rfl, Or.inl rfl, Or.inl rfl, Or.inl rfl, Or.inl rfl, rfl, Or.inl rfl, Or.inl rfl,
   fun _ x hx => ⟨x, hx, Or.inl rfl, Or.inl rfl, Or.inl rfl, Or.inl rfl⟩⟩

/-- one vAMM's record written: `setVamm` / `vamm?` are a lens on the first entry with the key -/
theorem Frame.setVamm (p : Perm) (w : World) (a : Nat) (v v' : Vamm.V) (hv : w.vamm? a = some v)
    (h1 : v'.cfg.owner = v.cfg.owner ∨ (p.vm a).1 = true)
    (h2 : v'.cfg.marginEngine = v.cfg.marginEngine ∨ (p.vm a).2.1 = true)
    (h3 : v'.cfg.insuranceFund = v.cfg.insuranceFund ∨ (p.vm a).2.2.1 = true)
    (h4 : v'.cfg.pricefeed = v.cfg.pricefeed ∨ (p.vm a).2.2.2 = true) :
    Frame p w (w.setVamm a v') := by
  refine ⟨Or.inl rfl, Or.inl rfl, Or.inl rfl, Or.inl rfl, Or.inl rfl, rfl, Or.inl rfl, Or.inl rfl, ?_⟩
  intro k x hx
  by_cases hk : k = a
  · subst hk
    rw [hv] at hx
    cases hx
    exact ⟨v', setVamm_vamm_same _ _ _ _ hv, h1, h2, h3, h4⟩
  · rw [setVamm_vamm_ne _ _ _ _ hk]
    exact ⟨x, hx, Or.inl rfl, Or.inl rfl, Or.inl rfl, Or.inl rfl⟩

/-- … with the configuration kept (every dispatched vAMM message) -/
theorem Frame.setVamm_cfg (p : Perm) (w : World) (a : Nat) (v v' : Vamm.V) (hv : w.vamm? a = some v)
    (hc : v'.cfg = v.cfg) : Frame p w (w.setVamm a v') :=
  Frame.setVamm p w a v v' hv (Or.inl (by rw [hc])) (Or.inl (by rw [hc])) (Or.inl (by rw [hc])) (Or.inl (by rw [hc]))

/-! ## 4. the dispatcher moves no role (mutual induction over the fuel) -/

theorem exec_roles (fuel : Nat) :
    (∀ w sender m w' ev, execMsg fuel w sender m = .ok (w', ev) → RolesEq w w')
    ∧ (∀ w c subs w', execSubs fuel w c subs = .ok w' → RolesEq w w') := by
  induction fuel with
  | zero =>
    constructor
    · intro w sender m w' ev h; unfold execMsg at h; cases h
    · intro w c subs w' h; unfold execSubs at h; cases h
  | succ fuel ih =>
    constructor
    · intro w sender m w' ev h
      cases m with
      | vammSwapInput a d x l g =>
        obtain ⟨v, v', o, hv, hs, rfl, _⟩ := execMsg_swapInput_inv _ _ _ _ _ _ _ _ _ _ h
        exact Frame.setVamm_cfg _ _ _ _ _ hv (swapInput_cfg _ _ _ _ _ _ _ _ hs)
      | vammSwapOutput a d x l =>
        obtain ⟨v, v', o, hv, hs, rfl, _⟩ := execMsg_swapOutput_inv _ _ _ _ _ _ _ _ _ h
        exact Frame.setVamm_cfg _ _ _ _ _ hv (swapOutput_cfg _ _ _ _ _ _ _ hs)
      | vammSettle a =>
        obtain ⟨v, v', pf, hv, hs, rfl, _⟩ := execMsg_settle_inv _ _ _ _ _ _ h
        exact Frame.setVamm_cfg _ _ _ _ _ hv (settleFunding_cfg _ _ _ _ _ hs)
      | vammSetOpen a o =>
        obtain ⟨v, v', hv, hs, rfl⟩ := execMsg_setOpen_inv _ _ _ _ _ _ _ h
        exact Frame.setVamm_cfg _ _ _ _ _ hv (setOpen_cfg _ _ _ _ _ hs)
      | tokenTransfer to amt =>
        unfold execMsg at h
        simp at h
        obtain ⟨g, hg, rfl, _⟩ := h
        exact Frame.ledger _ _ _ _
      | tokenTransferFrom owner to amt =>
        unfold execMsg at h
        try simp only [] at h
        split at h
        · cases h
        simp at h
        obtain ⟨g, hg, rfl, _⟩ := h
        exact Frame.ledger _ _ _ _
      | bankSend to amt =>
        unfold execMsg at h
        simp at h
        obtain ⟨g, hg, rfl, _⟩ := h
        exact Frame.ledger _ _ _ _
      | ifWithdraw amt =>
        unfold execMsg at h
        try simp only [] at h
        split at h
        · cases h
        try simp only [] at h
        split at h
        · cases h
        simp at h
        obtain ⟨w1, hs, rfl, _⟩ := h
        exact ih.2 _ _ _ _ hs
    · intro w c subs w' h
      cases subs with
      | nil => rw [WorldInv.execSubs_nil _ _ _ _ h]; exact Frame.refl _ _
      | cons s rest =>
        obtain ⟨w1, ev, hx, hyes, hno⟩ := execSubs_cons_ok fuel w w' c s rest h
        have h1 := ih.1 _ _ _ _ _ hx
        by_cases hr : s.replyOn = .always ∨ s.replyOn = .success
        · obtain ⟨_, e2, subs2, w3, hrep, hs2, hrest⟩ := hyes hr
          have hc := EngineGuards.replyOk_cfg _ _ _ _ _ _ _ hrep
          have hp := replyOk_pauser _ _ _ _ _ _ _ hrep
          have h2 : RolesEq w1 { w1 with engine := e2 } :=
            Frame.engine _ _ _ (Or.inl (by rw [hc])) (Or.inl hp) (Or.inl (by rw [hc])) (Or.inl (by rw [hc]))
          exact Frame.trans (Frame.trans (Frame.trans h1 h2) (ih.2 _ _ _ _ hs2)) (ih.2 _ _ _ _ hrest)
        · exact Frame.trans h1 (ih.2 _ _ _ _ (hno hr))

/-! ## 5. one transaction -/

/-- contract records equal: nothing moved -/
theorem Frame.of_eq (p : Perm) (w w1 : World) (he : w1.engine = w.engine) (hv : w1.vamms = w.vamms)
    (hi : w1.ifund = w.ifund) (hf : w1.feePool = w.feePool) (hd : w1.feed = w.feed) : Frame p w w1 := by
  refine ⟨Or.inl (by rw [he]), Or.inl (by rw [he]), Or.inl (by rw [he]), Or.inl (by rw [he]), Or.inl (by rw [hi]),
    by rw [hi], Or.inl (by rw [hf]), Or.inl (by unfold C09.feedOwnerOf; rw [hd]), ?_⟩
  intro k x hx
  refine ⟨x, ?_, Or.inl rfl, Or.inl rfl, Or.inl rfl, Or.inl rfl⟩
  unfold vamm? at hx ⊢
  rw [hv]
  exact hx

/-- the insurance fund's record written -/
theorem Frame.ifund (p : Perm) (w : World) (x : Insurance.S) (ho : x.owner = w.ifund.owner ∨ p.fo = true)
    (he : x.engine = w.ifund.engine) : Frame p w { w with ifund := x } :=
  ⟨Or.inl rfl, Or.inl rfl, Or.inl rfl, Or.inl rfl, ho, he, Or.inl rfl, Or.inl rfl,
   fun _ x hx => ⟨x, hx, Or.inl rfl, Or.inl rfl, Or.inl rfl, Or.inl rfl⟩⟩

/-- the fee pool's record written -/
theorem Frame.feePool (p : Perm) (w : World) (x : FeePool.S) (ho : x.owner = w.feePool.owner ∨ p.po = true) :
    Frame p w { w with feePool := x } :=
  ⟨Or.inl rfl, Or.inl rfl, Or.inl rfl, Or.inl rfl, Or.inl rfl, rfl, ho, Or.inl rfl,
   fun _ x hx => ⟨x, hx, Or.inl rfl, Or.inl rfl, Or.inl rfl, Or.inl rfl⟩⟩

/-- the price feed's record written -/
theorem Frame.feed (p : Perm) (w : World) (x : FeedS)
    (ho : C09.feedOwnerOf { w with feed := x } = C09.feedOwnerOf w ∨ p.fd = true) :
    Frame p w { w with feed := x } :=
  ⟨Or.inl rfl, Or.inl rfl, Or.inl rfl, Or.inl rfl, Or.inl rfl, rfl, Or.inl rfl, ho,
   fun _ x hx => ⟨x, hx, Or.inl rfl, Or.inl rfl, Or.inl rfl, Or.inl rfl⟩⟩

theorem getD_or (o : Option Nat) {x y : Nat} (h : y = o.getD x) : y = x ∨ o.isSome = true := by
  cases o with
  | none => exact Or.inl h
  | some _ => exact Or.inr rfl

theorem none_or (o : Option Nat) (a : Nat) {x y : Nat} (h : o = none → y = x) :
    y = x ∨ (a == a && o.isSome) = true := by
  cases o with
  | none => exact Or.inl (h rfl)
  | some _ => exact Or.inr (by simp)

theorem addVamm_keep (st st' : Insurance.S) (x v : Nat) (ed vd : Except Err Nat)
    (h : Insurance.addVamm st x v ed vd = .ok st') : st'.owner = st.owner ∧ st'.engine = st.engine := by
  unfold Insurance.addVamm at h
  split at h
  · cases h
  · simp only [bind_ok_iff] at h
    obtain ⟨_, _, _, _, h⟩ := h
    repeat' split at h
    all_goals (cases h; try exact ⟨rfl, rfl⟩)

theorem removeVamm_keep (st st' : Insurance.S) (x v : Nat)
    (h : Insurance.removeVamm st x v = .ok st') : st'.owner = st.owner ∧ st'.engine = st.engine := by
  unfold Insurance.removeVamm at h
  repeat' split at h
  all_goals (cases h; try exact ⟨rfl, rfl⟩)

/-- **one accepted transaction moves only what the specification lets it move** -/
theorem applyTx_frame (w w' : World) (env : Env) (s : Nat) (f : Engine.Funds) (tx : Tx)
    (h : applyTx w env s f tx = .ok w') : Frame (permOf tx) w w' := by
  have hm : ∀ (w0 : World) m, (execMsg FUEL w0 s m).map (·.1) = .ok w' → Frame (permOf tx) w0 w' := by
    intro w0 m h'
    rw [exmap_ok] at h'
    obtain ⟨⟨w1, ev⟩, h', rfl⟩ := h'
    exact Frame.weaken ((exec_roles FUEL).1 _ _ _ _ _ h') _
  have hs : ∀ (w0 : World) c subs, execSubs FUEL w0 c subs = .ok w' → Frame (permOf tx) w0 w' := by
    intro w0 c subs h'
    exact Frame.weaken ((exec_roles FUEL).2 _ _ _ _ h') _
  cases tx with
  | engine m =>
    obtain ⟨w1, e1, subs, a1, _, a3, a4, a5, a6, hex, hrun⟩ := WorldInv.applyTx_engine_inv w w' env s f m h
    have f1 : Frame (permOf (.engine m)) w w1 := Frame.of_eq _ _ _ a1 a3 a4 a5 a6
    have f3 : Frame (permOf (.engine m)) { w1 with engine := e1 } w' := hs _ _ _ hrun
    refine Frame.trans (Frame.trans f1 ?_) f3
    by_cases h1 : ∃ u, m = .updateConfig u
    · obtain ⟨u, rfl⟩ := h1
      unfold Engine.execute at hex
      rw [exmap_ok] at hex
      obtain ⟨e', he', heq⟩ := hex
      injection heq with heq _
      subst heq
      obtain ⟨r1, r2, r3, r4⟩ := updateConfig_roles _ _ _ _ he'
      exact Frame.engine _ _ _ (getD_or _ r2) (Or.inl r1) (getD_or _ r3) (getD_or _ r4)
    by_cases h2 : ∃ n, m = .updatePauser n
    · obtain ⟨n, rfl⟩ := h2
      have hc := EngineGuards.execute_cfg _ _ _ _ _ _ _ _ (fun u e => by cases e) hex
      exact Frame.engine _ _ _ (Or.inl (by rw [hc])) (Or.inr rfl) (Or.inl (by rw [hc])) (Or.inl (by rw [hc]))
    have hc := EngineGuards.execute_cfg _ _ _ _ _ _ _ _ (fun u e => h1 ⟨u, e⟩) hex
    have hp := execute_pauser _ _ _ _ _ _ _ _ (fun n e => h2 ⟨n, e⟩) hex
    exact Frame.engine _ _ _ (Or.inl (by rw [hc])) (Or.inl hp) (Or.inl (by rw [hc])) (Or.inl (by rw [hc]))
  | vammSwapInput v dir amt lim cgo => unfold applyTx at h; exact Frame.of_start (hm _ _ h)
  | vammSwapOutput v dir amt lim => unfold applyTx at h; exact Frame.of_start (hm _ _ h)
  | vammSettle v => unfold applyTx at h; exact Frame.of_start (hm _ _ h)
  | vammSetOpen v o => unfold applyTx at h; exact Frame.of_start (hm _ _ h)
  | vammConfig v u =>
    unfold applyTx at h
    simp only [bind_ok_iff, pure_ok_iff] at h
    obtain ⟨x, hx, x', hx', rfl⟩ := h
    have hv := (vammE_ok _ _ _).1 hx
    obtain ⟨r1, r2, r3, r4⟩ := vamm_updateConfig_roles _ _ _ _ hx'
    exact Frame.of_start (Frame.setVamm _ _ v x x' hv (Or.inl r1) (none_or _ v r2) (none_or _ v r3) (none_or _ v r4))
  | vammOwner v n =>
    unfold applyTx at h
    simp only [bind_ok_iff, pure_ok_iff] at h
    obtain ⟨x, hx, x', hx', rfl⟩ := h
    have hv := (vammE_ok _ _ _).1 hx
    obtain ⟨_, rfl⟩ := VammGuards.updateOwner_inv _ _ _ _ hx'
    refine Frame.of_start (Frame.setVamm _ _ v x _ hv (Or.inr ?_) (Or.inl rfl) (Or.inl rfl) (Or.inl rfl))
    show (v == v) = true
    simp
  | ifAdd v =>
    unfold applyTx at h
    simp only [bind_ok_iff, pure_ok_iff] at h
    obtain ⟨x, hx, rfl⟩ := h
    obtain ⟨k1, k2⟩ := addVamm_keep _ _ _ _ _ _ hx
    exact Frame.of_start (Frame.ifund _ _ x (Or.inl k1) k2)
  | ifRemove v =>
    unfold applyTx at h
    simp only [bind_ok_iff, pure_ok_iff] at h
    obtain ⟨x, hx, rfl⟩ := h
    obtain ⟨k1, k2⟩ := removeVamm_keep _ _ _ _ hx
    exact Frame.of_start (Frame.ifund _ _ x (Or.inl k1) k2)
  | ifShutdown =>
    unfold applyTx at h
    dsimp only at h
    split at h
    · cases h
    · split at h
      · cases h
      · exact Frame.of_start (hs _ _ _ h)
  | ifWithdraw amt => unfold applyTx at h; exact Frame.of_start (hm _ _ h)
  | ifOwner n =>
    unfold applyTx at h
    simp only [bind_ok_iff, pure_ok_iff] at h
    obtain ⟨x, hx, rfl⟩ := h
    unfold Insurance.updateOwner at hx
    split at hx
    · cases hx
    injection hx with hx
    subst hx
    exact Frame.of_start (Frame.ifund _ _ _ (Or.inr rfl) rfl)
  | fpAdd tok =>
    unfold applyTx at h
    simp only [bind_ok_iff, pure_ok_iff] at h
    obtain ⟨x, hx, rfl⟩ := h
    unfold FeePool.addToken at hx
    repeat' split at hx
    all_goals (cases hx; try exact Frame.of_start (Frame.feePool _ _ _ (Or.inl rfl)))
  | fpRemove tok =>
    unfold applyTx at h
    simp only [bind_ok_iff, pure_ok_iff] at h
    obtain ⟨x, hx, rfl⟩ := h
    unfold FeePool.removeToken at hx
    repeat' split at hx
    all_goals (cases hx; try exact Frame.of_start (Frame.feePool _ _ _ (Or.inl rfl)))
  | fpSend tok amt to =>
    unfold applyTx at h
    dsimp only at h
    repeat' split at h
    all_goals first | exact Frame.of_start (hs _ _ _ h) | cases h
  | fpOwner n =>
    unfold applyTx at h
    simp only [bind_ok_iff, pure_ok_iff] at h
    obtain ⟨x, hx, rfl⟩ := h
    unfold FeePool.updateOwner at hx
    split at hx
    · cases hx
    injection hx with hx
    subst hx
    exact Frame.of_start (Frame.feePool _ _ _ (Or.inr rfl))
  | oracle price ts =>
    unfold applyTx at h
    dsimp only at h
    split at h
    · rename_i m hfd
      injection h with h
      subst h
      refine Frame.of_start (Frame.feed _ _ _ (Or.inl ?_))
      simp only [C09.feedOwnerOf, hfd]
    · rename_i fd hfd
      simp only [bind_ok_iff, pure_ok_iff] at h
      obtain ⟨x, hx, rfl⟩ := h
      unfold Pricefeed.appendPrice at hx
      split at hx
      · cases hx
      injection hx with hx
      subst hx
      refine Frame.of_start (Frame.feed _ _ _ (Or.inl ?_))
      simp only [C09.feedOwnerOf, hfd]
      rfl
  | feedOwner n =>
    unfold applyTx at h
    dsimp only at h
    split at h
    · split at h
      · cases h
      · injection h with h
        subst h
        exact Frame.of_start (Frame.feed _ _ _ (Or.inr rfl))
    · simp only [bind_ok_iff, pure_ok_iff] at h
      obtain ⟨x, hx, rfl⟩ := h
      exact Frame.of_start (Frame.feed _ _ _ (Or.inr rfl))
  | tokenApprove amt =>
    unfold applyTx at h
    dsimp only at h
    repeat' split at h
    all_goals first | (injection h with h; subst h; exact Frame.of_eq _ _ _ rfl rfl rfl rfl rfl) | cases h
  | tokenDecrease amt =>
    unfold applyTx at h
    dsimp only at h
    repeat' split at h
    all_goals first | (injection h with h; subst h; exact Frame.of_eq _ _ _ rfl rfl rfl rfl rfl) | cases h
  | tokenTransfer to amt =>
    unfold applyTx at h
    dsimp only at h
    split at h
    · cases h
    · exact Frame.of_start (hm _ _ h)
  | bankSend to amt =>
    unfold applyTx at h
    dsimp only at h
    split at h
    · cases h
    · exact Frame.of_start (hm _ _ h)

/-! ## 6. the clause -/

theorem cond_ok {a b : Nat} {ok may pb : Bool} (h : a = b ∨ pb = true) (hp : pb = true → ok = true ∧ may = true) :
    (a == b || (ok && may)) = true := by
  rcases h with h | h
  · simp [h]
  · obtain ⟨h1, h2⟩ := hp h
    simp [h1, h2]

/-- a step whose post-state is framed by the permissions of its transaction (when it succeeded) or by none (when it
    failed) satisfies the clause -/
theorem checkFrame_nil (st : Step) (p : Perm) (h : Frame p st.pre st.post)
    (hp : p = Perm.none ∨ (st.ok = true ∧ p = permOf st.tx)) : Spec.C09.checkFrame st = [] := by
  have key : ∀ (sel : Perm → Bool), sel Perm.none = false → sel p = true →
      st.ok = true ∧ sel (permOf st.tx) = true := by
    intro sel h0 hsel
    rcases hp with rfl | ⟨hok, rfl⟩
    · rw [h0] at hsel; cases hsel
    · exact ⟨hok, hsel⟩
  have c1 : (st.post.engine.cfg.owner == st.pre.engine.cfg.owner || (st.ok && C09.engineOwnerMay st.tx)) = true :=
    cond_ok h.eo (key (·.eo) rfl)
  have c2 : (st.post.engine.pauser == st.pre.engine.pauser || (st.ok && C09.pauserMay st.tx)) = true :=
    cond_ok h.pa (key (·.pa) rfl)
  have c3 : (st.post.engine.cfg.insuranceFund == st.pre.engine.cfg.insuranceFund
      || (st.ok && C09.engineFundMay st.tx)) = true := cond_ok h.ef (key (·.ef) rfl)
  have c4 : (st.post.engine.cfg.feePool == st.pre.engine.cfg.feePool || (st.ok && C09.enginePoolMay st.tx)) = true :=
    cond_ok h.ep (key (·.ep) rfl)
  have c5 : (st.post.ifund.owner == st.pre.ifund.owner || (st.ok && C09.fundOwnerMay st.tx)) = true :=
    cond_ok h.fo (key (·.fo) rfl)
  have c6 : (st.post.ifund.engine == st.pre.ifund.engine) = true := by simp [h.fe]
  have c7 : (st.post.feePool.owner == st.pre.feePool.owner || (st.ok && C09.poolOwnerMay st.tx)) = true :=
    cond_ok h.po (key (·.po) rfl)
  have c8 : (C09.feedOwnerOf st.post == C09.feedOwnerOf st.pre || (st.ok && C09.feedOwnerMay st.tx)) = true :=
    cond_ok h.fd (key (·.fd) rfl)
  simp only [C09.checkFrame, c1, c2, c3, c4, c5, c6, c7, c8, chk, if_true, List.nil_append]
  · rw [List.flatten_eq_nil_iff]
    intro l hl
    rw [List.mem_map] at hl
    obtain ⟨q, _, rfl⟩ := hl
    cases hx : st.pre.vamm? q.1 with
    | none => rfl
    | some x =>
      obtain ⟨y, hy, y1, y2, y3, y4⟩ := h.vm q.1 x hx
      have d1 : (y.cfg.owner == x.cfg.owner || (st.ok && (C09.vammMay st.tx q.1).1)) = true :=
        cond_ok y1 (key (fun p => (p.vm q.1).1) rfl)
      have d2 : (y.cfg.marginEngine == x.cfg.marginEngine || (st.ok && (C09.vammMay st.tx q.1).2.1)) = true :=
        cond_ok y2 (key (fun p => (p.vm q.1).2.1) rfl)
      have d3 : (y.cfg.insuranceFund == x.cfg.insuranceFund || (st.ok && (C09.vammMay st.tx q.1).2.2.1)) = true :=
        cond_ok y3 (key (fun p => (p.vm q.1).2.2.1) rfl)
      have d4 : (y.cfg.pricefeed == x.cfg.pricefeed || (st.ok && (C09.vammMay st.tx q.1).2.2.2)) = true :=
        cond_ok y4 (key (fun p => (p.vm q.1).2.2.2) rfl)
      simp only [C09.vammFrame, hy, d1, d2, d3, d4, chk]
      rfl

/-- **C09, the frame clause — MAIN: every world, every block, sender, funds and transaction; no hypothesis.**
    The model's step never moves a role holder or a delegation address except by a successful transfer /
    update-config naming exactly that field. -/
theorem sat_C09_frame (w : World) (env : Env) (s : Nat) (f : Engine.Funds) (tx : World.Tx) :
    Spec.C09.checkFrame (modelStep w env s f tx) = [] := by
  unfold modelStep
  cases h : applyTx w env s f tx with
  | ok w' => exact checkFrame_nil _ (permOf tx) (applyTx_frame w w' env s f tx h) (Or.inr ⟨rfl, rfl⟩)
  | error e => exact checkFrame_nil _ Perm.none (Frame.refl _ _) (Or.inl rfl)

/-- every clause of `Spec.extraChecks5` is empty on the model's step — every world, no hypothesis -/
theorem sat_extra5 (w : World) (env : Env) (s : Nat) (f : Engine.Funds) (tx : World.Tx) :
    ∀ pc ∈ Spec.extraChecks5 (modelStep w env s f tx), pc.2 = [] := by
  intro pc hpc
  unfold Spec.extraChecks5 at hpc
  simp only [List.mem_cons, List.not_mem_nil, or_false] at hpc
  rcases hpc with rfl
  exact sat_C09_frame w env s f tx

/-- the clauses of `extraChecks5`, as a record in the style of `SatExtra3.ExtraClean3` -/
structure ExtraClean5 (st : Step) : Prop where
  c09frame : Spec.C09.checkFrame st = []

theorem extra5_clean (w : World) (env : Env) (s : Nat) (f : Engine.Funds) (tx : World.Tx) :
    ExtraClean5 (modelStep w env s f tx) := ⟨sat_C09_frame w env s f tx⟩

/-! ## 7. along a history: a role is where it started unless the history transfers it -/

/-- `World.step` (a failed transaction only moves the clock) is framed by its transaction's permissions -/
theorem step_frame (w : World) (env : Env) (s : Nat) (f : Engine.Funds) (tx : Tx) :
    Frame (permOf tx) w (step w env s f tx) := by
  unfold step
  split
  · rename_i w' h
    exact applyTx_frame w w' env s f tx h
  · exact Frame.of_eq _ _ _ rfl rfl rfl rfl rfl

/-- a reflexive, transitive relation kept by every step whose transaction is `good` is kept by a history of them -/
theorem run_invariant (R : World → World → Prop) (hrefl : ∀ w, R w w)
    (htrans : ∀ a b c, R a b → R b c → R a c) (good : Tx → Prop)
    (hstep : ∀ w env s f tx, good tx → R w (step w env s f tx)) :
    ∀ (h : Capstone.History) (w0 : World), (∀ t ∈ h, good t.2.2.2) → R w0 (Capstone.run w0 h) := by
  intro h
  induction h with
  | nil => intro w0 _; exact hrefl w0
  | cons t h ih =>
    intro w0 hall
    have h1 := hstep w0 t.1 t.2.1 t.2.2.1 t.2.2.2 (hall t (List.mem_cons_self ..))
    have h2 := ih (step w0 t.1 t.2.1 t.2.2.1 t.2.2.2) (fun t' ht' => hall t' (List.mem_cons_of_mem _ ht'))
    exact htrans _ _ _ h1 h2

theorem or_false_true {A : Prop} {b : Bool} (h : A ∨ b = true) (hb : b = false) : A := by
  rcases h with h | h
  · exact h
  · rw [hb] at h; cases h

/-- **the pauser after a history is the pauser before it, unless the history contains an `UpdatePauser`** -/
theorem run_pauser (w0 : World) (h : Capstone.History) (hno : ∀ t ∈ h, C09.pauserMay t.2.2.2 = false) :
    (Capstone.run w0 h).engine.pauser = w0.engine.pauser :=
  run_invariant (fun a b => b.engine.pauser = a.engine.pauser) (fun _ => rfl) (fun _ _ _ h1 h2 => h2.trans h1)
    (fun tx => C09.pauserMay tx = false)
    (fun w env s f tx hg => or_false_true (step_frame w env s f tx).pa hg) h w0 hno

/-- **the engine's owner after a history is the owner before it, unless the history contains an engine
    `UpdateConfig` that names an owner** -/
theorem run_engine_owner (w0 : World) (h : Capstone.History) (hno : ∀ t ∈ h, C09.engineOwnerMay t.2.2.2 = false) :
    (Capstone.run w0 h).engine.cfg.owner = w0.engine.cfg.owner :=
  run_invariant (fun a b => b.engine.cfg.owner = a.engine.cfg.owner) (fun _ => rfl)
    (fun _ _ _ h1 h2 => h2.trans h1) (fun tx => C09.engineOwnerMay tx = false)
    (fun w env s f tx hg => or_false_true (step_frame w env s f tx).eo hg) h w0 hno

/-- the engine's insurance fund and fee pool addresses: only an engine `UpdateConfig` naming them -/
theorem run_engine_fund (w0 : World) (h : Capstone.History) (hno : ∀ t ∈ h, C09.engineFundMay t.2.2.2 = false) :
    (Capstone.run w0 h).engine.cfg.insuranceFund = w0.engine.cfg.insuranceFund :=
  run_invariant (fun a b => b.engine.cfg.insuranceFund = a.engine.cfg.insuranceFund) (fun _ => rfl)
    (fun _ _ _ h1 h2 => h2.trans h1) (fun tx => C09.engineFundMay tx = false)
    (fun w env s f tx hg => or_false_true (step_frame w env s f tx).ef hg) h w0 hno

theorem run_engine_pool (w0 : World) (h : Capstone.History) (hno : ∀ t ∈ h, C09.enginePoolMay t.2.2.2 = false) :
    (Capstone.run w0 h).engine.cfg.feePool = w0.engine.cfg.feePool :=
  run_invariant (fun a b => b.engine.cfg.feePool = a.engine.cfg.feePool) (fun _ => rfl)
    (fun _ _ _ h1 h2 => h2.trans h1) (fun tx => C09.enginePoolMay tx = false)
    (fun w env s f tx hg => or_false_true (step_frame w env s f tx).ep hg) h w0 hno

/-- the owners of the insurance fund, the fee pool and the price feed: only their `UpdateOwner` -/
theorem run_fund_owner (w0 : World) (h : Capstone.History) (hno : ∀ t ∈ h, C09.fundOwnerMay t.2.2.2 = false) :
    (Capstone.run w0 h).ifund.owner = w0.ifund.owner :=
  run_invariant (fun a b => b.ifund.owner = a.ifund.owner) (fun _ => rfl)
    (fun _ _ _ h1 h2 => h2.trans h1) (fun tx => C09.fundOwnerMay tx = false)
    (fun w env s f tx hg => or_false_true (step_frame w env s f tx).fo hg) h w0 hno

theorem run_pool_owner (w0 : World) (h : Capstone.History) (hno : ∀ t ∈ h, C09.poolOwnerMay t.2.2.2 = false) :
    (Capstone.run w0 h).feePool.owner = w0.feePool.owner :=
  run_invariant (fun a b => b.feePool.owner = a.feePool.owner) (fun _ => rfl)
    (fun _ _ _ h1 h2 => h2.trans h1) (fun tx => C09.poolOwnerMay tx = false)
    (fun w env s f tx hg => or_false_true (step_frame w env s f tx).po hg) h w0 hno

theorem run_feed_owner (w0 : World) (h : Capstone.History) (hno : ∀ t ∈ h, C09.feedOwnerMay t.2.2.2 = false) :
    C09.feedOwnerOf (Capstone.run w0 h) = C09.feedOwnerOf w0 :=
  run_invariant (fun a b => C09.feedOwnerOf b = C09.feedOwnerOf a) (fun _ => rfl)
    (fun _ _ _ h1 h2 => h2.trans h1) (fun tx => C09.feedOwnerMay tx = false)
    (fun w env s f tx hg => or_false_true (step_frame w env s f tx).fd hg) h w0 hno

/-- the address the insurance fund pays to never moves at all -/
theorem run_fund_engine (w0 : World) (h : Capstone.History) :
    (Capstone.run w0 h).ifund.engine = w0.ifund.engine :=
  run_invariant (fun a b => b.ifund.engine = a.ifund.engine) (fun _ => rfl)
    (fun _ _ _ h1 h2 => h2.trans h1) (fun _ => True)
    (fun w env s f tx _ => (step_frame w env s f tx).fe) h w0 (fun _ _ => trivial)

/-- a vAMM of the initial world is still there after any history, and its owner is the initial one unless the history
    contains an `UpdateOwner` of that vAMM -/
theorem run_vamm_owner (w0 : World) (h : Capstone.History) (a : Nat) (x : Vamm.V) (hx : w0.vamm? a = some x)
    (hno : ∀ t ∈ h, (C09.vammMay t.2.2.2 a).1 = false) :
    ∃ y, (Capstone.run w0 h).vamm? a = some y ∧ y.cfg.owner = x.cfg.owner := by
  have := run_invariant
    (fun u v => ∀ x, u.vamm? a = some x → ∃ y, v.vamm? a = some y ∧ y.cfg.owner = x.cfg.owner)
    (fun _ x hx => ⟨x, hx, rfl⟩)
    (fun _ _ _ h1 h2 x hx => by
      obtain ⟨y, hy, e1⟩ := h1 x hx
      obtain ⟨z, hz, e2⟩ := h2 y hy
      exact ⟨z, hz, e2.trans e1⟩)
    (fun tx => (C09.vammMay tx a).1 = false)
    (fun w env s f tx hg x hx => by
      obtain ⟨y, hy, y1, _⟩ := (step_frame w env s f tx).vm a x hx
      exact ⟨y, hy, or_false_true y1 hg⟩) h w0 hno
  exact this x hx

/-! ## 8. witnesses (all evaluated by the kernel) -/

namespace Witness
open Perp.Props.SatGWitness (wA vA envA D)

/-- one vAMM (address 10, owner 50), engine owner and pauser 60, fund owner 61, pool owner 62, feed owner 63 -/
def W : World := wA (100 * D) (100 * D) (100 * D)

/-- the same world with the pauser moved -/
def Wp : World := { W with engine := { W.engine with pauser := 77 } }

/-- the same world with the vAMM's owner moved -/
def Wv : World := W.setVamm 10 { vA with cfg := { vA.cfg with owner := 51 } }

set_option maxRecDepth 100000 in
/-- **the clause is not trivially empty (1)**: a pauser that moved during an `OpenPosition` is reported -/
theorem frame_sees_pauser :
    Spec.C09.checkFrame { pre := W, post := Wp, env := envA, sender := 101, funds := ⟨0, false⟩,
                          tx := .engine (.openPosition 10 .buy D D 0), ok := true, xfers := [], residue := false }
      = ["pauser-changed-by-unrelated-transaction"] := by
  decide +kernel

set_option maxRecDepth 100000 in
/-- **the clause is not trivially empty (2)**: a vAMM owner that moved under a vAMM `UpdateConfig` (which cannot name an
    owner) is reported — also when the message names every address it can name -/
theorem frame_sees_vamm_owner :
    Spec.C09.checkFrame { pre := W, post := Wv, env := envA, sender := 50, funds := ⟨0, false⟩,
                          tx := .vammConfig 10 {}, ok := true, xfers := [], residue := false }
      = ["vamm-owner-changed-by-unrelated-transaction"]
    ∧ Spec.C09.checkFrame { pre := W, post := Wv, env := envA, sender := 50, funds := ⟨0, false⟩,
                            tx := .vammConfig 10 { marginEngine := some 1, insuranceFund := some 2, pricefeed := some 4 },
                            ok := true, xfers := [], residue := false }
      = ["vamm-owner-changed-by-unrelated-transaction"] := by
  decide +kernel

set_option maxRecDepth 100000 in
/-- … and a transfer named by a FAILED transaction does not excuse a move; nor does a transfer of another vAMM -/
theorem frame_sees_failed_and_other :
    Spec.C09.checkFrame { pre := W, post := Wp, env := envA, sender := 101, funds := ⟨0, false⟩,
                          tx := .engine (.updatePauser 77), ok := false, xfers := [], residue := false }
      = ["pauser-changed-by-unrelated-transaction"]
    ∧ Spec.C09.checkFrame { pre := W, post := Wv, env := envA, sender := 50, funds := ⟨0, false⟩,
                            tx := .vammOwner 11 51, ok := true, xfers := [], residue := false }
      = ["vamm-owner-changed-by-unrelated-transaction"] := by
  decide +kernel

set_option maxRecDepth 100000 in
/-- **the permitted transfers really pass**: the pauser's `UpdatePauser{77}` is accepted, the pauser moves 60 → 77 and the
    clause is empty (an instance of `sat_C09_frame`, evaluated); a stranger's attempt is rejected and moves nothing -/
theorem pauser_transfer_passes :
    (modelStep W envA 60 ⟨0, false⟩ (.engine (.updatePauser 77))).ok = true
    ∧ (modelStep W envA 60 ⟨0, false⟩ (.engine (.updatePauser 77))).pre.engine.pauser = 60
    ∧ (modelStep W envA 60 ⟨0, false⟩ (.engine (.updatePauser 77))).post.engine.pauser = 77
    ∧ Spec.C09.checkFrame (modelStep W envA 60 ⟨0, false⟩ (.engine (.updatePauser 77))) = []
    ∧ (modelStep W envA 101 ⟨0, false⟩ (.engine (.updatePauser 77))).ok = false
    ∧ (modelStep W envA 101 ⟨0, false⟩ (.engine (.updatePauser 77))).post.engine.pauser = 60
    ∧ Spec.C09.checkFrame (modelStep W envA 101 ⟨0, false⟩ (.engine (.updatePauser 77))) = [] := by
  decide +kernel

set_option maxRecDepth 100000 in
/-- the other permitted moves, evaluated: the engine owner's `UpdateConfig{owner, insurance_fund, fee_pool}`, the vAMM
    owner's `UpdateOwner` and `UpdateConfig{margin_engine, insurance_fund, pricefeed}`, the fund / pool / feed owners'
    `UpdateOwner` — each accepted, each moves the named fields, the clause is empty -/
theorem other_transfers_pass :
    (modelStep W envA 60 ⟨0, false⟩ (.engine (.updateConfig { owner := some 70, insuranceFund := some 71, feePool := some 72 }))).ok = true
    ∧ (step W envA 60 ⟨0, false⟩ (.engine (.updateConfig { owner := some 70, insuranceFund := some 71, feePool := some 72 }))).engine.cfg.owner = 70
    ∧ Spec.C09.checkFrame (modelStep W envA 60 ⟨0, false⟩
        (.engine (.updateConfig { owner := some 70, insuranceFund := some 71, feePool := some 72 }))) = []
    ∧ (modelStep W envA 50 ⟨0, false⟩ (.vammOwner 10 51)).ok = true
    ∧ ((step W envA 50 ⟨0, false⟩ (.vammOwner 10 51)).vamm? 10).map (·.cfg.owner) = some 51
    ∧ Spec.C09.checkFrame (modelStep W envA 50 ⟨0, false⟩ (.vammOwner 10 51)) = []
    ∧ (modelStep W envA 50 ⟨0, false⟩ (.vammConfig 10 { marginEngine := some 7, insuranceFund := some 8, pricefeed := some 9 })).ok = true
    ∧ ((step W envA 50 ⟨0, false⟩ (.vammConfig 10 { marginEngine := some 7, insuranceFund := some 8, pricefeed := some 9 })).vamm? 10).map
        (fun x => (x.cfg.marginEngine, x.cfg.insuranceFund, x.cfg.pricefeed)) = some (7, 8, 9)
    ∧ Spec.C09.checkFrame (modelStep W envA 50 ⟨0, false⟩
        (.vammConfig 10 { marginEngine := some 7, insuranceFund := some 8, pricefeed := some 9 })) = []
    ∧ (modelStep W envA 61 ⟨0, false⟩ (.ifOwner 81)).ok = true
    ∧ Spec.C09.checkFrame (modelStep W envA 61 ⟨0, false⟩ (.ifOwner 81)) = []
    ∧ (modelStep W envA 62 ⟨0, false⟩ (.fpOwner 82)).ok = true
    ∧ Spec.C09.checkFrame (modelStep W envA 62 ⟨0, false⟩ (.fpOwner 82)) = []
    ∧ (modelStep W envA 63 ⟨0, false⟩ (.feedOwner 83)).ok = true
    ∧ Spec.C09.checkFrame (modelStep W envA 63 ⟨0, false⟩ (.feedOwner 83)) = [] := by
  decide +kernel

/-- a table with a shadowed duplicate of key 10 whose configuration differs: `setVamm` rewrites both entries, `vamm?`
    (and the clause) see only the first -/
def Wdup : World := { W with vamms := [(10, vA), (10, { vA with cfg := { vA.cfg with owner := 99, marginEngine := 98 } })] }

set_option maxRecDepth 100000 in
/-- **no `VammKeysNodup` hypothesis is needed**: on a table with a shadowed duplicate the owner's `SetOpen{false}` is
    accepted, rewrites BOTH entries (the shadowed one's configuration is overwritten), and the clause is empty -/
theorem duplicate_keys_harmless :
    (modelStep Wdup envA 50 ⟨0, false⟩ (.vammSetOpen 10 false)).ok = true
    ∧ (step Wdup envA 50 ⟨0, false⟩ (.vammSetOpen 10 false)).vamms.map (fun p => (p.1, p.2.cfg.owner, p.2.st.isOpen))
        = [(10, 50, false), (10, 50, false)]
    ∧ Spec.C09.checkFrame (modelStep Wdup envA 50 ⟨0, false⟩ (.vammSetOpen 10 false)) = [] := by
  decide +kernel

end Witness

end Perp.Props.SatRoles
