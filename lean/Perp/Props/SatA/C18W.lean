/-
  SatA / C18 (world part): after every transaction every stored vAMM obeys the snapshot discipline.
-/
import Perp.Props.C18
import Perp.Props.SatA.Common
import Perp.Props.SatA.VammLift

namespace Perp.Props.SatA
open Perp Perp.World Perp.Engine Perp.Spec Perp.Props.ModelStep
open Perp.Props.SatA.VammLift

/-- INVARIANT (kind a) — every stored vAMM obeys the snapshot discipline at the world's last block.
    `C18.instantiate_snapInv` establishes it at instantiation and `snapInvW_step` below shows that `step`
    preserves it under a monotone clock.  Needed by `snapshot-discipline(v·)`: the check is evaluated on
    EVERY stored vAMM, also on those the transaction does not touch (and on all of them after a failed
    transaction), so it must already hold before (witness: `Cex.c18_inv_witness` in Perp/Props/SatA/Witness.lean). -/
def SnapInvW (w : World) : Prop := ∀ p ∈ w.vamms, Spec.C18.snapshotsOk p.2.st w.env = true

/-- CHAIN CLOCK (kind c) — block height and time do not run backwards: the transaction's block is not earlier
    than the block of the previous transaction.  C18 is stated "under a monotone chain clock"
    (`C18.apply_snapInv` has the same premise); without it the clause "newest snapshot not from the future"
    fails for an untouched vAMM (a snapshot stamped at height 10 observed in a block of height 5: `Cex.c18_clock_witness`). -/
def ClockMono (w : World) (env : Env) : Prop := w.env.height ≤ env.height ∧ w.env.time ≤ env.time

theorem snap_hop (env : Env) : ∀ (_a : Nat) (v v' : Vamm.V) (sender : Nat) (op : Vamm.VOp),
    Spec.C18.snapshotsOk v.st env = true → Vamm.apply v ⟨env, sender, op⟩ = .ok v' →
    Spec.C18.snapshotsOk v'.st env = true := by
  intro a v v' sender op hv h
  exact C18.apply_snapInv v v' ⟨env, sender, op⟩ env hv (Nat.le_refl _) (Nat.le_refl _) h

theorem snapInvW_at (w : World) (env : Env) (hs : SnapInvW w) (hc : ClockMono w env) :
    VI (fun _ v => Spec.C18.snapshotsOk v.st env = true) w := by
  intro p hp
  exact C18.snapshotsOk_mono _ _ _ _ (hs p hp) rfl rfl rfl hc.1 hc.2

theorem snap_applyTx (w w' : World) (env : Env) (s : Nat) (f : Funds) (tx : Tx)
    (hs : SnapInvW w) (hc : ClockMono w env) (h : applyTx w env s f tx = .ok w') :
    (∀ p ∈ w'.vamms, Spec.C18.snapshotsOk p.2.st env = true) ∧ w'.env = env :=
  applyTx_VI (fun _ v => Spec.C18.snapshotsOk v.st env = true) env (snap_hop env) w w' s f tx h
    (snapInvW_at w env hs hc)

/-- `SnapInvW` is an invariant of `step` along a monotone clock -/
theorem snapInvW_step (w : World) (env : Env) (s : Nat) (f : Funds) (tx : Tx)
    (hs : SnapInvW w) (hc : ClockMono w env) : SnapInvW (step w env s f tx) := by
  unfold step
  split
  · rename_i w' h
    obtain ⟨h1, h2⟩ := snap_applyTx w w' env s f tx hs hc h
    intro p hp
    rw [h2]
    exact h1 p hp
  · exact snapInvW_at w env hs hc

theorem c18_sat (w : World) (env : Env) (s : Nat) (f : Funds) (tx : Tx)
    (hs : SnapInvW w) (hc : ClockMono w env) :
    Spec.C18.check (modelStep w env s f tx) = [] := by
  unfold Spec.C18.check
  apply foldl_append_nil
  intro p hp
  apply chk_nil
  rcases except_cases (applyTx w env s f tx) with ⟨e, h⟩ | ⟨w', h⟩
  · rw [modelStep_err h] at hp ⊢
    exact snapInvW_at w env hs hc p hp
  · rw [modelStep_ok h] at hp ⊢
    exact (snap_applyTx w w' env s f tx hs hc h).1 p hp

end Perp.Props.SatA
