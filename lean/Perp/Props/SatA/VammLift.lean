/-
  SatA — lifting of vAMM-level invariants along the dispatcher: every change of a vAMM's record inside a
  transaction is one accepted `Vamm.apply` call at the transaction's block.  A predicate on (address, record)
  pairs that every accepted call preserves is therefore preserved by `execMsg`, `execSubs`, `applyTx`.
-/
import Perp.Model.World
import Perp.Model.VammRun
import Perp.Lemmas.Basic
import Perp.Props.Dispatch
import Perp.Props.WorldInv

namespace Perp.Props.SatA.VammLift
open Perp Perp.World Perp.Engine
open Perp.Props.Dispatch

/-- every stored vAMM record satisfies `Q` (at its address) -/
def VI (Q : Nat → Vamm.V → Prop) (w : World) : Prop := ∀ p ∈ w.vamms, Q p.1 p.2

theorem vamm?_mem {w : World} {a : Nat} {v : Vamm.V} (h : w.vamm? a = some v) : (a, v) ∈ w.vamms := by
  unfold vamm? at h
  split at h
  · rename_i p hp
    cases h
    have h1 := List.find?_some hp
    have h2 := List.mem_of_find?_eq_some hp
    have : p.1 = a := by simpa using h1
    rw [← this]
    exact h2
  · cases h

theorem vammE_ok {w : World} {a : Nat} {v : Vamm.V} (h : w.vammE a = .ok v) : w.vamm? a = some v := by
  unfold vammE at h
  split at h
  · rename_i x hx; cases h; exact hx
  · cases h

theorem VI_congr {Q : Nat → Vamm.V → Prop} {w w' : World} (h : w'.vamms = w.vamms) (hQ : VI Q w) : VI Q w' := by
  unfold VI; rw [h]; exact hQ

theorem VI_setVamm {Q : Nat → Vamm.V → Prop} {w : World} {a : Nat} {v' : Vamm.V}
    (hQ : VI Q w) (h' : Q a v') : VI Q (w.setVamm a v') := by
  intro p hp
  unfold setVamm at hp
  simp only [List.mem_map] at hp
  obtain ⟨p0, hp0, rfl⟩ := hp
  split
  · exact h'
  · exact hQ p0 hp0

section
variable (I : List (Nat × Vamm.V) → Prop) (env : Env)
variable (hset : ∀ (w : World) (a : Nat) (v v' : Vamm.V) (sender : Nat) (op : Vamm.VOp),
    I w.vamms → w.vamm? a = some v → Vamm.apply v ⟨env, sender, op⟩ = .ok v' → I (w.setVamm a v').vamms)
include hset

theorem exec_I (fuel : Nat) :
    (∀ w sender m w' ev, execMsg fuel w sender m = .ok (w', ev) → w.env = env → I w.vamms → I w'.vamms ∧ w'.env = env)
    ∧ (∀ w c subs w', execSubs fuel w c subs = .ok w' → w.env = env → I w.vamms → I w'.vamms ∧ w'.env = env) := by
  induction fuel with
  | zero =>
    constructor
    · intro w sender m w' ev h; unfold execMsg at h; cases h
    · intro w c subs w' h; unfold execSubs at h; cases h
  | succ fuel ih =>
    constructor
    · intro w sender m w' ev h henv hQ
      unfold execMsg at h
      cases m with
      | vammSwapInput a d x l g =>
        simp at h
        obtain ⟨v, hv, v', o, hsw, rfl, _⟩ := h
        refine ⟨hset w a v v' sender (.swapInput d x l g) hQ (vammE_ok hv) ?_, henv⟩
        simp only [Vamm.apply]
        rw [← henv, hsw]; rfl
      | vammSwapOutput a d x l =>
        simp at h
        obtain ⟨v, hv, v', o, hsw, rfl, _⟩ := h
        refine ⟨hset w a v v' sender (.swapOutput d x l) hQ (vammE_ok hv) ?_, henv⟩
        simp only [Vamm.apply]
        rw [← henv, hsw]; rfl
      | vammSettle a =>
        simp at h
        obtain ⟨v, hv, v', o, hsw, rfl, _⟩ := h
        refine ⟨hset w a v v' sender (.settle (w.oracleTwap v.cfg.pricefeed v.cfg.twapInterval)) hQ
          (vammE_ok hv) ?_, henv⟩
        simp only [Vamm.apply]
        rw [← henv, hsw]; rfl
      | vammSetOpen a o =>
        simp at h
        obtain ⟨v, hv, v', hsw, rfl, _⟩ := h
        refine ⟨hset w a v v' sender (.setOpen o) hQ (vammE_ok hv) ?_, henv⟩
        simp only [Vamm.apply]
        rw [← henv, hsw]
      | tokenTransfer to amt =>
        simp at h
        obtain ⟨g, hg, rfl, _⟩ := h
        exact ⟨hQ, henv⟩
      | tokenTransferFrom owner to amt =>
        try simp only [] at h
        split at h
        · cases h
        simp at h
        obtain ⟨g, hg, rfl, _⟩ := h
        exact ⟨hQ, henv⟩
      | bankSend to amt =>
        simp at h
        obtain ⟨g, hg, rfl, _⟩ := h
        exact ⟨hQ, henv⟩
      | ifWithdraw amt =>
        try simp only [] at h
        split at h
        · cases h
        try simp only [] at h
        split at h
        · cases h
        simp at h
        obtain ⟨w1, hs, rfl, _⟩ := h
        exact ih.2 _ _ _ _ hs henv hQ
    · intro w c subs w' h henv hQ
      cases subs with
      | nil => rw [WorldInv.execSubs_nil _ _ _ _ h]; exact ⟨hQ, henv⟩
      | cons s rest =>
        obtain ⟨w1, ev, hx, hyes, hno⟩ := execSubs_cons_ok fuel w w' c s rest h
        obtain ⟨h1, e1⟩ := ih.1 _ _ _ _ _ hx henv hQ
        by_cases hr : s.replyOn = .always ∨ s.replyOn = .success
        · obtain ⟨_, e2, subs2, w3, hrep, hs2, hrest⟩ := hyes hr
          obtain ⟨h3, e3⟩ := ih.2 _ _ _ _ hs2 e1 h1
          exact ih.2 _ _ _ _ hrest e3 h3
        · exact ih.2 _ _ _ _ (hno hr) e1 h1

/-- a whole transaction preserves the invariant -/
theorem applyTx_I (w w' : World) (s : Nat) (f : Funds) (tx : Tx)
    (h : applyTx w env s f tx = .ok w') (hQ : I w.vamms) : I w'.vamms ∧ w'.env = env := by
  have hQ0 : I ({ w with env := env, log := [] } : World).vamms := hQ
  have hm : ∀ m, (execMsg FUEL { w with env := env, log := [] } s m).map (·.1) = .ok w' → I w'.vamms ∧ w'.env = env := by
    intro m h'
    rw [exmap_ok] at h'
    obtain ⟨⟨w1, ev⟩, h', rfl⟩ := h'
    exact (exec_I I env hset FUEL).1 _ _ _ _ _ h' rfl hQ0
  have hs : ∀ c subs, execSubs FUEL { w with env := env, log := [] } c subs = .ok w' → I w'.vamms ∧ w'.env = env := by
    intro c subs h'
    exact (exec_I I env hset FUEL).2 _ _ _ _ h' rfl hQ0
  by_cases hne : ∃ m, tx = .engine m
  · obtain ⟨m, rfl⟩ := hne
    obtain ⟨w1, e1, subs, a1, a2, a3, _, _, _, hex, hrun⟩ := WorldInv.applyTx_engine_inv w w' env s f m h
    exact (exec_I I env hset FUEL).2 _ _ _ _ hrun a2 (by rw [a3]; exact hQ)
  unfold applyTx at h
  cases tx <;> dsimp only at h
  case engine m => exact absurd ⟨m, rfl⟩ hne
  case vammSwapInput v dir amt lim cgo => exact hm _ h
  case vammSwapOutput v dir amt lim => exact hm _ h
  case vammSettle v => exact hm _ h
  case vammSetOpen v o => exact hm _ h
  case vammConfig v u =>
    simp at h
    obtain ⟨x, hx, x', hx', rfl⟩ := h
    exact ⟨hset _ v x x' s (.updateConfig u) hQ0 (vammE_ok hx) hx', rfl⟩
  case vammOwner v n =>
    simp at h
    obtain ⟨x, hx, x', hx', rfl⟩ := h
    exact ⟨hset _ v x x' s (.updateOwner n) hQ0 (vammE_ok hx) hx', rfl⟩
  case ifAdd v =>
    simp at h
    obtain ⟨_, _, rfl⟩ := h
    exact ⟨hQ, rfl⟩
  case ifRemove v =>
    simp at h
    obtain ⟨_, _, rfl⟩ := h
    exact ⟨hQ, rfl⟩
  case ifShutdown =>
    split at h
    · cases h
    · split at h
      · cases h
      · exact hs _ _ h
  case ifWithdraw amt => exact hm _ h
  case ifOwner n =>
    simp at h
    obtain ⟨_, _, rfl⟩ := h
    exact ⟨hQ, rfl⟩
  case fpAdd tok =>
    simp at h
    obtain ⟨_, _, rfl⟩ := h
    exact ⟨hQ, rfl⟩
  case fpRemove tok =>
    simp at h
    obtain ⟨_, _, rfl⟩ := h
    exact ⟨hQ, rfl⟩
  case fpSend tok amt to =>
    repeat' split at h
    all_goals first | exact hs _ _ h | cases h
  case fpOwner n =>
    simp at h
    obtain ⟨_, _, rfl⟩ := h
    exact ⟨hQ, rfl⟩
  case oracle price ts =>
    split at h
    · injection h with h; subst h; exact ⟨hQ, rfl⟩
    · simp at h
      obtain ⟨_, _, rfl⟩ := h
      exact ⟨hQ, rfl⟩
  case feedOwner n =>
    split at h
    · split at h
      · cases h
      · injection h with h; subst h; exact ⟨hQ, rfl⟩
    · simp at h
      obtain ⟨_, _, rfl⟩ := h
      exact ⟨hQ, rfl⟩
  case tokenApprove amt =>
    repeat' split at h
    all_goals first | (injection h with h; subst h; exact ⟨hQ, rfl⟩) | cases h
  case tokenDecrease amt =>
    repeat' split at h
    all_goals first | (injection h with h; subst h; exact ⟨hQ, rfl⟩) | cases h
  case tokenTransfer to amt =>
    split at h
    · cases h
    · exact hm _ h
  case bankSend to amt =>
    split at h
    · cases h
    · exact hm _ h

end

/-- membership form: a predicate on (address, record) that every accepted call preserves -/
theorem applyTx_VI (Q : Nat → Vamm.V → Prop) (env : Env)
    (hop : ∀ (a : Nat) (v v' : Vamm.V) (sender : Nat) (op : Vamm.VOp),
      Q a v → Vamm.apply v ⟨env, sender, op⟩ = .ok v' → Q a v')
    (w w' : World) (s : Nat) (f : Funds) (tx : Tx)
    (h : applyTx w env s f tx = .ok w') (hQ : VI Q w) : VI Q w' ∧ w'.env = env :=
  applyTx_I (fun l => ∀ p ∈ l, Q p.1 p.2) env
    (fun w a v v' sender op hI hv hap =>
      VI_setVamm (w := w) hI (hop a v v' sender op (hI _ (vamm?_mem hv)) hap))
    w w' s f tx h hQ

theorem setVamm_keys (w : World) (a : Nat) (v : Vamm.V) :
    (w.setVamm a v).vamms.map (·.1) = w.vamms.map (·.1) := by
  unfold setVamm
  simp only [List.map_map]
  apply List.map_congr_left
  intro p _
  simp only [Function.comp]
  split
  · rename_i h
    have : p.1 = a := by simpa using h
    exact this.symm
  · rfl

/-- the list of vAMM addresses never changes -/
theorem applyTx_keys (w w' : World) (env : Env) (s : Nat) (f : Funds) (tx : Tx)
    (h : applyTx w env s f tx = .ok w') : w'.vamms.map (·.1) = w.vamms.map (·.1) :=
  (applyTx_I (fun l => l.map (·.1) = w.vamms.map (·.1)) env
    (fun w1 a _ v' _ _ hI _ _ => (setVamm_keys w1 a v').trans hI)
    w w' s f tx h rfl).1

end Perp.Props.SatA.VammLift
