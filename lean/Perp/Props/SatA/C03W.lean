/-
  SatA / C03: collateral is conserved, only the permitted accounts' balances move, a liquidated trader
  neither pays nor receives.
-/
import Perp.Props.Dispatch
import Perp.Props.G9Perm
import Perp.Props.WorldMore
import Perp.Props.SatA.Common
import Perp.Props.SatA.C10

namespace Perp.Props.SatA
open Perp Perp.World Perp.Engine Perp.Spec Perp.Props.ModelStep
open Perp.Props.Dispatch Perp.Props.G9Perm

/-! ### the total -/

theorem foldl_cast (l : List Nat) (acc : Nat) :
    (l.map (fun (n : Nat) => (n : Int))).foldl (· + ·) (acc : Int) = ((l.foldl (· + ·) acc : Nat) : Int) := by
  induction l generalizing acc with
  | nil => rfl
  | cons x xs ih =>
    simp only [List.map_cons, List.foldl_cons]
    rw [← ih (acc + x), Int.natCast_add]

theorem total_cast (w : World) : Spec.W.total w = ((Dispatch.total w.ledger : Nat) : Int) := by
  unfold Spec.W.total Dispatch.total
  have := foldl_cast (w.ledger.bal.map (·.2)) 0
  rw [List.map_map] at this
  exact this

/-! ### balances of everybody else -/

/-- `Spec.C03.permitted`, as a function of the pre-state -/
def permL (w : World) (s : Nat) (tx : Tx) : List Nat :=
  match tx with
  | .engine _ => [s, ENGINE, w.engine.cfg.insuranceFund, w.engine.cfg.feePool]
  | .fpSend _ _ to => [FEEPOOL, to]
  | .ifWithdraw _ => [IFUND, ENGINE]
  | .tokenTransfer to _ => [s, to]
  | .bankSend to _ => [s, to]
  | _ => []

/-- DEPLOYMENT WIRING (kind b; weaker than `ModelStep.Wired`, see `wiredPools_of_wired`) — the engine is
    configured with the insurance fund at `IFUND`, and the insurance fund's beneficiary is the engine.
    * `ifd` — `balance-of-uninvolved-account-changed` for engine transactions: the bad-debt path pays out of
      the contract at `IFUND`; the check's permitted set lists the CONFIGURED fund `cfg.insuranceFund` only.
    * `fp` — `liquidated-trader-balance-changed`: the engine pays the toll to the CONFIGURED fee pool; were that
      a trader's own address, liquidating that trader would move the trader's balance.
    * `ife` — the same clause for `.ifWithdraw`: the fund pays its configured beneficiary `ifund.engine`
      (who is then the only possible sender), the check permits `[IFUND, ENGINE]` (witness:
      `Cex.c03_ife_witness` in Perp/Props/SatA/Witness.lean).
    `ifd` is sufficient; it may not be necessary (a successful `ifWithdraw` sub-message itself requires
    `cfg.insuranceFund = IFUND`), but `G9Perm.engine_tx_WP` is stated with `IFUND` among the permitted accounts. -/
structure WiredPools (w : World) : Prop where
  ifd : w.engine.cfg.insuranceFund = IFUND
  fp : w.engine.cfg.feePool = FEEPOOL
  ife : w.ifund.engine = ENGINE

theorem wiredPools_of_wired {w : World} (h : Wired w) : WiredPools w := ⟨h.ifd, h.fp, h.ife⟩

theorem execSubs_setOpen_ledger : ∀ (l : List Nat) (fuel : Nat) (w w' : World) (c : Nat),
    execSubs fuel w c (l.map (fun v => (⟨.vammSetOpen v false, 0, .never⟩ : SubMsg))) = .ok w' →
    w'.ledger = w.ledger := by
  intro l
  induction l with
  | nil =>
    intro fuel w w' c h
    cases fuel with
    | zero => unfold execSubs at h; cases h
    | succ fuel => rw [WorldInv.execSubs_nil _ _ _ _ h]
  | cons v l ih =>
    intro fuel w w' c h
    cases fuel with
    | zero => unfold execSubs at h; cases h
    | succ fuel =>
      rw [List.map_cons] at h
      obtain ⟨w1, ev, hx, _, hno⟩ := execSubs_cons_ok fuel w w' c _ _ h
      have h1 := (execMsg_vamm_ledger fuel w w1 c _ ev hx (Or.inr (Or.inr (Or.inr ⟨_, _, rfl⟩)))).1
      have h2 := ih fuel w1 w' c (hno (by simp))
      exact h2.trans h1

/-- an engine configuration update moves nothing but the attached funds -/
theorem updateConfig_tx_frame (w w' : World) (env : Env) (s : Nat) (f : Funds) (u : ConfigUpdate)
    (h : applyTx w env s f (.engine (.updateConfig u)) = .ok w') :
    ∀ a, a ≠ s → a ≠ ENGINE → w'.ledger.balance a = w.ledger.balance a := by
  have hw0 : WP (fun a => a = s ∨ a = ENGINE) w.ledger.balance { w with env := env, log := [] } :=
    ⟨fun x hx => (by cases hx), fun _ _ => rfl⟩
  have hsub : ∀ (w1 : World) e' subs, execute w1.q w1.engine env s f (.updateConfig u) = .ok (e', subs) →
      execSubs FUEL { w1 with engine := e' } ENGINE subs = .ok w' → w'.ledger = w1.ledger := by
    intro w1 e' subs hex hrun
    unfold execute at hex
    obtain ⟨e1, _, h2⟩ := (EngineGuards.exmap_ok _ _ _).1 hex
    cases h2
    rw [WorldInv.execSubs_nil _ _ _ _ hrun]
  unfold applyTx at h
  dsimp only at h
  split at h
  · simp at h
    obtain ⟨w1, hg, e', subs, hex, h⟩ := h
    obtain ⟨⟨w1', ev⟩, hg', rfl⟩ := (Dispatch.exmap_ok _ _ _).1 hg
    have hw1 := execMsg_WP _ _ FUEL _ w1' s _ ev hg' (Or.inl rfl)
        (by intro a ha; simp [ends] at ha; subst ha; exact Or.inr rfl) hw0
    intro a h1 h2
    rw [hsub _ _ _ hex h]
    exact hw1.2 a (fun hh => hh.elim h1 h2)
  · simp at h
    obtain ⟨e', subs, hex, h⟩ := h
    intro a _ _
    rw [hsub { w with env := env, log := [] } _ _ hex h]

theorem xfer_tx_frame (w w' : World) (s : Nat) (m : Msg) (w0 : World) (hw0 : w0.ledger = w.ledger) (hl : w0.log = [])
    (to : Nat) (hm : (∃ amt, m = .tokenTransfer to amt) ∨ (∃ amt, m = .bankSend to amt))
    (h : (execMsg FUEL w0 s m).map (·.1) = .ok w') :
    ∀ a, a ≠ s → a ≠ to → w'.ledger.balance a = w.ledger.balance a := by
  rw [Dispatch.exmap_ok] at h
  obtain ⟨⟨w1, ev⟩, h', rfl⟩ := h
  have hw : WP (fun a => a = s ∨ a = to) w.ledger.balance w0 :=
    ⟨fun x hx => (by rw [hl] at hx; cases hx), fun _ _ => by rw [hw0]⟩
  have := execMsg_WP _ _ _ _ _ _ _ _ h' (Or.inl rfl)
    (by
      intro a ha
      rcases hm with ⟨amt, rfl⟩ | ⟨amt, rfl⟩ <;> (simp [ends] at ha; exact Or.inr ha)) hw
  intro a h1 h2
  exact this.2 a (fun hh => hh.elim h1 h2)

/-- transactions that move no collateral at all -/
theorem quiet_tx_frame (w w' : World) (env : Env) (s : Nat) (f : Funds) (tx : Tx)
    (hq : permL w s tx = []) (h : applyTx w env s f tx = .ok w') :
    ∀ a, w'.ledger.balance a = w.ledger.balance a := by
  have hm : ∀ (w0 : World) m, w0.ledger = w.ledger →
      ((∃ a d x l g, m = .vammSwapInput a d x l g) ∨ (∃ a d x l, m = .vammSwapOutput a d x l)
          ∨ (∃ a, m = .vammSettle a) ∨ (∃ a o, m = .vammSetOpen a o)) →
      (execMsg FUEL w0 s m).map (·.1) = .ok w' → ∀ a, w'.ledger.balance a = w.ledger.balance a := by
    intro w0 m hl hm h'
    rw [Dispatch.exmap_ok] at h'
    obtain ⟨⟨w1, ev⟩, h', rfl⟩ := h'
    intro a
    rw [(execMsg_vamm_ledger _ _ _ _ _ _ h' hm).1, hl]
  unfold applyTx at h
  cases tx <;> dsimp only at h
  case engine m => simp [permL] at hq
  case vammSwapInput v dir amt lim cgo => exact hm { w with env := env, log := [] } _ rfl (Or.inl ⟨_, _, _, _, _, rfl⟩) h
  case vammSwapOutput v dir amt lim => exact hm { w with env := env, log := [] } _ rfl (Or.inr (Or.inl ⟨_, _, _, _, rfl⟩)) h
  case vammSettle v => exact hm { w with env := env, log := [] } _ rfl (Or.inr (Or.inr (Or.inl ⟨_, rfl⟩))) h
  case vammSetOpen v o => exact hm { w with env := env, log := [] } _ rfl (Or.inr (Or.inr (Or.inr ⟨_, _, rfl⟩))) h
  case vammConfig v u =>
    simp at h
    obtain ⟨_, _, _, _, rfl⟩ := h
    intro a; rfl
  case vammOwner v n =>
    simp at h
    obtain ⟨_, _, _, _, rfl⟩ := h
    intro a; rfl
  case ifAdd v =>
    simp at h
    obtain ⟨_, _, rfl⟩ := h
    intro a; rfl
  case ifRemove v =>
    simp at h
    obtain ⟨_, _, rfl⟩ := h
    intro a; rfl
  case ifShutdown =>
    split at h
    · cases h
    · split at h
      · cases h
      · intro a
        rw [execSubs_setOpen_ledger _ _ _ _ _ h]
  case ifWithdraw amt => simp [permL] at hq
  case ifOwner n =>
    simp at h
    obtain ⟨_, _, rfl⟩ := h
    intro a; rfl
  case fpAdd tok =>
    simp at h
    obtain ⟨_, _, rfl⟩ := h
    intro a; rfl
  case fpRemove tok =>
    simp at h
    obtain ⟨_, _, rfl⟩ := h
    intro a; rfl
  case fpSend tok amt to => simp [permL] at hq
  case fpOwner n =>
    simp at h
    obtain ⟨_, _, rfl⟩ := h
    intro a; rfl
  case oracle price ts =>
    split at h
    · injection h with h; subst h; intro a; rfl
    · simp at h
      obtain ⟨_, _, rfl⟩ := h
      intro a; rfl
  case feedOwner n =>
    split at h
    · split at h
      · cases h
      · injection h with h; subst h; intro a; rfl
    · simp at h
      obtain ⟨_, _, rfl⟩ := h
      intro a; rfl
  case tokenApprove amt =>
    repeat' split at h
    all_goals first | (injection h with h; subst h; intro a; rfl) | cases h
  case tokenDecrease amt =>
    repeat' split at h
    all_goals first | (injection h with h; subst h; intro a; rfl) | cases h
  case tokenTransfer to amt => simp [permL] at hq
  case bankSend to amt => simp [permL] at hq

/-- second sentence of C03 for every kind of transaction -/
theorem others_balance (w w' : World) (env : Env) (s : Nat) (f : Funds) (tx : Tx)
    (hwf : WF w) (hwp : WiredPools w) (h : applyTx w env s f tx = .ok w') :
    ∀ a, a ∉ permL w s tx → w'.ledger.balance a = w.ledger.balance a := by
  intro a ha
  cases tx
  case engine m =>
    simp only [permL, List.mem_cons, List.not_mem_nil, or_false, not_or] at ha
    by_cases hcfg : ∃ u, m = .updateConfig u
    · obtain ⟨u, rfl⟩ := hcfg
      exact updateConfig_tx_frame w w' env s f u h a ha.1 ha.2.1
    · refine WorldMore.engine_tx_balances_frame w w' env s f m hwf.noResidue (fun u hu => hcfg ⟨u, hu⟩) h a ?_
      intro hp
      rcases hp with hp | hp | hp | hp | hp
      · exact ha.1 hp
      · exact ha.2.1 hp
      · exact ha.2.2.1 (hp.trans hwp.ifd.symm)
      · exact ha.2.2.1 hp
      · exact ha.2.2.2 hp
  case fpSend tok amt to =>
    simp only [permL, List.mem_cons, List.not_mem_nil, or_false, not_or] at ha
    exact WorldMore.fp_send_pays_recipient w w' env s f tok amt to h a ha.1 ha.2
  case ifWithdraw amt =>
    simp only [permL, List.mem_cons, List.not_mem_nil, or_false, not_or] at ha
    exact WorldMore.if_withdraw_pays_engine w w' env s f amt h a ha.1 (by rw [hwp.ife]; exact ha.2)
  case tokenTransfer to amt =>
    simp only [permL, List.mem_cons, List.not_mem_nil, or_false, not_or] at ha
    unfold applyTx at h
    dsimp only at h
    split at h
    · cases h
    · exact xfer_tx_frame w w' s _ { w with env := env, log := [] } rfl rfl to (Or.inl ⟨_, rfl⟩) h a ha.1 ha.2
  case bankSend to amt =>
    simp only [permL, List.mem_cons, List.not_mem_nil, or_false, not_or] at ha
    unfold applyTx at h
    dsimp only at h
    split at h
    · cases h
    · exact xfer_tx_frame w w' s _ { w with env := env, log := [] } rfl rfl to (Or.inr ⟨_, rfl⟩) h a ha.1 ha.2
  all_goals exact quiet_tx_frame w w' env s f _ rfl h a


/-! ### third sentence: the liquidated trader -/

/-- INVARIANT (kind a) — positions are held by user accounts, never by the engine or one of the two pools:
    a position record is only ever created for the SENDER of an `OpenPosition`, and the contracts never send
    one.  `tradersAreUsers_step` shows that `step` preserves it for user senders (`ModelStep.UserSender`).
    Needed by `liquidated-trader-balance-changed` only: liquidating a position "held by" the engine or a pool
    would change that account's balance (penalty, remaining margin). -/
def TradersAreUsers (w : World) : Prop :=
  ∀ p ∈ w.engine.positions, p.trader ≠ ENGINE ∧ p.trader ≠ IFUND ∧ p.trader ≠ FEEPOOL

theorem mem_of_size (e : E) (v t : Nat) (h : ¬ (readPosition e v t).size.value = 0) :
    ∃ p ∈ e.positions, p.trader = t := by
  unfold readPosition at h
  split at h
  · rename_i p hp
    have h1 := List.find?_some hp
    simp only [Bool.and_eq_true, beq_iff_eq] at h1
    exact ⟨p, List.mem_of_find?_eq_some hp, h1.2⟩
  · exact absurd rfl h

theorem liquidate_has_position (q : Q) (e : E) (env : Env) (s v t l : Nat) :
    EngineGuards.Post (fun _ => ∃ p ∈ e.positions, p.trader = t) (liquidate q e env s v t l) := by
  unfold liquidate internalClosePosition
  post_walk [exact mem_of_size _ _ _ ‹¬ (readPosition _ _ _).size.value = 0›]

/-- a successful liquidation names a trader who holds a stored position -/
theorem liquidate_tx_has_position (w w' : World) (env : Env) (s : Nat) (f : Funds) (v t l : Nat)
    (h : applyTx w env s f (.engine (.liquidate v t l)) = .ok w') : ∃ p ∈ w.engine.positions, p.trader = t := by
  obtain ⟨w1, e1, subs, a1, _, _, _, _, _, hex, _⟩ := WorldInv.applyTx_engine_inv w w' env s f _ h
  have := liquidate_has_position w1.q w1.engine env s v t l _ hex
  rw [a1] at this
  exact this

theorem tradersAreUsers_step (w : World) (env : Env) (s : Nat) (f : Funds) (tx : Tx)
    (hwf : WF w) (hu : UserSender w s) (ht : TradersAreUsers w) : TradersAreUsers (step w env s f tx) := by
  unfold step
  split
  · rename_i w' h
    intro p hp
    by_cases hT : (C10.touchedL s tx).contains p.trader = true
    · rcases C10.touched_of_touchedL s tx _ hT with hs | ⟨v, l, rfl⟩
      · rw [hs]; exact ⟨hu.1, hu.2.1, hu.2.2.1⟩
      · obtain ⟨p0, hp0, e0⟩ := liquidate_tx_has_position w w' env s f v _ l h
        rw [← e0]
        exact ht p0 hp0
    · have hk := C10.others_touchedL w w' env s f tx hwf.noResidue h
      have : p ∈ C10.keep (fun t => (C10.touchedL s tx).contains t) w'.engine.positions := by
        unfold C10.keep
        rw [List.mem_filter]
        exact ⟨hp, by simpa using hT⟩
      rw [hk] at this
      unfold C10.keep at this
      exact ht p (List.mem_filter.1 this).1
  · exact ht

theorem liquidated_balance (w w' : World) (env : Env) (s : Nat) (f : Funds) (v t l : Nat)
    (hwf : WF w) (hwp : WiredPools w) (ht : TradersAreUsers w) (hne : t ≠ s)
    (h : applyTx w env s f (.engine (.liquidate v t l)) = .ok w') :
    w'.ledger.balance t = w.ledger.balance t := by
  obtain ⟨p0, hp0, e0⟩ := liquidate_tx_has_position w w' env s f v t l h
  have hu := ht p0 hp0
  rw [e0] at hu
  refine WorldMore.liquidated_trader_balance w w' env s f v t l hwf.noResidue ?_ h
  intro hp
  rcases hp with hp | hp | hp | hp | hp
  · exact hne hp
  · exact hu.1 hp
  · exact hu.2.1 hp
  · exact hu.2.1 (hp.trans hwp.ifd)
  · exact hu.2.2 (hp.trans hwp.fp)

end Perp.Props.SatA
