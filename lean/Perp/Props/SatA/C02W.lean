/-
  SatA / C02: after every transaction the stored positions of every vAMM wired to the engine (before and
  after) sum to the vAMM's net position.  From `MirrorP.inv_step`; a re-wiring `vammConfig` is covered directly
  (it changes neither the engine nor any vAMM's state), given one record per address.
-/
import Perp.Props.MirrorInv
import Perp.Props.SatA.Common
import Perp.Props.SatA.C01W

namespace Perp.Props.SatA
open Perp Perp.World Perp.Engine Perp.Spec Perp.Props.ModelStep

/-- SENDER (kind b; the first conjunct of `ModelStep.UserSender`, see `senderNotEngine_of_user`) — the
    transaction is not sent from the engine's own address.  The vAMM accepts swaps from its margin engine only;
    a top-level `vammSwapInput` signed by the address `ENGINE` itself would move a vAMM's net position without
    any engine record (`positions-sum-differs-from-vamm-net`; witness: `Cex.c02_sender_witness` in
    Perp/Props/SatA/Witness.lean). -/
def SenderNotEngine (s : Nat) : Prop := s ≠ ENGINE

theorem senderNotEngine_of_user {w : World} {s : Nat} (h : UserSender w s) : SenderNotEngine s := h.1

/-- RE-WIRING (kind b / a) — either the transaction does not re-wire a vAMM (`Mirror.NotRewire`, the premise of
    the preservation theorem `MirrorP.inv_step`), or the registry holds one record per address
    (`VammKeysNodup`, an invariant): then even a re-wiring step satisfies the check, which only looks at vAMMs
    wired to the engine both before and after. -/
def NotRewireOrNodup (w : World) (tx : Tx) : Prop := Mirror.NotRewire tx ∨ VammKeysNodup w

theorem c02_of (st : Step)
    (h : ∀ p ∈ st.pre.vamms, ∀ y, st.post.vamm? p.1 = some y → p.2.cfg.marginEngine = ENGINE →
      y.cfg.marginEngine = ENGINE → Mirror.sumSizes st.post.engine p.1 = y.st.net.toInt) :
    Spec.C02.check st = [] := by
  unfold Spec.C02.check
  apply foldl_append_nil
  intro t ht
  apply chk_nil
  unfold Spec.W.wiredVamms at ht
  rw [List.mem_filterMap] at ht
  obtain ⟨p, hp, hf⟩ := ht
  cases hy : st.post.vamm? p.1 with
  | none => rw [hy] at hf; cases hf
  | some y =>
    rw [hy] at hf
    dsimp only at hf
    split at hf
    · rename_i hc
      cases hf
      simp only [Bool.and_eq_true, beq_iff_eq] at hc
      exact beq_iff_eq.2 (h p hp y hy hc.1 hc.2)
    · cases hf

theorem c02_of_mirror (st : Step) (h : Mirror.MirrorOK st.post) : Spec.C02.check st = [] :=
  c02_of st (fun p _ y hy _ hc => h p.1 y hy hc)

/-- a vAMM configuration update (re-wiring included) on a registry without duplicates -/
theorem c02_vammConfig (w w' : World) (env : Env) (s : Nat) (f : Funds) (v : Nat) (u : Vamm.ConfigUpdate)
    (hM : Mirror.MirrorOK w) (hn : VammKeysNodup w) (h : applyTx w env s f (.vammConfig v u) = .ok w') :
    ∀ p ∈ w.vamms, ∀ y, w'.vamm? p.1 = some y → p.2.cfg.marginEngine = ENGINE →
      y.cfg.marginEngine = ENGINE → Mirror.sumSizes w'.engine p.1 = y.st.net.toInt := by
  intro p hp y hy hc _
  have hpre : w.vamm? p.1 = some p.2 := vamm?_of_mem hn hp
  have hm := hM p.1 p.2 hpre hc
  unfold applyTx at h
  dsimp only at h
  simp at h
  obtain ⟨x, hx, x', hx', rfl⟩ := h
  have hx0 : w.vamm? v = some x := VammLift.vammE_ok (w := { w with env := env, log := [] }) hx
  show Mirror.sumSizes w.engine p.1 = y.st.net.toInt
  rw [hm]
  by_cases hpv : p.1 = v
  · have : World.vamm? (World.setVamm { w with env := env, log := [] } v x') v = some x' :=
      MirrorP.setVamm_vamm_same _ _ x _ hx0
    rw [hpv, this] at hy
    cases hy
    rw [hpv, hx0] at hpre
    cases hpre
    rw [(C01.updateConfig_keep _ _ _ _ hx').1]
  · rw [Dispatch.setVamm_vamm_ne _ _ _ _ hpv] at hy
    have hy' : w.vamm? p.1 = some y := hy
    rw [hpre] at hy'
    cases hy'
    rfl

theorem c02_sat (w : World) (env : Env) (s : Nat) (f : Funds) (tx : Tx)
    (hI : Mirror.Inv w) (hs : SenderNotEngine s) (hcr : Mirror.CurveRegular w) (hnr : NotRewireOrNodup w tx) :
    Spec.C02.check (modelStep w env s f tx) = [] := by
  rcases except_cases (applyTx w env s f tx) with ⟨e, h⟩ | ⟨w', h⟩
  · rw [modelStep_err h]
    exact c02_of_mirror _ hI.1.1
  · rw [modelStep_ok h]
    by_cases hr : Mirror.NotRewire tx
    · exact c02_of_mirror _ (MirrorP.inv_step w w' env s f tx hI hs ((Mirror.notRewire_iff tx).1 hr) hcr h).1.1
    · have hn : VammKeysNodup w := hnr.resolve_left hr
      cases tx
      case vammConfig v u => exact c02_of _ (c02_vammConfig w w' env s f v u hI.1.1 hn h)
      all_goals exact absurd trivial hr

end Perp.Props.SatA
