/-
  SatA — common facts about `modelStep` and `Spec.W.chk`.
-/
import Perp.Model.World
import Perp.Spec.World
import Perp.Lemmas.Basic
import Perp.Props.ModelStep

namespace Perp.Props.SatA
open Perp Perp.World Perp.Engine Perp.Spec Perp.Props.ModelStep

theorem modelStep_ok {w w' : World} {env : Env} {s : Nat} {f : Funds} {tx : Tx}
    (h : applyTx w env s f tx = .ok w') :
    modelStep w env s f tx =
      { pre := w, post := w', env := env, sender := s, funds := f, tx := tx, ok := true,
        xfers := w'.log, residue := residue w'.engine } := by
  unfold modelStep; rw [h]

theorem modelStep_err {w : World} {env : Env} {s : Nat} {f : Funds} {tx : Tx} {e : Err}
    (h : applyTx w env s f tx = .error e) :
    modelStep w env s f tx =
      { pre := w, post := w, env := env, sender := s, funds := f, tx := tx, ok := false,
        xfers := [], residue := residue w.engine } := by
  unfold modelStep; rw [h]

theorem chk_nil {c : Bool} {t : String} (h : c = true) : Spec.W.chk c t = [] := by
  simp [Spec.W.chk, h]

theorem chk_eq_nil_iff {c : Bool} {t : String} : Spec.W.chk c t = [] ↔ c = true := by
  cases c <;> simp [Spec.W.chk]

/-- a fold of `acc ++ g x` over a list is empty when every `g x` is -/
theorem foldl_append_nil {α β : Type} (g : α → List β) (l : List α) (h : ∀ x ∈ l, g x = []) :
    l.foldl (fun acc x => acc ++ g x) [] = [] := by
  induction l with
  | nil => rfl
  | cons a l ih =>
    rw [List.foldl_cons, h a List.mem_cons_self]
    exact ih (fun x hx => h x (List.mem_cons_of_mem _ hx))

end Perp.Props.SatA
