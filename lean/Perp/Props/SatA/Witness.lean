/-
  SatA — concrete, kernel-evaluated worlds showing that the extra hypotheses of `Skel/SatA.lean` are needed:
  each witness satisfies all hypotheses of the theorem but one, and the check reports a violated clause.
  (`List.length … = 1` is evaluated instead of the tag list itself; the tag is shown in the comment.)
-/
import Perp.Props.MirrorInv
import Perp.Props.SatA.C01W
import Perp.Props.SatA.C02W
import Perp.Props.SatA.C03W
import Perp.Props.SatA.C18W

namespace Perp.Props.SatA.Cex
open Perp Perp.World Perp.Engine Perp.Spec Perp.Props.ModelStep
open Perp.Props.Mirror.Cex (D v0 e0 w0)

/-- the fixture of `MirrorInv` with its vAMM at address 10 -/
def w10 : World := { w0 with vamms := [(10, v0)], ifund := { w0.ifund with vamms := [10] } }

theorem wf_w10 : WF w10 := ⟨⟨rfl, rfl, rfl⟩, by decide, by decide⟩

/-! ### C01 needs `VammKeysNodup` -/

/-- `w10` with a shadowed second record at the same address holding a larger quote reserve -/
def wDup : World :=
  { w10 with vamms := [(10, v0), (10, { v0 with st := { v0.st with quote := 2000000 * D } })] }

theorem wf_wDup : WF wDup := ⟨⟨rfl, rfl, rfl⟩, by decide, by decide⟩

/-- `["k-or-net-invariant(v10)"]`: the shadowed record is compared with the live one -/
theorem c01_dup_witness :
    (Spec.C01.check (modelStep wDup ⟨2, 1000⟩ 100 ⟨0, false⟩ (.oracle 1 1))).length = 1 := by decide +kernel

/-! ### C18 needs `SnapInvW` and `ClockMono` -/

/-- a vAMM without any snapshot -/
def wNoSnap : World := { w10 with vamms := [(10, { v0 with st := { v0.st with snaps := [] } })] }

theorem clock_wNoSnap : ClockMono wNoSnap ⟨2, 1000⟩ := by unfold ClockMono; decide

/-- `["snapshot-discipline(v10)"]` although the clock is monotone: the invariant is needed -/
theorem c18_inv_witness :
    (Spec.C18.check (modelStep wNoSnap ⟨2, 1000⟩ 100 ⟨0, false⟩ (.oracle 1 1))).length = 1 := by decide +kernel

/-- last block (10, t = 100), snapshot stamped there -/
def wLate : World :=
  { w10 with env := ⟨10, 100⟩,
             vamms := [(10, { v0 with st := { v0.st with snaps := [⟨1000000 * D, 100000 * D, 100, 10⟩] } })] }

theorem snapInv_wLate : SnapInvW wLate := by
  intro p hp
  have : p = (10, { v0 with st := { v0.st with snaps := [⟨1000000 * D, 100000 * D, 100, 10⟩] } }) := by
    simpa [wLate] using hp
  subst this
  decide +kernel

/-- `["snapshot-discipline(v10)"]` although the invariant holds: a transaction in the EARLIER block (5, t = 50)
    sees a snapshot from the future -/
theorem c18_clock_witness :
    (Spec.C18.check (modelStep wLate ⟨5, 50⟩ 100 ⟨0, false⟩ (.oracle 1 1))).length = 1 := by decide +kernel

/-! ### C03 needs `WiredPools.ife` -/

/-- the insurance fund's beneficiary is the user account 100 -/
def wIfe : World := { w10 with ifund := { w10.ifund with engine := 100 } }

theorem wf_wIfe : WF wIfe := ⟨⟨rfl, rfl, rfl⟩, by decide, by decide⟩
theorem wIfe_ifd : wIfe.engine.cfg.insuranceFund = IFUND := rfl
theorem wIfe_fp : wIfe.engine.cfg.feePool = FEEPOOL := rfl
theorem wIfe_traders : TradersAreUsers wIfe := by intro p hp; cases hp

/-- `["balance-of-uninvolved-account-changed"]`: account 100 withdraws 5 from the insurance fund -/
theorem c03_ife_witness :
    (Spec.C03.check (modelStep wIfe ⟨2, 1000⟩ 100 ⟨0, false⟩ (.ifWithdraw 5))).length = 1 := by decide +kernel

/-! ### C02 needs `SenderNotEngine` -/

theorem init_w10 : Mirror.Init w10 := by
  refine ⟨rfl, ⟨rfl, rfl, rfl⟩, by unfold EngineGuards.ConfigOK; decide, by decide, fun a x hx => ?_⟩
  have hm := Mirror.Cex.vamm?_mem w10 a x hx
  have : (a, x) = (10, v0) := by simpa [w10] using hm
  injection this with _ h2
  rw [h2]
  decide

theorem inv_w10 : Mirror.Inv w10 := Mirror.init_inv w10 init_w10 (by unfold Mirror.NoZeroVamm; decide)

set_option maxRecDepth 100000 in
theorem curve_w10 : Mirror.CurveRegular w10 := Mirror.Cex.curveB_sound _ (by decide +kernel)

set_option maxRecDepth 100000 in
/-- `["positions-sum-differs-from-vamm-net(v10)"]`: a swap signed by the address `ENGINE` itself moves the
    vAMM's net position without any engine record -/
theorem c02_sender_witness :
    (Spec.C02.check (modelStep w10 ⟨2, 1000⟩ ENGINE ⟨0, false⟩ (.vammSwapInput 10 .addToAmm (10 * D) 0 false))).length
      = 1 := by decide +kernel

end Perp.Props.SatA.Cex
