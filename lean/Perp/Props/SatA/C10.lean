/-
  SatA / C10 — list-level version of `WorldInv.others_untouched`: a transaction leaves the *stored list*
  of the positions of untouched traders (order included) unchanged.  `Spec.C10.check` compares the
  filtered lists, so the `readPosition`-level statement of `WorldInv` is re-done on `List.filter`.
-/
import Perp.Model.World
import Perp.Spec.World
import Perp.Lemmas.Basic
import Perp.Props.ModelStep
import Perp.Props.WorldInv

namespace Perp.Props.SatA.C10
open Perp Perp.World Perp.Engine
open Perp.Props.Dispatch Perp.Props.EngineMoney Perp.Props.WorldInv
open Perp.Props.EngineGuards (Post)

/-- the stored positions of the traders outside `T` -/
def keep (T : Nat → Bool) (ps : List Position) : List Position := ps.filter (fun p => !T p.trader)

theorem keep_erase (T : Nat → Bool) (ps : List Position) (v t : Nat) (ht : T t = true) :
    keep T (erasePosition ps v t) = keep T ps := by
  unfold keep erasePosition
  rw [List.filter_filter]
  apply List.filter_congr
  intro p _
  by_cases h : p.trader = t
  · simp [h, ht]
  · simp [h]

theorem keep_store (T : Nat → Bool) (e e' : E) (p : Position)
    (h : e'.positions = (storePosition e p).positions) (ht : T p.trader = true) :
    keep T e'.positions = keep T e.positions := by
  rw [h]
  show keep T (p :: erasePosition e.positions p.vamm p.trader) = _
  rw [← keep_erase T e.positions p.vamm p.trader ht]
  unfold keep
  rw [List.filter_cons]
  simp [ht]

theorem keep_remove (T : Nat → Bool) (e e' : E) (p : Position)
    (h : e'.positions = (removePosition e p).positions) (ht : T p.trader = true) :
    keep T e'.positions = keep T e.positions := by
  rw [h]
  exact keep_erase T e.positions p.vamm p.trader ht

theorem keep_same (T : Nat → Bool) {e e' : E} (h : e'.positions = e.positions) :
    keep T e'.positions = keep T e.positions := by rw [h]

/-- a reply rewrites at most the stored record of the trader in flight, and keeps that trader in flight -/
def RL (e e' : E) : Prop :=
  (∀ T : Nat → Bool, (∀ sw, e.tmpSwap = some sw → T sw.trader = true) → keep T e'.positions = keep T e.positions)
  ∧ (∀ sw', e'.tmpSwap = some sw' → ∃ sw, e.tmpSwap = some sw ∧ sw'.trader = sw.trader)

macro "rl_leaf " hs:ident : tactic => `(tactic|
  (refine ⟨fun T ht => ?_, fun sw' h' => ?_⟩
   · first
      | exact keep_same T rfl
      | exact keep_store T _ _ _ rfl (Eq.trans (congrArg T (getPosition_key _ _ _ _ _).2) (ht _ $hs))
      | exact keep_remove T _ _ _ rfl (Eq.trans (congrArg T (getPosition_key _ _ _ _ _).2) (ht _ $hs))
   · dsimp only [enterRestrictionMode, storeVammMap, storePosition, removePosition] at h'
     cases h' <;> exact ⟨_, $hs, rfl⟩))

set_option maxHeartbeats 800000 in
theorem updatePositionReply_rl (q : Q) (e : E) (env : Env) (i o id : Nat) :
    Post (fun r => RL e r.1) (updatePositionReply q e env i o id) := by
  cases hs : e.tmpSwap with
  | none => unfold updatePositionReply; rw [hs]; post_walk [skip]
  | some sw =>
    unfold updatePositionReply
    rw [hs]
    post_walk [rl_leaf hs]

theorem reversePositionReply_rl (q : Q) (e : E) (env : Env) (o : Nat) :
    Post (fun r => RL e r.1) (reversePositionReply q e env o) := by
  cases hs : e.tmpSwap with
  | none => unfold reversePositionReply; rw [hs]; post_walk [skip]
  | some sw =>
    unfold reversePositionReply
    rw [hs]
    post_walk [rl_leaf hs]

theorem closePositionReply_rl (q : Q) (e : E) (env : Env) (o : Nat) :
    Post (fun r => RL e r.1) (closePositionReply q e env o) := by
  cases hs : e.tmpSwap with
  | none => unfold closePositionReply; rw [hs]; post_walk [skip]
  | some sw =>
    unfold closePositionReply
    rw [hs]
    post_walk [rl_leaf hs]

theorem partialClosePositionReply_rl (q : Q) (e : E) (env : Env) (i o : Nat) :
    Post (fun r => RL e r.1) (partialClosePositionReply q e env i o) := by
  cases hs : e.tmpSwap with
  | none => unfold partialClosePositionReply; rw [hs]; post_walk [skip]
  | some sw =>
    unfold partialClosePositionReply
    rw [hs]
    post_walk [rl_leaf hs]

theorem liquidateReply_rl (q : Q) (e : E) (env : Env) (o : Nat) :
    Post (fun r => RL e r.1) (liquidateReply q e env o) := by
  cases hs : e.tmpSwap with
  | none => unfold liquidateReply; rw [hs]; post_walk [skip]
  | some sw =>
    unfold liquidateReply
    rw [hs]
    post_walk [rl_leaf hs]

theorem partialLiquidationReply_rl (q : Q) (e : E) (env : Env) (i o : Nat) :
    Post (fun r => RL e r.1) (partialLiquidationReply q e env i o) := by
  cases hs : e.tmpSwap with
  | none => unfold partialLiquidationReply; rw [hs]; post_walk [skip]
  | some sw =>
    unfold partialLiquidationReply
    rw [hs]
    post_walk [rl_leaf hs]

theorem payFundingReply_rl (q : Q) (e : E) (env : Env) (pf : Integer) (v : Nat) :
    Post (fun r => RL e r.1) (payFundingReply q e env pf v) := by
  unfold payFundingReply
  post_walk [(
    have ha := appendCum_frame _ _ _ _ ‹appendCum _ _ _ = Except.ok _›
    exact ⟨fun T _ => keep_same T ha.1, fun sw' h' => ⟨sw', by rw [← ha.2.1]; exact h', rfl⟩⟩)]

theorem replyOk_rl (q : Q) (e e' : E) (env : Env) (id : Nat) (ev : Ev) (subs : List SubMsg)
    (h : replyOk q e env id ev = .ok (e', subs)) : RL e e' := by
  have : Post (fun r => RL e r.1) (replyOk q e env id ev) := by
    unfold replyOk
    repeat' split
    all_goals try dsimp only []
    all_goals first
      | (with_reducible exact EngineGuards.Post_error)
      | (with_reducible exact payFundingReply_rl _ _ _ _ _)
      | (with_reducible exact updatePositionReply_rl _ _ _ _ _ _)
      | (with_reducible exact reversePositionReply_rl _ _ _ _)
      | (with_reducible exact closePositionReply_rl _ _ _ _)
      | (with_reducible exact partialClosePositionReply_rl _ _ _ _ _)
      | (with_reducible exact liquidateReply_rl _ _ _ _)
      | (with_reducible exact partialLiquidationReply_rl _ _ _ _ _)
  exact this _ h

theorem depositMargin_keep (e : E) (env : Env) (s : Nat) (f : Funds) (v a : Nat) :
    Post (fun r => ∀ T : Nat → Bool, T s = true → keep T r.1.positions = keep T e.positions)
      (depositMargin e env s f v a) := by
  unfold depositMargin
  post_walk [(
    have ht : (readPosition e v s).trader = s := Decidable.not_not.mp ‹¬ (readPosition _ _ _).trader ≠ _›
    exact fun T hT => keep_store T _ _ _ rfl (Eq.trans (congrArg T ht) hT))]

theorem withdrawMargin_keep (q : Q) (e : E) (env : Env) (s v a : Nat) :
    Post (fun r => ∀ T : Nat → Bool, T (readPosition e v s).trader = true → keep T r.1.positions = keep T e.positions)
      (withdrawMargin q e env s v a) := by
  unfold withdrawMargin
  post_walk [exact fun T hT => keep_store T _ _ _ rfl hT]

/-- `execute` rewrites no stored record of an untouched trader and puts only touched traders in flight -/
theorem execute_keep (q : Q) (e e' : E) (env : Env) (s : Nat) (f : Funds) (m : ExecMsg) (subs : List SubMsg)
    (hinv : NoResidue e) (h : execute q e env s f m = .ok (e', subs)) :
    ∀ T : Nat → Bool, T s = true → keep T e'.positions = keep T e.positions := by
  intro T hT
  have hfr : ∀ e', Frame e e' → keep T e'.positions = keep T e.positions := fun e' hf => keep_same T hf.1
  unfold execute at h
  cases m with
  | updateConfig u =>
    obtain ⟨e1, h1, h2⟩ := (EngineGuards.exmap_ok _ _ _).1 h
    cases h2
    exact hfr _ (updateConfig_frame _ _ _ _ h1)
  | updatePauser p =>
    obtain ⟨e1, h1, h2⟩ := (EngineGuards.exmap_ok _ _ _).1 h
    cases h2
    exact hfr _ (updatePauser_frame _ _ _ _ h1)
  | addWhitelist a =>
    obtain ⟨e1, h1, h2⟩ := (EngineGuards.exmap_ok _ _ _).1 h
    cases h2
    exact hfr _ (addWhitelist_frame _ _ _ _ h1)
  | removeWhitelist a =>
    obtain ⟨e1, h1, h2⟩ := (EngineGuards.exmap_ok _ _ _).1 h
    cases h2
    exact hfr _ (removeWhitelist_frame _ _ _ _ h1)
  | setPause p =>
    obtain ⟨e1, h1, h2⟩ := (EngineGuards.exmap_ok _ _ _).1 h
    cases h2
    exact hfr _ (setPause_frame _ _ _ _ h1)
  | openPosition v sd mg l b =>
    exact keep_same T (openPosition_frame _ _ _ _ _ _ _ _ _ _ _ h).1
  | closePosition v l =>
    exact keep_same T (closePosition_frame _ _ _ _ _ _ _ h).1
  | liquidate v t l =>
    exact keep_same T (liquidate_frame _ _ _ _ _ _ _ _ h).1
  | payFunding v =>
    obtain ⟨h1, _⟩ := payFunding_frame _ _ _ _ h
    cases h1
    rfl
  | depositMargin v a =>
    exact depositMargin_keep _ _ _ _ _ _ _ h T hT
  | withdrawMargin v a =>
    have ht := withdrawMargin_trader _ _ _ _ _ _ _ _ h
    exact withdrawMargin_keep _ _ _ _ _ _ _ h T (by rw [ht]; exact hT)

/-- C10 on the stored list: for every set `T` of traders containing the sender (and the trader named by
    a `Liquidate`), the stored records of the traders outside `T` are the same list afterwards -/
theorem others_list (w w' : World) (env : Env) (s : Nat) (f : Funds) (tx : Tx) (T : Nat → Bool)
    (hT : ∀ t, touched s tx t → T t = true)
    (hinv : NoResidue w.engine) (h : applyTx w env s f tx = .ok w') :
    keep T w'.engine.positions = keep T w.engine.positions := by
  by_cases hne : ∃ m, tx = .engine m
  · obtain ⟨m, rfl⟩ := hne
    obtain ⟨w1, e1, subs, a1, _, _, _, _, _, hex, hrun⟩ := applyTx_engine_inv w w' env s f m h
    have hE := execute_keep w1.q w1.engine e1 env s f m subs (by rw [a1]; exact hinv) hex T (hT s (Or.inl rfl))
    have hE2 := (execute_others w1.q w1.engine e1 env s f m subs (by rw [a1]; exact hinv) hex).2
    rw [a1] at hE
    have hP := execSubs_engine_invariant
      (fun e => keep T e.positions = keep T w.engine.positions
        ∧ (∀ sw, e.tmpSwap = some sw → touched s (.engine m) sw.trader))
      (by
        intro q e e' env' id ev subs' hP hrep
        obtain ⟨r1, r2⟩ := replyOk_rl q e e' env' id ev subs' hrep
        refine ⟨?_, fun sw' hsw' => ?_⟩
        · rw [r1 T (fun sw hsw => hT _ (hP.2 sw hsw))]
          exact hP.1
        · obtain ⟨sw, hsw, heq⟩ := r2 sw' hsw'
          rw [heq]
          exact hP.2 sw hsw)
      FUEL { w1 with engine := e1 } w' subs hrun ⟨hE, hE2⟩
    exact hP.1
  · rw [applyTx_nonengine_frame w w' env s f tx (fun m hm => hne ⟨m, hm⟩) h]

/-- the accounts `Spec.C10.check` lets a transaction touch -/
def touchedL (s : Nat) (tx : Tx) : List Nat :=
  match tx with
  | .engine (.liquidate _ t _) => [s, t]
  | .engine _ => [s]
  | _ => []

theorem touchedL_of_touched (s : Nat) (m : ExecMsg) (t : Nat) (ht : touched s (.engine m) t) :
    (touchedL s (.engine m)).contains t = true := by
  rcases ht with rfl | ⟨v, lim, hm⟩
  · cases m <;> simp [touchedL]
  · cases hm; simp [touchedL]

theorem touched_of_touchedL (s : Nat) (tx : Tx) (t : Nat) (ht : (touchedL s tx).contains t = true) :
    touched s tx t := by
  unfold touchedL at ht
  split at ht
  · simp at ht
    rcases ht with rfl | rfl
    · exact Or.inl rfl
    · exact Or.inr ⟨_, _, rfl⟩
  · simp at ht
    exact Or.inl ht
  · simp at ht

/-- `others_list` for the check's own list of touched accounts -/
theorem others_touchedL (w w' : World) (env : Env) (s : Nat) (f : Funds) (tx : Tx)
    (hinv : NoResidue w.engine) (h : applyTx w env s f tx = .ok w') :
    keep (fun t => (touchedL s tx).contains t) w'.engine.positions
      = keep (fun t => (touchedL s tx).contains t) w.engine.positions := by
  by_cases hne : ∃ m, tx = .engine m
  · obtain ⟨m, rfl⟩ := hne
    exact others_list w w' env s f (.engine m) _ (fun t ht => touchedL_of_touched s m t ht) hinv h
  · rw [applyTx_nonengine_frame w w' env s f tx (fun m hm => hne ⟨m, hm⟩) h]

end Perp.Props.SatA.C10
